import Driver.Common
import Restic.Model.Dedup
/-!
Driver for C16. Substreams (see harness/main/c16.go, c44_session.go):

`dedup` (whole sessions on a real repository, heavy duplication):
  cfg <packSize> <packerCount> <threads> <reopened> <version> <sync>
  pre <handle>...                       handles stored and indexed before the observed session
  call <i> <handle> <len> <dup> <known> <err> <done>
  sess <0|1|panic>
  pack <pid> <phase> <evpos> <hdrbytes> <listerr> <t:num:len:ulen>...
  ent <handle> <pid>...   ent2 <handle> <pid>...      index entries (in memory / reloaded)
`backup2` (real CLI, two backups):
  cfg <variant> <files> <distinct non-empty contents>
  run1 <exit init> <exit backup> <data blobs> <tree blobs> <max index entries per data blob>
  run2 <exit backup> <data blobs> <tree blobs> <max entries>
  blob <id> <entries> <existed after run 1>
-/
open Driver Restic.Model.Dedup

def nat (s : String) : Nat := s.toNat?.getD 0

/-- "d17" / "t3" -> number -/
def handleOf (s : String) : Handle :=
  let n := nat (s.drop 1).toString
  if s.startsWith "t" then 2 * n + 1 else 2 * n

def entryHandle (tok : String) : Option Handle :=
  match tok.splitOn ":" with
  | [t, i, _, _] => if i == "?" then none else some (handleOf (t ++ i))
  | _ => none

/-- a schedule consistent with the observation: per handle the call that reported known=false
    first; every call runs both of its steps without interruption -/
def reconstruct (calls : List Call) (knowns : List Bool) (sync : Bool) : List Act :=
  let idxs := List.range calls.length
  let order :=
    if sync then idxs
    else (idxs.filter fun i => !(knowns.getD i true)) ++ (idxs.filter fun i => knowns.getD i true)
  (order.flatMap fun i => [Act.thread i, Act.thread i]) ++ [Act.flush]

def handleDedup (c : Case) : Verdict :=
  if c.find "harness-error" |>.isSome then .differ "harness" "harness-error" else
  match c.find "cfg", c.find "sess" with
  | some cfg, some sess =>
    let callRecs := (c.findAll "call").toList
    if sess.getD 1 "" != "0" || callRecs.any (fun r => r.getD 6 "" != "0" || r.getD 7 "" != "1") then
      .specfalse "C16:session-error" s!"sess={sess.getD 1 ""} {sess.getD 2 ""}" else
    let calls : List Call := callRecs.map fun r => ⟨handleOf (r.getD 2 ""), r.getD 4 "" == "1"⟩
    let knowns : List Bool := callRecs.map fun r => r.getD 5 "" == "1"
    let pre : List Handle := ((c.find "pre").map (fun r => r.toList.drop 1) |>.getD []).map handleOf
    let packs := (c.findAll "pack").toList
    if packs.any (fun r => r.getD 5 "" != "0") then .differ "harness" "pack-unreadable" else
    let entriesOf (phase : Option String) : List Handle :=
      (packs.filter fun r => phase.all (· == r.getD 2 "")).flatMap fun r => (r.toList.drop 6).filterMap entryHandle
    let saves := entriesOf (some "1")      -- what the observed session stored
    let allEntries := entriesOf none
    let sync := cfg.getD 6 "0" == "1"
    -- the property on the implementation's own output
    if !specOK pre calls knowns saves then
      let hs := (calls.map (·.h)).eraseDups
      let bad := hs.find? fun h => !specOK pre (calls.filter (·.h == h)) (((calls.zip knowns).filter (·.1.h == h)).map (·.2)) (saves.filter (· == h))
      let h := bad.getD 0
      let claims := ((calls.zip knowns).filter fun ck => ck.1.h == h && !ck.2).length
      let dupKnown := ((calls.zip knowns).filter fun ck => ck.1.h == h && ck.2 && ck.1.dup).length
      let sig :=
        if pre.contains h then (if claims != 0 then "C16:indexed-blob-reported-unknown" else if saves.count h > dupKnown then "C16:indexed-blob-stored-again" else "C16:requested-duplicate-not-stored")
        else if claims > 1 then "C16:blob-claimed-by-several-calls"
        else if claims == 0 then "C16:blob-claimed-by-no-call"
        else if saves.count h > 1 + dupKnown then "C16:blob-stored-more-than-once"
        else "C16:blob-not-stored"
      .specfalse sig s!"handle={h} claims={claims} stored={saves.count h} dupKnown={dupKnown} pre={pre.contains h}"
    else
    -- index entries per blob (observe_at): one entry per stored copy; exactly one without storeDuplicate
    let ents := (c.findAll "ent").toList ++ (c.findAll "ent2").toList
    match ents.find? (fun r => (r.size - 2) != allEntries.count (handleOf (r.getD 1 ""))) with
    | some r => .specfalse "C16:index-entries-per-blob" s!"{r.getD 1 ""}: {r.size - 2} index entries, {allEntries.count (handleOf (r.getD 1 ""))} stored copies"
    | none =>
    let noDup := !calls.any (·.dup)
    match (if noDup then ents.find? (fun r => r.size - 2 != 1 && ((calls.map (·.h)).contains (handleOf (r.getD 1 "")) || pre.contains (handleOf (r.getD 1 "")))) else none) with
    | some r => .specfalse "C16:index-entries-per-blob" s!"{r.getD 1 ""}: {r.size - 2} entries"
    | none =>
    -- model under a schedule consistent with the observation
    let st := run pre calls (reconstruct calls knowns sync)
    let mk := (knownFlags st).map (·.getD false)
    if !allDone st then .differ "model" "schedule-incomplete" else
    if mk != knowns then .differ "known" s!"model={mk} impl={knowns} sync={sync}" else
    let hs := (calls.map (·.h)).eraseDups
    match hs.find? (fun h => st.saves.count h != saves.count h) with
    | some h => .differ "saves" s!"handle {h}: model {st.saves.count h} impl {saves.count h}"
    | none =>
    if !(hs.all fun h => st.index.contains h) then .differ "model" "not-all-indexed-after-flush" else
      let dupl := calls.length - hs.length
      let labels := [s!"threads={cfg.getD 3 ""}"] ++ (if sync then ["sequential"] else ["concurrent"]) ++
        (if pre.isEmpty then [] else [if cfg.getD 4 "" == "1" then "preloaded-index" else "earlier-session"]) ++
        (if calls.any (·.dup) then ["store-duplicate"] else []) ++
        (if hs.any (fun h => pre.contains h) then ["hit-in-index"] else []) ++
        (if dupl ≥ 10 then ["dup>=10"] else if dupl ≥ 1 then ["dup>=1"] else ["no-dup"]) ++
        (if knowns.any id && hs.any (fun h => !pre.contains h && (calls.filter (·.h == h)).length ≥ 2) then ["pending-or-session-hit"] else [])
      .agree (dupl ≥ 1) labels
  | _, _ => .differ "protocol" "no-cfg-or-sess"

def handleBackup2 (c : Case) : Verdict :=
  match c.find "cfg", c.find "run1", c.find "run2" with
  | some cfg, some r1, some r2 =>
    if r1.getD 1 "" != "0" || r1.getD 2 "" != "0" || r2.getD 1 "" != "0" then .differ "harness" s!"backup-failed {r1} {r2}" else
    let d1 := nat (r1.getD 3 ""); let d2 := nat (r2.getD 2 "")
    let distinct := nat (cfg.getD 3 "")
    let blobs := (c.findAll "blob").toList
    -- model: the chunks of run 1 are all indexed after its flush, so run 2 (same chunks, any schedule) saves nothing
    let hs := List.range d1
    let calls1 : List Call := hs.map fun h => ⟨h, false⟩
    let st1 := run [] calls1 (reconstruct calls1 (hs.map fun _ => false) true)
    let st2 := run st1.index (calls1 ++ calls1) ((List.range (2 * d1)).flatMap fun i => [Act.thread i, Act.thread i])
    if !st2.saves.isEmpty then .differ "model" "model-second-run-saves" else
    if d1 != distinct then
      (if d1 > distinct then .specfalse "C16:duplicate-content-stored-twice" s!"{distinct} distinct contents, {d1} data blobs"
       else .differ "harness" s!"fewer data blobs ({d1}) than distinct contents ({distinct})") else
    if d2 != d1 || blobs.any (fun r => r.getD 3 "" != "1") then
      .specfalse "C16:second-backup-added-data-blobs" s!"variant={cfg.getD 1 ""} data blobs {d1} -> {d2}" else
    if blobs.any (fun r => r.getD 2 "" != "1") || nat (r1.getD 5 "") > 1 then
      .specfalse "C16:index-entries-per-blob" s!"variant={cfg.getD 1 ""}" else
      let files := nat (cfg.getD 2 "")
      .agree (d1 ≥ 1 && files > d1) ([s!"variant={cfg.getD 1 ""}"] ++ (if files > d1 then ["duplicate-files"] else []) ++
        (if nat (r2.getD 3 "") == nat (r1.getD 4 "") then ["no-new-trees"] else ["new-trees"]) ++ (if d1 == 0 then ["no-data"] else []))
  | _, _, _ => .differ "protocol" "missing-records"

/-- `burst`: cfg <rounds> <savers>; sess; anom <round> <claims> <stored> <index entries>; sum <ok rounds> <packs> <unreadable> -/
def handleBurst (c : Case) : Verdict :=
  match c.find "cfg", c.find "sess" with
  | some cfg, some sess =>
    if sess.getD 1 "" != "0" then .specfalse "C16:session-error" s!"burst sess={sess.getD 1 ""} {sess.getD 2 ""}" else
    let rounds := nat (cfg.getD 1 ""); let savers := nat (cfg.getD 2 "")
    -- the model: `savers` calls for one fresh handle, steps interleaved (all AddPending steps first)
    let calls : List Call := (List.range savers).map fun _ => ⟨1, false⟩
    let sched := (List.range savers).map Act.thread ++ (List.range savers).map Act.thread ++ [Act.flush]
    let st := run [] calls sched
    let knowns := (knownFlags st).map (·.getD false)
    if !allDone st || !specOK [] calls knowns st.saves || st.saves.count 1 != 1 then .differ "model" "burst-model" else
    match (c.findAll "anom").toList.head? with
    | some r =>
      let claims := nat (r.getD 2 ""); let stored := nat (r.getD 3 ""); let ent := nat (r.getD 4 "")
      let sig := if claims > 1 then "C16:blob-claimed-by-several-calls" else if claims == 0 then "C16:blob-claimed-by-no-call"
        else if stored > 1 then "C16:blob-stored-more-than-once" else if stored == 0 then "C16:blob-not-stored" else "C16:index-entries-per-blob"
      .specfalse sig s!"burst round={r.getD 1 ""} savers={savers} claims={claims} stored={stored} entries={ent} anomalies={(c.findAll "anom").size}"
    | none =>
      match c.find "sum" with
      | none => .differ "protocol" "no-sum"
      | some sm =>
        if nat (sm.getD 1 "") != rounds || nat (sm.getD 3 "") != 0 then .differ "harness" s!"burst summary {sm}" else
        .agree true ["burst", s!"savers={savers}"]
  | _, _ => .differ "protocol" "no-cfg-or-sess"

def handleC16 (c : Case) : Verdict :=
  match c.stream with
  | "burst" => handleBurst c
  | "dedup" => handleDedup c
  | "backup2" => handleBackup2 c
  | s => .differ "protocol" s!"unknown-substream-{s}"

def main : IO Unit := mainLoop handleC16
