import Driver.Common
import Restic.Model.Traverse
/-!
Driver for C42 (records: see harness/main/c42.go).  IDs are 16-hex-digit prefixes of the real ids.
-/
open Driver Restic.Model.Traverse

abbrev TID := String

def nullID : TID := "0000000000000000"

def parseKind (s : String) : NodeKind :=
  if s == "file" then .file else if s == "dir" then .dir else if s == "other" then .other else .invalid

structure Parsed where
  roots1 : List TID
  roots2 : List TID
  trees : List (TID × Loaded TID)
  index : List TID
  sched : List Nat
  labels : List String

def parseCase (c : Case) : Parsed :=
  let roots (ph : String) := (c.findAll "root").toList.filterMap fun r =>
    if r.getD 1 "" == ph then some (r.getD 2 "?") else none
  let nodesOf (t : TID) : List (Node TID) := (c.findAll "node").toList.filterMap fun r =>
    if r.getD 1 "" == t then
      some { kind := parseKind (r.getD 2 ""),
             subtree := (if r.getD 3 "nil" == "nil" then none else some (r.getD 3 "")),
             contentNil := r.getD 4 "0" == "1", nameEmpty := r.getD 5 "0" == "1",
             content := (r.toList.drop 6).filter (· != "-") }
    else none
  let trees := (c.findAll "tree").toList.map fun r =>
    let id := r.getD 1 "?"
    let st := r.getD 2 "ok"
    (id, if st == "init" then Loaded.missing else Loaded.tree (nodesOf id) (st == "bad"))
  { roots1 := roots "1", roots2 := roots "2", trees := trees,
    index := match c.find "idx" with | some r => (r.toList.drop 1).filter (· != "-") | none => [],
    sched := match c.find "sched" with | some r => (r.toList.drop 1).map String.toNat! | none => [],
    labels := match c.find "label" with | some r => r.toList.drop 1 | none => [] }

def mkCfg (p : Parsed) : Cfg TID :=
  { store := fun t => match p.trees.lookup t with | some l => l | none => .missing,
    isNull := fun t => t == nullID,
    indexHas := fun b => p.index.contains b }

def idsOf (c : Case) (key : String) : List TID :=
  match c.find key with
  | some r => (r.toList.drop 1).filter (· != "-")
  | none => []

def sortIds (l : List TID) : List TID := (l.toArray.qsort (· < ·)).toList

def sameSet (a b : List TID) : Bool := sortIds a.eraseDups == sortIds b.eraseDups

def fuel : Nat := 200000

def sizeLabels (p : Parsed) (reach : List TID) (cfg : Cfg TID) : List String :=
  let shared := reach.any fun t => (reach.filter fun u => (children cfg u).contains t).length > 1
  let hugeOrMany := p.trees.length ≥ 8
  (if shared then ["shared-subtree"] else []) ++ (if hugeOrMany then ["trees>=8"] else []) ++
  (if p.roots2 ≠ [] then ["second-call"] else []) ++
  (if reach.any (fun t => match cfg.store t with | .missing => true | _ => false) then ["reach-missing"] else []) ++
  (if reach.any (fun t => match cfg.store t with | .tree _ true => true | _ => false) then ["reach-bad"] else [])

def handleFub (c : Case) (p : Parsed) : Verdict :=
  let cfg := mkCfg p
  let roots := p.roots1 ++ p.roots2
  let n := p.trees.length + roots.length + 1
  let R := reachN cfg roots n
  let res := (c.find "res").map (·.getD 1 "?") |>.getD "?"
  let trees := idsOf c "trees"; let dat := idsOf c "data"; let loads := idsOf c "loads"
  -- model
  let s1 := run cfg findUsed fuel p.sched (init p.roots1 [] [])
  let (sF, mloads) :=
    if terminal s1 && p.roots2 ≠ [] then
      let s2 := run cfg findUsed fuel (p.sched.drop 17) (init p.roots2 s1.seen s1.blobs)
      (s2, s1.loads ++ s2.loads)
    else (s1, s1.loads)
  let mres := if terminal sF then "ok" else match sF.status with
    | .failed => "err" | .panicked => "panic" | .running => "stuck"
  -- the property on the implementation's own output
  if res == "panic" then .specfalse "C42:fub:panic" "FindUsedBlobs-panicked" else
  if res == "hang" then .specfalse "C42:fub:hang" "FindUsedBlobs-did-not-return" else
  if res == "ok" && !specOK cfg roots n trees dat loads then
    let sig :=
      if !(subsetB roots trees && closedB cfg trees) then "C42:fub:reachable-tree-not-visited"
      else if !subsetB trees R then "C42:fub:unreachable-tree-visited"
      else if !subsetB (trees.flatMap (treeBlobs cfg)) dat then "C42:fub:data-blob-missing-from-set"
      else if !subsetB dat (R.flatMap (treeBlobs cfg)) then "C42:fub:unreferenced-data-blob-in-set"
      else if !trees.all (good cfg) then "C42:fub:missing-or-undecodable-tree-not-reported"
      else if !loads.all (fun t => loads.count t ≤ 1) then "C42:fub:tree-loaded-twice"
      else "C42:fub:loaded-set-differs-from-visited-set"
    .specfalse sig s!"roots={roots} trees={trees} data={dat} loads={loads} reach={R}"
  else if res == "err" && !specErrOK cfg roots n loads then
    let sig := if !loads.all (fun t => loads.count t ≤ 1) then "C42:fub:tree-loaded-twice" else "C42:fub:spurious-error"
    .specfalse sig s!"roots={roots} loads={loads} reach={R}"
  else
    let prog := c.find "prog"
    if res == "ok" && (prog.map (·.getD 1 "")) != (prog.map (·.getD 2 "")) then
      .specfalse "C42:fub:progress-count-differs-from-root-count" s!"{prog}"
    else if mres != res then .differ "result" s!"model={mres} impl={res}"
    else if res == "ok" && !(sameSet sF.seen trees) then .differ "trees" s!"model={sortIds sF.seen} impl={trees}"
    else if res == "ok" && !(sameSet sF.blobs dat) then .differ "data" s!"model={sortIds sF.blobs.eraseDups} impl={dat}"
    else if res == "ok" && sortIds mloads != sortIds loads then .differ "loads" s!"model={sortIds mloads} impl={loads}"
    else
      .agree (res == "ok" && R.length ≥ 2) (["fub", "res-" ++ res] ++ p.labels ++ sizeLabels p R cfg)

def short8 (t : TID) : String := (t.take 8).toString

def handleCheck (c : Case) (p : Parsed) : Verdict :=
  let cfg := mkCfg p
  let roots := p.roots1 ++ p.roots2
  let n := p.trees.length + roots.length + 1
  let R := reachN cfg roots n
  let res := (c.find "res").map (·.getD 1 "?") |>.getD "?"
  let anyBad := R.any fun t => match cfg.store t with | .tree _ true => true | _ => false
  if res == "panic" then
    let msg := ((c.find "res").bind fun r => unhexStr (r.getD 2 "-")).getD ""
    .specfalse (if anyBad then "C42:check:panic-on-undecodable-tree" else "C42:check:panic") (msg.replace " " "_")
  else if res == "hang" then .specfalse "C42:check:hang" "check-did-not-return"
  else if res == "childfail" then .differ "harness" "child-process-failed"
  else
    -- model: the checker's consumer on the same store, one schedule
    let s := run cfg (checker true) fuel p.sched (init roots [] [])
    if !terminal s then .differ "model" s!"model-did-not-finish status={repr s.status}" else
    let mrep := sortIds (s.reported.map short8).eraseDups
    let irep := sortIds ((idsOf c "reported").eraseDups)
    let exit := (c.find "exit").map (·.getD 1 "?") |>.getD "?"
    -- property: every reachable tree that cannot be loaded/decoded is reported
    let unreported := (R.filter fun t => !good cfg t).filter fun t => !irep.contains (short8 t)
    if unreported ≠ [] then
      .specfalse "C42:check:missing-or-undecodable-tree-not-reported" s!"unreported={unreported} reported={irep}"
    else if irep ≠ [] && exit == "0" then .specfalse "C42:check:errors-reported-but-exit-0" s!"reported={irep}"
    else
      let stats := (c.find "stats").map (·.getD 1 "-")
      let expectCount := (R.eraseDups.length + (R.flatMap (treeBlobs cfg)).eraseDups.length)
      match stats with
      | some st =>
        if exit == "0" && st != toString expectCount then
          .specfalse "C42:stats:raw-data-blob-count-differs-from-reachable" s!"stats={st} expected={expectCount}"
        else if mrep != irep then .differ "reported" s!"model={mrep} impl={irep}"
        else .agree (R.length ≥ 2) (["check", "exit-" ++ exit, "stats"] ++ p.labels ++ sizeLabels p R cfg)
      | none =>
        if mrep != irep then .differ "reported" s!"model={mrep} impl={irep}"
        else if (mrep == []) != (exit == "0") then .differ "exit" s!"model-reported={mrep} exit={exit}"
        else .agree (R.length ≥ 2) (["check", "exit-" ++ exit] ++ p.labels ++ sizeLabels p R cfg)

def handleC42 (c : Case) : Verdict :=
  let p := parseCase c
  if c.stream == "fub" then handleFub c p
  else if c.stream == "check" then handleCheck c p
  else .differ "protocol" s!"unknown-substream-{c.stream}"

def main : IO Unit := mainLoop handleC42
