/-
Line-protocol plumbing shared by all per-property drivers (core Lean only).

Wire format (harness -> driver), one record per line, tokens separated by single spaces:
  case <id> <stream>        opens a case
  <key> <tok> <tok> ...     any number of records (in/out/oracle/ev ...), free per property
  end                       closes the case
Byte strings are hex encoded ("-" = empty). The driver answers one line per case:
  agree <id> <nt|triv> <labels,comma,separated|->
  differ <id> <field> <detail...>            model and implementation disagree
  specfalse <id> <signature> <detail...>     the property predicate is false on the implementation's output
-/
namespace Driver

structure Case where
  id : String
  stream : String
  recs : Array (Array String)   -- each record split into tokens
deriving Inhabited

inductive Verdict where
  | agree (nontrivial : Bool) (labels : List String)
  | differ (field : String) (detail : String)
  | specfalse (signature : String) (detail : String)

def hexDigit (c : Char) : Option Nat :=
  if '0' ≤ c ∧ c ≤ '9' then some (c.toNat - '0'.toNat)
  else if 'a' ≤ c ∧ c ≤ 'f' then some (c.toNat - 'a'.toNat + 10)
  else if 'A' ≤ c ∧ c ≤ 'F' then some (c.toNat - 'A'.toNat + 10)
  else none

/-- decode a hex token into bytes; "-" is the empty string -/
def unhex (s : String) : Option (List UInt8) :=
  if s == "-" then some [] else
  let rec go : List Char → List UInt8 → Option (List UInt8)
    | [], acc => some acc.reverse
    | [_], _ => none
    | a :: b :: rest, acc =>
      match hexDigit a, hexDigit b with
      | some x, some y => go rest (UInt8.ofNat (x * 16 + y) :: acc)
      | _, _ => none
  go s.toList []

def hexNib (n : Nat) : Char :=
  if n < 10 then Char.ofNat (n + '0'.toNat) else Char.ofNat (n - 10 + 'a'.toNat)

def hex (bs : List UInt8) : String :=
  if bs.isEmpty then "-" else
  String.ofList (bs.flatMap fun b => [hexNib (b.toNat / 16), hexNib (b.toNat % 16)])

/-- decode a hex token into a String (bytes taken as Latin-1 code points would lose nothing for
    comparisons; we keep raw bytes as chars < 256) -/
def unhexStr (s : String) : Option String :=
  (unhex s).map fun bs => String.ofList (bs.map fun b => Char.ofNat b.toNat)

def Case.find (c : Case) (key : String) : Option (Array String) :=
  c.recs.find? fun r => r.size > 0 && r[0]! == key

def Case.findAll (c : Case) (key : String) : Array (Array String) :=
  c.recs.filter fun r => r.size > 0 && r[0]! == key

def splitTokens (line : String) : Array String :=
  ((line.splitOn " ").filter (· ≠ "")).toArray

def stripNL (s : String) : String :=
  let s := if s.endsWith "\n" then (s.dropEnd 1).toString else s
  if s.endsWith "\r" then (s.dropEnd 1).toString else s

def Verdict.render (id : String) : Verdict → String
  | .agree nt labels =>
    let l := if labels.isEmpty then "-" else ",".intercalate labels
    s!"agree {id} {if nt then "nt" else "triv"} {l}"
  | .differ f d => s!"differ {id} {f} {d}"
  | .specfalse sig d => s!"specfalse {id} {sig} {d}"

/-- read cases from stdin, answer one verdict line per case -/
partial def mainLoop (handle : Case → Verdict) : IO Unit := do
  let stdin ← IO.getStdin
  let stdout ← IO.getStdout
  let rec loop (cur : Option Case) : IO Unit := do
    let line ← stdin.getLine
    if line.isEmpty then
      match cur with
      | some c => stdout.putStrLn s!"differ {c.id} protocol truncated-case"
      | none => pure ()
      return ()
    let toks := splitTokens (stripNL line)
    if toks.size == 0 then loop cur else
    match cur, toks[0]! with
    | none, "case" =>
      loop (some { id := toks.getD 1 "?", stream := toks.getD 2 "-", recs := #[] })
    | none, _ => loop none      -- stray line outside a case: ignored (e.g. harness comments "# ...")
    | some c, "end" =>
      let v := handle c
      stdout.putStrLn (v.render c.id)
      loop none
    | some c, _ => loop (some { c with recs := c.recs.push toks })
  loop none
  stdout.flush

end Driver
