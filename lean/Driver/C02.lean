import Driver.Common
import Restic.Model.Store
/-!
Driver for C02. `hash`, `dec` (nonce split + Key.Open) and `zdec` (zstd) of the model are finite
tables built from oracle records the harness computed with crypto/sha256, the repository key and
klauspost/zstd directly:
  oh <bytes> <sha256>      odec <buf> ok <plaintext> | odec <buf> err      ozd <in> ok <out> | ozd <in> err

loadraw / loadunpacked:
  req <type> <id> | cfg <version>
  rep <kind> <data|readerr|fail> <errAfter> <bytes> <htype> <hname> <offset> <length>   one per backend read, in order
  used <n> | overrun <n>
  res ok <bytes> <sha> | res invalid <bytes> | res err [class] | res panic
loadblob:
  req <d|t> <id> | cand <pack> <offset> <length> <ulen> <id> (Lookup order) | rep … | used | res ok <bytes> <sha> <same 0/1> | res err | res notfound
saveblob:
  buf <nzeros> <tail> | oh <sha(buf)> | ozero <sha(MinSize zeros)> | given <id> | res ok <newID> <known> | res err | back ok <sha> | back err
stored:
  file <type> <name> <sha(bytes)> <len>
-/
open Driver Restic.Model.Store

def bytesOf (s : String) : Bytes := (unhex s).getD []

def poison : Bytes := [0xde, 0xad]

structure Tbl where
  h : List (Bytes × Bytes) := []
  dec : List (Bytes × Option Bytes) := []
  zd : List (Bytes × Option Bytes) := []

def Tbl.hash (t : Tbl) (b : Bytes) : ID :=
  match t.h.find? (·.1 == b) with | some e => e.2 | none => poison
def Tbl.decF (t : Tbl) (b : Bytes) : Option Bytes :=
  match t.dec.find? (·.1 == b) with | some e => e.2 | none => none
def Tbl.zdF (t : Tbl) (b : Bytes) : Option Bytes :=
  match t.zd.find? (·.1 == b) with | some e => e.2 | none => none

def tblOf (c : Case) : Tbl :=
  let optOf (r : Array String) : Option Bytes := if r.getD 2 "" == "ok" then some (bytesOf (r.getD 3 "-")) else none
  { h := (c.findAll "oh").toList.map fun r => (bytesOf (r.getD 1 "-"), bytesOf (r.getD 2 "-")),
    dec := (c.findAll "odec").toList.map fun r => (bytesOf (r.getD 1 "-"), optOf r),
    zd := (c.findAll "ozd").toList.map fun r => (bytesOf (r.getD 1 "-"), optOf r) }

def ftOf : String → Option FileType
  | "pack" => some .pack | "key" => some .key | "lock" => some .lock
  | "snapshot" => some .snapshot | "index" => some .index | "config" => some .config
  | _ => none

def beReplyOf (r : Array String) : BeReply :=
  match r.getD 2 "" with
  | "data" => .data (bytesOf (r.getD 4 "-")) (r.getD 3 "0" == "1")
  | "readerr" => .readErr (bytesOf (r.getD 4 "-"))
  | _ => .fail

def readReplyOf (r : Array String) : ReadReply :=
  match r.getD 2 "" with
  | "fail" => .fail
  | _ => .data (bytesOf (r.getD 4 "-"))

def kindLabels (reps : Array (Array String)) : List String :=
  reps.toList.foldl (fun acc r => let l := "rep-" ++ r.getD 1 "?"; if acc.contains l then acc else acc ++ [l]) []

def handleLoadRaw (c : Case) : Verdict :=
  match c.find "req", c.find "res" with
  | some rq, some rs =>
    match ftOf (rq.getD 1 "") with
    | none => .differ "protocol" "bad-file-type"
    | some t =>
      let id := bytesOf (rq.getD 2 "-")
      let tbl := tblOf c
      let reps := c.findAll "rep"
      if (c.find "overrun").isSome then .differ "reads" "implementation-read-more-often-than-the-script-is-long" else
      -- the property on the implementation's own result
      if rs.getD 1 "" == "panic" then .specfalse "C02:loadraw:panic" (rs.getD 2 "") else
      let implOut : LoadOut := match rs.getD 1 "" with
        | "ok" => .ok (bytesOf (rs.getD 2 "-"))
        | "invalid" => .invalidData (bytesOf (rs.getD 2 "-"))
        | _ => .err
      if !specLoadOK tbl.hash t id implOut then
        .specfalse "C02:loadraw:ok-with-wrong-hash" s!"type={rq.getD 1 ""} id={rq.getD 2 ""} sha={rs.getD 3 ""} kinds={kindLabels reps}"
      else
        let (m, rest) := loadRaw tbl.hash t id (reps.toList.map beReplyOf ++ [.fail])
        if m != implOut then .differ "loadraw" s!"model={repr m} impl={rs.toList.take 2} kinds={kindLabels reps}"
        else if rest.length != 1 then .differ "reads" s!"model-consumed={reps.size + 1 - rest.length} impl={reps.size}"
        else
          let rl := match m with | .ok _ => "ok" | .err => "err" | .invalidData _ => "invalidData" | .stuck => "stuck"
          let cl := match c.find "cache" with
            | some cr => [s!"cached-{cr.getD 1 ""}", s!"cached-load{cr.getD 3 ""}", s!"cached-fault-{cr.getD 2 ""}"]
            | none => []
          .agree (reps.size > 1 || rl != "ok") (["loadraw", "t-" ++ rq.getD 1 "", "res-" ++ rl, s!"reads{reps.size}"] ++ cl ++ kindLabels reps)
  | _, _ => .differ "protocol" "missing-records"

def unpName : UnpOut → String
  | .ok _ => "ok" | .loadErr => "loadErr" | .invalidData => "invalidData" | .tooShort => "tooShort"
  | .decryptErr => "decryptErr" | .decodeErr => "decodeErr" | .stuck => "stuck"

def handleLoadUnpacked (c : Case) : Verdict :=
  match c.find "req", c.find "res", c.find "cfg" with
  | some rq, some rs, some cf =>
    match ftOf (rq.getD 1 "") with
    | none => .differ "protocol" "bad-file-type"
    | some t =>
      let id := bytesOf (rq.getD 2 "-")
      let version := (cf.getD 1 "2").toNat!
      let tbl := tblOf c
      let reps := c.findAll "rep"
      if (c.find "overrun").isSome then .differ "reads" "implementation-read-more-often-than-the-script-is-long" else
      if rs.getD 1 "" == "panic" then .specfalse "C02:loadunpacked:panic" (rs.getD 2 "") else
      let (m, rest) := loadUnpacked tbl.hash tbl.decF tbl.zdF version t id (reps.toList.map beReplyOf ++ [.fail])
      -- property: an ok result must stem from a raw buffer whose hash is the requested id. The raw
      -- buffer is not an output of LoadUnpacked; it is the last reply read: check that one.
      let lastBuf : Bytes := match reps.toList.getLast? with | some r => (collect (beReplyOf r)).buf | none => []
      if rs.getD 1 "" == "ok" && t != .config && tbl.hash lastBuf != id then
        .specfalse "C02:loadunpacked:ok-from-buffer-with-wrong-hash" s!"type={rq.getD 1 ""} id={rq.getD 2 ""} kinds={kindLabels reps}"
      else
        let same := match m with
          | .ok p => rs.getD 1 "" == "ok" && bytesOf (rs.getD 2 "-") == p
          | e => rs.getD 1 "" == "err" && rs.getD 2 "" == unpName e
        if !same then .differ "loadunpacked" s!"model={unpName m} impl={rs.toList.take 3} kinds={kindLabels reps}"
        else if rest.length != 1 then .differ "reads" s!"model-consumed={reps.size + 1 - rest.length} impl={reps.size}"
        else .agree (reps.size > 1 || unpName m != "ok")
          (["loadunpacked", "t-" ++ rq.getD 1 "", "res-" ++ unpName m, s!"v{version}", s!"reads{reps.size}"] ++ kindLabels reps)
  | _, _, _ => .differ "protocol" "missing-records"

def handleLoadBlob (c : Case) : Verdict :=
  match c.find "req", c.find "res" with
  | some rq, some rs =>
    let id := bytesOf (rq.getD 2 "-")
    let tree := rq.getD 1 "" == "t"
    let tbl := tblOf c
    let candRecs := c.findAll "cand"
    let cands : List PackedBlob := candRecs.toList.map fun r =>
      { pack := bytesOf (r.getD 1 "-"),
        blob := { id := bytesOf (r.getD 5 "-"), tree := tree, offset := (r.getD 2 "0").toNat!,
                  length := (r.getD 3 "0").toNat!, ulen := (r.getD 4 "0").toNat! } }
    let reps := c.findAll "rep"
    if (c.find "overrun").isSome then .differ "reads" "implementation-read-more-often-than-the-script-is-long" else
    if rs.getD 1 "" == "panic" then .specfalse "C02:loadblob:panic" (rs.getD 2 "") else
    let implOut : LoadBlobOut := match rs.getD 1 "" with
      | "ok" => .ok (bytesOf (rs.getD 2 "-")) | "notfound" => .notFound | _ => .err
    -- oracle hash of the result
    let tbl' : Tbl := match implOut with
      | .ok p => { tbl with h := (p, bytesOf (rs.getD 3 "-")) :: tbl.h } | _ => tbl
    if !specBlobOK tbl'.hash id implOut then
      .specfalse "C02:loadblob:ok-with-wrong-hash" s!"id={rq.getD 2 ""} sha={rs.getD 3 ""} kinds={kindLabels reps}"
    else if rs.getD 1 "" == "ok" && rs.getD 4 "1" != "1" && cands.any (·.blob.id == id) then
      .specfalse "C02:loadblob:content-differs-from-saved" s!"id={rq.getD 2 ""}"
    else if cands.any (·.blob.id != id) then .differ "index" "lookup-returned-entry-with-other-id"
    else
      let (m, rest) := loadBlob tbl'.hash tbl'.decF tbl'.zdF cands (reps.toList.map readReplyOf ++ [.fail])
      if m != implOut then .differ "loadblob" s!"model={repr m} impl={rs.toList.take 2} kinds={kindLabels reps}"
      else if rest.length != 1 then .differ "reads" s!"model-consumed={reps.size + 1 - rest.length} impl={reps.size}"
      else
        -- the reads go to the candidates in order, pass after pass
        let targetsOK := (List.range reps.size).all fun i =>
          match cands[i % cands.length]? with
          | none => false
          | some cd => let r := reps[i]!
            r.getD 5 "" == "data" && bytesOf (r.getD 6 "-") == cd.pack &&
              (r.getD 7 "").toNat! == cd.blob.offset && (r.getD 8 "").toNat! == cd.blob.length
        if !targetsOK then .differ "reads" "read-targets-differ-from-candidate-order"
        else
          let rl := match m with | .ok _ => "ok" | .err => "err" | .notFound => "notfound" | .stuck => "stuck"
          let passes := if cands.length > 0 && reps.size > cands.length then "pass2" else "pass1"
          .agree (reps.size > 1 || rl != "ok")
            (["loadblob", "res-" ++ rl, s!"cands{cands.length}", passes,
              (if cands.any (·.blob.ulen != 0) then "compressed" else "plain")] ++ kindLabels reps)
  | _, _ => .differ "protocol" "missing-records"

def handleSaveBlob (c : Case) : Verdict :=
  match c.find "buf", c.find "oh", c.find "ozero", c.find "res" with
  | some br, some ohr, some ozr, some rs =>
    let nz := (br.getD 1 "0").toNat!
    let buf : Bytes := List.replicate nz 0 ++ bytesOf (br.getD 2 "-")
    let sha := bytesOf (ohr.getD 1 "-")
    let zsha := bytesOf (ozr.getD 1 "-")
    let zeros : Bytes := List.replicate minSize 0
    let hash : Bytes → ID := fun b => if b == buf then sha else if b == zeros then zsha else poison
    let given : ID := match c.find "given" with | some g => bytesOf (g.getD 1 "-") | none => nullID
    if rs.getD 1 "" == "panic" then .specfalse "C02:saveblob:panic" "" else
    let implOK := rs.getD 1 "" == "ok"
    let implID := bytesOf (rs.getD 2 "-")
    if implOK && !specSaveBlobOK hash buf implID then
      .specfalse (if given == nullID then "C02:saveblob:id-not-hash-of-plaintext" else "C02:saveblob:wrong-given-id-accepted")
        s!"len={buf.length} zeros={nz} id={hex implID} sha={hex sha}"
    else
      let backBad := match c.find "back" with
        | some b => implOK && !(b.getD 1 "" == "ok" && bytesOf (b.getD 2 "-") == implID)
        | none => false
      if backBad then .specfalse "C02:saveblob:not-readable-back-under-its-id" s!"len={buf.length} id={hex implID}" else
      -- model: identity codecs satisfy the round-trip laws, so verification reduces to the hash compare
      let cfg : SaveCfg := { version := 2, compressionOff := true, noExtraVerify := false }
      let known := rs.getD 3 "0" == "1"
      let m := saveBlob hash (fun _ d => d) some some id cfg false buf given true (!known || !implOK) []
      let same := match m with
        | .ok nid _ _ => implOK && nid == implID
        | .corrupt => !implOK
        | .tooLarge => !implOK
      if !same then .differ "saveblob" s!"model={match m with | .ok n _ _ => hex n | .corrupt => "corrupt" | .tooLarge => "tooLarge"} impl={rs.toList}"
      else
        let shortcut := buf.length == minSize && zeroPrefixLen buf == minSize
        .agree true (["saveblob", (if shortcut then "zero-shortcut" else "hashed"),
          (if given == nullID then "id-computed" else "id-given"), (if implOK then "saved" else "refused"),
          (if buf.length == minSize then "len=MinSize" else if buf.length + 1 == minSize then "len=MinSize-1"
           else if buf.length == minSize + 1 then "len=MinSize+1" else "len-other")])
  | _, _, _, _ => .differ "protocol" "missing-records"

def handleStored (c : Case) : Verdict :=
  let files := c.findAll "file"
  let bad := files.toList.filter fun r =>
    match ftOf (r.getD 1 "") with
    | none => true
    | some t => !specStoredOK (fun _ => bytesOf (r.getD 3 "-")) t (bytesOf (r.getD 2 "-")) []
  match bad with
  | r :: _ => .specfalse s!"C02:stored:name-differs-from-sha256:{r.getD 1 "?"}" s!"name={r.getD 2 ""} sha={r.getD 3 ""}"
  | [] =>
    let types := files.toList.foldl (fun acc r => let l := "t-" ++ r.getD 1 "?"; if acc.contains l then acc else acc ++ [l]) []
    .agree (files.size > 2) (["stored"] ++ types)

def handleC02 (c : Case) : Verdict :=
  match c.stream with
  | "loadraw" => handleLoadRaw c
  | "loadunpacked" => handleLoadUnpacked c
  | "loadblob" => handleLoadBlob c
  | "saveblob" => handleSaveBlob c
  | "stored" => handleStored c
  | s => .differ "protocol" s!"unknown-substream-{s}"

def main : IO Unit := mainLoop handleC02
