import Driver.Common
import Restic.Model.Location
/-!
Driver for C50. Records per case (`fn` cases may carry a second observation with key suffix `2`,
a location that differs from the first only in the password):
  reg <hexscheme:kind>*            the registry of the real binary, kind = rest | nop | custom
  via loc|rest                     location.StripPassword / the REST factory's StripPassword
  kind <class> <labels>
  loc <hex>                        the location string
  prep none | prep some <hex>      the prepared URL handed to url.Parse (ORACLE input)
  parse err | parse ok <pre> <hasUser> <username> <escUser> <pwSet> <escPass> <post> <decompOK>
  accepted <0/1> <pwSet 0/1>       location.Parse accepts; restic will use a password
  secret <hex>*                    distinctive parts of the password restic uses
  out panic <msg> | out ok <hex>   the implementation's display form
  cliout panic <msg> | cliout ok <exit> <hex text>   (cli cases) everything the command printed
-/
open Driver Restic.Model.Location

def bytesOf (t : String) : Bytes := (unhex t).getD []

structure Obs where
  loc : Bytes
  parser : Parser
  url : Option Url
  oracleOK : Bool
  accepted : Bool
  pwSet : Bool
  secrets : List Bytes
  out : Option Out

def readObs (c : Case) (sfx : String) : Option Obs := do
  let l ← c.find ("loc" ++ sfx)
  let loc := bytesOf (l.getD 1 "-")
  let prep := c.find ("prep" ++ sfx)
  let prepS : Option Bytes := match prep with
    | some r => if r.getD 1 "" == "some" then some (bytesOf (r.getD 2 "-")) else none
    | none => none
  let pr := c.find ("parse" ++ sfx)
  let (url, decompOK) : Option Url × Bool := match pr with
    | some r =>
      if r.getD 1 "" == "ok" then
        let ui : Option UserInfo :=
          if r.getD 3 "0" == "1" then
            some { username := bytesOf (r.getD 4 "-"), escUser := bytesOf (r.getD 5 "-"),
                   password := if r.getD 6 "0" == "1" then some (bytesOf (r.getD 7 "-")) else none }
          else none
        (some { pre := bytesOf (r.getD 2 "-"), user := ui, post := bytesOf (r.getD 8 "-") }, r.getD 9 "0" == "1")
      else (none, true)
    | none => (none, true)
  let parser : Parser := fun x => if some x == prepS then url else none
  let acc := c.find ("accepted" ++ sfx)
  let secrets := match c.find ("secret" ++ sfx) with
    | some r => (r.toList.drop 1).map bytesOf |>.filter (· ≠ [])
    | none => []
  let out : Option Out := match c.find ("out" ++ sfx) with
    | some r => if r.getD 1 "" == "panic" then some .panic else some (.ok (bytesOf (r.getD 2 "-")))
    | none => none
  let wfOK := match url with | some u => u.wf | none => true
  -- hypothesis of `secret_absent`: a secret that also occurs in the password-free skeleton of the
  -- location (e.g. repeated in the path or query) is not a secret of the password position
  let skel : Bytes := match url with
    | some u => match u.user with
      | some ui => u.pre ++ ui.username ++ stars ++ u.post
      | none => []
    | none => []
  let secrets := secrets.filter (fun sec => !(isInfix sec skel))
  pure { loc, parser, url, oracleOK := decompOK && wfOK,
         accepted := (acc.map (·.getD 1 "0" == "1")).getD false,
         pwSet := (acc.map (·.getD 2 "0" == "1")).getD false,
         secrets, out }

def readReg (c : Case) : Except String Registry := do
  match c.find "reg" with
  | none => throw "no-reg"
  | some r =>
    (r.toList.drop 1).filter (· ≠ "-") |>.mapM fun t =>
      match t.splitOn ":" with
      | [n, "rest"] => pure (bytesOf n, Stripper.rest)
      | [n, "nop"] => pure (bytesOf n, Stripper.noPassword)
      | _ => throw s!"unknown-stripper:{t}"

def modelOut (via : String) (reg : Registry) (o : Obs) : Out :=
  if via == "rest" then restStrip o.parser o.loc else locStrip o.parser reg o.loc

def hasPw (o : Obs) : Bool :=
  match o.url with
  | some u => match u.user with | some ui => ui.password.isSome | none => false
  | none => false

def skeletonOf (o : Obs) : Option (Bytes × Bytes × Bytes × Bytes) :=
  match o.url with
  | some u => match u.user with
    | some ui => if ui.password.isSome then some (u.pre, ui.username, ui.escUser, u.post) else none
    | none => none
  | none => none

/-- verdict for one observation of the function stream: spec on the implementation's output first,
    then comparison with the model -/
def judge (via : String) (reg : Registry) (o : Obs) : Option Verdict :=
  match o.out with
  | none => some (.differ "protocol" "no-out-record")
  | some out =>
    let viaTag := if via == "rest" then "rest" else "loc"
    if out == .panic then
      some (.specfalse (if o.loc.length < 5 then s!"C50:{viaTag}:panic-short-location" else s!"C50:{viaTag}:panic")
        s!"loc={hex o.loc}")
    else if o.accepted && !(specOK o.secrets out) then
      let sig := match out with
        | .ok b => if o.secrets.any (isInfix · b) then "C50:rest:secret-in-output" else "C50:rest:no-placeholder"
        | .panic => "C50:panic"
      some (.specfalse sig s!"loc={hex o.loc}")
    else if !o.oracleOK then some (.differ "oracle-law" s!"loc={hex o.loc}")
    else
      let m := modelOut via reg o
      if m != out then some (.differ "display-form" s!"loc={hex o.loc} model={repr m} impl={repr out}")
      else none

def handleC50 (c : Case) : Verdict :=
  let kind := (c.find "kind").map (·.getD 1 "?") |>.getD "?"
  let lbls := ((c.find "kind").map (·.getD 2 "-") |>.getD "-").splitOn "," |>.filter (· ≠ "-")
  if c.stream == "cli" then
    match readObs c "" with
    | none => .differ "protocol" "no-loc"
    | some o =>
      match c.find "cliout" with
      | none => .differ "protocol" "no-cliout"
      | some r =>
        if r.getD 1 "" == "panic" then
          .specfalse (if o.loc.length < 5 then "C50:cli:panic-short-location" else "C50:cli:panic") s!"loc={hex o.loc}"
        else
          let text := bytesOf (r.getD 3 "-")
          if o.accepted && o.secrets.any (isInfix · text) then
            .specfalse "C50:cli:secret-in-output" s!"loc={hex o.loc}"
          else
            let shown := match restStrip o.parser o.loc with
              | .ok d => hasPw o && isInfix d text
              | .panic => false
            .agree (o.accepted && !o.secrets.isEmpty)
              (["cli"] ++ lbls.take 2 ++ (if shown then ["stripped-form-shown"] else []) ++
               (if o.accepted then ["accepted"] else ["rejected"]) ++ [s!"exit{r.getD 2 "?"}"])
  else
  match readReg c with
  | .error e => .differ "registry" e
  | .ok reg =>
    let via := (c.find "via").map (·.getD 1 "loc") |>.getD "loc"
    match readObs c "" with
    | none => .differ "protocol" "no-loc"
    | some o1 =>
      match judge via reg o1 with
      | some v => v
      | none =>
        let o2 := readObs c "2"
        match o2.bind (judge via reg) with
        | some v => v
        | none =>
          -- pair: same password-free skeleton => identical display forms
          let pairV : Option Verdict × List String := match o2 with
            | none => (none, [])
            | some o2 =>
              match skeletonOf o1, skeletonOf o2 with
              | some s1, some s2 =>
                if s1 == s2 then
                  if o1.out != o2.out then
                    (some (.specfalse "C50:rest:output-depends-on-password" s!"loc1={hex o1.loc} loc2={hex o2.loc}"), [])
                  else (none, ["pair-same-skeleton"])
                else (none, ["pair-skeleton-differs"])
              | _, _ => (none, ["pair-unparsed"])
          match pairV with
          | (some v, _) => v
          | (none, pl) =>
            let branch :=
              match o1.url with
              | none => if (c.find "prep").map (·.getD 1 "" == "some") |>.getD false then "url-parse-error" else "not-rest"
              | some u => match u.user with
                | none => "no-userinfo"
                | some ui => if ui.password.isSome then "password-stripped" else "user-only"
            let nt := hasPw o1 && o1.accepted
            .agree nt ([kind, "via-" ++ via, branch] ++ lbls ++ pl ++
              (if o1.accepted then ["accepted"] else ["rejected"]) ++
              (if !o1.secrets.isEmpty then ["secret-checked"] else []))

def main : IO Unit := mainLoop handleC50
