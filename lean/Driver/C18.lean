import Driver.Common
import Restic.Model.RestoreTree
import Restic.Model.RestoreTreeFacts
/-!
Driver for C18 (stream `C18`, sub-stream `restore`). Records per case:
  lbl <labels>
  opt <overwrite> <delete 0/1> <none|include|exclude> ; pat <hex pattern>*
  root <hex absolute path of the sandbox>           (target = root/target, the rest is "outside")
  n <depth> <d|f|l|p|s|o> <hex name> <extra> <octal mode>    snapshot nodes, pre-order
        extra: file = links:inode:hexcontent, symlink = hex target, dir = nosubtree | -
  pre <d|f|l> <hex path below target> <hex content / link target>     target before the restore
  out0 <d|f|l> <hex path below outside> <hex content / link target> <octal mode>   outside before
  sel <hex location> <selected,childMay for isDir=1> <selected,childMay for isDir=0>   filter oracle
  res hang | <exit code>
  chg <hex path below outside>*       what differs outside afterwards (content, type, mode, mtime)
  tgt <kind> <hex path below target> <hex link target>*      target afterwards
-/
open Driver Restic.Model.RestoreFS Restic.Model.RestoreTree

def bytesOf (tok : String) : List UInt8 := (unhex tok).getD []

def splitAux : List UInt8 → Name → List Name → List Name
  | [], cur, acc => (if cur.isEmpty then acc else cur.reverse :: acc).reverse
  | b :: rest, cur, acc =>
    if b == 47 then splitAux rest [] (if cur.isEmpty then acc else cur.reverse :: acc)
    else splitAux rest (b :: cur) acc

/-- split at '/', dropping empty components -/
def splitSlash (b : List UInt8) : List Name := splitAux b [] []

def octal (s : String) : Nat := s.toList.foldl (fun a c => a * 8 + (c.toNat - '0'.toNat)) 0

/-- symlink target bytes → (absolute inside the sandbox?, components) -/
def linkOf (root : List UInt8) (t : List UInt8) : Bool × List Name :=
  if t.head? == some 47 then
    if root.isPrefixOf t then (true, splitSlash (t.drop root.length))
    else (true, [[0x3c, 0x65, 0x78, 0x74, 0x3e]] ++ splitSlash t)   -- outside the modelled world
  else (false, splitSlash t)

def ntypeOf : String → NType
  | "d" => .dir | "f" => .file | "l" => .symlink | "p" => .fifo | "s" => .socket | _ => .other

def mkNode (root : List UInt8) (r : Array String) (children : List Node) : Node :=
  let t := ntypeOf (r.getD 2 "")
  let extra := r.getD 4 "-"
  let mode := octal (r.getD 5 "0")
  match t with
  | .file =>
    let parts := extra.splitOn ":"
    .mk (bytesOf (r.getD 3 "-")) t mode (bytesOf (parts.getD 2 "-")) ((parts.getD 0 "1").toNat?.getD 1)
      ((parts.getD 1 "0").toNat?.getD 0) false [] false []
  | .symlink =>
    let (a, c) := linkOf root (bytesOf extra)
    .mk (bytesOf (r.getD 3 "-")) t mode [] 1 0 a c false []
  | .dir => .mk (bytesOf (r.getD 3 "-")) t mode [] 1 0 false [] (extra != "nosubtree") children
  | _ => .mk (bytesOf (r.getD 3 "-")) t mode [] 1 0 false [] false []

/-- pre-order records with depth → forest -/
def parseForest (root : List UInt8) : Nat → Nat → List (Array String) → List Node × List (Array String)
  | 0, _, recs => ([], recs)
  | fuel + 1, depth, recs =>
    match recs with
    | [] => ([], [])
    | r :: rest =>
      let d := (r.getD 1 "0").toNat?.getD 0
      if d < depth then ([], recs)
      else
        let (children, rest1) := parseForest root fuel (depth + 1) rest
        let node := mkNode root r children
        let (sibs, rest2) := parseForest root fuel depth rest1
        (node :: sibs, rest2)

def entryOf (root : List UInt8) (kind : String) (data : List UInt8) (mode : Nat) : Entry :=
  match kind with
  | "d" => .dir mode
  | "l" => let (a, c) := linkOf root data; .symlink a c
  | _ => .file data mode

def tName : Name := "target".toUTF8.toList
def oName : Name := "outside".toUTF8.toList

/-- locations of all file nodes (valid names only), pre-order -/
partial def fileLocs (rel : Path) (nodes : List Node) : List Path :=
  nodes.flatMap fun n =>
    if !plain n.name then [] else
    match n.type with
    | .file => [rel ++ [n.name]]
    | .dir => fileLocs (rel ++ [n.name]) n.children
    | _ => []

/-- two scheduled files whose creation order decides the outcome (same location, or one location
    inside the other): the pack workers of the real restorer race on these -/
def racy (locs : List Path) : Bool :=
  let rec go : List Path → Bool
    | [] => false
    | p :: rest => rest.any (fun q => p.isPrefixOf q || q.isPrefixOf p) || go rest
  go locs

def kindOf : Entry → String
  | .dir _ => "dir" | .file _ _ => "file" | .symlink _ _ => "symlink" | .special _ => "fifo"

def handleC18 (c : Case) : Verdict :=
  let lbl := ((c.find "lbl").map (·.getD 1 "-")).getD "-"
  let labels := (lbl.splitOn ",").filter (· != "-")
  match c.find "res", c.find "opt", c.find "root" with
  | some r, some opt, some rootRec =>
    if r.getD 1 "" == "hang" then .agree false ("hang-timeout" :: labels) else
    let root := bytesOf (rootRec.getD 1 "-")
    let chg := (c.findAll "chg").toList.map fun x => (unhexStr (x.getD 1 "-")).getD "?"
    -- (b) the property on the implementation's own observation
    if !chg.isEmpty then
      let sig :=
        if labels.contains "filter-include" && labels.contains "pre-symlink-to-outside-dir" then "C18:include-filter:symlinked-ancestor"
        else if labels.contains "duplicate-names" && labels.contains "symlink-node" then "C18:duplicate-name:symlink-and-other-node"
        else if labels.contains "hardlink" && labels.contains "ow-never" && labels.contains "pre-symlink-to-outside-file" then
          "C18:hardlink-to-preexisting-symlink:metadata-follows"
        else "C18:outside-modified:other"
      .specfalse sig s!"{lbl} changed={chg}"
    else if opt.getD 4 "" == "child" then
      -- unprivileged run with a read-only directory: operations fail for permission reasons, which
      -- the model does not have; only the property itself is evaluated on these cases
      .agree true (labels ++ ["permission-case(model-not-compared)"])
    else
    -- (a) the model on the same input
    let (tree, _) := parseForest root 10000 0 (c.findAll "n").toList
    let pres := (c.findAll "pre").toList.map fun x =>
      ([tName] ++ splitSlash (bytesOf (x.getD 2 "-")), entryOf root (x.getD 1 "") (bytesOf (x.getD 3 "-")) 0o644)
    let outs := (c.findAll "out0").toList.map fun x =>
      ([oName] ++ splitSlash (bytesOf (x.getD 2 "-")), entryOf root (x.getD 1 "") (bytesOf (x.getD 3 "-")) (octal (x.getD 4 "0")))
    let fs0 : FS := ⟨([tName], Entry.dir 0o755) :: (pres ++ outs)⟩
    let selTab := (c.findAll "sel").toList.map fun x =>
      (splitSlash (bytesOf (x.getD 1 "-")), (x.getD 2 "" == "1", x.getD 3 "" == "1"), (x.getD 4 "" == "1", x.getD 5 "" == "1"))
    let select (loc : Path) (isDir : Bool) : Bool × Bool :=
      match selTab.find? (·.1 == loc) with
      | some (_, a, b) => if isDir then a else b
      | none => if opt.getD 3 "" == "none" then (true, true) else (false, false)
    let cfg : Cfg := ⟨[tName], select, (if opt.getD 1 "" == "never" then .never else .always),
      chainFixOfSource, metaFixOfSource⟩
    let st := restore cfg tree fs0 (opt.getD 2 "" == "1")
    if !outsideEq cfg.dst fs0 st.fs then
      .differ "escape" s!"model-predicts-change-outside impl-none {lbl}"
    else
    -- final name space of the target: path, kind, link target
    let norm (l : List (Path × String)) := l.toArray.qsort (fun a b => a.1 < b.1) |>.toList
    let modelT := norm ((st.fs.ents.filter fun e => [tName].isPrefixOf e.1 && e.1.length > 1).map fun e =>
      (e.1.drop 1, kindOf e.2))
    let implT := norm ((c.findAll "tgt").toList.map fun x => (splitSlash (bytesOf (x.getD 2 "-")), x.getD 1 ""))
    let implExit := (r.getD 1 "0").toNat?.getD 9
    let isRacy := racy (fileLocs [] tree)
    if isRacy then .agree true (labels ++ ["racy-file-order(tree-not-compared)"]) else
    if modelT != implT then
      .differ "target-tree" s!"{lbl} errors={st.errors} exit={implExit} model={modelT.map fun e => (e.1.map fun n => String.ofList (n.map fun b => Char.ofNat b.toNat), e.2)} impl={implT.map fun e => (e.1.map fun n => String.ofList (n.map fun b => Char.ofNat b.toNat), e.2)}"
    else if (st.errors == 0) != (implExit == 0) then
      .differ "errors" s!"{lbl} model-errors={st.errors} impl-exit={implExit}"
    else .agree true (labels ++ (if st.errors == 0 then ["ok"] else ["with-errors"]))
  | _, _, _ => .differ "protocol" "missing-record"

def main : IO Unit := mainLoop handleC18
