import Driver.Common
/-! Driver for C18 (preliminary: property predicate only). -/
open Driver

def handleC18 (c : Case) : Verdict :=
  let lbl := ((c.find "lbl").map (·.getD 1 "-")).getD "-"
  let labels := (lbl.splitOn ",").filter (· != "-")
  match c.find "res" with
  | none => .differ "protocol" "no-res"
  | some r =>
    if r.getD 1 "" == "hang" then .specfalse "C18:restore-hangs" lbl else
    let chg := (c.findAll "chg").toList.map fun x => (unhexStr (x.getD 1 "-")).getD "?"
    if !chg.isEmpty then
      let sig :=
        if labels.contains "filter-include" && labels.contains "pre-symlink-to-outside-dir" then "C18:include-filter:symlinked-ancestor"
        else if labels.contains "duplicate-names" && labels.contains "symlink-node" then "C18:duplicate-name:symlink-and-other-node"
        else "C18:outside-modified:other"
      .specfalse sig s!"{lbl} changed={chg}"
    else .agree true labels

def main : IO Unit := mainLoop handleC18
