import Driver.Common
import Restic.Model.CheckHist
/-!
Driver for C15. One case = one history (`hist`) or one damaged repository (`damaged`).
Records (n = number of the operation inside the history; 0 in `damaged` cases):
  hinit <version>
  op <n> <cmd> <variant> cut <k> <M> <exit> <panic> | op <n> <cmd> <variant> full <m> <M> <exit> <panic>
  ev <n> s|r pack|index|snap|other <id>          recorded successful save / remove, in order
  st <n> ok|unopenable                            abstract state after the operation:
  pk <n> <pack> ok|unreadable <blob>*
  ix <n> <index> ok|unreadable ;  ie <n> <index> <pack> <blob>*
  sn <n> <snap> ok|unloadable <blob>*
  chk <n> <exit> <num_errors> <suggest_repair_index> <suggest_prune> <stderr lines> <panic> <have summary> <hex first line>
-/
open Driver Restic.Model.CheckHist

def sortBy {α : Type} (key : α → String) (l : List α) : List α :=
  l.mergeSort (fun a b => compare (key a) (key b) != .gt)

def normRepo (r : Repo) : Repo :=
  { packs := sortBy (·.1) r.packs,
    idx := sortBy (·.1) (r.idx.map fun ie => (ie.1, sortBy (·.1) ie.2)),
    snaps := sortBy (·.1) r.snaps }

def parseCmd : String → Option Cmd
  | "init" => some .init | "backup" => some .backup | "copy" => some .copy | "recover" => some .recover
  | "forget" => some .forget | "prune" => some .prune | "forgetprune" => some .forgetPrune
  | "tag" => some .tag | "rewrite" => some .rewrite | "repairindex" => some .repairIndex
  | "repairsnapshots" => some .repairSnapshots | "key" => some .key | "migrate" => some .migrate
  | "unlock" => some .unlock
  | _ => none

structure Obs where
  openable : Bool
  repo : Repo
  extra : List Finding      -- unreadable files, mixed packs
deriving Inhabited

def recsOf (c : Case) (key n : String) : List (Array String) :=
  (c.findAll key).toList.filter (·.getD 1 "" == n)

def readObs (c : Case) (n : String) : Obs :=
  let openable := match recsOf c "st" n with | r :: _ => r.getD 2 "" == "ok" | [] => false
  let pks := recsOf c "pk" n
  let packs := pks.filter (·.getD 3 "" == "ok") |>.map fun r => (r.getD 2 "?", r.toList.drop 4)
  let badPacks := pks.filter (·.getD 3 "" != "ok") |>.map fun r => Finding.packDataError (r.getD 2 "?")
  let ixs := recsOf c "ix" n
  let ies := recsOf c "ie" n
  let idx := ixs.filter (·.getD 3 "" == "ok") |>.map fun r =>
    let i := r.getD 2 "?"
    (i, ies.filter (·.getD 2 "" == i) |>.map fun e => (e.getD 3 "?", e.toList.drop 4))
  let badIdx := ixs.filter (·.getD 3 "" != "ok") |>.map fun _ => Finding.indexLoadError
  let sns := recsOf c "sn" n
  let snaps := sns.map fun r => (r.getD 2 "?", r.toList.drop 4)
  let badSn := sns.filter (·.getD 3 "" != "ok") |>.map fun r => Finding.snapshotError (r.getD 2 "?")
  let mixed := idx.flatMap fun ie => ie.2.filterMap fun e =>
    if e.2.any (·.startsWith "t") && e.2.any (·.startsWith "d") then some (Finding.mixed e.1) else none
  { openable, repo := { packs, idx, snaps }, extra := badIdx ++ badPacks ++ badSn ++ mixed }

/-- abstract events of operation `n`; contents of saved files are looked up in the state observed
    after the operation; a file saved and removed again inside the same operation is dropped -/
def readEvents (c : Case) (n : String) (o : Obs) : Except String (List Ev × Nat) := do
  let evs := recsOf c "ev" n
  let rec go (l : List (Array String)) (acc : List Ev) (transient : Nat) : Except String (List Ev × Nat) :=
    match l with
    | [] => pure (acc.reverse, transient)
    | r :: rest =>
      let op := r.getD 2 ""; let ty := r.getD 3 ""; let id := r.getD 4 ""
      let removedLater := rest.any fun x => x.getD 2 "" == "r" && x.getD 3 "" == ty && x.getD 4 "" == id
      if op == "s" then
        match ty with
        | "pack" => match o.repo.packs.find? (·.1 == id) with
          | some q => go rest (.savePack id q.2 :: acc) transient
          | none => if removedLater then go rest acc (transient + 1) else throw s!"saved-pack-not-in-state:{id}"
        | "index" => match o.repo.idx.find? (·.1 == id) with
          | some q => go rest (.saveIndex id q.2 :: acc) transient
          | none => if removedLater then go rest acc (transient + 1) else throw s!"saved-index-not-in-state:{id}"
        | "snap" => match o.repo.snaps.find? (·.1 == id) with
          | some q => go rest (.saveSnap id q.2 :: acc) transient
          | none => if removedLater then go rest acc (transient + 1) else throw s!"saved-snapshot-not-in-state:{id}"
        | _ => go rest (.other :: acc) transient
      else
        match ty with
        | "pack" => go rest (.removePack id :: acc) transient
        | "index" => go rest (.removeIndex id :: acc) transient
        | "snap" => go rest (.removeSnap id :: acc) transient
        | _ => go rest (.other :: acc) transient
  go evs [] 0

def findingKind : Finding → String
  | .incomplete _ => "index-entries-disagree" | .duplicate _ => "duplicate-pack" | .mixed _ => "mixed-pack"
  | .indexLoadError => "index-unloadable" | .packMissing _ => "indexed-pack-missing"
  | .packMismatch _ => "pack-differs-from-index" | .orphan _ => "orphan-pack"
  | .blobMissing _ _ => "referenced-blob-not-indexed" | .snapshotError _ => "snapshot-unloadable"
  | .packDataError _ => "pack-unreadable"

structure Chk where
  exit : Nat
  numErrors : Nat
  hintRepair : Bool
  hintPrune : Bool
  errLines : Nat
  panic : Bool
  haveSummary : Bool

def readChk (c : Case) (n : String) : Option Chk :=
  match recsOf c "chk" n with
  | r :: _ => some { exit := (r.getD 2 "9").toNat!, numErrors := (r.getD 3 "0").toNat!, hintRepair := r.getD 4 "0" == "1",
                     hintPrune := r.getD 5 "0" == "1", errLines := (r.getD 6 "0").toNat!, panic := r.getD 7 "0" == "1",
                     haveSummary := r.getD 8 "0" == "1" }
  | [] => none

/-- compare the model's classification of the observed state with what check said -/
def classifyDiff (o : Obs) (k : Chk) : Option String :=
  let fs := findings o.repo ++ o.extra
  let s := account fs
  if !o.openable then (if k.exit != 0 then none else some "unopenable-but-check-ok")
  else if (k.exit != 0) != s.errorsFound then some s!"exit={k.exit} model-errorsFound={s.errorsFound} findings={(fs.map findingKind).eraseDups}"
  else if k.haveSummary && ((k.numErrors == 0) != (s.numErrors == 0)) && !(fs.any fun f => match f with | .snapshotError _ => true | _ => false)
    then some s!"num_errors={k.numErrors} model={s.numErrors}"
  else if k.haveSummary && k.hintRepair != s.hintRepairIndex then some s!"suggest_repair_index={k.hintRepair} model={s.hintRepairIndex}"
  else if k.haveSummary && k.hintPrune != s.hintPrune && !s.errorsFound then some s!"suggest_prune={k.hintPrune} model={s.hintPrune}"
  else none

structure St where
  repo : Repo := Repo.empty
  labels : List String := []
  nt : Bool := false
  verdict : Option Verdict := none

def stepOp (c : Case) (st : St) (opRec : Array String) : St :=
  if st.verdict.isSome then st else
  let n := opRec.getD 1 "?"
  let cmdS := opRec.getD 2 "?"
  let cut := opRec.getD 4 "" == "cut"
  let tag := s!"{cmdS}:{if cut then "cut" else "full"}"
  match parseCmd cmdS with
  | none => { st with verdict := some (.differ "protocol" s!"unknown-command:{cmdS}") }
  | some cmd =>
    let o := readObs c n
    match readChk c n with
    | none => { st with verdict := some (.differ "protocol" s!"no-chk-record op={n}") }
    | some k =>
      let fs := findings o.repo ++ o.extra
      -- 1. the property on the implementation's own output
      if opRec.getD 8 "0" == "1" then
        { st with verdict := some (.specfalse s!"C15:{cmdS}:command-panicked" s!"op={n}") }
      else if k.panic then
        { st with verdict := some (.specfalse s!"C15:{tag}:check-panicked" s!"op={n}") }
      else if !(specOK k.exit k.numErrors k.errLines) then
        let why := if !o.openable then "repository-unopenable"
          else match fs.find? isError with
            | some f => findingKind f
            | none => "check-error-unexplained"
        { st with verdict := some (.specfalse s!"C15:{tag}:{why}" s!"op={n} exit={k.exit} num_errors={k.numErrors} stderr_lines={k.errLines}") }
      else
      -- 2. the recorded trace is in the command's language
      match readEvents c n o with
      | .error e => { st with verdict := some (.differ "trace" s!"op={n} {tag} {e}") }
      | .ok (evs, transient) =>
        match firstRejected cmd st.repo evs 0 with
        | some (i, guardFailed) =>
          { st with verdict := some (.differ "trace-outside-language"
              s!"op={n} {tag} event#{i}={repr (evs.getD i .other)} {if guardFailed then "guard-false" else "kind-not-allowed"}") }
        | none =>
          -- 3. model state = observed state
          let r' := run st.repo evs
          if normRepo r' != normRepo o.repo then
            let a := normRepo r'; let b := normRepo o.repo
            let only (x y : List String) := x.filter (fun i => !(y.contains i))
            let ids (r : Repo) := r.packs.map (fun q => "pack:" ++ q.1) ++ r.idx.map (fun q => "index:" ++ q.1) ++ r.snaps.map (fun q => "snap:" ++ q.1)
            let changed := (a.packs.filter (fun q => !(b.packs.contains q))).map (fun q => "pack:" ++ q.1) ++
              (a.idx.filter (fun q => !(b.idx.contains q))).map (fun q => "index:" ++ q.1) ++
              (a.snaps.filter (fun q => !(b.snaps.contains q))).map (fun q => "snap:" ++ q.1)
            { st with verdict := some (.differ "state"
                s!"op={n} {tag} only-in-model={only (ids a) (ids b)} only-observed={only (ids b) (ids a)} differing-content={changed}") }
          else
          -- 4. classification
          match classifyDiff o k with
          | some d => { st with verdict := some (.differ "check-classification" s!"op={n} {tag} {d}") }
          | none =>
            let s := account fs
            { st with repo := r',
                      nt := st.nt || (cut && !evs.isEmpty),
                      labels := st.labels ++ [cmdS, tag] ++ (if cut && evs.isEmpty then ["cut-before-first-write"] else []) ++
                        (if transient > 0 then ["transient-file"] else []) ++
                        (if s.hintPrune then ["hint-prune"] else []) ++ (if s.hintRepairIndex then ["hint-repair-index"] else []) ++
                        ((fs.map findingKind).eraseDups) }

def handleC15 (c : Case) : Verdict :=
  if c.stream == "damaged" then
    let o := readObs c "0"
    let kind := (c.find "damage").map (·.getD 1 "?") |>.getD "?"
    match readChk c "0" with
    | none => .differ "protocol" "no-chk-record"
    | some k =>
      if k.panic then .specfalse "C15:damaged:check-panicked" kind else
      match classifyDiff o k with
      | some d => .differ "check-classification" s!"damaged:{kind} {d}"
      | none =>
        let fs := findings o.repo ++ o.extra
        .agree ((account fs).errorsFound) (["damaged", "damage-" ++ kind, if (account fs).errorsFound then "check-error" else "check-ok"] ++
          (fs.map findingKind).eraseDups)
  else
    let ops := (c.findAll "op").toList
    -- `sweep` cases start from a prepared repository (record group 0) instead of the empty one
    let st0 : St := if c.stream == "sweep" then { repo := (readObs c "0").repo } else {}
    let st := ops.foldl (stepOp c) st0
    match st.verdict with
    | some v => v
    | none =>
      let v := (c.find "hinit").map (·.getD 1 "2") |>.getD "2"
      .agree st.nt ([c.stream, s!"v{v}", s!"ops{ops.length}"] ++ st.labels.eraseDups)

def main : IO Unit := mainLoop handleC15
