import Driver.Common
import Restic.Model.RepairIndex
/-!
Driver for C33 (repair index). Records per case (ids are 16-hex-digit prefixes):
  dmg <label>*                       damages applied by the generator (labels only)
  mode default|readall
  thr <n>                            blob-count threshold the harness installed as `index.Full`
  pack <id> <size> ok|bad            stored pack file, result of the real header parser
  ph <pack> <typ> <blob> <off> <len> <ulen>      header entry
  idx <id> ok|bad <nblobs> <keepable>            stored index file
  ie <idx> <pack> <typ> <blob> <off> <len> <ulen>
  res ok|err|panic <hex stderr>
  glitch <n>                         the first load of every pack file delivered one flipped bit (n loads hit)
  tr save|remove index|data|snapshot <id> ok|fail     backend mutations of the command, in order
  postpack <id> <size>
  postidx <id> ok|bad
  pe <idx> <pack> <typ> <blob> <off> <len> <ulen>
-/
open Driver Restic.Model.RepairIndex

namespace C33

def nat (s : String) : Nat := s.toNat?.getD 0

def entryAt (r : Array String) (i : Nat) : Entry :=
  { typ := nat (r.getD i ""), id := r.getD (i+1) "", off := nat (r.getD (i+2) ""),
    len := nat (r.getD (i+3) ""), ulen := nat (r.getD (i+4) "") }

/-- group (key, value) pairs by key, keeping first-occurrence order of keys -/
def groupBy (kvs : List (String × Entry)) : List (String × List Entry) :=
  (kvs.map (·.1)).eraseDups.map fun k => (k, (kvs.filter (·.1 == k)).map (·.2))

def parseRepo (c : Case) : Repo :=
  let ph := (c.findAll "ph").toList.map fun r => (r.getD 1 "", entryAt r 2)
  let packs := (c.findAll "pack").toList.map fun r =>
    let id := r.getD 1 ""
    { id, size := nat (r.getD 2 ""),
      hdr := if r.getD 3 "" == "ok" then some ((ph.filter (·.1 == id)).map (·.2)) else none : PackFile }
  let ie := (c.findAll "ie").toList.map fun r => (r.getD 1 "", (r.getD 2 "", entryAt r 3))
  let idxs := (c.findAll "idx").toList.map fun r =>
    let id := r.getD 1 ""
    { id, keepable := r.getD 4 "0" == "1",
      content := if r.getD 2 "" == "ok" then some (groupBy ((ie.filter (·.1 == id)).map (·.2))) else none : IdxFile }
  { packs, idxs }

def showEntry (pe : ID × Entry) : String :=
  s!"{pe.1}:{pe.2.typ}:{pe.2.id}:{pe.2.off}:{pe.2.len}:{pe.2.ulen}"

def canon (l : List (ID × Entry)) : List String :=
  ((l.map showEntry).eraseDups.toArray.qsort (· < ·)).toList

def sortS (l : List String) : List String := (l.eraseDups.toArray.qsort (· < ·)).toList

def handle (c : Case) : Verdict :=
  let r := parseRepo c
  let readAll := (c.find "mode").map (·.getD 1 "") == some "readall"
  let dmg := match c.find "dmg" with | some d => d.toList.drop 1 | none => []
  let res := (c.find "res").map (·.getD 1 "")
  if res == some "panic" then .specfalse "C33:panic" "repair-index-panicked" else
  if res != some "ok" then .specfalse "C33:command-failed" s!"dmg={dmg} mode={readAll}" else
  -- implementation's own output
  let post : List (ID × Entry) := (c.findAll "pe").toList.map fun r => (r.getD 2 "", entryAt r 3)
  let postPacks := (c.findAll "postpack").toList.map (·.getD 1 "")
  let postIdx := (c.findAll "postidx").toList
  let trace : List TEv := (c.findAll "tr").toList.map fun t =>
    if t.getD 4 "" != "ok" then .other "failed-op"
    else match t.getD 1 "", t.getD 2 "" with
    | "save", "index" => .saveIndex (t.getD 3 "")
    | "remove", "index" => .removeIndex (t.getD 3 "")
    | op, ty => .other s!"{op}-{ty}"
  -- (b) the property predicate on the implementation's output
  if postIdx.any (·.getD 2 "" != "ok") then .specfalse "C33:undecodable-index-left" s!"dmg={dmg}" else
  if !(r.packs.all fun p => postPacks.contains p.id) then
    .specfalse "C33:pack-file-removed" s!"dmg={dmg}" else
  if !(r.packs.all fun p => ((c.findAll "postpack").toList.any fun q => q.getD 1 "" == p.id && nat (q.getD 2 "") == p.size)) then
    .specfalse "C33:pack-file-changed" s!"dmg={dmg}" else
  if !specOK r readAll post postPacks then
    let bad := r.packs.filter fun p =>
      if readAll || !trustedPack r p then !sameSet (entriesOf post p.id) (p.hdr.getD [])
      else !sameSet (entriesOf post p.id) (entriesOf (loadedEntries (r.idxs.filter (·.content.isSome))) p.id)
    let ghost := post.filter fun pe => !(r.packs.map (·.id)).contains pe.1
    let sig :=
      if !ghost.isEmpty then "C33:entry-for-missing-pack"
      else match bad.head? with
        | some p =>
          let glitched := match c.find "glitch" with | some g => g.getD 1 "0" != "0" | none => false
          let twin := r.packs.any fun q => q.id != p.id && p.hdr.isSome && q.hdr == p.hdr
          if glitched && p.hdr.isSome && (entriesOf post p.id).isEmpty then
            "C33:transient-read-fault:readable-pack-missing-from-index"
          else if twin && !readAll && (entriesOf post p.id).isEmpty then
            "C33:twin-packs:entries-of-one-pack-dropped"
          else if p.hdr.isNone then "C33:entry-for-unreadable-pack"
          else if readAll then "C33:readall:index-differs-from-header"
          else if trustedPack r p then "C33:default:trusted-pack-entries-changed-or-wrong"
          else "C33:default:reread-pack-differs-from-header"
        | none => "C33:spec-false"
    .specfalse sig s!"dmg={dmg} pack={(bad.head?.map (·.id)).getD "-"}"
  else if !acceptTrace trace then
    let sig := if trace.any (fun e => match e with | .other _ => true | _ => false)
      then "C33:trace:non-index-mutation" else "C33:trace:index-removed-before-save"
    .specfalse sig s!"dmg={dmg} trace={trace.map fun e => match e with | .saveIndex i => "S:" ++ i | .removeIndex i => "R:" ++ i | .other w => "X:" ++ w}"
  else
  -- (a) the model on the same input
  let m := repairIndex r readAll
  let mEntries := canon m.entries
  let iEntries := canon post
  if mEntries != iEntries then
    .differ "final-entries" s!"dmg={dmg} model={mEntries.length} impl={iEntries.length}" else
  let preIdx := r.idxs.map (·.id)
  let postIdxIds := postIdx.map (·.getD 1 "")
  let implRemoved := sortS (preIdx.filter fun i => !postIdxIds.contains i)
  let traceRemoved := sortS (trace.filterMap fun e => match e with | .removeIndex i => some i | _ => none)
  if implRemoved != traceRemoved then .differ "removed-vs-trace" s!"{implRemoved} {traceRemoved}" else
  -- Which old index files survive depends on the order in which `Rewrite` happens to process
  -- them (map iteration, worker pool) whenever two files share a pack group; the order is not
  -- observable, so the comparison uses the order-independent consequences of the model:
  let pl0 := plan r readAll
  let ex := pl0.removePacks
  let old := pl0.oldIdx
  let grp (f : IdxFile) : IdxContent := groupsOf (f.content.getD []) ex
  let mayKeep (f : IdxFile) : Bool :=
    f.keepable && ((f.content.getD []).map (·.1)).all (fun p => !ex.contains p)
  let shares (f g : IdxFile) : Bool := f.id != g.id && (grp f).any (fun x => (grp g).contains x)
  let mustGo := sortS (pl0.obsolete0 ++ (old.filter (fun f => !mayKeep f)).map (·.id))
  let implKept := old.filter fun f => !implRemoved.contains f.id
  let ambiguous := old.any fun f => old.any fun g => shares f g
  if !(mustGo.all implRemoved.contains) then
    .differ "removed-index-files:must-go-kept" s!"dmg={dmg} must={mustGo} impl={implRemoved}" else
  if !(implKept.all mayKeep) then
    .differ "removed-index-files:kept-not-keepable" s!"dmg={dmg} impl={implRemoved}" else
  if implKept.any (fun f => implKept.any fun g => shares f g) then
    .differ "removed-index-files:kept-files-share-a-pack-group" s!"dmg={dmg} impl={implRemoved}" else
  if (old.filter fun f => mayKeep f && implRemoved.contains f.id).any (fun f => !(old.any fun g => shares f g)) then
    .differ "removed-index-files:up-to-date-file-removed" s!"dmg={dmg} impl={implRemoved}" else
  if !ambiguous && sortS m.removed != implRemoved then
    .differ "removed-index-files" s!"dmg={dmg} model={sortS m.removed} impl={implRemoved}" else
  let orderDep := ambiguous
  let nSaves := (trace.filter fun e => match e with | .saveIndex _ => true | _ => false).length
  let mSaves := (m.trace.filter fun e => match e with | .saveIdx _ => true | _ => false).length
  if !ambiguous && (nSaves == 0) != (mSaves == 0) then .differ "saves" s!"dmg={dmg} model={mSaves} impl={nSaves}" else
  let pl := plan r readAll
  let labels := dmg.eraseDups ++ [if readAll then "readall" else "default"] ++
    (if pl.toRead.isEmpty then [] else ["reread"]) ++
    (if pl.toRead.any (·.hdr.isNone) then ["unreadable-pack"] else []) ++
    (if pl.notFound.isEmpty then [] else ["missing-pack"]) ++
    (if m.kept.isEmpty then [] else ["kept-full-index"]) ++
    (if m.removed.isEmpty then ["nothing-removed"] else []) ++
    (if orderDep then ["order-dependent"] else []) ++
    (if !readAll && !trustedCorrect r then ["trusted-wrong-entry"] else []) ++
    (if r.idxs.any (·.content.isNone) then ["undecodable-index"] else []) ++
    (match c.find "glitch" with | some g => if g.getD 1 "0" == "0" then ["glitch-armed"] else ["transient-read-glitch"] | none => []) ++
    (if r.packs.any (fun p => r.packs.any fun q => p.id != q.id && p.hdr.isSome && p.hdr == q.hdr) then ["twin-packs"] else [])
  .agree (!m.trace.isEmpty) labels

end C33

def main : IO Unit := mainLoop C33.handle
