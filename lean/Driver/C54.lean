import Driver.Common
import Driver.TreeWire
import Restic.Model.Stats
/-!
Driver for C54. Records per case:
  snaps <k>                         number of selected snapshots; their trees have keys 0 … k-1
  n <key> <depth> …                 tree nodes (see Driver/TreeWire.lean)
  out ok <snapshots> <count> <size> | out err <hexmsg> | out panic
  restored <key> <bytes> <entries>  (sub-stream `restore`) what a real restore of snapshot <key>
                                    wrote: bytes of regular files, every inode once; entries created
-/
open Driver Driver.TreeWire Restic.Model.SnapTree Restic.Model.Stats

def handleC54 (c : Case) : Verdict :=
  let k := match c.find "snaps" with | some r => (r.getD 1 "0").toNat! | none => 0
  let snaps := (List.range k).map fun i => treeOf c (toString i)
  let model := runStats snaps
  let allNodes := snaps.flatMap flattenL
  let isWf := snaps.all fun t => wf (flattenL t)
  match c.find "out" with
  | none => .differ "protocol" "no-out-record"
  | some r =>
    if r.getD 1 "" == "panic" then .specfalse "C54:panic" "implementation-panicked" else
    let impl : Option Totals :=
      if r.getD 1 "" == "ok" then
        some { snapshots := (r.getD 2 "0").toNat!, count := (r.getD 3 "0").toNat!, size := (r.getD 4 "0").toNat! }
      else none
    -- property predicate on the implementation's own output
    let specV : Option (String × String) :=
      match impl with
      | none => none
      | some out =>
        if specOK snaps out then none else
          let sig :=
            if out.snapshots != snaps.length then "C54:snapshot-count-wrong"
            else if out.count != (snaps.map fun t => (flattenL t).length).sum then "C54:entry-count-wrong"
            else if allNodes.any (fun n => grouped n) then "C54:size-differs-from-restore:hardlinks"
            else "C54:size-differs-from-restore:no-hardlinks"
          some (sig, s!"out={repr out} restore={(snaps.map restoreBytes).sum}")
    -- a real restore of the same snapshot(s): model of the restorer and stats agree with the bytes on disk
    let restV : Option (String × String) :=
      (c.findAll "restored").toList.findSome? fun rr =>
        let t := treeOf c (rr.getD 1 "0")
        let bytes := (rr.getD 2 "0").toNat!
        let entries := (rr.getD 3 "0").toNat!
        if bytes != restoreBytes t then some ("restore-model", s!"restored={bytes} model={restoreBytes t}")
        else if entries != (flattenL t).length then some ("restore-entries", s!"entries={entries} nodes={(flattenL t).length}")
        else none
    match specV with
    | some (sig, d) => .specfalse sig d
    | none =>
      match restV with
      | some (f, d) =>
        -- stats (checked above against the model of restore) and the real restore disagree
        if k == 1 && isWf && impl.isSome then .specfalse "C54:size-differs-from-real-restore" d else .differ f d
      | none =>
        if model != impl then .differ "result" s!"model={repr model} impl={repr impl}"
        else
          let hl := allNodes.any fun n => grouped n
          let labels :=
            [s!"snaps{min k 3}"] ++ (if hl then ["hardlinks"] else []) ++
            (if allNodes.any (fun n => n.type == .file && n.size == 0) then ["empty-file"] else []) ++
            (if allNodes.any (fun n => n.type == .file && n.links == 0) then ["links0"] else []) ++
            (if allNodes.any (fun n => n.type != .file && n.type != .dir && n.type != .symlink) then ["special"] else []) ++
            (if isWf then ["wf"] else ["non-wf"]) ++
            (if (c.find "restored").isSome then ["real-restore"] else []) ++
            (match model with | none => ["walk-error"] | some _ => ["ok"]) ++
            (if snaps.any (fun t => depthL t > 2) then ["deep"] else [])
          .agree (model.isSome && hl) labels

def main : IO Unit := mainLoop handleC54
