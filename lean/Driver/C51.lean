import Driver.Common
import Restic.Model.SelfUpdate
/-!
Driver for C51.
`findhash` cases:  sums <hex>, name <hex>, res ok <hex hash> | res err notfound|badhex|other | res panic
`chain` cases:
  class <label> <labels>
  cur <hex> ; suffix <hex>
  latest none | latest some <hex version> ; asset <hex name> <hex url> (in release order)
  fetch <hex url> ok <hex body> <sha256 hex> | fetch <hex url> err
  gpg error|true|false|na          ORACLE: the real GPGVerify on the served sums / signature
  sigvalid 0/1                     ground truth by construction: signed by the embedded key over exactly the served list
  extract <hex url> failed | extract <hex url> installed <hex content>   ORACLE: bzip2 decompression
  res ok <hex version> | res err <class> <hex msg> | res panic <hex>
  target <changed 0/1> <hex content after> | target missing
  leftovers <n>
-/
open Driver Restic.Model.SelfUpdate

def bytesOf (t : String) : Bytes := (unhex t).getD []

def handleFindHash (c : Case) : Verdict :=
  let sums := bytesOf ((c.find "sums").map (·.getD 1 "-") |>.getD "-")
  let name := bytesOf ((c.find "name").map (·.getD 1 "-") |>.getD "-")
  let m := findHash sums name
  match c.find "res" with
  | none => .differ "protocol" "no-res"
  | some r =>
    if r.getD 1 "" == "panic" then .specfalse "C51:findhash:panic" "" else
    let impl : Option HashResult :=
      if r.getD 1 "" == "ok" then some (.ok (bytesOf (r.getD 2 "-")))
      else if r.getD 2 "" == "notfound" then some .notFound
      else if r.getD 2 "" == "badhex" then some .badHex else none
    if impl != some m then .differ "findHash" s!"model={repr m} impl={r.toList.drop 1}"
    else
      let lbl := match m with | .ok _ => "found" | .badHex => "bad-hex" | .notFound => "not-found"
      let long := (splitLinesAux sums []).any (·.length ≥ maxScanTokenSize)
      .agree (m != .notFound) ([ "findhash", lbl] ++ (if long then ["over-long-line"] else []))

def handleChain (c : Case) : Verdict :=
  let cls := (c.find "class").map (·.getD 1 "?") |>.getD "?"
  let cur := bytesOf ((c.find "cur").map (·.getD 1 "-") |>.getD "-")
  let suffix := bytesOf ((c.find "suffix").map (·.getD 1 "-") |>.getD "-")
  let assets : List Asset := (c.findAll "asset").toList.map fun r => ⟨bytesOf (r.getD 1 "-"), bytesOf (r.getD 2 "-")⟩
  let latest : Option (Bytes × List Asset) := match c.find "latest" with
    | some r => if r.getD 1 "" == "some" then some (bytesOf (r.getD 2 "-"), assets) else none
    | none => none
  let fetches := (c.findAll "fetch").toList
  let fetch : Bytes → Option Bytes := fun u =>
    match fetches.find? (fun r => bytesOf (r.getD 1 "-") == u) with
    | some r => if r.getD 2 "" == "ok" then some (bytesOf (r.getD 3 "-")) else none
    | none => none
  let shaTable : List (Bytes × Bytes) := fetches.filterMap fun r =>
    if r.getD 2 "" == "ok" then some (bytesOf (r.getD 3 "-"), bytesOf (r.getD 4 "-")) else none
  let sha : Bytes → Bytes := fun d => (shaTable.find? (·.1 == d)).map (·.2) |>.getD []
  let gpgTok := (c.find "gpg").map (·.getD 1 "na") |>.getD "na"
  let gpgR : GpgResult := if gpgTok == "true" then .ok true else if gpgTok == "false" then .ok false else .error
  let sigValid := (c.find "sigvalid").map (·.getD 1 "0" == "1") |>.getD false
  let extracts := (c.findAll "extract").toList
  let extract : Bytes → Bytes → Extract := fun buf _ =>
    -- the oracle is keyed by url; find the url whose body is buf
    match fetches.find? (fun r => r.getD 2 "" == "ok" && bytesOf (r.getD 3 "-") == buf) with
    | some fr =>
      match extracts.find? (fun e => e.getD 1 "" == fr.getD 1 "") with
      | some e => if e.getD 2 "" == "installed" then .installed (bytesOf (e.getD 3 "-")) else .failed
      | none => .failed
    | none => .failed
  let env : Env := { latest, fetch, gpgVerify := fun _ _ => gpgR, sha256 := sha, extract, suffix }
  let m := download env cur
  match c.find "res", c.find "target" with
  | some r, some t =>
    if r.getD 1 "" == "panic" then .specfalse "C51:chain:panic" cls else
    if t.getD 1 "" == "missing" then .specfalse s!"C51:target-removed:{cls}" "" else
    let changed := t.getD 1 "0" == "1"
    let after := bytesOf (t.getD 2 "-")
    -- the property on the implementation's own output
    let served : Option (Bytes × Bytes × Bytes) :=       -- sums, archive name, archive bytes
      match latest with
      | none => none
      | some (_, as) =>
        match getFile env as sumsName, getFile env as suffix with
        | some (_, s), some (n, b) => some (s, n, b)
        | _, _ => none
    let listed : Option Bytes := match served with
      | some (s, n, _) => (match findHash s n with | .ok d => some d | _ => none)
      | none => none
    let archHash : Bytes := match served with | some (_, _, b) => sha b | none => []
    if !(specOK changed sigValid listed archHash) then
      .specfalse (if !sigValid then s!"C51:installed-without-valid-signature:{cls}" else s!"C51:installed-with-unlisted-or-wrong-hash:{cls}")
        s!"class={cls}"
    else if sigValid && gpgR != .ok true && gpgTok != "na" then .differ "gpg-oracle" s!"valid-signature-rejected:{cls}"
    else if !sigValid && gpgR == .ok true then .specfalse s!"C51:gpg-accepts-invalid-signature:{cls}" ""
    else if ((c.find "leftovers").map (·.getD 1 "0") |>.getD "0") != "0" then .specfalse s!"C51:temp-file-left-behind:{cls}" ""
    else
    -- model vs implementation
    let implErr := r.getD 1 "" == "err"
    if m.err != implErr then .differ "result" s!"class={cls} model={repr m.stage} err={m.err} impl={r.toList.take 3}"
    else if m.written.isSome != changed then .differ "target" s!"class={cls} model-written={m.written.isSome} changed={changed}"
    else if changed && m.written != some after then .differ "content" s!"class={cls}"
    else
      let expected := match m.stage with
        | .release | .sums | .signature | .archive => "fetch"
        | .gpgError | .gpgFalse => "gpg"
        | .hashLookup => "hash-lookup" | .hashMismatch => "hash-mismatch" | .extract => "extract"
        | .upToDate | .done => "-"
      let ec := if implErr then r.getD 2 "other" else "-"
      if implErr && ec != expected && !(ec == "other" && (expected == "gpg" || expected == "extract")) then
        .differ "stage" s!"class={cls} model={expected} impl={ec}"
      else if !implErr && m.stage == .done && bytesOf (r.getD 2 "-") != (latest.map (·.1)).getD [] then
        .differ "version" cls
      else
        .agree (latest.isSome && m.stage != .upToDate) (["chain", cls, s!"stage-{repr m.stage}"] ++ (if changed then ["installed"] else ["unchanged"]))
  | _, _ => .differ "protocol" "no-res-or-target"

def handleC51 (c : Case) : Verdict :=
  if c.stream == "findhash" then handleFindHash c else handleChain c

def main : IO Unit := mainLoop handleC51
