import Driver.Common
import Restic.Model.Pack
/-!
Driver for C06. Sub-streams and their records (byte strings hex):

rt     add <type> <id> <data> <ulen> <ret>     one per Packer.Add (ret = Add's return value)
       fin ok | err <class> | panic            Packer.Finalize
       file <hex>                               everything the packer wrote
       psize <n>   calc <n>                     Packer.Size(), CalculateHeaderSize(Blobs())
       opn <nonce> <ct> ok <plain> | err        oracle: crypto.Key.Open on the trailer region
       list ok <hdrSize> | err <class> | panic ; ent <type> <id> <len> <off> <ulen> (one per entry)
mut    file, size <claimed size>, opn, list/ent, expect same|reject|none, ohdr <n>, oent … (original listing)
craft  file, size, opn, list/ent, expect same|reject, ohdr, oent (entries the harness encoded)
fin    blob <type> <id> <len> <off> <ulen> (packer content), seal <nonce> <plain> <ct> (oracle),
       opn, fin ok|err <class>|panic, mk ok <hex>|err (shim makeHeader)
bound  run <count> <type> <ulen> <idbyte>, fin ok|err <class>, lsum <count> <hdrSize> <checksum> | lerr <class>,
       full <n> <0/1> (HeaderFull with n blobs)
-/
open Driver Restic.Model.Pack Restic.Gen

def errName : Err → String
  | .fileTooShort => "fileTooShort" | .hlenZero => "hlenZero" | .hlenTooShort => "hlenTooShort"
  | .hlenLargerThanFile => "hlenLargerThanFile" | .hlenLargerThanMax => "hlenLargerThanMax"
  | .readAt => "readAt" | .headerTooShort => "headerTooShort" | .openFailed => "openFailed"
  | .entryShort => "entryShort" | .invalidType => "invalidType" | .invalidBlobType => "invalidBlobType"
  | .verifyDecode => "verifyDecode" | .verifySize => "verifySize" | .verifyCount => "verifyCount"
  | .verifyEntry => "verifyEntry"

def allErrs : List Err := [.fileTooShort, .hlenZero, .hlenTooShort, .hlenLargerThanFile, .hlenLargerThanMax,
  .readAt, .headerTooShort, .openFailed, .entryShort, .invalidType, .invalidBlobType, .verifyDecode,
  .verifySize, .verifyCount, .verifyEntry]

def errOfName (s : String) : Option Err := allErrs.find? (fun e => errName e == s)

def blobStr (b : Blob) : String := s!"({b.type},{hex (b.id.take 4)},len={b.length},off={b.offset},ulen={b.ulen})"

def listStr : Res (List Blob × Nat) → String
  | .ok (es, h) => s!"ok:hdr={h}:n={es.length}:" ++ ",".intercalate ((es.take 6).map blobStr)
  | .err e => s!"err:{errName e}"
  | .panic => "panic"

def nat (r : Array String) (i : Nat) : Nat := (r.getD i "0").toNat!
def bytesAt (r : Array String) (i : Nat) : Bytes := (unhex (r.getD i "-")).getD []

def blobOf (r : Array String) : Blob :=
  { type := nat r 1, id := bytesAt r 2, length := nat r 3, offset := nat r 4, ulen := nat r 5 }

/-- what `List` returned according to the `list` / `ent` records -/
def implList (c : Case) : Option (Res (List Blob × Nat)) :=
  match c.find "list" with
  | none => none
  | some r =>
    match r.getD 1 "" with
    | "ok" => some (.ok ((c.findAll "ent").toList.map blobOf, nat r 2))
    | "panic" => some .panic
    | "err" => (errOfName (r.getD 2 "")).map .err
    | _ => none

/-- the cipher as a finite table: `opn` records (nonce, ct ↦ plain) and `seal` records -/
def cryptoOf (c : Case) : Crypto :=
  let opns : List (Bytes × Bytes × Option Bytes) := (c.findAll "opn").toList.map fun r =>
    (bytesAt r 1, bytesAt r 2, if r.getD 3 "" == "ok" then some (bytesAt r 4) else none)
  let seals : List (Bytes × Bytes × Bytes) := (c.findAll "seal").toList.map fun r => (bytesAt r 1, bytesAt r 2, bytesAt r 3)
  { openB := fun n ct =>
      match opns.find? (fun e => e.1 == n && e.2.1 == ct) with
      | some e => e.2.2
      | none => match seals.find? (fun e => e.1 == n && e.2.2 == ct) with
        | some e => some e.2.1
        | none => none
    sealB := fun n p =>
      match seals.find? (fun e => e.1 == n && e.2.1 == p) with
      | some e => e.2.2
      | none => match opns.find? (fun e => e.1 == n && e.2.2 == some p) with
        | some e => e.2.1
        | none => [0xde, 0xad] }

def finRes (c : Case) : Option (Res Unit) :=
  match c.find "fin" with
  | none => none
  | some r =>
    match r.getD 1 "" with
    | "ok" => some (.ok ())
    | "panic" => some .panic
    | "err" => (errOfName (r.getD 2 "")).map .err
    | _ => none

def resClass {α : Type} : Res α → String
  | .ok _ => "ok" | .err e => s!"err:{errName e}" | .panic => "panic"

def sizeLabel (n : Nat) : String :=
  if n = 0 then "n0" else if n = 1 then "n1" else if n ≤ pack_eagerEntries then "n-eager"
  else if n ≤ 50 then "n-mid" else "n-large"

/-- roundtrip case -/
def handleRt (c : Case) : Verdict :=
  let adds := (c.findAll "add").toList
  let calls : List (Nat × Bytes × Bytes × Nat) := adds.map fun r => (nat r 1, bytesAt r 2, bytesAt r 3, nat r 4)
  let k := cryptoOf c
  let file := match c.find "file" with | some r => bytesAt r 1 | none => []
  match finRes c with
  | none => .differ "protocol" "no-fin"
  | some .panic => .specfalse "C06:finalize:panic" "Finalize-panicked"
  | some fin =>
  let p := calls.foldl (fun (p : Packer) a => p.add a.1 a.2.1 a.2.2.1 a.2.2.2) {}
  -- Add's return values
  let retBad := (adds.zip calls).find? fun (r, a) => nat r 5 != addResult a.2.2.1 a.2.2.2
  if retBad.isSome then .differ "add-return" s!"{(retBad.map fun x => x.1.toList).getD []}" else
  -- the property on the implementation's own output
  let specAdds := calls.map fun a => (a.1, a.2.1, a.2.2.1.length, a.2.2.2)
  if !specFinalize p.blobs (fin == .ok ()) then
    .specfalse (if fin == .ok () then "C06:finalize:accepted-unrepresentable" else "C06:finalize:rejected-representable")
      s!"blobs={(p.blobs.take 5).map blobStr} fin={resClass fin}"
  else match fin with
  | .ok () =>
    match implList c with
    | none => .differ "protocol" "no-list"
    | some .panic => .specfalse "C06:list:panic:genuine-pack" "List-panicked"
    | some (.err e) => .specfalse s!"C06:list:genuine-pack-rejected:{errName e}" s!"n={calls.length}"
    | some (.ok (es, hs)) =>
      if !specListing specAdds file.length es hs then
        let what := if es != expectedListing 0 specAdds then "listing-differs" else "header-size-wrong"
        .specfalse s!"C06:list:{what}:{sizeLabel calls.length}" s!"impl={listStr (.ok (es, hs))} filelen={file.length}"
      else
        -- model: nonce is what the implementation drew (first bytes of the trailer)
        let trailer := file.drop p.bytes
        let nonce := trailer.take crypto_ivSize
        match p.finalize k nonce with
        | .ok p' =>
          if p'.out != file then .differ "file" s!"model-out-len={p'.out.length} file-len={file.length}"
          else if (match c.find "psize" with | some r => nat r 1 != p'.bytes | none => false) then .differ "psize" s!"model={p'.bytes}"
          else if (match c.find "calc" with | some r => nat r 1 != calculateHeaderSize p.blobs | none => false) then .differ "calc" s!"model={calculateHeaderSize p.blobs}"
          else
            let ml := list k file file.length
            if ml != .ok (es, hs) then .differ "list" s!"model={listStr ml} impl={listStr (.ok (es, hs))}"
            else
              let comp := calls.any (fun a => a.2.2.2 != 0)
              let plain := calls.any (fun a => a.2.2.2 == 0)
              .agree true (["rt", "fin-ok", sizeLabel calls.length] ++ (if comp && plain then ["mixed"] else if comp then ["all-compressed"] else ["all-plain"]) ++
                (if calls.any (fun a => a.2.2.1.isEmpty) then ["has-empty-blob"] else []))
        | r => .differ "finalize" s!"model={resClass r} impl=ok"
  | _ =>
    -- the implementation refused; the model must refuse with the same class
    let nonce := match c.find "seal" with | some r => bytesAt r 1 | none => List.replicate crypto_ivSize 1
    let m := finalize k nonce p.blobs
    let mU : Res Unit := match m with | .ok _ => .ok () | .err e => .err e | .panic => .panic
    if mU != fin then .differ "finalize" s!"model={resClass m} impl={resClass fin}"
    else .agree false ["rt", s!"fin-{resClass fin}", sizeLabel calls.length]

def expectOf (c : Case) : Option (Option (List Blob × Nat)) :=
  match c.find "expect" with
  | none => none
  | some r =>
    match r.getD 1 "" with
    | "same" => some (some ((c.findAll "oent").toList.map blobOf, match c.find "ohdr" with | some h => nat h 1 | none => 0))
    | "reject" => some none
    | _ => none

/-- mutated / crafted file -/
def handleFile (c : Case) (tag : String) : Verdict :=
  let k := cryptoOf c
  let file := match c.find "file" with | some r => bytesAt r 1 | none => []
  let size := match c.find "size" with | some r => nat r 1 | none => file.length
  let kind := match c.find "kind" with | some r => r.getD 1 "?" | none => "?"
  match implList c with
  | none => .differ "protocol" "no-or-unclassified-list-record"
  | some got =>
    if got == .panic then .specfalse s!"C06:list:panic:{tag}:{kind}" s!"size={size} filelen={file.length}" else
    let specBad := match expectOf c with
      | some e => !specMalformed e got
      | none => false
    if specBad then
      let what := match got with | .ok _ => "malformed-pack-listed" | _ => "intact-pack-rejected"
      .specfalse s!"C06:list:{what}:{tag}:{kind}" s!"impl={listStr got}"
    else
      let ml := list k file size
      if ml != got then .differ "list" s!"model={listStr ml} impl={listStr got} kind={kind}"
      else .agree (file.length ≥ pack_minFileSize) [tag, s!"kind-{kind}", s!"list-{resClass got}"]

/-- Finalize on packer contents set through the shim -/
def handleFin (c : Case) : Verdict :=
  let k := cryptoOf c
  let bs := (c.findAll "blob").toList.map blobOf
  let kind := match c.find "kind" with | some r => r.getD 1 "?" | none => "?"
  match finRes c with
  | none => .differ "protocol" "no-fin"
  | some .panic => .specfalse s!"C06:finalize:panic:{kind}" "Finalize-panicked"
  | some fin =>
    if !specFinalize bs (fin == .ok ()) then
      .specfalse (if fin == .ok () then s!"C06:finalize:accepted-unrepresentable:{kind}" else s!"C06:finalize:rejected-representable:{kind}")
        s!"blobs={(bs.take 5).map blobStr} fin={resClass fin}"
    else
      let mkBad := match c.find "mk" with
        | some r => (if r.getD 1 "" == "ok" then some (bytesAt r 2) else none) != makeHeader bs
        | none => false
      if mkBad then .differ "makeHeader" s!"model={(makeHeader bs).map hex}" else
      let nonce := match c.find "seal" with | some r => bytesAt r 1 | none => List.replicate crypto_ivSize 1
      let m := finalize k nonce bs
      let mU : Res Unit := match m with | .ok _ => .ok () | .err e => .err e | .panic => .panic
      if mU != fin then .differ "finalize" s!"model={resClass m} impl={resClass fin} kind={kind}"
      else .agree true ["fin", s!"kind-{kind}", s!"fin-{resClass fin}"]

def csumStep (acc : Nat) (b : Blob) : Nat :=
  (acc * 1000003 + b.type * 7 + b.length * 3 + b.offset * 11 + b.ulen * 5 + (b.id.foldl (fun s x => s + x.toNat) 0)) % 2147483647

/-- boundary runs: `count` identical blobs; the model side uses the closed form of `finalize`/`list`
proved in `Props.C06` (`list_finalize`, `finalize_overfull`): representable ⇒ listing = blobs added. -/
def handleBound (c : Case) : Verdict :=
  let fullBad := (c.findAll "full").toList.find? fun r => (r.getD 2 "" == "1") != headerFull (nat r 1)
  match fullBad with
  | some r => .differ "headerFull" s!"n={nat r 1} impl={r.getD 2 ""} model={headerFull (nat r 1)}"
  | none =>
  match c.find "run" with
  | none => if (c.findAll "full").isEmpty then .differ "protocol" "no-run" else
      .agree true ["bound", "headerFull-table"]
  | some r =>
    let count := nat r 1; let ty := nat r 2; let ulen := nat r 3; let idb := UInt8.ofNat (nat r 4)
    let esz := if ulen ≠ 0 then pack_entrySize else pack_plainEntrySize
    let hdr := pack_headerSize + count * esz
    let repr := count ≠ 0 && (ty == restic_DataBlob || ty == restic_TreeBlob) && ulen < 4294967296 && hdr ≤ pack_MaxHeaderSize
    match finRes c with
    | none => .differ "protocol" "no-fin"
    | some .panic => .specfalse "C06:finalize:panic:boundary" "Finalize-panicked"
    | some fin =>
      if (fin == .ok ()) != repr then
        .specfalse (if fin == .ok () then "C06:finalize:accepted-unrepresentable:boundary" else "C06:finalize:rejected-representable:boundary")
          s!"count={count} ulen={ulen} hdr={hdr} max={pack_MaxHeaderSize}"
      else if !repr then
        let want : Res Unit := if count = 0 ∨ hdr > pack_MaxHeaderSize then .err .verifyDecode else .err .invalidBlobType
        if fin != want then .differ "finalize" s!"model={resClass want} impl={resClass fin}"
        else .agree true ["bound", s!"fin-{resClass fin}", if hdr > pack_MaxHeaderSize then "over-limit" else "other"]
      else
        match c.find "lsum" with
        | none => .specfalse "C06:list:genuine-pack-rejected:boundary" s!"count={count}"
        | some l =>
          let id := List.replicate restic_idSize idb
          let expSum := (List.range count).foldl (fun acc i => csumStep acc { type := ty, id := id, length := 0, offset := 0 * i, ulen := ulen }) 0
          if nat l 1 != count || nat l 2 != hdr || nat l 3 != expSum then
            .specfalse "C06:list:listing-differs:boundary" s!"count={count} impl-count={nat l 1} hdr={hdr} impl-hdr={nat l 2}"
          else .agree true ["bound", "fin-ok", if hdr + pack_entrySize > pack_MaxHeaderSize then "at-limit" else "below-limit",
                 if ulen ≠ 0 then "all-compressed" else "all-plain"]

def handleC06 (c : Case) : Verdict :=
  match c.stream with
  | "rt" => handleRt c
  | "mut" => handleFile c "mut"
  | "craft" => handleFile c "craft"
  | "fin" => handleFin c
  | "bound" => handleBound c
  | s => .differ "protocol" s!"unknown-substream:{s}"

def main : IO Unit := mainLoop handleC06
