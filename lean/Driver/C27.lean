import Driver.FilterTables
/-!
Driver for C27 (one case = one `restic rewrite` run with pattern flags on a small snapshot).
  node <hex path> f|d|o <size>        listing of the original snapshot (restic ls)
  ex|iex|in|iin <hex pattern>         flag values in command line order
  clean / glob                        stdlib oracle tables (see Driver/C28)
  osummary <files> <bytes>            summary counts of the original snapshot
  res fatal <msg> | res panic | res unchanged <count_same> | res changed <original_ok> <count_plus_one>
  new <hex path> f|d|o <size>         listing of the new snapshot
  summary <files> <bytes>             summary counts of the new snapshot
-/
open Driver Driver.FT Restic.Model.Filter Restic.Model.Select

def entryKey (e : Entry) : String := s!"{e.path.map showStr}:{e.isDir}:{e.isFile}:{e.size}:{e.sock}"

def handleC27 (c : Case) : Verdict := Id.run do
  let tabs := tablesOf c
  if let some v := tabs.lawViolation then return .differ "oracle-law" v
  let glob := tabs.globF
  let root := treeOf c "node"
  let fl ← match flagsOf c tabs with
    | .ok f => pure f
    | .error e => return .differ "oracle" e
  let comps := compsOfTree root
  if !(tabs.covers (fl.allPatterns tabs) comps) then return .differ "oracle" "missing-glob-entry"
  let osum : Option Stats := (c.find "osummary").map fun r => ⟨(r.getD 1 "0").toNat!, (r.getD 2 "0").toNat!⟩
  let model := runRewrite glob fl.nEx fl.nIn fl.allValid fl.exLists fl.inLists root osum
  let includeMode := fl.nIn > 0
  let bad (p : List Str) : Bool := !exSelect glob fl.exLists p
  let matched (p : List Str) : Bool := inSelectDir glob fl.inLists p
  let eo := entries [] root
  let anyHit := if includeMode then eo.any (fun e => matched e.path) || matched [] else eo.any (fun e => bad e.path)
  let labels : List String := [if includeMode then "include" else "exclude"] ++
    (if (fl.exLists ++ fl.inLists).any (·.insensitive) then ["insensitive"] else []) ++
    (if (fl.exLists ++ fl.inLists).any (fun l => l.pats.any (·.negated)) then ["negated"] else []) ++
    (if (fl.exLists ++ fl.inLists).any (fun l => l.pats.any (fun p => countDW p.parts > 0)) then ["dw"] else []) ++
    (if (fl.exLists ++ fl.inLists).any (fun l => l.pats.any (fun p => p.parts.head?.map (·.pat) == some slash)) then ["abs"] else ["rel-only"]) ++
    (if anyHit then ["some-match"] else ["no-match"]) ++ [s!"entries{min (eo.length / 4 * 4) 16}"]
  match c.find "res" with
  | none => return .differ "protocol" "no-res-record"
  | some r =>
    let kind := r.getD 1 ""
    if kind == "panic" then return .specfalse "C27:panic" "rewrite panicked"
    if kind == "fatal" then
      match model with
      | .fatal => return .agree false (labels ++ ["fatal"])
      | _ => return .differ "result" s!"model accepts, impl fatal {(unhexStr (r.getD 2 "-")).getD ""}"
    if fl.nEx > 0 && fl.nIn > 0 then return .specfalse "C27:options:include-and-exclude-accepted" ""
    if !fl.allValid then return .specfalse "C27:options:invalid-pattern-accepted" ""
    if kind == "unchanged" then
      -- spec: unchanged only when nothing is removed (exclude) / nothing at all is selected or
      -- everything is kept (include)
      if r.getD 2 "1" != "1" then return .specfalse "C27:unchanged:snapshot-count-changed" ""
      if !includeMode && anyHit then return .specfalse "C27:unchanged:but-entries-match-exclude" ""
      match model with
      | .unchanged => return .agree false (labels ++ ["unchanged"])
      | .fatal => return .differ "result" "model fatal, impl unchanged"
      | .changed t _ => return .differ "result" s!"model changed ({(entries [] t).length} entries), impl unchanged"
    -- changed
    let newT := treeOf c "new"
    let en := entries [] newT
    if r.getD 2 "1" != "1" then return .specfalse "C27:changed:original-id-wrong" ""
    if r.getD 3 "1" != "1" then return .specfalse "C27:changed:snapshot-count" ""
    let nsum : Option Stats := (c.find "summary").map fun r => ⟨(r.getD 1 "0").toNat!, (r.getD 2 "0").toNat!⟩
    if includeMode then
      if !specIncludeOK matched root newT then
        let sig := if en.any (fun e => !eo.contains e) then "C27:include:entry-invented-or-altered"
          else if eo.any (fun e => !e.isDir && matched e.path && !en.contains e) then "C27:include:matching-entry-lost"
          else if en.any (fun e => !e.isDir && !matched e.path) then "C27:include:non-matching-entry-kept"
          else "C27:include:wrong-directories"
        return .specfalse sig s!"orig={eo.map entryKey} new={en.map entryKey}"
    else
      if !specExcludeOK bad root newT then
        let sig := if en.any (fun e => !eo.contains e) then "C27:exclude:entry-invented-or-altered"
          else if en.any (fun e => bad e.path) then "C27:exclude:matching-entry-kept"
          else "C27:exclude:non-matching-entry-lost"
        return .specfalse sig s!"orig={eo.map entryKey} new={en.map entryKey}"
      if !anyHit && osum.isSome && nsum == osum then
        return .specfalse "C27:exclude:nothing-matches-but-snapshot-rewritten" ""
    match nsum with
    | none => return .specfalse "C27:summary:missing" ""
    | some st =>
      if !specSummaryOK newT st then
        return .specfalse "C27:summary:counts-differ-from-tree" s!"summary={st.count},{st.size} files={(files [] newT).length}"
    match model with
    | .changed t st =>
      if entries [] t != en then return .differ "tree" s!"model={(entries [] t).map entryKey} impl={en.map entryKey}"
      if some st != nsum then return .differ "summary" s!"model={st.count},{st.size}"
      return .agree true (labels ++ ["changed"] ++ (if en.length < eo.length then ["removed-some"] else ["removed-none"]))
    | .unchanged => return .differ "result" "model unchanged, impl changed"
    | .fatal => return .differ "result" "model fatal, impl changed"

def main : IO Unit := mainLoop handleC27
