import Driver.Common
import Restic.Model.Chunk
import Restic.Model.Rabin
/-!
Driver for C17 (records: see harness/main/c17.go). For every run (one worker = one chunker + one
chunk state, several files in turn) the model `Chunk.worker` instantiated with the Lean
transcription of the chunker library (`Rabin.splitter`) predicts the chunk lists; the executable
statement (`specOK`/`sizesOK`, independence of read pattern / buffer size / previous files, edit
locality) is evaluated on the implementation's own chunk lists.
-/
open Driver Restic.Model.Chunk Restic.Model

/-- data PRNG shared with harness/main/c17.go `c17Xorshift` -/
def xorshiftBytes (seed : UInt64) (n : Nat) : List UInt8 :=
  let rec go (n : Nat) (x : UInt64) (acc : List UInt8) : List UInt8 :=
    match n with
    | 0 => acc.reverse
    | n + 1 =>
      let x := x ^^^ (x <<< 13)
      let x := x ^^^ (x >>> 7)
      let x := x ^^^ (x <<< 17)
      go n x ((x >>> 32).toUInt8 :: acc)
  go n (seed ||| 1) []

def segBytes (tok : String) : List UInt8 :=
  match tok.splitOn ":" with
  | ["z", n] => List.replicate n.toNat! 0
  | ["p", pat, n] =>
    let p := ((unhex pat).getD []).toArray
    if p.size == 0 then [] else (List.range n.toNat!).map fun i => p[i % p.size]!
  | ["r", seed, n] => xorshiftBytes (UInt64.ofNat seed.toNat!) n.toNat!
  | _ => []

inductive ImplOut
  | chunks (cs : List Bytes)
  | sizes (concatOK : Bool) (ss : List Nat)
  | error
deriving Inhabited

def ImplOut.sizesOf : ImplOut → List Nat
  | .chunks cs => cs.map List.length
  | .sizes _ ss => ss
  | .error => []

def ImplOut.same : ImplOut → ImplOut → Bool
  | .chunks a, .chunks b => a == b
  | .sizes _ a, .sizes _ b => a == b
  | .error, .error => true
  | _, _ => false

def outToImpl (o : Out) (asSizes : Bool) : Option ImplOut :=
  match o with
  | .ok cs => some (if asSizes then .sizes true (cs.map List.length) else .chunks cs)
  | .error => some .error
  | _ => none

def sizeLabels (min max : Nat) (ss : List Nat) : List String :=
  let nb := allButLast ss
  (if ss.length == 0 then ["chunks0"] else if ss.length == 1 then ["chunks1"] else if ss.length ≤ 4 then ["chunks2-4"] else ["chunks5+"]) ++
  (if nb.any (· == min) then ["cut-at-min"] else []) ++
  (if nb.any (· == max) then ["cut-at-max"] else []) ++
  (if nb.any (fun s => min < s && s < max) then ["cut-natural"] else []) ++
  (match ss.getLast? with | some l => (if l == max then ["last-eq-max"] else []) ++ (if l < min then ["last-below-min"] else []) | none => [])

def bufLabel (b : Nat) : String :=
  if b == 1 then "buf1" else if b < 64 then "buf<64" else if b ≤ 513 then "buf64-513" else if b == 524288 then "buf512K" else "buf4096"

def handleC17 (c : Case) : Verdict :=
  match c.find "cfg" with
  | none => .differ "protocol" "no-cfg"
  | some cfgr =>
  let pol := UInt64.ofNat (cfgr.getD 1 "0").toNat!
  let minS := (cfgr.getD 2 "0").toNat!
  let maxS := (cfgr.getD 3 "0").toNat!
  let bits := (cfgr.getD 4 "0").toNat!
  let cfg := Rabin.mkCfg pol minS maxS bits
  let sp := Rabin.splitter cfg
  -- files
  let fileRecs := (c.findAll "file").toList.map (fun r => ((r.getD 1 "0").toNat!, (unhex (r.getD 2 "-")).getD [])) ++
    (c.findAll "filed").toList.map (fun r => ((r.getD 1 "0").toNat!, (r.toList.drop 2).flatMap segBytes))
  let nfiles := fileRecs.length
  let fileOf (i : Nat) : Bytes := ((fileRecs.find? (·.1 == i)).map (·.2)).getD []
  let fails := (c.findAll "fail").toList.map fun r => (r.getD 1 "0").toNat!
  let files := (List.range nfiles).map fileOf
  let readers := (List.range nfiles).map fun i => ({ data := fileOf i, failAtEnd := fails.contains i } : Reader)
  if (c.findAll "panic").size > 0 then .specfalse "C17:panic" "implementation-panicked" else
  if (c.findAll "hang").size > 0 then .specfalse "C17:concurrent-workers-do-not-finish" "file savers blocked" else
  let concRuns := (c.findAll "conc").toList.map fun r => (r.getD 1 "0").toNat!
  let runs := (c.findAll "run").toList
  let outs := (c.findAll "out").toList
  let implOut (r i : Nat) : Option ImplOut :=
    match outs.find? (fun o => (o.getD 1 "").toNat! == r && (o.getD 2 "").toNat! == i) with
    | none => none
    | some o =>
      match o.getD 3 "" with
      | "ok" => some (.chunks ((o.toList.drop 4).map fun t => (unhex t).getD []))
      | "sizes" => some (.sizes (o.getD 4 "0" == "1") ((o.toList.drop 5).map String.toNat!))
      | _ => some .error
  -- per run: spec on the implementation's output, then model vs implementation
  let perRun : List (Option Verdict × List String) := runs.map fun rr =>
    let r := (rr.getD 1 "0").toNat!
    let bufSize := (rr.getD 2 "1").toNat!
    let dirty := rr.getD 3 "0" == "1"
    let cs0 : CState := if dirty then { buf := [7, 7, 7], bpos := 1, closed := true } else { buf := [], bpos := 0, closed := false }
    let impls := (List.range nfiles).map fun i => implOut r i
    -- executable statement on the implementation's own output
    let specV : Option Verdict := (List.range nfiles).findSome? fun i =>
      match impls.getD i none with
      | none => some (.differ "protocol" s!"no-out-record run={r} file={i}")
      | some .error => if fails.contains i then none else some (.specfalse "C17:error-on-readable-file" s!"run={r} file={i}")
      | some (.chunks cs) =>
        if fails.contains i then none else
        if specOK minS maxS (fileOf i) cs then none else
        let sig := if cs.flatten != fileOf i then "C17:lossless:concatenation-differs-from-file"
          else if cs.any (·.length == 0) then "C17:bounds:empty-chunk"
          else if cs.any (·.length > maxS) then "C17:bounds:chunk-above-max"
          else "C17:bounds:non-final-chunk-below-min"
        some (.specfalse sig s!"run={r} file={i} buf={bufSize} sizes={cs.map List.length}")
      | some (.sizes ok ss) =>
        if fails.contains i then none else
        if !ok then some (.specfalse "C17:lossless:concatenation-differs-from-file" s!"run={r} file={i}") else
        if sizesOK minS maxS (fileOf i).length ss then none else
        let sig := if ss.sum != (fileOf i).length then "C17:lossless:concatenation-differs-from-file"
          else if ss.any (· == 0) then "C17:bounds:empty-chunk"
          else if ss.any (· > maxS) then "C17:bounds:chunk-above-max"
          else "C17:bounds:non-final-chunk-below-min"
        some (.specfalse (if concRuns.contains r then sig ++ ":with-concurrent-workers" else sig) s!"run={r} file={i} sizes={ss}")
    match specV with
    | some v => (some v, [])
    | none =>
      let model := worker sp bufSize cs0 (if dirty then (sp.next sp.init [1, 2, 3]).2 else sp.init) readers
      let diff : Option Verdict := (List.range nfiles).findSome? fun i =>
        match model[i]?, impls.getD i none with
        | some mo, some io =>
          let asSizes := match io with | .sizes _ _ => true | _ => false
          match outToImpl mo asSizes with
          | some m => if m.same io then none else some (.differ "chunks" s!"run={r} file={i} buf={bufSize} model={m.sizesOf} impl={io.sizesOf}")
          | none => some (.differ "model-outcome" s!"run={r} file={i} model={repr mo}")
        | _, _ => some (.differ "protocol" s!"run={r} file={i}")
      let labels := [bufLabel bufSize] ++ (if dirty then ["dirty-worker"] else []) ++ (if concRuns.contains r then ["concurrent-workers"] else []) ++
        ((rr.toList.drop 4).map fun p => "rd-" ++ p) ++
        (impls.flatMap fun io => match io with
          | some .error => ["read-error"]
          | some o => sizeLabels minS maxS o.sizesOf
          | none => [])
      (diff, labels)
  match perRun.findSome? (·.1) with
  | some v => v
  | none =>
  -- independence of read pattern / buffer size: all runs agree per file
  let run0 := runs.head?.map fun rr => (rr.getD 1 "0").toNat!
  let indep : Option Verdict := runs.findSome? fun rr =>
    let r := (rr.getD 1 "0").toNat!
    (List.range nfiles).findSome? fun i =>
      match run0.bind (implOut · i), implOut r i with
      | some a, some b => if a.same b then none else
          some (.specfalse (if concRuns.contains r then "C17:boundaries-depend-on-concurrently-processed-file"
                            else "C17:boundaries-depend-on-read-pattern-or-buffer-size") s!"file={i} run0={a.sizesOf} run{r}={b.sizesOf}")
      | _, _ => none
  match indep with
  | some v => v
  | none =>
  -- independence of previously processed files: equal contents => equal chunk lists
  let r0 := run0.getD 0
  let dupPairs := (List.range nfiles).flatMap fun i => ((List.range i).filter fun j => files.getD j [] == files.getD i [] && !fails.contains i && !fails.contains j).map fun j => (j, i)
  let prevIndep : Option Verdict := dupPairs.findSome? fun (j, i) =>
    match implOut r0 j, implOut r0 i with
    | some a, some b => if a.same b then none else
        some (.specfalse "C17:boundaries-depend-on-previous-file" s!"files {j} and {i} have equal content, chunks {a.sizesOf} vs {b.sizesOf}")
    | _, _ => none
  match prevIndep with
  | some v => v
  | none =>
  -- edit locality
  let editV : Option Verdict × List String :=
    match c.find "edit" with
    | none => (none, [])
    | some e =>
      let plen := (e.getD 1 "0").toNat!; let xlen := (e.getD 2 "0").toNat!; let ylen := (e.getD 3 "0").toNat!
      match implOut r0 0, implOut r0 1 with
      | some (.chunks old), some (.chunks new) =>
        if !editLocalOK plen old new then (some (.specfalse "C17:edit:chunk-before-the-edit-changed" s!"plen={plen} old={old.map List.length} new={new.map List.length}"), [])
        else if !resyncOK plen xlen ylen old new then (some (.specfalse "C17:edit:chunks-differ-after-common-cut" s!"plen={plen} xlen={xlen} ylen={ylen} old={old.map List.length} new={new.map List.length}"), [])
        else
          let kind := if xlen == 0 && ylen == 0 then "edit-none" else if xlen == 0 then "edit-insert" else if ylen == 0 then "edit-delete" else "edit-replace"
          let changed := (new.filter fun ch => !old.contains ch).length
          (none, [kind, if changed == 0 then "changed0" else if changed ≤ 2 then "changed1-2" else "changed3+",
                  if stablePrefixCount plen old > 0 then "stable-prefix" else "no-stable-prefix"])
      | _, _ => (none, [])
  match editV.1 with
  | some v => v
  | none =>
    let labels := (perRun.flatMap (·.2)) ++ editV.2 ++ (if dupPairs.isEmpty then [] else ["same-content-twice"]) ++ [c.stream]
    let nt := labels.any fun l => l == "chunks2-4" || l == "chunks5+"
    .agree nt labels.eraseDups

def main : IO Unit := mainLoop handleC17
