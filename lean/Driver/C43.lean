import Driver.Common
import Restic.Model.StreamPack
import Restic.Gen.Consts
/-!
Driver for C43 (records: see harness/main/c43.go). The model is run with the constants of the
current source: `maxChunkSize = 2 * DefaultPackSize`, `maxUnusedRange`.
-/
open Driver Restic.Model.StreamPack

def mc : Nat := 2 * Restic.Gen.repo_DefaultPackSize
def mu : Nat := Restic.Gen.repo_maxUnusedRange

structure Ent where
  blob : Blob
  state : Copy
  recover : Bool

def parseEnt (r : Array String) : Option Ent := do
  let id ← (r.getD 1 "").toNat?
  let off ← (r.getD 2 "").toNat?
  let len ← (r.getD 3 "").toNat?
  let st := match r.getD 4 "" with
    | "good" => Copy.good 1
    | "invalid" => Copy.invalid
    | _ => Copy.damaged
  pure { blob := ⟨id, off, len⟩, state := st, recover := r.getD 5 "0" == "1" }

def natList (s : String) : List Nat := if s == "-" || s == "all" then [] else (s.splitOn ",").filterMap (·.toNat?)

def showCB : CB → String
  | .ok id p => s!"{id}:ok{p}"
  | .err id => s!"{id}:err"

def showLog (l : List CB) : String := if l.isEmpty then "-" else " ".intercalate (l.map showCB)

def outcomeStr : Outcome → String
  | .ok => "ok" | .overlap => "overlap" | .download => "download" | .invalidLength => "invalid"
  | .callback => "callback" | .notInPack => "notinpack" | .panic => "panic"

/-- the downloads the model makes: (offset, length, succeeds), stopping after the part that ends the run -/
def expectedLoads (env : Env) (parts : List (List Blob)) : List (Nat × Nat × Bool) := Id.run do
  let mut res := []
  let mut log : List CB := []
  let mut n := 0
  for p in parts do
    match p.head?, p.getLast? with
    | some f, some l => res := res ++ [(f.off, l.off + l.len - f.off, env.dl n)]
    | _, _ => pure ()
    let r := streamPart env n p log
    log := r.1
    n := n + 1
    if r.2 != .ok then break
  return res

def handleC43 (c : Case) : Verdict := Id.run do
  let some ents := (c.findAll "ent").toList.mapM parseEnt | return .differ "protocol" "bad-ent"
  let notIn : List Nat := (c.findAll "notinpack").toList.filterMap (·[1]? >>= String.toNat?)
  let fbFn := (c.find "fb").map (·.getD 1 "") == some "fn"
  let dlRec := (c.find "dlfail").map (·.getD 1 "-") |>.getD "-"
  let dlAll := dlRec == "all"
  let dlFail := natList dlRec
  let cbRec := c.find "cbfail"
  let cbFail := natList ((cbRec.map (·.getD 1 "-")).getD "-")
  let propagate := (cbRec.map (·.getD 2 "0")).getD "0" == "1"
  let stateOf (id : Nat) : Copy := match ents.find? (·.blob.id == id) with | some e => e.state | none => .damaged
  let recoverOf (id : Nat) : Bool := match ents.find? (·.blob.id == id) with | some e => e.recover | none => false
  let env0 : Env := {
    copy := fun b => stateOf b.id
    dl := fun n => !dlAll && !dlFail.contains n
    fallback := if fbFn then some (fun (id : Nat) => match recoverOf id with | true => some 1 | false => none) else none
    cbFails := fun id => cbFail.contains id }
  let blobs := ents.map (·.blob)
  let runModel (env : Env) : List CB × Outcome :=
    if !notIn.isEmpty then ([], .notInPack) else streamPack mc mu env blobs
  -- a callback that returns the error it was given fails at the first error it sees
  let r0 := runModel env0
  let env : Env :=
    if propagate then
      match r0.1.find? (fun cb => match cb with | .err _ => true | _ => false) with
      | some cb => { env0 with cbFails := fun id => env0.cbFails id || id == cb.id }
      | none => env0
    else env0
  let model := runModel env
  -- implementation's observations
  let implLog : List CB := (c.findAll "cb").toList.map fun r =>
    let id := (r.getD 1 "").toNat?.getD 99999
    if r.getD 2 "" == "ok" then .ok id (if r.getD 3 "" == "1" then 1 else 0) else .err id
  let some resR := c.find "res" | return .differ "protocol" "no-res"
  let implRes := resR.getD 1 ""
  let detail := s!"ents={ents.map fun e => (e.blob.id, e.blob.off, e.blob.len)} fb={fbFn} dlfail={dlRec} cbfail={cbFail} prop={propagate} log=[{showLog implLog}] res={implRes}"
  -- (b) the property on the implementation's own output
  if implRes == "panic" then return .specfalse "C43:panic" detail
  let requested := ents.map (·.blob.id) ++ notIn
  let noDlFail := !dlAll && dlFail.isEmpty
  let mustBeOk (id : Nat) : Bool :=
    (fbFn && recoverOf id) || (noDlFail && (match stateOf id with | .good _ => true | _ => false) && ents.any (·.blob.id == id))
  let payloadOK := implLog.all fun cb => match cb with | .ok _ p => p == 1 | .err _ => true
  if !specOK requested mustBeOk payloadOK implLog (implRes == "ok") then
    let sig :=
      if !payloadOK then "C43:payload:hash-mismatch"
      else if implLog.any (fun cb => !requested.contains cb.id) then "C43:callback:unrequested-blob"
      else if requested.any (fun id => countId id implLog > 1) then "C43:callback:more-than-once"
      else if implRes == "ok" && requested.any (fun id => countId id implLog != 1) then "C43:callback:missing-on-success"
      else "C43:fallback:error-despite-intact-copy"
    return .specfalse sig detail
  -- (a) model vs implementation: callback log, result class, downloads
  if showLog model.1 != showLog implLog then
    return .differ "callbacks" s!"model=[{showLog model.1}] {detail}"
  if outcomeStr model.2 != implRes then
    return .differ "result" s!"model={outcomeStr model.2} {detail}"
  -- LoadBlob on its own (repo substream): `copy <idx> <stored length> <state>` in index order, `lb <idx> …`
  let mut lbLabels : List String := []
  for r in c.findAll "lb" do
    let idx := r.getD 1 ""
    let copies : List StoredCopy := (c.findAll "copy").toList.filter (·.getD 1 "" == idx) |>.map fun cr =>
      { len := (cr.getD 2 "").toNat?.getD 0, state := if cr.getD 3 "" == "good" then Copy.good 1 else Copy.damaged }
    let lbDetail := s!"blob {idx} copies(len,state)={copies.map fun cp => (cp.len, cp.state == Copy.good 1)} result={r.getD 2 ""} {(unhexStr (r.getD 3 "-")).getD ""}"
    let m := loadBlobSized copies 0
    match r.getD 2 "" with
    | "ok" =>
      if r.getD 3 "" != "1" then return .specfalse "C43:loadblob:wrong-plaintext" lbDetail
      if m.isNone then return .differ "loadblob" s!"model fails, impl ok: {lbDetail}"
    | "err" =>
      if copies.any (fun cp => cp.state == Copy.good 1) then
        let shorterFirst := match copies with
          | a :: _ => copies.any (fun cp => cp.state == Copy.good 1 && cp.len > a.len)
          | [] => false
        return .specfalse (if shorterFirst then "C43:loadblob:error-despite-longer-intact-copy" else "C43:loadblob:error-despite-intact-copy") lbDetail
      if m.isSome then return .differ "loadblob" s!"model ok, impl fails: {lbDetail}"
    | _ => return .specfalse "C43:panic" lbDetail
    if copies.length > 1 then
      lbLabels := if lbLabels.contains "lb-multi-copy" then lbLabels else lbLabels ++ ["lb-multi-copy"]
      match copies with
      | a :: rest =>
        if a.state != Copy.good 1 && rest.any (fun cp => cp.state == Copy.good 1 && cp.len > a.len) && !lbLabels.contains "lb-short-damaged-first" then
          lbLabels := lbLabels ++ ["lb-short-damaged-first"]
        if a.state != Copy.good 1 && rest.any (fun cp => cp.state == Copy.good 1 && cp.len < a.len) && !lbLabels.contains "lb-long-damaged-first" then
          lbLabels := lbLabels ++ ["lb-long-damaged-first"]
      | [] => pure ()
  let parts := if notIn.isEmpty && !blobs.isEmpty then (partition mc mu blobs).1 else []
  let mut labels : List String := [c.stream, "res-" ++ implRes] ++ (if c.stream == "pack" then [(c.find "kind").map (·.getD 1 "-") |>.getD "-"] else [])
  if c.stream == "pack" then
    let exp := expectedLoads env parts
    let implLoads := (c.findAll "load").toList.map fun r =>
      ((r.getD 1 "").toNat?.getD 0, (r.getD 2 "").toNat?.getD 0, r.getD 3 "" == "ok")
    if exp != implLoads then
      return .differ "downloads" s!"model={exp} impl={implLoads} {detail}"
    if exp.any (fun (_, l, _) => l ≥ mc) then labels := labels ++ ["download-ge-maxChunk"]
    if exp.any (fun (_, l, _) => l + 4096 ≥ mc && l < mc) then labels := labels ++ ["download-near-maxChunk"]
  labels := labels ++ [s!"parts-{if parts.length > 2 then "3+" else toString parts.length}"]
  if ents.any (fun e => e.state == .damaged) then labels := labels ++ ["has-damaged"]
  if ents.any (fun e => e.state == .damaged && e.recover) && fbFn && implLog.any (fun cb => match cb with | .ok id _ => stateOf id == .damaged | _ => false) then
    labels := labels ++ ["fallback-delivered"]
  if implLog.any (fun cb => match cb with | .err _ => true | _ => false) then labels := labels ++ ["error-callback"]
  if !noDlFail then labels := labels ++ ["download-failure"]
  if !fbFn then labels := labels ++ ["no-fallback"]
  if propagate then labels := labels ++ ["cb-propagates"]
  return .agree (!implLog.isEmpty) (labels ++ lbLabels)

def main : IO Unit := mainLoop handleC43
