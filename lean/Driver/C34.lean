import Driver.Common
import Restic.Model.RepairPacks
/-!
Driver for C34. Two sub-streams.

`packs` (real `restic repair packs <ids>`):
  dmg <label>*                      named <packid>*
  np <pack> exists|missing ok|bad|-                     named pack: stored?, header listable?
  nie <pack> <typ> <blob> <off> <len> <ulen> <direct> <via>    index entry of a named pack
  nhe <pack> … <direct> <via>                           header entry of a named pack
      direct = blob readable from the stored bytes of that pack; via = readable via some index entry
  other <typ> <blob>               handle readable via an index entry of a pack that is not named
  res ok|err|panic <hex>           tr save|remove <type> <id> ok|fail
  postpack <id> <new 0/1>          postnew <typ> <blob> <readable>      blobs of packs created by the run
  postidxpack <pack>               postidxbad <idx>                     postavail <typ> <blob>

`snapshots` (real `restic repair snapshots --forget`, then `check`, `check --read-data`):
  allnamed 0|1                     avail <typ> <blob> <size>            index before the command
  liar <typ> <blob>                    handle the index lists although no listed copy is readable
  snap <id> <root>                 tree <id> ok|bad
  node <tree> <type> <hexname> <size> <sub|-|null> <meta> <content>*
  res …  tr …                      pavail / psnap <id> <root> <original|-> / ptree / pnode   (after)
  check ok|err <hex>               checkdata ok|err <hex>
-/
open Driver Restic.Model.RepairIndex Restic.Model.RepairPacks

namespace C34

def nat (s : String) : Nat := s.toNat?.getD 0

def entryAt (r : Array String) (i : Nat) : Entry :=
  { typ := nat (r.getD i ""), id := r.getD (i+1) "", off := nat (r.getD (i+2) ""),
    len := nat (r.getD (i+3) ""), ulen := nat (r.getD (i+4) "") }

def sortS (l : List String) : List String := (l.eraseDups.toArray.qsort (· < ·)).toList

def showH (h : Handle) : String := s!"{h.typ}:{h.id}"

def parseTrace (c : Case) : List Restic.Model.RepairPacks.TEv :=
  (c.findAll "tr").toList.filterMap fun t =>
    let ok := t.getD 4 "" == "ok"
    match t.getD 1 "", t.getD 2 "" with
    | "save", "data" => if ok then some (.saveData (t.getD 3 "")) else some (.other "failed-save")
    | "save", "index" => if ok then some (.saveIndex (t.getD 3 "")) else some (.other "failed-save")
    | "remove", "index" => if ok then some (.removeIndex (t.getD 3 "")) else none
    | "remove", "data" => some (.removeData (t.getD 3 ""))   -- failed removal of a missing pack changes nothing
    | op, ty => some (.other s!"{op}-{ty}")

def handlePacks (c : Case) : Verdict :=
  let dmg := match c.find "dmg" with | some d => d.toList.drop 1 | none => []
  let namedIds := match c.find "named" with | some d => d.toList.drop 1 | none => []
  let nie := (c.findAll "nie").toList
  let nhe := (c.findAll "nhe").toList
  let np := (c.findAll "np").toList
  let named : List NamedPack := namedIds.map fun id =>
    let hdrOK := np.any fun r => r.getD 1 "" == id && r.getD 3 "" == "ok"
    { id, idx := (nie.filter (·.getD 1 "" == id)).map (entryAt · 2),
      hdr := if hdrOK then some ((nhe.filter (·.getD 1 "" == id)).map (entryAt · 2)) else none }
  let flags : List ((ID × Entry) × (Bool × Bool)) := (nie ++ nhe).map fun r =>
    ((r.getD 1 "", entryAt r 2), (r.getD 7 "" == "1", r.getD 8 "" == "1"))
  let direct (p : ID) (e : Entry) : Bool := flags.any fun f => f.1 == (p, e) && f.2.1
  let loadable (p : ID) (e : Entry) : Bool := flags.any fun f => f.1 == (p, e) && (f.2.1 || f.2.2)
  let other : List Handle := (c.findAll "other").toList.map fun r => ⟨nat (r.getD 1 ""), r.getD 2 ""⟩
  let res := (c.find "res").map (·.getD 1 "")
  if res == some "panic" then .specfalse "C34:packs:panic" s!"dmg={dmg}" else
  if res != some "ok" then .specfalse "C34:packs:command-failed" s!"dmg={dmg}" else
  let postAvail : List Handle := (c.findAll "postavail").toList.map fun r => ⟨nat (r.getD 1 ""), r.getD 2 ""⟩
  let postPacks := (c.findAll "postpack").toList.map (·.getD 1 "")
  let postIdxPacks := (c.findAll "postidxpack").toList.map (·.getD 1 "")
  let postNew : List Handle := (c.findAll "postnew").toList.map fun r => ⟨nat (r.getD 1 ""), r.getD 2 ""⟩
  let trace := parseTrace c
  -- (b) property predicate on the implementation's output; "can still be read" = direct
  if !(c.findAll "postidxbad").isEmpty then .specfalse "C34:packs:undecodable-index-left" s!"dmg={dmg}" else
  if !specPacks direct named other postAvail postPacks postIdxPacks then
    let lost := named.any fun npk => (npk.idx ++ npk.hdr.getD []).any fun e => direct npk.id e && !postAvail.contains (handleOf e)
    let sig := if lost then "C34:packs:readable-blob-of-named-pack-lost"
      else if other.any (!postAvail.contains ·) then "C34:packs:blob-of-other-pack-lost"
      else if named.any (fun npk => postPacks.contains npk.id) then "C34:packs:named-pack-not-removed"
      else "C34:packs:named-pack-still-indexed"
    .specfalse sig s!"dmg={dmg}"
  else if (c.find "allnamed").map (·.getD 1 "") == some "1" && !(postIdxPacks.all postPacks.contains) then .specfalse "C34:packs:index-lists-missing-pack" s!"dmg={dmg}"
  else if !Restic.Model.RepairPacks.acceptTrace namedIds trace then
    .specfalse "C34:packs:trace-order" s!"dmg={dmg} trace={trace.map fun e => match e with | .saveData i => "SD:" ++ i | .saveIndex i => "SI:" ++ i | .removeIndex i => "RI:" ++ i | .removeData i => "RD:" ++ i | .other w => "X:" ++ w}"
  else
  -- (a) the model
  let m := repairPacks loadable named []
  let mUp := sortS (m.uploaded.map showH)
  let iUp := sortS (postNew.map showH)
  if mUp != iUp then .differ "uploaded" s!"dmg={dmg} model={mUp} impl={iUp}" else
  let mAvail := sortS ((other ++ m.uploaded).map showH)
  let iAvail := sortS (postAvail.map showH)
  if mAvail != iAvail then .differ "avail-after" s!"dmg={dmg} model-only={mAvail.filter (!iAvail.contains ·)} impl-only={iAvail.filter (!mAvail.contains ·)}" else
  let nEntries := (named.map fun n => (n.idx ++ n.hdr.getD []).length).sum
  let nLost := (named.map fun n => ((n.idx ++ n.hdr.getD []).filter (!loadable n.id ·)).length).sum
  let labels := dmg.eraseDups ++
    (if m.uploaded.isEmpty then ["nothing-salvaged"] else ["salvaged"]) ++
    (if nLost > 0 then ["some-blobs-lost"] else []) ++
    (if named.any (fun n => n.hdr.isNone) then ["hdr-unreadable"] else []) ++
    (if named.any (fun n => match n.hdr with | some hb => sortOff n.idx != sortOff hb | none => false) then ["index-differs-from-header"] else []) ++
    (if flags.any (fun f => !f.2.1 && f.2.2) then ["fallback-copy"] else [])
  .agree (nEntries > 0) labels

/-! snapshots -/

structure RawNode where
  typ : String
  name : String
  size : Nat
  sub : String
  md : String
  content : List ID

def parseTrees (c : Case) (pfx : String) : List (ID × Option (List RawNode)) :=
  let nodes := (c.findAll (pfx ++ "node")).toList
  (c.findAll (pfx ++ "tree")).toList.map fun t =>
    let id := t.getD 1 ""
    if t.getD 2 "" != "ok" then (id, none) else
    (id, some ((nodes.filter (·.getD 1 "" == id)).map fun r =>
      { typ := r.getD 2 "", name := r.getD 3 "", size := nat (r.getD 4 ""), sub := r.getD 5 "-",
        md := r.getD 6 "", content := r.toList.drop 7 }))

mutual
def buildNodes (trees : List (ID × Option (List RawNode))) : Nat → List RawNode → Nodes
  | _, [] => .nil
  | fuel, r :: rest =>
    let n : Node :=
      if r.typ == "file" then .file r.name r.md r.content r.size
      else if r.typ == "dir" then .dir r.name r.md (if r.sub == "null" then .missing else buildSub trees fuel r.sub)
      else if r.typ == "irregular" || r.typ == "invalid" then .invalid r.name r.md
      else .other r.name r.md
    .cons n (buildNodes trees fuel rest)
def buildSub (trees : List (ID × Option (List RawNode))) : Nat → ID → Sub
  | 0, _ => .missing
  | fuel+1, id =>
    match trees.find? (·.1 == id) with
    | some (_, some ns) => .tree (buildNodes trees fuel ns)
    | _ => .missing
end

mutual
def serNode : Node → String
  | .file n m c s => s!"F({n},{m},{c},{s})"
  | .dir n m sub => s!"D({n},{m},{serSub sub})"
  | .other n m => s!"O({n},{m})"
  | .invalid n m => s!"X({n},{m})"
def serSub : Sub → String
  | .missing => "MISSING"
  | .tree ns => "[" ++ serNodes ns ++ "]"
def serNodes : Nodes → String
  | .nil => ""
  | .cons n rest => serNode n ++ ";" ++ serNodes rest
end

mutual
/-- (path, node) of every intact file reachable through loadable directories -/
def intactFilesNodes (avail : ID → Option Nat) (pfx : List String) : Nodes → List (List String × Node)
  | .nil => []
  | .cons n rest =>
    (match n with
     | .file nm _ _ _ => if intactFile avail n then [(pfx ++ [nm], n)] else []
     | .dir nm _ (.tree sub) => intactFilesNodes avail (pfx ++ [nm]) sub
     | _ => []) ++ intactFilesNodes avail pfx rest
end

def availFn (rs : List (Array String)) : ID → Option Nat := fun i =>
  (rs.find? fun r => r.getD 1 "" == "0" && r.getD 2 "" == i).map fun r => nat (r.getD 3 "")

def handleSnapshots (c : Case) : Verdict :=
  let dmg := match c.find "dmg" with | some d => d.toList.drop 1 | none => []
  let allNamed := (c.find "allnamed").map (·.getD 1 "") == some "1"
  let res := (c.find "res").map (·.getD 1 "")
  if res == some "panic" then .specfalse "C34:snapshots:panic" s!"dmg={dmg}" else
  if res != some "ok" then .specfalse "C34:snapshots:command-failed" s!"dmg={dmg}" else
  let avail := availFn (c.findAll "avail").toList
  let pavail := availFn (c.findAll "pavail").toList
  let trees := parseTrees c ""
  let ptrees := parseTrees c "p"
  let fuel := trees.length + 2
  let pfuel := ptrees.length + 2
  let snaps := (c.findAll "snap").toList.map fun r => (r.getD 1 "", r.getD 2 "")
  let psnaps := (c.findAll "psnap").toList.map fun r => (r.getD 1 "", r.getD 2 "", r.getD 3 "-")
  -- (b) property on the implementation's output
  let badPost := psnaps.filter fun (_, root, _) =>
    match buildSub ptrees pfuel root with
    | .tree ns => !nodesOK pavail ns
    | .missing => true
  -- (only when every damaged pack was named: otherwise the index still lists blobs of a damaged
  -- pack, and a rewritten tree that is content-identical to such a blob is not stored again)
  if allNamed && !badPost.isEmpty then .specfalse "C34:snapshots:repaired-snapshot-not-ok" s!"dmg={dmg} snaps={badPost.map (·.1)}" else
  let findPost (id : ID) : Option (ID × ID × ID) :=
    match psnaps.find? (·.1 == id) with
    | some p => some p
    | none => psnaps.find? (·.2.2 == id)
  -- Precondition of everything that reads the post-state's trees back: the index does not list a
  -- tree blob of which no copy is readable (possible only when a damaged pack was not named).
  -- `repair snapshots` works from the index: a rewritten tree that is content-identical to such a
  -- blob is not stored again, so the repaired snapshot points at unreadable data although, as far
  -- as the command can know, everything is there.
  let indexListsUnreadableTree := (c.findAll "liar").toList.any (·.getD 1 "" == "1")
  if indexListsUnreadableTree then
    .agree true (dmg.eraseDups ++ ["index-lists-unreadable-tree", if allNamed then "all-named" else "not-all-named"]) else
  let lostIntact := snaps.filter fun (id, root) =>
    match buildSub trees fuel root with
    | .missing => false
    | .tree ns =>
      match findPost id with
      | none => true
      | some (_, proot, _) =>
        match buildSub ptrees pfuel proot with
        | .missing => true
        | .tree pns => (intactFilesNodes avail [] ns).any fun (path, n) =>
            (lookup path pns).map serNode != some (serNode n)
  if !lostIntact.isEmpty then .specfalse "C34:snapshots:intact-file-changed-or-lost" s!"dmg={dmg} snaps={lostIntact.map (·.1)}" else
  let chk := (c.find "check").map (·.getD 1 "")
  let chkd := (c.find "checkdata").map (·.getD 1 "")
  if allNamed && chk != some "ok" then .specfalse "C34:snapshots:check-fails-after-repair" s!"dmg={dmg}" else
  if allNamed && chkd != some "ok" then .specfalse "C34:snapshots:check-read-data-fails-after-repair" s!"dmg={dmg}" else
  -- (a) the model, snapshot by snapshot
  let results := snaps.map fun (id, root) =>
    let pre := buildSub trees fuel root
    let m := rwRoot avail pre
    let impl : Option Nodes := match findPost id with
      | none => none
      | some (_, proot, _) => match buildSub ptrees pfuel proot with | .tree pns => some pns | .missing => none
    let kept := psnaps.any (·.1 == id)
    (id, m.map serNodes, impl.map serNodes, kept, serSub pre)
  -- the model's precondition: no tree blob that was unloadable before the command exists afterwards
  -- (rewriting snapshot A can re-create, content-addressed, a tree blob that snapshot B lost)
  let resurrected := trees.any fun (id, t) => t.isNone && ptrees.any fun (pid, pt) => pid == id && pt.isSome
  if resurrected then .agree true (dmg.eraseDups ++ ["tree-blob-recreated-by-rewrite"]) else
  match results.find? (fun r => r.2.1 != r.2.2.1) with
  | some r => .differ "rewritten-tree" s!"dmg={dmg} snap={r.1} model={r.2.1} impl={r.2.2.1}"
  | none =>
    -- a snapshot the model leaves unchanged structurally may only be re-saved if its encoding changed
    let nRemoved := (results.filter fun r => r.2.1.isNone).length
    let nRewritten := (results.filter fun r => r.2.1.isSome && r.2.1 != some ((r.2.2.2.2.drop 1).dropEnd 1).toString).length
    let nKept := (results.filter (·.2.2.2.1)).length
    let labels := dmg.eraseDups ++ (if nRemoved > 0 then ["snapshot-removed"] else []) ++
      (if nRewritten > 0 then ["snapshot-rewritten"] else []) ++ (if nKept > 0 then ["snapshot-untouched"] else []) ++
      (if allNamed then ["check-ok"] else ["not-all-named"])
    .agree (nRemoved + nRewritten > 0) labels

def handle (c : Case) : Verdict :=
  if c.stream == "packs" then handlePacks c else handleSnapshots c

end C34

def main : IO Unit := mainLoop C34.handle
