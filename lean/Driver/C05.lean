import Driver.Common
import Restic.Model.Crypto
/-!
Driver for C05 (authenticated encryption wrapper). The primitives of the model are instantiated
with finite tables built from ORACLE values the harness computed with the Go standard library and
`golang.org/x/crypto/poly1305` / `scrypt` *directly* (not through restic's wrapper).

Sub-streams and records (byte strings hex, "-" = empty / absent):

seal:   key <K> <R> <enc> | nonce <n> | pt <p> | ad <a>
        or <aes(K,n)> <ctr(enc,n,p)> <poly(R‖aes, ctr)>
        res panic | res ok <out>                 real `Seal(copy(n), n, p, a)`
        reopen none | reopen <result>            real `Open` of `out`
open:   key, nonce, pt, or (as above) | sealed <nonce‖body‖tag> (real Seal)
        t none                     - - -   <or_aes> <or_tag> <or_ctr> <result>
        t flip <bitpos> <newbyte>  -       <or_aes> <or_tag> -        <result>
        t trunc <L>  - -                   <or_aes> <or_tag> -        <result>   (body‖tag cut to L bytes)
        t key <K'> <R'> <enc'>             <or_aes> <or_tag> <or_ctr> <result>
        t raw <nonce'> <ct'> -             <or_aes> <or_tag> <or_ctr> <result>
        <result> ::= ok <plaintext> | err <kind> | panic
kdf:    params <N> <R> <P> | salt <s> | pw <p> | or_scrypt <64 bytes or -> | res ok <K> <R> <enc> | res err <kind>
-/
open Driver Restic.Model.Crypto

def bytesOf (s : String) : Bytes := (unhex s).getD []

structure Tables where
  aes : List (Bytes × Bytes × Bytes) := []
  poly : List (Bytes × Bytes × Bytes) := []
  ctr : List (Bytes × Bytes × Bytes × Bytes) := []

/-- value returned for a query that is in no table: not a possible tag / block -/
def poison : Bytes := [0xde, 0xad]

def Tables.prims (t : Tables) : Prims where
  aes128 := fun k b => match t.aes.find? (fun e => e.1 == k && e.2.1 == b) with
    | some e => e.2.2 | none => poison
  poly := fun k m => match t.poly.find? (fun e => e.1 == k && e.2.1 == m) with
    | some e => e.2.2 | none => poison
  ctr := fun k n d => match t.ctr.find? (fun e => e.1 == k && e.2.1 == n && e.2.2.1 == d) with
    | some e => e.2.2.2 | none => poison

def keyOf (r : Array String) (i : Nat) : Key :=
  { macK := bytesOf (r.getD i "-"), macR := bytesOf (r.getD (i+1) "-"), enc := bytesOf (r.getD (i+2) "-") }

def parseOpenRes (r : Array String) (i : Nat) : Option OpenOut :=
  match r.getD i "" with
  | "ok" => some (.ok (bytesOf (r.getD (i+1) "-")))
  | "panic" => some (.panic "")
  | "err" => match r.getD (i+1) "" with
    | "invalidKey" => some (.err .invalidKey)
    | "invalidNonce" => some (.err .invalidNonce)
    | "tooShort" => some (.err .tooShort)
    | "unauthenticated" => some (.err .unauthenticated)
    | _ => none
  | _ => none

def sameOpen : OpenOut → OpenOut → Bool
  | .ok a, .ok b => a == b
  | .err a, .err b => a == b
  | .panic _, .panic _ => true
  | _, _ => false

def sameSeal : SealOut → SealOut → Bool
  | .ok a, .ok b => a == b
  | .panic _, .panic _ => true
  | _, _ => false

def showOpen : OpenOut → String
  | .ok p => s!"ok:{hex p}"
  | .err e => s!"err:{repr e}"
  | .panic _ => "panic"

def resLabel : OpenOut → String
  | .ok _ => "r-ok"
  | .err .invalidKey => "r-invalidKey"
  | .err .invalidNonce => "r-invalidNonce"
  | .err .tooShort => "r-tooShort"
  | .err .unauthenticated => "r-unauthenticated"
  | .panic _ => "r-panic"

def flipBit (l : Bytes) (pos : Nat) : Bytes :=
  match l.drop (pos / 8) with
  | [] => l
  | b :: rest => l.take (pos / 8) ++ (b ^^^ (1 <<< (UInt8.ofNat (pos % 8)))) :: rest

def lenLabel (n : Nat) : String :=
  if n == 0 then "len0" else if n < 16 then "len<16" else if n ≤ 64 then "len<=64"
  else if n ≤ 4097 then "len<=4K" else "len>4K"

def tamperName : Tamper → String
  | .none => "none" | .nonceBit => "nonce-bit" | .bodyBit => "body-bit" | .tagBit => "tag-bit"
  | .truncated => "truncated" | .macKeySwapped => "mac-key-swapped" | .encKeyOnly => "enc-key-only"
  | .other => "other"

/-- common part of `seal` and `open` cases -/
structure Base where
  k : Key
  nonce : Bytes
  pt : Bytes
  tbl : Tables

def getBase (c : Case) : Option Base := do
  let kr ← c.find "key"
  let k := keyOf kr 1
  let nonce := bytesOf ((← c.find "nonce").getD 1 "-")
  let pt := bytesOf ((← c.find "pt").getD 1 "-")
  let o ← c.find "or"
  let aes := bytesOf (o.getD 1 "-"); let ct := bytesOf (o.getD 2 "-"); let tag := bytesOf (o.getD 3 "-")
  some { k, nonce, pt,
         tbl := { aes := [(k.macK, nonce, aes)], poly := [(k.macR ++ aes, ct, tag)],
                  ctr := [(k.enc, nonce, pt, ct), (k.enc, nonce, ct, pt)] } }

def handleSeal (c : Case) : Verdict :=
  match getBase c with
  | none => .differ "protocol" "missing-records"
  | some b =>
    let ad := match c.find "ad" with | some r => bytesOf (r.getD 1 "-") | none => []
    let P := b.tbl.prims
    let model := sealK P b.k b.nonce b.nonce b.pt ad
    match c.find "res" with
    | none => .differ "protocol" "no-res"
    | some r =>
      let impl : SealOut := if r.getD 1 "" == "ok" then .ok (bytesOf (r.getD 2 "-")) else .panic ""
      let reopenImpl : Option OpenOut := match c.find "reopen" with
        | some rr => if rr.getD 1 "" == "none" then none else parseOpenRes rr 1
        | none => none
      -- the property on the implementation's own output (only without additional data: API misuse otherwise)
      let specBad := ad.isEmpty && !specSealOK b.k b.nonce b.pt impl reopenImpl
      if specBad then
        let sig := match impl with
          | .ok _ => if keyInvalid b.k || allZero b.nonce then "C05:seal:accepted-invalid-key-or-nonce"
                     else "C05:seal:wrong-length-or-roundtrip"
          | .panic _ => "C05:seal:valid-input-refused"
        .specfalse sig s!"key={hex b.k.macK}/{hex b.k.macR}/{hex b.k.enc} nonce={hex b.nonce} ptlen={b.pt.length}"
      else if !sameSeal model impl then
        .differ "seal" s!"model={repr model} impl={repr impl}"
      else
        let reopenModel : Option OpenOut := match model with
          | .ok out => some (openBuf P b.k out) | .panic _ => none
        let sameRe := match reopenModel, reopenImpl with
          | none, none => true | some a, some b => sameOpen a b | _, _ => false
        if !sameRe then .differ "reopen" s!"model={reopenModel.map showOpen} impl={reopenImpl.map showOpen}"
        else
          let labels := ["seal", lenLabel b.pt.length] ++
            (match model with | .ok _ => ["sealed"] | .panic w => ["panic:" ++ (w.replace " " "-")]) ++
            (if keyInvalid b.k then ["invalid-key"] else []) ++ (if allZero b.nonce then ["zero-nonce"] else [])
          .agree (match model with | .ok _ => true | _ => false) labels

/-- one tamper record: returns (tamper class, key, nonce', ct', tables) or a protocol error -/
def decodeT (b : Base) (sealed : Bytes) (r : Array String) : Except String (Tamper × Key × Bytes × Bytes × Tables) :=
  let n0 := sealed.take ivSize
  let ct0 := sealed.drop ivSize
  let orAes := bytesOf (r.getD 5 "-"); let orTag := bytesOf (r.getD 6 "-"); let orCtr := bytesOf (r.getD 7 "-")
  let mk (t : Tamper) (k : Key) (n' ct' : Bytes) : Except String (Tamper × Key × Bytes × Bytes × Tables) :=
    let body' := ct'.take (ct'.length - macSize)
    let tbl : Tables := { aes := [(k.macK, n', orAes)], poly := [(k.macR ++ orAes, body', orTag)],
                          ctr := [(k.enc, n', body', orCtr)] }
    .ok (t, k, n', ct', tbl)
  match r.getD 1 "" with
  | "none" => mk .none b.k n0 ct0
  | "flip" =>
    let pos := (r.getD 2 "0").toNat!
    let whole := flipBit sealed pos
    if whole.length != sealed.length || pos ≥ 8 * sealed.length then .error "flip-position-out-of-range" else
    if (whole.drop (pos / 8)).head? != (bytesOf (r.getD 3 "-")).head? then .error "flip-semantics-mismatch" else
    let cls : Tamper := if pos < 8 * ivSize then .nonceBit
      else if pos < 8 * (sealed.length - macSize) then .bodyBit else .tagBit
    mk cls b.k (whole.take ivSize) (whole.drop ivSize)
  | "trunc" =>
    let l := (r.getD 2 "0").toNat!
    if l ≥ ct0.length then .error "trunc-not-proper" else mk .truncated b.k n0 (ct0.take l)
  | "key" =>
    let k' := keyOf r 2
    let cls : Tamper := if macKeyDiffers b.k k' (ct0.length ≤ macSize) then .macKeySwapped
      else if k'.enc != b.k.enc || k'.macR != b.k.macR then .encKeyOnly else .none
    mk cls k' n0 ct0
  | "raw" =>
    let n' := bytesOf (r.getD 2 "-"); let ct' := bytesOf (r.getD 3 "-")
    mk (if n' == n0 && ct' == ct0 then .none else .other) b.k n' ct'
  | k => .error s!"unknown-tamper-kind-{k}"

def handleOpen (c : Case) : Verdict :=
  match getBase c, c.find "sealed" with
  | some b, some sr =>
    let sealed := bytesOf (sr.getD 1 "-")
    -- the sealed message itself must be what the model seals (ties the baseline)
    match sealWithNonce b.tbl.prims b.k b.nonce b.pt with
    | .panic w => .differ "sealed" s!"model-panics:{w.replace " " "-"}"
    | .ok mout =>
      if mout != sealed then .differ "sealed" s!"model={hex mout} impl={hex sealed}" else
      let ts := c.findAll "t"
      let rec go (i : Nat) (labels : List String) (fuel : Nat) : Verdict :=
        match fuel with
        | 0 => .agree (ts.size > 0) labels
        | fuel + 1 =>
          if h : i < ts.size then
            let r := ts[i]
            match decodeT b sealed r with
            | .error e => .differ "protocol" e
            | .ok (cls, k', n', ct', tbl) =>
              match parseOpenRes r 8 with
              | none => .differ "protocol" s!"bad-result-in-t-record-{i}"
              | some impl =>
                if !specOpenOK cls b.pt impl then
                  let sig := if cls == .none then "C05:open:untouched-not-restored"
                    else s!"C05:open:accepted-tampered:{tamperName cls}"
                  .specfalse sig s!"record={i} kind={r.getD 1 ""} arg={r.getD 2 ""} ptlen={b.pt.length} impl={resLabel impl}"
                else
                  let model := openK tbl.prims k' [] n' ct'
                  if !sameOpen model impl then
                    .differ "open" s!"record={i} kind={r.getD 1 ""} arg={r.getD 2 ""} model={showOpen model} impl={showOpen impl}"
                  else
                    let ls := [tamperName cls, resLabel impl]
                    go (i + 1) (ls.foldl (fun acc l => if acc.contains l then acc else acc ++ [l]) labels) fuel
          else .agree (ts.size > 0) labels
      go 0 ["open", lenLabel b.pt.length] (ts.size + 1)
  | _, _ => .differ "protocol" "missing-records"

def kdfErrName : KdfErr → String
  | .badSalt => "badSalt" | .badParams => "badParams" | .scryptErr => "scryptErr" | .badLen => "badLen"

def handleKdf (c : Case) : Verdict :=
  match c.find "params", c.find "salt", c.find "pw", c.find "res" with
  | some pr, some sr, some pwr, some rr =>
    let p : Params := { N := (pr.getD 1 "0").toInt!, R := (pr.getD 2 "0").toInt!, P := (pr.getD 3 "0").toInt! }
    let salt := bytesOf (sr.getD 1 "-"); let pw := bytesOf (pwr.getD 1 "-")
    let orS := match c.find "or_scrypt" with | some r => bytesOf (r.getD 1 "-") | none => []
    let sc : Bytes → Bytes → Int → Int → Int → Nat → Bytes := fun pw' s' n r p' l =>
      if pw' == pw && s' == salt && n == p.N && r == p.R && p' == p.P && l == 64 && !orS.isEmpty then orS else poison
    let model := kdf sc p salt pw
    let implOk := rr.getD 1 "" == "ok"
    if !specKdfOK p salt.length implOk then
      .specfalse "C05:kdf:accepted-invalid-salt-or-params" s!"N={p.N} r={p.R} p={p.P} saltlen={salt.length}"
    else
      let same := match model with
        | .ok k => implOk && keyOf rr 2 == k
        | .err e => !implOk && rr.getD 2 "" == kdfErrName e
      if !same then .differ "kdf" s!"model={repr model} impl={rr.toList}"
      else .agree implOk (["kdf"] ++ (match model with | .ok _ => ["derived"] | .err e => [kdfErrName e]))
  | _, _, _, _ => .differ "protocol" "missing-records"

def handleC05 (c : Case) : Verdict :=
  match c.stream with
  | "seal" => handleSeal c
  | "open" => handleOpen c
  | "kdf" => handleKdf c
  | s => .differ "protocol" s!"unknown-substream-{s}"

def main : IO Unit := mainLoop handleC05
