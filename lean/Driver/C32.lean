import Driver.Common
import Restic.Model.Copy
/-!
Driver for C32 (copy). Records per case:
  lbl <label>*                         sel <hex arg>*              requested <src snapshot id>*
  src|dst0|dst1|dst2 <id> <tree> <orig|-> <parent|-> <time ns> <hex host> <hex user> <uid> <gid>
        <hex paths> <hex tags> <hex excludes> <npaths> <ntags> <nexcludes>
  reach <tree> <typ:id>*               blobs reachable from a source tree (harness' own walker)
  dsthas <typ:id>*                     handles the destination index lists before the run
  res ok|err|panic <hex>               res2 …  (second run)
  tr save|remove <type> <id> ok|fail <content>     destination mutations of run 1, in order
        data: <typ:id>*   index: <pack/typ:id>*   snapshot: the snapshot fields as above
  tr2 <op> <type>                      destination mutations of run 2
  check1 ok|err <hex>                  check --read-data of the destination after run 1
  mutations <n>                        crash <k> <copy result> <check result> <nsnaps> <hex>
  per crashed prefix k and variant (plain | repair-index = `repair index` first) the copy is run again:
  rhas <k> <v> <typ:id>*               handles the crashed destination's index lists
  rs0|rs1 <k> <v> <snapshot fields>    destination snapshots before / after the resumed copy
  rup <k> <v> <typ:id>*                blobs of the packs the resumed copy stored
  resume <k> <v> <copy result> <check --read-data result> <hex>
-/
open Driver Restic.Model.Copy

namespace C32

def nat (s : String) : Nat := s.toNat?.getD 0
def optID (s : String) : Option ID := if s == "-" then none else some s

def splitNul (hex : String) (n : Nat) : List String :=
  if n == 0 then [] else ((unhexStr hex).getD "?").splitOn "\x00"

/-- parse a snapshot from tokens starting at index i -/
def snapAt (r : Array String) (i : Nat) : Snap :=
  { id := r.getD i "", tree := r.getD (i+1) "", original := optID (r.getD (i+2) "-"),
    parent := optID (r.getD (i+3) "-"), time := (r.getD (i+4) "0").toInt?.getD 0,
    host := r.getD (i+5) "-", user := r.getD (i+6) "-", uid := nat (r.getD (i+7) ""), gid := nat (r.getD (i+8) ""),
    paths := splitNul (r.getD (i+9) "-") (nat (r.getD (i+12) "")),
    tags := splitNul (r.getD (i+10) "-") (nat (r.getD (i+13) "")),
    excludes := splitNul (r.getD (i+11) "-") (nat (r.getD (i+14) "")) }

def sortS (l : List String) : List String := (l.toArray.qsort (· < ·)).toList

/-- snapshot without its own id -/
def showSnap (s : Snap) : String :=
  s!"{s.tree}|{s.original}|{s.parent}|{s.time}|{s.host}|{s.user}|{s.uid}|{s.gid}|{s.paths}|{s.tags}|{s.excludes}"

def handle (c : Case) : Verdict :=
  let lbl := match c.find "lbl" with | some d => d.toList.drop 1 | none => []
  let src := (c.findAll "src").toList.map (snapAt · 1)
  let dst0 := (c.findAll "dst0").toList.map (snapAt · 1)
  let dst1 := (c.findAll "dst1").toList.map (snapAt · 1)
  let dst2 := (c.findAll "dst2").toList.map (snapAt · 1)
  let reqIds := match c.find "requested" with | some d => d.toList.drop 1 | none => []
  let requested := src.filter fun s => reqIds.contains s.id
  let reachTab := (c.findAll "reach").toList.map fun r => (r.getD 1 "", r.toList.drop 2)
  let reach (t : ID) : List Handle := ((reachTab.find? (·.1 == t)).map (·.2)).getD ["UNKNOWN-TREE:" ++ t]
  let has0 := match c.find "dsthas" with | some d => d.toList.drop 1 | none => []
  let res := (c.find "res").map (·.getD 1 "")
  if res == some "panic" then .specfalse "C32:panic" s!"{lbl}" else
  if res != some "ok" then .specfalse "C32:copy-failed" s!"{lbl}" else
  let trRecs := (c.findAll "tr").toList
  if trRecs.any (fun t => t.getD 4 "" != "ok" || t.getD 5 "" == "UNREADABLE" || t.getD 1 "" == "remove") then
    .specfalse "C32:trace:failed-unreadable-or-removing-operation" s!"{lbl}" else
  let trace : List Ev := trRecs.filterMap fun t =>
    match t.getD 2 "" with
    | "data" => some (.savePack (t.getD 3 "") (t.toList.drop 5))
    | "index" => some (.saveIndex ((t.toList.drop 5).map fun e =>
        match e.splitOn "/" with | [p, h] => (p, h) | _ => ("?", e)))
    | "snapshot" => some (.saveSnap (snapAt t 5))
    | _ => none
  let d0 : Dst := { has0, packs := [], indexed := [], snaps := [] }
  -- (b) the property on the implementation's own output
  if !specFaithful requested dst1 then .specfalse "C32:faithful:requested-snapshot-has-no-equal-copy" s!"{lbl}" else
  if (c.find "check1").map (·.getD 1 "") != some "ok" then .specfalse "C32:faithful:check-read-data-fails-on-destination" s!"{lbl}" else
  if !accept reach d0 trace then .specfalse "C32:prefix:snapshot-saved-before-its-data-is-indexed" s!"{lbl}" else
  let crashes := (c.findAll "crash").toList
  match crashes.find? (fun r => r.getD 3 "" != "ok") with
  | some r => .specfalse "C32:prefix:crashed-copy-leaves-unrestorable-snapshot" s!"{lbl} k={r.getD 1 ""}"
  | none =>
  -- resumed copies after a crash: the destination must be healed
  let resumes := (c.findAll "resume").toList
  let kv (r : Array String) (k v : String) : Bool := r.getD 1 "" == k && r.getD 2 "" == v
  let resumeBad := resumes.findSome? fun r =>
    let k := r.getD 1 ""; let v := r.getD 2 ""
    let rs1 := ((c.findAll "rs1").toList.filter (kv · k v)).map (snapAt · 3)
    if r.getD 3 "" != "ok" then some ("C32:resume:resumed-copy-failed", s!"k={k} {v}")
    else if r.getD 4 "" != "ok" then some ("C32:resume:snapshot-data-missing-after-resumed-copy", s!"k={k} {v}")
    else if !specFaithful requested rs1 then some ("C32:resume:requested-snapshot-missing-after-resumed-copy", s!"k={k} {v}")
    else none
  match resumeBad with
  | some (sig, d) => .specfalse sig s!"{lbl} {d}"
  | none =>
  let resumeDiff := resumes.findSome? fun r =>
    let k := r.getD 1 ""; let v := r.getD 2 ""
    let rs0 := ((c.findAll "rs0").toList.filter (kv · k v)).map (snapAt · 3)
    let rhas := match (c.findAll "rhas").toList.find? (kv · k v) with | some d => d.toList.drop 3 | none => []
    let rup := match (c.findAll "rup").toList.find? (kv · k v) with | some d => d.toList.drop 3 | none => []
    let mUp := sortS ((copyRun reach rhas [selected requested rs0]).flatMap fun e => match e with | .savePack _ bs => bs | _ => [])
    if mUp != sortS rup then some s!"k={k} {v} model-only={mUp.filter (!rup.contains ·)} impl-only={(sortS rup).filter (!mUp.contains ·)}" else none
  match resumeDiff with
  | some d => .differ "resumed-copy-uploaded-blobs" s!"{lbl} {d}"
  | none =>
  if (c.find "res2").map (·.getD 1 "") != some "ok" then .specfalse "C32:idempotent:second-run-failed" s!"{lbl}" else
  if !(c.findAll "tr2").isEmpty then .specfalse "C32:idempotent:second-run-writes" s!"{lbl} ops={(c.findAll "tr2").toList.map (·.toList.drop 1)}" else
  if !specIdempotent requested dst1 then .specfalse "C32:idempotent:copied-snapshot-not-recognised" s!"{lbl}" else
  if sortS (dst1.map showSnap) != sortS (dst2.map showSnap) then .specfalse "C32:idempotent:destination-snapshots-changed" s!"{lbl}" else
  -- (a) the model
  let sel := selected requested dst0
  let mTrace := copyRun reach has0 [sel]
  let mBlobs := sortS (mTrace.flatMap fun e => match e with | .savePack _ bs => bs | _ => [])
  let iBlobs := sortS (trace.flatMap fun e => match e with | .savePack _ bs => bs | _ => [])
  if mBlobs != iBlobs then
    .differ "uploaded-blobs" s!"{lbl} model-only={mBlobs.filter (!iBlobs.contains ·)} impl-only={iBlobs.filter (!mBlobs.contains ·)} n={mBlobs.length}/{iBlobs.length}" else
  let mSnaps := sortS (mTrace.filterMap fun e => match e with | .saveSnap s => some (showSnap s) | _ => none)
  let iSnaps := sortS (trace.filterMap fun e => match e with | .saveSnap s => some (showSnap s) | _ => none)
  if mSnaps != iSnaps then .differ "saved-snapshots" s!"{lbl} model={mSnaps} impl={iSnaps}" else
  let newSnaps := dst1.filter fun s => !(dst0.map (·.id)).contains s.id
  if sortS (newSnaps.map showSnap) != iSnaps then .differ "new-snapshots-vs-trace" s!"{lbl}" else
  let labels := lbl ++ (if sel.length < requested.length then ["some-skipped-as-already-copied"] else []) ++
    (if sel.isEmpty then ["nothing-to-copy"] else []) ++
    (if mBlobs.isEmpty && !sel.isEmpty then ["all-blobs-already-in-dst"] else []) ++
    (if crashes.isEmpty then [] else ["crash-prefixes"]) ++
    (if resumes.isEmpty then [] else ["resumed-after-crash"]) ++
    (if resumes.any (·.getD 2 "" == "repair-index") then ["resumed-after-repair-index"] else []) ++
    (if requested.any (·.original.isSome) then ["requested-has-original"] else [])
  .agree (!sel.isEmpty) labels

end C32

def main : IO Unit := mainLoop C32.handle
