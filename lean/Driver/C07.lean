import Driver.Common
import Restic.Model.Unpacked
/-!
Driver for C07. Records per case (sub-streams `rt` = save then load, `bad` = hand-built file):
  cfg <version> <filetype> <mode> <noExtraVerify 0/1>
  payload <hex>                        (rt) the bytes passed to saveUnpacked
  save ok <viaAPI> | err <class> | panic   (rt)
  kind <label>                         (bad) how the stored file was built
  stored <hex>                         raw bytes in the backend
  plain ok <hex> | err | short         oracle: crypto.Key.Open of stored (done by the harness)
  zdec <hex in> ok <hex> | err         oracle: independent zstd decoder on plain[1:]
  load ok <hex> | err <class> | panic  what the real LoadUnpacked returned
-/
open Driver Restic.Model.Unpacked Restic.Gen

def errName : Err → String
  | .tooShort => "tooShort" | .openFailed => "openFailed" | .unsupported => "unsupported"
  | .zstd => "zstd" | .verifyDecrypt => "verifyDecrypt" | .verifyDecompress => "verifyDecompress"
  | .verifyMismatch => "verifyMismatch"

def resStr : Res Bytes → String
  | .ok b => s!"ok:{hex b}"
  | .err e => s!"err:{errName e}"
  | .panic => "panic"

def errOfClass (s : String) : Option Err :=
  match s with
  | "tooShort" => some .tooShort
  | "openFailed" => some .openFailed
  | "unsupported" => some .unsupported
  | "zstd" => some .zstd
  | "verifyDecrypt" => some .verifyDecrypt
  | "verifyDecompress" => some .verifyDecompress
  | "verifyMismatch" => some .verifyMismatch
  | _ => none

def firstByteLabel (b : Bytes) : String :=
  match b with
  | [] => "first-empty"
  | x :: _ =>
    if x.toNat = unpacked_versionByte then "first-ver"
    else if x.toNat = unpacked_rawByte0 then "first-lbracket"
    else if x.toNat = unpacked_rawByte1 then "first-lbrace"
    else if x = 0 then "first-00" else if x = 255 then "first-ff" else "first-other"

def typeLabel (t : Nat) : String :=
  if t = restic_ConfigFile then "config" else if t = restic_IndexFile then "index"
  else if t = restic_SnapshotFile then "snapshot" else if t = restic_LockFile then "lock" else s!"type{t}"

def handleC07 (c : Case) : Verdict :=
  match c.find "cfg" with
  | none => .differ "protocol" "no-cfg-record"
  | some cfg =>
  let v := (cfg.getD 1 "0").toNat!
  let t := (cfg.getD 2 "0").toNat!
  let mode := cfg.getD 3 "?"
  let nev := cfg.getD 4 "0" == "1"
  let baseLabels := [s!"v{v}", typeLabel t, s!"mode-{mode}"] ++ (if nev then ["noextraverify"] else [])
  -- a failed save has nothing stored
  match c.find "save" with
  | some s =>
    if s.getD 1 "" == "panic" then .specfalse "C07:save:panic" "saveUnpacked-panicked"
    else if s.getD 1 "" == "err" then
      -- the in-memory backend never fails, so a refused save means restic's own self check found
      -- that decoding the encoded payload does not give the payload back: the round trip fails
      let cls := s.getD 2 "?"
      let payload : Bytes := match c.find "payload" with | some r => (unhex (r.getD 1 "-")).getD [] | none => []
      if cls == "verifyDecrypt" || cls == "verifyDecompress" || cls == "verifyMismatch" then
        .specfalse s!"C07:roundtrip:save-self-check-failed:{cls}:v{v}:{typeLabel t}:{firstByteLabel payload}" s!"payload={hex payload}"
      else .differ "save" s!"implementation-save-failed:{cls}"
    else handleStored c v t nev baseLabels true
  | none => handleStored c v t nev baseLabels false
where
  handleStored (c : Case) (v t : Nat) (nev : Bool) (baseLabels : List String) (isRt : Bool) : Verdict :=
    match c.find "stored", c.find "plain", c.find "load" with
    | some st, some pl, some ld =>
      match unhex (st.getD 1 "-") with
      | none => .differ "protocol" "bad-hex-stored"
      | some stored =>
      let plain : Option Bytes := if pl.getD 1 "" == "ok" then unhex (pl.getD 2 "-") else none
      let zt : List (Bytes × Option Bytes) := (c.findAll "zdec").toList.filterMap fun r =>
        match unhex (r.getD 1 "-") with
        | none => none
        | some i => some (i, if r.getD 2 "" == "ok" then unhex (r.getD 3 "-") else none)
      let payload : Bytes := match c.find "payload" with | some r => (unhex (r.getD 1 "-")).getD [] | none => []
      let nonce := stored.take crypto_ivSize
      let body := stored.drop crypto_ivSize
      -- the primitives as finite tables observed by the harness
      let codec : Codec := {
        sealB := fun n p => if n == nonce ∧ some p == plain then body else [0xde, 0xad]
        openB := fun n ct => if n == nonce ∧ ct == body then plain else none
        zenc := fun p => if p == payload then (plain.getD []).drop 1 else [0xde, 0xad]
        zdec := fun x => match zt.find? (fun e => e.1 == x) with | some e => e.2 | none => none }
      let load : Option (Res Bytes) :=
        match ld.getD 1 "" with
        | "ok" => (unhex (ld.getD 2 "-")).map .ok
        | "panic" => some .panic
        | "err" => (errOfClass (ld.getD 2 "")).map .err
        | _ => none
      match load with
      | none => .differ "load" s!"unclassified-implementation-result:{ld.getD 1 ""}:{ld.getD 2 ""}"
      | some load =>
      if load == .panic then .specfalse s!"C07:load:panic:v{v}:{typeLabel t}" "LoadUnpacked-panicked" else
      let fl := firstByteLabel (if isRt then payload else plain.getD [])
      if isRt then
        -- property predicate on the implementation's own behaviour
        if !specRoundTrip t payload true plain load then
          let what := if load != .ok payload then "load-differs-from-saved" else "config-not-stored-raw"
          .specfalse s!"C07:roundtrip:{what}:v{v}:{typeLabel t}:{fl}" s!"payload={hex payload} load={resStr load}"
        else
          let mSave := saveUnpacked codec v t nev nonce payload
          let mLoad := loadUnpacked codec v t stored
          if mSave != .ok stored then .differ "save" s!"model={resStr mSave} stored={hex stored} plain={hex (plain.getD [])}"
          else if mLoad != load then .differ "load" s!"model={resStr mLoad} impl={resStr load}"
          else .agree (!payload.isEmpty) (baseLabels ++ ["rt", fl])
      else
        if plain.isSome && !specReject v t (plain.getD []) load then
          .specfalse s!"C07:unknown-encoding-accepted:v{v}:{typeLabel t}" s!"plain={hex (plain.getD [])} load={resStr load}"
        else
          let mLoad := loadUnpacked codec v t stored
          if mLoad != load then .differ "load" s!"model={resStr mLoad} impl={resStr load} stored={hex stored}"
          else
            let out := match load with
              | .ok _ => "load-ok" | .err e => s!"load-{errName e}" | .panic => "panic"
            let kind := match c.find "kind" with | some k => k.getD 1 "?" | none => "?"
            let ks := kind.splitOn "+"
            .agree plain.isSome (baseLabels ++ ["bad", fl, out, s!"kind-{ks.headD "?"}"] ++
              (match ks.drop 1 with | d :: _ => [s!"damage-{d}"] | [] => []))
    | _, _, _ => .differ "protocol" "missing-stored/plain/load"

def main : IO Unit := mainLoop handleC07
