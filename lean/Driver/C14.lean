import Driver.RepoTraceIO
/-!
Driver for C14 (stream: harness/main/c14.go). One case = one concurrent scenario: 2–3 real
`backup` processes and a sequence of real reader commands on ONE backend. Records:
  r0pack / r0index / r0snap       repository before the writers start
  ev <proc> <event>               global trace of the writers' mutations, in backend order
  wres <proc> <exit> <hex>        writer results
  rd <proc> <cmd> <exit> <hex stderr> (S<pos>|I<pos>)*
                                  one reader run: its snapshot listings (S) and index listings (I)
                                  in its own order, each with its position in the global trace
  state check <0|1> <hex>         real `check` when everything is over
  timeout 1                       the scenario hit its time limit (hang / overloaded machine): not evaluated
-/
open Driver Driver.RT Restic.Model.RepoTrace

structure RdRun where
  proc : String
  cmd : String
  exit : String
  err : String
  ops : List (ROp × Nat)

def parseRd (r : Array String) : RdRun :=
  { proc := r.getD 1 "?", cmd := r.getD 2 "?", exit := r.getD 3 "?", err := (unhexStr (r.getD 4 "-")).getD "?"
    ops := (r.toList.drop 5).filterMap fun t =>
      if t.startsWith "S" then some (.listSnapshots, natOf (t.drop 1).toString)
      else if t.startsWith "I" then some (.listIndex, natOf (t.drop 1).toString)
      else none }

/-- canonical class of a reader failure message (never the raw text with ids) -/
def errClass (m : String) : String :=
  let has (p : String) : Bool := (m.splitOn p).length > 1
  if has "not found in index" || has "not found in the index" || has "not found in repository" || has "is not contained in" then "blob-not-in-index"
  else if has "tree" && has "not found" then "tree-not-found"
  else if has "locked" then "locked"
  else "other-error"

/-- sub-stream `fuse`: one refresh of the mount's snapshot list after a step of another process.
  step <kind> <changed 0|1>      what the other process did (backup newer/older/equal time, tag, forget)
  ops (S|I)*                      the mount's snapshot / index listings during this refresh
  read ok <listed> <unreadable> <classes> | read error <hex> -/
def handleFuse (c : Case) : Verdict :=
  let step := match c.find "step" with | some r => r.getD 1 "?" | none => "?"
  let changed := match c.find "step" with | some r => r.getD 2 "0" == "1" | none => false
  let ops : List ROp := match c.find "ops" with
    | some r => (r.toList.drop 1).filterMap fun t =>
        if t == "S" then some .listSnapshots else if t == "I" then some .listIndex else none
    | none => []
  match c.find "read" with
  | none => .differ "protocol" "no-read-record"
  | some r =>
    if r.getD 1 "" != "ok" then
      .specfalse s!"C14:mount:snapshots-dir-unreadable-after-{step}" ((unhexStr (r.getD 2 "-")).getD "?")
    else if natOf (r.getD 3 "0") > 0 then
      .specfalse s!"C14:mount:listed-snapshot-unreadable-after-{step}" s!"{r.getD 3 "0"} of {r.getD 2 "0"} listed snapshots cannot be read: {r.getD 4 "-"}"
    else if changed && !refreshReloads ops then
      .differ "fuse-refresh" s!"snapshot set changed ({step}) but the index is not reloaded after the listing: ops={ops.map fun o => if o == .listSnapshots then "S" else "I"}"
    else .agree (changed && step != "initial") (labelsOf c)

def handleC14 (c : Case) : Verdict :=
  if c.stream == "fuse" then handleFuse c else
  let r0 := parseRepo c
  let tagged := parseEvents c
  let g := tagged.map (·.2)
  let rds := (c.findAll "rd").toList.map parseRd
  let writers := (c.findAll "wres").toList
  let chk := ((c.findAll "state").toList.find? fun r => r.getD 1 "" == "check").map fun r => r.getD 2 "0" == "1"
  if (c.find "timeout").isSome then .agree false ["scenario-timeout"] else
  -- the property on the implementation's own outputs ----------------------------------------
  let badReader := rds.find? fun r => r.exit != "0"
  let badWriter := writers.find? fun r => r.getD 2 "1" != "0"
  match badReader, badWriter, chk with
  | some r, _, _ => .specfalse s!"C14:{r.cmd}:reader-fails-under-concurrent-backups:{errClass r.err}" s!"{r.proc}: exit {r.exit}: {r.err}"
  | _, some w, _ => .specfalse "C14:backup:writer-fails-under-concurrent-backups" s!"{w.getD 1 "?"}: exit {w.getD 2 "?"}: {(unhexStr (w.getD 3 "-")).getD "?"}"
  | _, _, some false => .specfalse "C14:check-fails-after-concurrent-backups" ""
  | _, _, _ =>
    -- model vs implementation ---------------------------------------------------------------
    if !accept_global r0 g then
      .differ "trace-not-in-language" s!"accept_global rejects the interleaved trace ({g.length} events)"
    else if !freshOK r0 g then
      .differ "file-name-reused" ""
    else
      let procs := (tagged.map (·.1)).eraseDups
      -- a `backup` writes one snapshot, last; `copy` (proc "wc") writes the snapshots of a batch
      -- after the batch's flush, possibly several batches: only the global guards constrain it
      let badPhase := procs.find? fun p => p != "wc" && !snapOnlyLast ((tagged.filter (·.1 == p)).map (·.2))
      match badPhase with
      | some p => .differ "writer-phase-structure" s!"{p}: snapshot save is not its last operation"
      | none =>
        let badOrder := rds.find? fun r => !readerOrderOK (r.ops.map (·.1))
        match badOrder with
        | some r => .differ "reader-order" s!"{r.cmd} ({r.proc}) lists snapshots after listing the index: {r.ops.map (·.2)}"
        | none =>
          -- the theorem's conclusion, evaluated for each reader's actual t1 / t2
          let viol := rds.find? fun r =>
            let t1 := ((r.ops.filter (·.1 == .listSnapshots)).map (·.2)).foldl max 0
            match (r.ops.filter (·.1 == .listIndex)).map (·.2) with
            | [] => false
            | t2 :: _ =>
              let s1 := applyAll r0 (g.take t1)
              let s2 := applyAll r0 (g.take t2)
              !(s1.snaps.all fun x => x.2.needs.all (loadedIndexHas s2))
          match viol with
          | some r => .differ "reader-sees-unindexed" s!"{r.cmd} ({r.proc})"
          | none =>
            let n := g.length
            let overl := rds.filter fun r => r.ops.any fun o => 0 < o.2 && o.2 < n
            let between := rds.filter fun r =>
              let t1 := ((r.ops.filter (·.1 == .listSnapshots)).map (·.2)).foldl max 0
              match (r.ops.filter (·.1 == .listIndex)).map (·.2) with
              | t2 :: _ => t1 < t2
              | [] => false
            let labels := labelsOf c ++ (rds.map fun r => s!"rd:{r.cmd}").eraseDups ++
              (if overl.isEmpty then ["no-overlap"] else [s!"overlapping-readers:{min overl.length 9}"]) ++
              (if between.isEmpty then [] else ["writer-ops-between-list-and-index"]) ++
              (overl.map fun r => s!"overlap:{r.cmd}").eraseDups
            .agree (!overl.isEmpty) labels

def main : IO Unit := mainLoop handleC14
