import Driver.Common
import Restic.Model.Retry
/-!
Driver for C35 (history correspondence). Records per case:
  cfg <redesign> <flaky> <atomic> <uni>
  init <cell>*                      content of names 0..uni-1 ("A" absent, "-" empty, hex otherwise)
  op save <h> <hex data> <stop> <ctxAlready> <rewindFails.kind.k.removeFails>*
  op load <h> <expired> <stop> <ctxAlready> <kind.k>*
  op stat|remove <h> <stop> <ctxAlready> <kind>*
  op list <fnFailAt|-1> <stop> <ctxAlready> <rot.count.dup.outcome>*
  res <ok|error kind> <per-attempt error kinds, comma separated|->
  size <n> | deliv <hex> <complete> | rep <name>*
  cells <cell>*                     backend content after the operation
  endop
-/
open Driver Restic.Model.Retry

namespace C35

def parseCell (t : String) : Option Bytes := if t == "A" then none else unhex t

def parseErr (t : String) : Option Err :=
  match t with
  | "transient" => some .transient | "permanent" => some .permanent | "notExist" => some .notExist
  | "canceled" => some .canceled | "breaker" => some .breaker | "fn" => some .fn | "rewind" => some .rewind
  | _ => none

def parseRes (t : String) : Option Res :=
  if t == "ok" then some .ok else (parseErr t).map .err

def pad {α} (l : List α) (x : α) : List α := l ++ List.replicate 14 x

def parseSaveAtt (t : String) : Option SaveAtt :=
  match t.splitOn "." with
  | [rw, kind, k, rm] =>
    let k := k.toNat!
    let kind? : Option SaveKind := match kind with
      | "ok" => some .ok | "failBefore" => some .failBefore | "partial" => some (.partialFail k)
      | "writeThenFail" => some .writeThenFail | "permanent" => some .permanent | "cancel" => some (.cancelFail k)
      | _ => none
    kind?.map fun kd => { rewindFails := rw == "1", kind := kd, removeFails := rm == "1" }
  | _ => none

def parseLoadKind (t : String) : Option LoadKind :=
  match t.splitOn "." with
  | [kind, k] =>
    match kind with
    | "none" => some .none | "failBefore" => some .failBefore | "partial" => some (.partialFail k.toNat!)
    | "afterFail" => some .afterFail | "permanent" => some .permanent | "consumerErr" => some .consumerErr
    | "cancel" => some .cancelFail | _ => none
  | _ => none

def parseStatKind : String → Option StatKind
  | "none" => some .none | "failBefore" => some .failBefore | "permanent" => some .permanent
  | "cancel" => some .cancelFail | _ => none

def parseRemoveKind : String → Option RemoveKind
  | "none" => some .none | "failBefore" => some .failBefore | "removedThenFail" => some .removedThenFail
  | "permanent" => some .permanent | "cancel" => some .cancelFail | _ => none

def parseListAtt (t : String) : Option ListAtt :=
  match t.splitOn "." with
  | [rot, count, dup, outcome] =>
    let oc : Option (Option Err) := match outcome with
      | "ok" => some none | "transient" => some (some .transient) | "permanent" => some (some .permanent)
      | "cancel" => some (some .canceled) | _ => none
    oc.map fun o => { rot := rot.toNat!, count := count.toNat!, dup := dup == "1", outcome := o }
  | _ => none

structure ParsedOp where
  op : Op
  stop : Nat → Bool
  ctxAlready : Bool
  kind : String

def parseOp (r : Array String) : Option ParsedOp := do
  let l := r.toList
  let stopOf (t : String) : Nat → Bool := fun _ => t == "always"
  match l with
  | _ :: "save" :: h :: data :: stop :: ctx :: atts =>
    let d ← unhex data
    let sc ← atts.mapM parseSaveAtt
    some ⟨.save h.toNat! d (pad sc ⟨false, .ok, false⟩), stopOf stop, ctx == "1", "save"⟩
  | _ :: "load" :: h :: ex :: stop :: ctx :: atts =>
    let sc ← atts.mapM parseLoadKind
    some ⟨.load h.toNat! (ex == "1") (pad sc .none), stopOf stop, ctx == "1", "load"⟩
  | _ :: "stat" :: h :: stop :: ctx :: atts =>
    let sc ← atts.mapM parseStatKind
    some ⟨.stat h.toNat! (pad sc .none), stopOf stop, ctx == "1", "stat"⟩
  | _ :: "remove" :: h :: stop :: ctx :: atts =>
    let sc ← atts.mapM parseRemoveKind
    some ⟨.remove h.toNat! (pad sc .none), stopOf stop, ctx == "1", "remove"⟩
  | _ :: "list" :: ff :: stop :: ctx :: atts =>
    let sc ← atts.mapM parseListAtt
    let f : Option Nat := if ff == "-1" then none else some ff.toNat!
    some ⟨.list f (pad sc ⟨0, 1048576, false, none⟩), stopOf stop, ctx == "1", "list"⟩
  | _ => none

def cellsOfList (l : List (Option Bytes)) : Cells := fun n => (l.getD n none)

def cellsToList (uni : Nat) (c : Cells) : List (Option Bytes) := (List.range uni).map c

structure Acc where
  cfg : Cfg
  uni : Nat
  m : MState                       -- model state
  impl : Cells                     -- implementation's backend content before the pending op
  pending : Option ParsedOp := none
  res : Option Res := none
  trace : List (Option Err) := []
  size : Nat := 0
  delivs : List Deliv := []
  reported : List Name := []
  labels : List String := []
  nt : Bool := false
  verdict : Option Verdict := none

def parseTrace (t : String) : Option (List (Option Err)) :=
  if t == "-" then some [] else
  (t.splitOn ",").mapM fun k => if k == "ok" then some none else (parseErr k).map some

def resLabel : Res → String
  | .ok => "ok" | .err e => s!"err-{repr e}".replace "Restic.Model.Retry.Err." "" | .outOfScript => "outOfScript"

def finishOp (a : Acc) (cellsRec : Array String) : Acc :=
  match a.pending, a.res with
  | some p, some res =>
    let after : Cells := cellsOfList ((cellsRec.toList.drop 1).map parseCell)
    let implOut : OpOut := { res := res, trace := a.trace, size := a.size, delivs := a.delivs, reported := a.reported }
    -- (b) the property predicate on the implementation's own output
    match specViolation a.cfg a.uni a.impl p.op after implOut with
    | some clause =>
      { a with verdict := some (.specfalse s!"C35:{p.kind}:{clause}" s!"op={repr p.op} out={repr implOut} after={repr (cellsToList a.uni after)}") }
    | none =>
      -- (a) model vs implementation
      let (m', mo) := step a.cfg a.uni p.stop p.ctxAlready a.m p.op
      if mo.res == .outOfScript then { a with verdict := some (.differ "model" "fault script exhausted in the model") }
      else if mo != implOut then
        { a with verdict := some (.differ s!"{p.kind}-output" s!"op={repr p.op} cfg={repr a.cfg} model={repr mo} impl={repr implOut}") }
      else if cellsToList a.uni m'.cells != cellsToList a.uni after then
        { a with verdict := some (.differ s!"{p.kind}-state" s!"op={repr p.op} model={repr (cellsToList a.uni m'.cells)} impl={repr (cellsToList a.uni after)}") }
      else
        let excluded : Bool := match p.op with
          | .save _ _ sc => res != .ok && !a.cfg.atomic && !cleanupsWork (sc.take a.trace.length)
          | _ => false
        let lbl := [p.kind, s!"{p.kind}-{resLabel res}", s!"attempts-{a.trace.length}"] ++
          (if excluded then ["excluded:cleanup-failed"] else []) ++
          (if p.ctxAlready then ["ctx-already-cancelled"] else []) ++
          (if (m'.failed.length > a.m.failed.length) then ["breaker-armed"] else [])
        { a with m := m', impl := after, pending := none, res := none, trace := [], size := 0, delivs := [],
                 reported := [], labels := a.labels ++ lbl, nt := a.nt || a.trace.length ≥ 2 }
  | _, _ => { a with verdict := some (.differ "protocol" "endop without op/res") }

def handle (c : Case) : Verdict :=
  match c.find "cfg", c.find "init" with
  | some cf, some ini =>
    let cfg : Cfg := { redesign := cf.getD 1 "" == "1", flaky := cf.getD 2 "" == "1", atomic := cf.getD 3 "" == "1", maxTries := maxRetries }
    let uni := (cf.getD 4 "0").toNat!
    let c0 := cellsOfList ((ini.toList.drop 1).map parseCell)
    let init : Acc := { cfg := cfg, uni := uni, m := { cells := c0, failed := [] }, impl := c0 }
    let (fin, _) := c.recs.foldl (init := (init, (#[] : Array String))) fun (a, lastCells) r =>
      if a.verdict.isSome then (a, lastCells) else
      match r.getD 0 "" with
      | "op" => match parseOp r with
        | some p => ({ a with pending := some p }, lastCells)
        | none => ({ a with verdict := some (.differ "protocol" s!"unparsable op {r}") }, lastCells)
      | "res" =>
        match parseRes (r.getD 1 ""), parseTrace (r.getD 2 "-") with
        | some res, some tr => ({ a with res := some res, trace := tr }, lastCells)
        | _, _ => ({ a with verdict := some (.specfalse "C35:unexpected-error-value" s!"{r}") }, lastCells)
      | "size" => ({ a with size := (r.getD 1 "0").toNat! }, lastCells)
      | "deliv" => ({ a with delivs := a.delivs ++ [⟨(unhex (r.getD 1 "-")).getD [], r.getD 2 "" == "1"⟩] }, lastCells)
      | "rep" => ({ a with reported := (r.toList.drop 1).map String.toNat! }, lastCells)
      | "cells" => (a, r)
      | "endop" => (finishOp a lastCells, #[])
      | _ => (a, lastCells)
    match fin.verdict with
    | some v => v
    | none =>
      let cfgl := [if cfg.redesign then "redesign" else "deprecated"] ++ (if cfg.flaky then ["flaky"] else []) ++
        [if cfg.atomic then "atomic" else "non-atomic"]
      .agree fin.nt ((cfgl ++ fin.labels).eraseDups)
  | _, _ => .differ "protocol" "missing cfg/init"

end C35

def main : IO Unit := mainLoop C35.handle
