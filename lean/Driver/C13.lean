import Driver.Common
import Restic.Model.LockRefresh
import Restic.Gen.Consts
/-!
Driver for C13 (stream `script`). Times are microseconds since the start of the case.
  params <refreshInterval> <refreshabilityTimeout> <kind>
  script <failFrom> <failTo> <slowFrom> <slowTo> <slow> <rmFailFrom> <rmFailTo> <removeAt> <unlockAt>
  save <start> <end> <ok> <name8>        lock file written by the holder (`Time` is stamped right before `start`)
  remove <start> <end> <ok> <name8>      lock file removed by the holder
  list <t> <ok> <names>
  freeze <t> | unfreeze <t> <ctxCancelled 0/1>
  write <t> <ctxCancelled 0/1> <name8>   a snapshot upload (issued with the lock context while the backend was frozen) reaches the storage
  write-ret <t> nil|ctx|err <name8>      … and how the upload call returned
  acq <t> | cancel <t> | removed-by-other <t> <name8> | unlock-call <t> <ctxCancelled> | unlock-ret <t> <ctxCancelled>
  files-left <n> | log <hex>
The driver evaluates the property on these observations (age of the newest lock file while the
holder is active, detection of a removed lock under Freeze, no gap during refresh, cleanup on unlock)
and checks that the observed actions respect the guards of the model (`Restic.Model.LockRefresh`).
-/
open Driver Restic.Model.LockRefresh

def natAt (r : Array String) (i : Nat) : Nat := (r.getD i "0").toNat?.getD 0


structure Ev where
  kind : String
  t : Nat          -- time the event took effect (end of the operation)
  start : Nat
  ok : Bool
  name : String
deriving Inhabited

def toEv (r : Array String) : Option Ev :=
  match r.getD 0 "" with
  | "save" | "remove" => some { kind := r.getD 0 "", start := natAt r 1, t := natAt r 2, ok := r.getD 3 "0" == "1", name := r.getD 4 "-" }
  | "list" => some { kind := "list", start := natAt r 1, t := natAt r 1, ok := r.getD 2 "0" == "1", name := r.getD 3 "-" }
  | "freeze" => some { kind := "freeze", start := natAt r 1, t := natAt r 1, ok := true, name := "-" }
  | "unfreeze" => some { kind := "unfreeze", start := natAt r 1, t := natAt r 1, ok := r.getD 2 "0" == "1", name := "-" }
  | "acq" | "cancel" => some { kind := r.getD 0 "", start := natAt r 1, t := natAt r 1, ok := true, name := "-" }
  | "removed-by-other" => some { kind := "rmother", start := natAt r 1, t := natAt r 1, ok := true, name := r.getD 2 "-" }
  | "unlock-call" | "unlock-ret" => some { kind := r.getD 0 "", start := natAt r 1, t := natAt r 1, ok := r.getD 2 "0" == "1", name := "-" }
  | _ => none

structure Obs13 where
  present : List String := []
  fileTime : Nat := 0            -- `Time` of the newest lock file the holder has in the backend
  cur : String := "-"            -- last lock file written successfully
  frozen : Bool := false
  freezeAt : Nat := 0
  curPresentAtFreeze : Bool := true
  curAtFreeze : String := "-"
  lostInWindow : Bool := false   -- the lock the holder had at Freeze was removed by somebody else inside the window
  checkedAfterLoss : Bool := false -- … and an existence check (List) of the forced refresh ran after that
  lastM : Nat := 0               -- (approximate) last notification of the monitor
  lastR : Nat := 0               -- stamp of the last successful refresh
  pendingSave : Option Nat := none  -- stamp of a regular refresh whose old-file removal has not been seen
  ended : Bool := false          -- cancel or unlock-call seen
  removedByOther : Bool := false
  rmFailed : Bool := false
  ages : List Nat := []
  labels : List String := []
  nrefresh : Nat := 0
  nforced : Nat := 0
  err : Option Verdict := none   -- first guard of the model an observation does not respect
  viol : Option Verdict := none

def Obs13.label (a : Obs13) (l : String) : Obs13 := if a.labels.contains l then a else { a with labels := l :: a.labels }
def Obs13.differ (a : Obs13) (f d : String) : Obs13 := if a.err.isSome then a else { a with err := some (.differ f d) }
def Obs13.bad (a : Obs13) (sig d : String) : Obs13 := if a.viol.isSome then a else { a with viol := some (.specfalse sig d) }

def handleC13 (c : Case) : Verdict :=
  match c.find "params", c.find "script" with
  | some pr, some sc =>
    if (c.find "lockerr").isSome then .differ "harness" "Lock failed" else
    if (c.find "bubble").isSome then .differ "harness" s!"synctest bubble: {(c.find "bubble").get!.toList}" else
    let ri := natAt pr 1; let rt := natAt pr 2; let kind := pr.getD 3 "?"
    let poll := if ri < 1000000 then ri / 5 else 1000000
    -- the cases run in virtual time (testing/synctest): timers are exact; one poll interval of
    -- tolerance covers the order of events that fall on the same instant
    let jitter := poll
    let slow := natAt sc 5
    let unlockAt := natAt sc 9
    let dOp := slow + jitter
    let bound := rt + poll + 2 * dOp
    let evs := (c.recs.toList.filterMap toEv)
    -- the recording order is the order of completion
    let acc := evs.foldl (init := ({} : Obs13)) fun a e =>
      let active := !a.ended && !a.frozen
      match e.kind with
      | "acq" => { a with lastM := e.t }
      | "save" =>
        if !e.ok then a.label "save-failed" else
        -- just before the new file appears the newest file is the previous one
        let a := if a.cur != "-" && active then { a with ages := (e.t - a.fileTime) :: a.ages } else a
        let first := a.cur == "-"
        let a := { a with present := e.name :: a.present, cur := e.name, fileTime := e.start }
        if first then { a with lastR := e.start } else
        if a.frozen then (a.label "forced-refresh-wrote-replacement")
        else
          -- guard of `rlStartRefresh`: a regular refresh starts only within R of the last successful one
          let a := if e.start > a.lastR + rt + jitter then a.differ "refresh-guard" s!"regular refresh started {e.start - a.lastR}us after the last successful one (R={rt})" else a
          { a with pendingSave := some e.start, nrefresh := a.nrefresh + 1 }
      | "remove" =>
        if !e.ok then { a with rmFailed := true, pendingSave := none }.label "remove-failed" else
        let a := { a with present := a.present.erase e.name }
        -- no gap: while the holder is alive and nobody else interfered it keeps a lock file
        let a := if !a.ended && !a.removedByOther && a.present.isEmpty then
            a.bad "C13:refresh-gap" s!"holder removed {e.name} at {e.t}us and has no lock file left" else a
        match a.pendingSave with
        | some st => if a.frozen then a else { a with lastM := e.t, lastR := st, pendingSave := none }
        | none => a
      | "rmother" =>
        let a := if a.frozen && e.name == a.curAtFreeze then { a with lostInWindow := true } else a
        { a with present := a.present.erase e.name, removedByOther := true }.label "removed-by-other"
      | "list" => if a.frozen && a.lostInWindow then { a with checkedAfterLoss := true } else a
      | "freeze" =>
        let a := if active then { a with ages := (e.t - a.fileTime) :: a.ages } else a
        -- guard of `monPollDue`: the monitor forces a refresh only when R has passed since its last notification
        let a := if e.t + jitter < a.lastM + rt then a.differ "force-guard" s!"forced refresh {e.t - a.lastM}us after the last notification (R={rt})" else a
        { a with frozen := true, freezeAt := e.t, curPresentAtFreeze := a.present.contains a.cur, curAtFreeze := a.cur,
                 lostInWindow := false, checkedAfterLoss := false, nforced := a.nforced + 1 }
      | "unfreeze" =>
        let a := { a with frozen := false }
        if e.ok then
          let a := (a.label "forced-refresh-failed-cancelled-frozen")
          { a with ended := true }
        else
          -- the forced refresh succeeded although the holder's lock file was gone when it started
          let a := if (!a.curPresentAtFreeze || a.checkedAfterLoss) && !a.ended then
              a.bad "C13:removed-lock-not-detected" s!"forced refresh at {a.freezeAt}us succeeded although lock file {a.curAtFreeze} was removed (before the refresh: {!a.curPresentAtFreeze}; before an existence check inside it: {a.checkedAfterLoss})" else a
          let a := if a.lostInWindow then a.label "lock-removed-inside-forced-refresh" else a
          ({ a with lastM := e.t, lastR := a.fileTime }.label "forced-refresh-ok")
      | "cancel" =>
        if a.ended then a else
        -- cancelled inside the Freeze window: the failed forced refresh (its Unfreeze record follows)
        if a.frozen then ({ a with ended := true }.label "cancelled-while-frozen") else
        -- guard: the context is cancelled only by a failed forced refresh (seen at its Unfreeze) or by Unlock
        ({ a with ages := (if active then (e.t - a.fileTime) :: a.ages else a.ages), ended := true }.differ "cancel-guard"
          s!"context cancelled at {e.t}us without a failed forced refresh or Unlock")
      | "unlock-call" =>
        if a.ended then (a.label "cancelled-before-unlock") else
        { a with ages := (if active then (e.t - a.fileTime) :: a.ages else a.ages), ended := true }
      | "unlock-ret" =>
        if !e.ok then a.bad "C13:context-alive-after-unlock" "Unlock returned but the context is not cancelled" else a
      | _ => a
    let acc :=
      if (c.find "unlock-hang").isSome then acc.bad "C13:unlock-hangs" "Unlock did not return within 15 s" else acc
    let acc := match c.find "files-left" with
      | some r =>
        if natAt r 1 > 0 && !acc.rmFailed && !acc.removedByOther && (c.find "unlock-ret").isSome then
          acc.bad "C13:lock-file-left-after-unlock" s!"{natAt r 1} lock files left although no removal failed"
        else acc
      | none => acc
    -- "before its lock could be judged stale by others": with the real constants (or the same
    -- proportions for the shortened lockers) and a fault script within the property's assumption
    -- (2·D + p ≤ S/6, i.e. 5 min for the real 30 min) no active age reaches S − 2·eps
    let realC := pr.getD 4 "0" == "1"
    let sReal := Restic.Gen.lock_staleLockTimeout_ns / 1000
    let stale := if realC then sReal else rt * 4 / 3
    let eps := stale / 30
    let acc := if 2 * dOp + poll ≤ stale / 6 then
        (if acc.ages.any (fun a => a + 2 * eps > stale) then
          acc.bad "C13:active-with-stale-lock" s!"kind={kind} staleTimeout={stale} eps={eps} ages={acc.ages.reverse}" else acc.label "within-margin-assumption")
      else acc
    -- no repository modification reaches the storage after the lock context was cancelled: an upload
    -- parked at the freeze gate during a failed forced refresh must be refused when it is released
    let writes := c.findAll "write"
    let acc := match writes.find? (fun r => r.getD 2 "0" == "1") with
      | some r => acc.bad "C13:write-after-lock-lost" s!"kind={kind} snapshot {r.getD 3 "?"} was written at {r.getD 1 "?"}us although the lock context was cancelled (failed forced refresh)"
      | none => acc
    let acc := if pr.getD 6 "0" == "1" then acc.label "write-issued-while-frozen" else acc
    let acc := (c.findAll "write-ret").foldl (fun a r => a.label s!"parked-write-{r.getD 2 "?"}") acc
    -- the timing part of the property on the observed ages
    let acc := if !agesOK bound acc.ages then
        acc.bad "C13:active-with-overage-lock" s!"kind={kind} R={rt} poll={poll} D={dOp} bound={bound} ages={acc.ages.reverse} unlockAt={unlockAt}"
      else acc
    match acc.viol, acc.err with
    | some v, _ => v
    | none, some v => v
    | none, none =>
      let maxAge := acc.ages.foldl max 0
      let lab := acc.labels.reverse ++ [kind] ++
        (if acc.nforced > 0 then ["forced-refresh"] else []) ++
        (if acc.nrefresh ≥ 3 then ["many-refreshes"] else if acc.nrefresh > 0 then ["some-refreshes"] else ["no-refresh"]) ++
        (if 2 * maxAge > bound then ["age-over-half-bound"] else [])
      .agree (acc.nrefresh + acc.nforced > 0) lab
  | _, _ => .differ "protocol" "missing params/script"

def main : IO Unit := mainLoop handleC13
