import Driver.Common
import Restic.Model.Init
import Restic.Gen.Consts
/-!
Driver for C30 (records: see harness/main/c30.go).
(a) the model `runInit` / `repoInit` is run on the pre-state, version argument, polynomial and fault
    and compared with the implementation: result class, sequence of backend operations, files after;
(b) `specOK` is evaluated on the implementation's own before/after files and read-back values.
-/
open Driver Restic.Model.BeFiles Restic.Model.Init

namespace C30

def K : Consts :=
  { minV := Restic.Gen.restic_MinRepoVersion, maxV := Restic.Gen.restic_MaxRepoVersion,
    stableV := Restic.Gen.restic_StableRepoVersion }

def nameOf (t : FType) (tok : String) : String :=
  if t == .config then "" else (unhexStr tok).getD "?"

def stateOf (c : Case) (key : String) : State :=
  (c.findAll key).toList.filterMap fun r =>
    match FType.ofString (r.getD 1 "") with
    | some t => some (⟨t, nameOf t (r.getD 2 "-")⟩, r.getD 3 "")
    | none => none

def evTok : Ev → String
  | .save h _ => "save:" ++ h.t.toString
  | .remove h => "remove:" ++ h.t.toString
  | .load h => "load:" ++ h.t.toString
  | .stat h => "stat:" ++ h.t.toString
  | .list t => "list:" ++ t.toString

/-- implementation events: failed writes dropped, reads kept as attempted, immediate repetitions
    of a read (retries) collapsed -/
def implToks (c : Case) : List String :=
  let raw := (c.findAll "ev").toList.filterMap fun r =>
    let op := r.getD 1 ""; let failed := r.getD 4 "0" == "1"
    let mutating := op == "save" || op == "remove" || op == "delete"
    if mutating && failed then none else some (op ++ ":" ++ r.getD 2 "-", mutating)
  let rec dedup : List (String × Bool) → List String
    | [] => []
    | [a] => [a.1]
    | a :: b :: rest => if a.1 == b.1 && !a.2 then dedup (b :: rest) else a.1 :: dedup (b :: rest)
  dedup raw

def errClass : ErrKind → String
  | .invalidVersion => "invalid-version"
  | .versionRange => "version-range"
  | .tooHigh => "too-high"
  | .tooLow => "too-low"
  | .statFailed => "fault"
  | .listFailed => "fault"
  | .saveKeyFailed => "fault"
  | .saveConfigFailed => "fault"
  | .alreadyInitialized => "already-initialized"
  | .containsKeys => "contains-keys"
  | .containsSnapshots => "contains-snapshots"

def sameState (a b : State) : Bool :=
  a.all (fun p => get b p.1 == get a p.1) && b.all (fun p => get a p.1 == get b p.1)

def handle (c : Case) : Verdict :=
  let pre := stateOf c "pre"
  let post := stateOf c "post"
  let mode := ((c.find "mode").getD #[]).getD 1 "cli"
  let beK := ((c.find "be").getD #[]).getD 1 "mem"
  let verR := (c.find "ver").getD #[]
  let va : VerArg := match verR.getD 1 "" with
    | "latest" => .latest
    | "stable" => .stable
    | "num" => .num ((verR.getD 2 "0").toNat?.getD 0)
    | _ => .invalid
  let polR := (c.find "pol").getD #[]
  let pol : Option Nat := if polR.getD 1 "" == "given" then some ((polR.getD 2 "0").toNat?.getD 0) else none
  let faultS := ((c.find "fault").getD #[]).getD 1 "none"
  let f : Fault := match faultS with
    | "stat" => .stat | "listkey" => .listKey | "listsnap" => .listSnap
    | "savekey" => .saveKey | "savecfg" => .saveCfg | _ => .none
  let resR := (c.find "res").getD #[]
  if resR.getD 1 "" == "panic" then .specfalse "C30:panic" (resR.getD 2 "") else
  if resR.size < 2 then .differ "protocol" "no-res-record" else
  let implOk := resR.getD 1 "" == "ok"
  let implClass := if implOk then "ok" else resR.getD 2 "?"
  -- oracle values are read off the files the implementation created
  let newKey := (post.filter fun p => p.1.t == .key && (get pre p.1).isNone).head?
  let cfgR := c.find "cfg"
  let cfgObs : Option Config := cfgR.map fun r =>
    { version := (r.getD 1 "0").toNat?.getD 0, id := (unhexStr (r.getD 2 "-")).getD "?", pol := (r.getD 3 "0").toNat?.getD 0 }
  let o : Oracle :=
    { randPol := (cfgObs.map (·.pol)).getD 0, randID := (cfgObs.map (·.id)).getD "",
      keyName := (newKey.map (·.1.name)).getD (String.ofList (List.replicate 64 '0')),
      keyContent := (newKey.map (·.2)).getD "", cfgContent := (get post cfgH).getD "" }
  let model : Result × List Ev :=
    if mode == "api" then
      match va with
      | .num n => repoInit K pre f n pol o
      | _ => (.err .invalidVersion, [])
    else runInit K pre f va pol o
  -- (b) the property on the implementation's own output
  let reqV : Option Nat := if mode == "api" then (match va with | .num n => some n | _ => none) else parseVersion K va
  let openR := (c.find "open").getD #[]
  let ob : Observed :=
    { pre := pre, post := post, ok := implOk, cfg := cfgObs,
      irreducible := (cfgR.map (·.getD 4 "0" == "1")).getD false,
      idFresh := (cfgR.map (·.getD 5 "0" == "1")).getD false,
      opens := openR.getD 1 "0" == "1", rejectsWrong := openR.getD 2 "0" == "1" }
  if !specOK K reqV pol (f != .none) ob then
    let nf := newFiles pre post
    let sig :=
      if !preserved pre post then "C30:existing-file-changed-or-removed"
      else if occupied pre && implOk then "C30:init-succeeded-on-occupied-location"
      else if occupied pre && nf != [] then "C30:refused-init-wrote-files"
      else if !implOk then "C30:failed-init-left-files"
      else match cfgObs with
        | none => "C30:created:config-unreadable"
        | some cf =>
          if !(K.minV ≤ cf.version && cf.version ≤ K.maxV) || reqV != some cf.version then "C30:created:unsupported-or-wrong-version"
          else if !(match pol with | some p => cf.pol == p | none => ob.irreducible) then "C30:created:polynomial"
          else if !ob.idFresh then "C30:created:id-not-fresh"
          else if !ob.opens then "C30:created:password-does-not-open"
          else if !ob.rejectsWrong then "C30:created:wrong-password-accepted"
          else "C30:created:unexpected-files"
    .specfalse sig s!"be={beK} mode={mode} class={implClass} new={repr nf}"
  else
  -- (a) model against implementation
  let modelClass := match model.1 with | .ok _ => "ok" | .err k => errClass k
  if modelClass != implClass then .differ "result" s!"model={modelClass} impl={implClass}" else
  let mt := model.2.map evTok
  let it := implToks c
  if mt != it then .differ "events" s!"model={mt} impl={it}" else
  if !sameState (applyAll pre model.2) post then .differ "post-state" s!"model={repr (applyAll pre model.2)} impl={repr post}" else
  match model.1, cfgObs with
  | .ok mc, some ic =>
    if mc != ic then .differ "config" s!"model={repr mc} impl={repr ic}"
    else .agree true [beK, mode, "created", "v" ++ toString ic.version, if pol.isSome then "pol-given" else "pol-random"]
  | .ok _, none => .differ "config" "model-ok-but-no-config-read-back"
  | .err k, _ =>
    let weird := pre.any fun p => (p.1.t == .key || p.1.t == .snapshot) && !validID p.1.name
    let labels := [beK, mode, errClass k] ++
      (if (get pre cfgH).isSome then ["has-config"] else []) ++
      (if pre.any (·.1.t == .key) then ["has-key"] else []) ++
      (if pre.any (·.1.t == .snapshot) then ["has-snapshot"] else []) ++
      (if pre.any (·.1.t == .index) then ["has-index"] else []) ++
      (if pre.any (·.1.t == .data) then ["has-pack"] else []) ++
      (if weird then ["non-id-name"] else []) ++
      (if f != .none then ["fault-" ++ faultS] else [])
    .agree (occupied pre || f != .none) labels

end C30

def main : IO Unit := mainLoop C30.handle
