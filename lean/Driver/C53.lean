import Driver.Common
import Driver.TreeWire
import Restic.Model.Diff
/-!
Driver for C53. Records per case:
  opt <metadata 0|1>
  root <1|2> <id#>                 tree blob compared on side 1 / 2 (number from the harness)
  n <1|2> <depth> …                nodes of the two trees (Driver/TreeWire.lean)
  bsize <tree 0|1> <id#> <size>    LookupBlobSize oracle
  res ok | res err <hexmsg> | res panic
  ln <hexpath> <modifier>          change lines printed by the implementation, in order
  st <changed> <added: files dirs others data tree bytes> <removed: files dirs others data tree bytes>
-/
open Driver Driver.TreeWire Restic.Model.SnapTree Restic.Model.Diff

def renderPath (l : Line) : List Nat :=
  [47] ++ (l.path.intersperse [47]).flatten ++ (if l.slash && !l.path.isEmpty then [47] else [])

/-- "/a/b/" -> (["a","b"], true) -/
def parsePath (bs : List Nat) : Option (List Name × Bool) :=
  match bs with
  | 47 :: rest =>
    let slash := rest.getLast? == some 47
    let body := if slash then rest.dropLast else rest
    let comps := (body.splitBy (fun a b => a != 47 && b != 47)).filter (· != [47])
    if body.isEmpty || comps.any (·.isEmpty) then none else some (comps, slash)
  | _ => none

def statOf (r : Array String) (i : Nat) : DiffStat :=
  let g (j : Nat) := (r.getD (i + j) "0").toNat!
  { files := g 0, dirs := g 1, others := g 2, dataBlobs := g 3, treeBlobs := g 4, bytes := g 5 }

/-- some proper ancestor (or the path itself) exists on both sides with different types -/
def underTypeChange (l1 l2 : List Tree) (p : List Name) : Bool :=
  (List.range (p.length + 1)).any fun k =>
    match lookup l1 (p.take k), lookup l2 (p.take k) with
    | some a, some b => a.meta.type != b.meta.type
    | _, _ => false

def showLine (l : Line) : String := s!"{l.mod}:{strOfBytes (renderPath l)}"

def handleC53 (c : Case) : Verdict :=
  let metadata := match c.find "opt" with | some r => r.getD 1 "0" == "1" | none => false
  let rootOf (k : String) : Nat :=
    match (c.findAll "root").find? (fun r => r.getD 1 "" == k) with | some r => (r.getD 2 "0").toNat! | none => 0
  let l1 := treeOf c "1"
  let l2 := treeOf c "2"
  let sizes := (c.findAll "bsize").toList.map fun r => ((Blob.mk (r.getD 1 "0" == "1") (r.getD 2 "0").toNat!), (r.getD 3 "0").toNat!)
  let size (b : Blob) : Nat := match sizes.find? (·.1 == b) with | some (_, s) => s | none => 0
  let fuel := depthL l1 + depthL l2 + 2
  let model := runDiff metadata fuel (rootOf "1") (rootOf "2") l1 l2 size
  match c.find "res" with
  | none => .differ "protocol" "no-res-record"
  | some r =>
    if r.getD 1 "" == "panic" then .specfalse "C53:panic" "implementation-panicked"
    else if r.getD 1 "" != "ok" then .differ "result" s!"implementation failed: {(unhexStr (r.getD 2 "-")).getD "?"}"
    else
    let implRaw := (c.findAll "ln").toList.map fun r => (bytesOf (r.getD 1 "-"), (unhexStr (r.getD 2 "-")).getD "?")
    let implParsed := implRaw.map fun (p, m) => (parsePath p).map fun (cs, sl) => (⟨cs, sl, m⟩ : Line)
    if implParsed.any (·.isNone) then .specfalse "C53:unparsable-path" "a printed path is not /comp/comp…" else
    let impl := implParsed.filterMap id
    let st := (c.find "st").getD #[]
    let implRes : Result := { lines := impl, changedFiles := (st.getD 1 "0").toNat!, added := statOf st 2, removed := statOf st 8, exhausted := false }
    -- the property on the implementation's own output
    let ps := pathsL [] l1 ++ pathsL [] l2
    let missing := ps.filterMap fun p => match expectedLine metadata l1 l2 p with
      | some l => if impl.contains l then none else some l
      | none => none
    let extra := impl.filter fun l => !(ps.any fun p => expectedLine metadata l1 l2 p == some l)
    if !(specLines metadata l1 l2 impl) then
      match missing, extra with
      | l :: _, _ =>
        let sig := if (l.mod == "-" || l.mod == "+") && underTypeChange l1 l2 l.path.dropLast
          then "C53:type-change-dir:children-not-listed" else s!"C53:missing-line:{l.mod}"
        .specfalse sig s!"expected {showLine l} printed {impl.map showLine}"
      | [], l :: _ => .specfalse s!"C53:unexpected-line:{l.mod}" s!"unexpected {showLine l}"
      | [], [] => .specfalse "C53:lines" "specLines false"
    else if !(specCounts l1 l2 implRes) then
      .specfalse "C53:stats:item-counts-wrong" s!"changed={implRes.changedFiles} added={repr implRes.added} removed={repr implRes.removed}"
    else if model.exhausted then .differ "fuel" "model ran out of fuel"
    else if model.lines != impl then .differ "lines" s!"model {model.lines.map showLine} impl {impl.map showLine}"
    else if model.changedFiles != implRes.changedFiles || model.added != implRes.added || model.removed != implRes.removed then
      .differ "stats" s!"model changed={model.changedFiles} added={repr model.added} removed={repr model.removed} impl changed={implRes.changedFiles} added={repr implRes.added} removed={repr implRes.removed}"
    else
      let has (m : String) := impl.any fun l => l.mod == m
      let hasP (f : String → Bool) := impl.any fun l => f l.mod
      let typeChangeDir := ps.any fun p => match lookup l1 p, lookup l2 p with
        | some a, some b => a.meta.type != b.meta.type && (a.meta.type == .dir || b.meta.type == .dir) && !(a.kids.isEmpty && b.kids.isEmpty)
        | _, _ => false
      let sameSub := ps.any fun p => match lookup l1 p, lookup l2 p with
        | some a, some b => a.meta.type == .dir && b.meta.type == .dir && a.meta.subtree == b.meta.subtree
        | _, _ => false
      let dupSub (l : List Tree) : Bool :=
        let ids := ((subL l).filter fun t => t.meta.type == .dir && !t.kids.isEmpty).map (·.meta.subtree)
        ids.eraseDups.length < ids.length
      let sameSet := ps.any fun p => match lookup l1 p, lookup l2 p with
        | some a, some b => isM a.meta b.meta && a.meta.content.all (b.meta.content.contains ·) && b.meta.content.all (a.meta.content.contains ·)
        | _, _ => false
      let labels :=
        (if dupSub l1 || dupSub l2 then ["duplicate-subtree-in-snapshot"] else []) ++
        (if sameSet then ["modified-same-blob-set"] else []) ++
        (if has "+" then ["added"] else []) ++ (if has "-" then ["removed"] else []) ++
        (if hasP (·.startsWith "T") then ["type-change"] else []) ++ (if typeChangeDir then ["type-change-nonempty-dir"] else []) ++
        (if hasP (fun m => m == "M" || m == "TM") then ["modified"] else []) ++ (if hasP (·.endsWith "?") then ["bitrot"] else []) ++
        (if hasP (·.endsWith "U") then ["metadata-U"] else []) ++ (if metadata then ["opt-metadata"] else []) ++
        (if sameSub then ["identical-subtree"] else []) ++ (if impl.isEmpty then ["no-lines"] else []) ++
        (if impl.any (·.path.length > 2) then ["deep"] else []) ++
        (if (c.find "subfolder").isSome then ["subfolder"] else [])
      .agree (!impl.isEmpty) labels

def main : IO Unit := mainLoop handleC53
