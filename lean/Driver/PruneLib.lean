import Driver.Common
import Restic.Model.Prune
/-!
Shared driver code for C09 / C10 (prune). Case kinds (sub-stream = second token of `case`):

plan    opts …; used <bh>*; pb <pack> <entry> (ListBlobs order); pack <id> <size> (listing);
        res err <kind> | res ok; rf/rp/rm/ig <id>*; keep nil | keep some <bh>*; stats <30 numbers>
trace   labels; opts; used; packc <id> <size> <entry>* (decoded header of every pack file, initial
        or saved later); idxf <id>; idxc <index> <pack> <entry>*; has pack|index <id> (initial
        state); ev save|remove <type> <id> (completed mutations in order); res
full    like trace + after pack|index <id>; stats (from `prune --json`); verify <check ok> <bad dumps> <n>
crash   labels; opts; cut <k> <done> <prune failed> <crashed>; verify …; rerun <res> <check ok> <bad>
-/
open Driver Restic.Model.Repo Restic.Model.Prune

namespace PruneLib

def parseBH (s : String) : BlobH :=
  match s.splitOn ":" with
  | t :: id :: _ => { tpe := if t == "t" then .tree else .data, id := id }
  | _ => { tpe := .data, id := s }

def parseEntry (s : String) : Entry :=
  match s.splitOn ":" with
  | t :: id :: off :: len :: unc :: _ =>
    { blob := { tpe := if t == "t" then .tree else .data, id := id }, off := off.toNat!, len := len.toNat!, unc := unc == "1" }
  | _ => default

def toks (r : Array String) (from_ : Nat) : List String := r.toList.drop from_

def parseOpts (c : Case) : Opts × String :=
  match c.find "opts" with
  | some r =>
    ({ repackCacheableOnly := r.getD 1 "0" == "1", repackUncompressed := r.getD 2 "0" == "1",
       smallPackBytes := (r.getD 3 "0").toNat!, maxRepackBytes := (r.getD 4 "0").toNat!,
       maxUnusedZero := r.getD 5 "" == "zero", repoVersion := (r.getD 6 "2").toNat!,
       packSize := (r.getD 7 "0").toNat!, connections := (r.getD 8 "2").toNat! }, r.getD 9 "?")
  | none => ({}, "?")

def optLabels (o : Opts) (mu : String) : List String :=
  [s!"max-unused={mu}"] ++
  (if o.maxRepackBytes == 2 ^ 64 - 1 then [] else if o.maxRepackBytes == 0 then ["max-repack=0"] else ["max-repack=limited"]) ++
  (if o.smallPackBytes > 0 then ["repack-smaller-than"] else []) ++
  (if o.repackCacheableOnly then ["cacheable-only"] else []) ++
  (if o.repackUncompressed then ["repack-uncompressed"] else []) ++
  (if o.repoVersion < 2 then ["repo-v1"] else [])

def sortIDs (l : List String) : List String := (l.toArray.qsort (· < ·)).toList.eraseDups

def bhKey (b : BlobH) : String := (if b.tpe == .tree then "t:" else "d:") ++ b.id
def sortBH (l : List BlobH) : List String := sortIDs (l.map bhKey)

def errName : PruneErr → String
  | .badOptions => "badOptions"
  | .indexIncomplete => "indexIncomplete"
  | .packsMissing => "packsMissing"
  | .sizeNotMatching => "sizeNotMatching"
  | .panicSelection => "panicSelection"

def statsList (s : Stats) : List (String × Nat) :=
  [("blobs.used", s.bUsed), ("blobs.duplicate", s.bDup), ("blobs.unused", s.bUnused), ("blobs.total", s.bTotal),
   ("blobs.repack", s.bRepack), ("blobs.repackrm", s.bRepackrm), ("blobs.remove", s.bRemove),
   ("blobs.removetotal", s.bRemoveTotal), ("blobs.remain", s.bRemain),
   ("size.used", s.sUsed), ("size.duplicate", s.sDup), ("size.unused", s.sUnused), ("size.unref", s.sUnref),
   ("size.uncompressed", s.sUncomp), ("size.total", s.sTotal), ("size.repack", s.sRepack), ("size.repackrm", s.sRepackrm),
   ("size.remove", s.sRemove), ("size.removetotal", s.sRemoveTotal), ("size.remain", s.sRemain),
   ("size.remainunused", s.sRemainUnused),
   ("packs.used", s.pUsed), ("packs.unused", s.pUnused), ("packs.partlyused", s.pPartly), ("packs.unref", s.pUnref),
   ("packs.total", s.pTotal), ("packs.keep", s.pKeep), ("packs.repack", s.pRepack), ("packs.remove", s.pRemove),
   ("packs.removetotal", s.pRemoveTotal)]

def parseStats (r : Array String) : Stats :=
  let n (i : Nat) : Nat := (r.getD i "0").toNat!
  { bUsed := n 1, bDup := n 2, bUnused := n 3, bTotal := n 4, bRepack := n 5, bRepackrm := n 6, bRemove := n 7,
    bRemoveTotal := n 8, bRemain := n 9, sUsed := n 10, sDup := n 11, sUnused := n 12, sUnref := n 13,
    sUncomp := n 14, sTotal := n 15, sRepack := n 16, sRepackrm := n 17, sRemove := n 18, sRemoveTotal := n 19,
    sRemain := n 20, sRemainUnused := n 21, pUsed := n 22, pUnused := n 23, pPartly := n 24, pUnref := n 25,
    pTotal := n 26, pKeep := n 27, pRepack := n 28, pRemove := n 29, pRemoveTotal := n 30 }

def firstStatsDiff (a b : Stats) : Option String :=
  ((statsList a).zip (statsList b)).findSome? fun (x, y) =>
    if x.2 != y.2 then some s!"{x.1}:model={x.2},impl={y.2}" else none

/-- which part of `planOK` fails (signature of the failing input class) -/
def planViolation (used : List BlobH) (idx : List PB) (packs : List (ID × Nat)) (pl : Plan) : Option (String × String) :=
  if planOK used idx packs pl then none else
  match pl.removeFirst.find? (fun p => idx.any fun pb => pb.pack = p) with
  | some p => some ("C09:plan:indexed-pack-deleted-first", p)
  | none =>
  match pl.ignore.find? (fun p => packs.any fun x => x.1 = p) with
  | some p => some ("C09:plan:present-pack-ignored", p)
  | none =>
    let bad := used.filter fun b =>
      match pl.keep with
      | none => !hasCopyOutside idx packs (pl.remove ++ pl.repack) b
      | some k => if k.contains b then !hasCopyIn idx packs pl.repack b else !hasCopyOutside idx packs (pl.remove ++ pl.repack) b
    match bad with
    | [] => some ("C09:plan:not-ok", "?")
    | b :: _ =>
      let inIgnored := idx.any fun pb => pb.e.blob = b && pl.ignore.contains pb.pack
      let inKeep := (pl.keep.getD []).contains b
      if inKeep then some ("C09:plan:blob-to-repack-not-in-repacked-pack", bhKey b)
      else if inIgnored then some ("C09:plan:used-blob-not-repacked-because-of-entry-in-missing-pack", bhKey b)
      else some ("C09:plan:used-blob-left-without-copy", bhKey b)

def handlePlan (c : Case) : Verdict :=
  let (o, mu) := parseOpts c
  let used := match c.find "used" with | some r => (toks r 1).map parseBH | none => []
  let idx : List PB := (c.findAll "pb").toList.map fun r => { pack := r.getD 1 "?", e := parseEntry (r.getD 2 "") }
  let packs : List (ID × Nat) := (c.findAll "pack").toList.map fun r => (r.getD 1 "?", (r.getD 2 "0").toNat!)
  let origin := match c.find "origin" with | some r => r.getD 1 "?" | none => "?"
  let idsOf (k : String) : List String := match c.find k with | some r => toks r 1 | none => []
  match c.find "res" with
  | none => .differ "protocol" "no-res-record"
  | some res =>
    let implErr : Option String := if res.getD 1 "" == "err" then some (res.getD 2 "?") else none
    let obsRepack := idsOf "rp"
    let forced := forcedChoice o
    let choice : ID → Bool := if forced then fun _ => true else fun id => obsRepack.contains id
    let model := planPrune o choice used idx packs
    let cnt := (countPass used idx).f
    let dup := used.any fun b => (cnt b).getD 0 ≥ 2
    let sat := used.any fun b => (cnt b).getD 0 ≥ 255
    let baseLabels := [origin] ++ optLabels o mu ++ (if dup then ["duplicates"] else []) ++ (if sat then ["counter-saturated"] else []) ++
      (if forced then ["forced-choice"] else [])
    match implErr with
    | some e =>
      if e.startsWith "panic" then .specfalse ("C09:plan:" ++ e) "PlanPrune-panicked" else
      match model with
      | .error me => if errName me == e then .agree false (baseLabels ++ ["err=" ++ e]) else .differ "error" s!"model={errName me} impl={e}"
      | .ok _ => .differ "error" s!"model=ok impl={e}"
    | none =>
      let keep : Option (List BlobH) := match c.find "keep" with
        | some r => if r.getD 1 "nil" == "nil" then none else some ((toks r 2).map parseBH)
        | none => none
      let implStats := match c.find "stats" with | some r => parseStats r | none => {}
      let impl : Plan := { removeFirst := idsOf "rf", repack := obsRepack, remove := idsOf "rm", ignore := idsOf "ig", keep := keep, stats := implStats }
      match planViolation used idx packs impl with
      | some (sig, d) => .specfalse sig d
      | none =>
      -- C10 on the real plan: under full-prune options the resulting index is exact
      let full := forced && !o.repackCacheableOnly && used.eraseDups.length == used.length
      let ab := afterBlobs impl idx
      if full && !(ab.all fun b => used.contains b) then .specfalse "C10:plan:unreachable-blob-stays-indexed" "" else
      if full && !(used.all fun b => ab.count b ≤ 1) then .specfalse "C10:plan:blob-indexed-twice-after-full-prune" "" else
      if full && !fullPlanOK used idx packs impl then .specfalse "C10:plan:index-not-exact-after-full-prune" "" else
      match model with
      | .error me => .differ "error" s!"model={errName me} impl=ok"
      | .ok m =>
        if sortIDs m.removeFirst != sortIDs impl.removeFirst then .differ "removePacksFirst" s!"model={sortIDs m.removeFirst} impl={sortIDs impl.removeFirst}"
        else if sortIDs m.remove != sortIDs impl.remove then .differ "removePacks" s!"model={sortIDs m.remove} impl={sortIDs impl.remove}"
        else if sortIDs m.ignore != sortIDs impl.ignore then .differ "ignorePacks" s!"model={sortIDs m.ignore} impl={sortIDs impl.ignore}"
        else if sortIDs m.repack != sortIDs impl.repack then .differ "repackPacks" s!"model={sortIDs m.repack} impl={sortIDs impl.repack} forced={forced}"
        else if m.keep.map sortBH != impl.keep.map sortBH then .differ "keepBlobs" s!"model={m.keep.map sortBH} impl={impl.keep.map sortBH}"
        else match firstStatsDiff m.stats impl.stats with
        | some d => .differ "stats" d
        | none =>
          let labels := baseLabels ++ ["ok"] ++
            (if impl.removeFirst != [] then ["unindexed-packs"] else []) ++
            (if impl.remove != [] then ["remove-packs"] else []) ++
            (if impl.repack != [] then ["repack"] else []) ++
            (if impl.ignore != [] then ["missing-unneeded-packs"] else []) ++
            (if m.stats.pKeep > 0 then ["kept-packs"] else []) ++
            (if (impl.keep.getD []).length < used.length && impl.repack != [] then ["keep-subtracted"] else [])
          .agree (impl.remove != [] || impl.repack != [] || impl.removeFirst != []) labels

/-! ### traces -/

structure TraceIn where
  r0 : Repo
  tr : List Ev
  used : List BlobH
  packc : List (ID × List Entry)
  idxc : List (ID × IdxFile)

def parseTrace (c : Case) : TraceIn :=
  let used := match c.find "used" with | some r => (toks r 1).map parseBH | none => []
  let packc : List (ID × List Entry) := (c.findAll "packc").toList.map fun r => (r.getD 1 "?", (toks r 3).filter (· != "unreadable") |>.map parseEntry)
  let idxIds : List ID := (c.findAll "idxf").toList.map fun r => r.getD 1 "?"
  let idxRecs := (c.findAll "idxc").toList
  let idxc : List (ID × IdxFile) := idxIds.map fun i =>
    (i, (idxRecs.filter fun r => r.getD 1 "" == i).map fun r => (r.getD 2 "?", (toks r 3).map parseEntry))
  let has := (c.findAll "has").toList
  let r0 : Repo :=
    { packs := (has.filter fun r => r.getD 1 "" == "pack").map fun r => (r.getD 2 "?", (packc.lookup (r.getD 2 "?")).getD [])
      indexes := (has.filter fun r => r.getD 1 "" == "index").map fun r => (r.getD 2 "?", (idxc.lookup (r.getD 2 "?")).getD [])
      snaps := [("all", { tree := "-", reach := used })] }
  let ft (s : String) : FType :=
    if s == "data" then .pack else if s == "index" then .index else if s == "lock" then .lock
    else if s == "snapshot" then .snapshot else if s == "key" then .key else .config
  let tr : List Ev := (c.findAll "ev").toList.map fun r =>
    let t := ft (r.getD 2 ""); let id := r.getD 3 "?"
    if r.getD 1 "" == "save" then
      match t with
      | .pack => .save .pack id (.pack ((packc.lookup id).getD []))
      | .index => .save .index id (.index ((idxc.lookup id).getD []))
      | t => .save t id .opaque
    else .remove t id
  { r0 := r0, tr := tr, used := used, packc := packc, idxc := idxc }

/-- the plan the run effectively executed, read off the complete operation sequence -/
def effectivePlan (t : TraceIn) : XPlan :=
  let isStart : Ev → Bool
    | .save .pack _ _ => true
    | .save .index _ _ => true
    | .remove .index _ => true
    | _ => false
  let pre := t.tr.takeWhile (fun e => !isStart e)
  let post := t.tr.dropWhile (fun e => !isStart e)
  let packRm (l : List Ev) : List ID := l.filterMap fun | .remove .pack p => some p | _ => none
  let rf := packRm pre
  let missing := (indexedPacks t.r0).eraseDups.filter fun p => !packPresent t.r0 p
  let excl := (packRm post ++ missing).eraseDups
  { removeFirst := rf, exclude := excl, keep := t.used.filter fun b => !hasWitness (rf ++ excl) t.r0 b }

def planOKRepoB (pl : XPlan) (used : List BlobH) (r : Repo) : Bool :=
  used.all fun b => (pl.keep.contains b || hasWitness (pl.removeFirst ++ pl.exclude) r b) && hasWitness pl.removeFirst r b

def evName : Ev → String
  | .save t id _ => s!"save/{repr t}/{id}"
  | .remove t id => s!"remove/{repr t}/{id}"
  | .read _ _ => "read"

def caseLabels (c : Case) : List String :=
  match c.find "labels" with | some r => toks r 2 | none => []

def handleTrace (c : Case) : Verdict :=
  let t := parseTrace c
  let (o, mu) := parseOpts c
  let pl := effectivePlan t
  let res := match c.find "res" with | some r => r.getD 1 "?" | none => "?"
  if !planOKRepoB pl t.used t.r0 then .differ "precondition" "a-used-blob-is-not-indexed-in-a-present-pack-before-prune" else
  match firstReject pl 0 t.r0 t.tr 0 with
  | some n => .differ "trace-not-accepted" s!"event#{n}:{(t.tr.getD n (.read .pack "")) |> evName}:res={res}"
  | none =>
    let final := applyAll t.r0 t.tr
    if !(t.used.all (Indexed final)) then .specfalse "C09:trace:used-blob-not-indexed-after-prune" res else
    let nsave := t.tr.filter (fun | .save .pack _ _ => true | _ => false) |>.length
    let labels := caseLabels c ++ optLabels o mu ++ [if res == "ok" then "completed" else "prune-error"] ++
      (if pl.removeFirst != [] then ["unindexed-packs-deleted"] else []) ++
      (if nsave > 0 then ["repacked"] else []) ++
      (if pl.exclude != [] then ["packs-deleted"] else []) ++
      (if pl.keep != [] then ["keep-blobs"] else [])
    .agree (pl.exclude != [] || pl.removeFirst != []) labels

def handleCrash (c : Case) : Verdict :=
  let (o, mu) := parseOpts c
  let labs := caseLabels c
  let tag := if labs.any (·.startsWith "dropped-") then ":index-names-missing-pack" else ""
  match c.find "verify" with
  | none => .differ "protocol" "no-verify-record"
  | some v =>
    let cut := match c.find "cut" with | some r => s!"k={r.getD 1 "?"} done={r.getD 2 "?"}" | none => "?"
    -- `check` can only be required to stay clean if it was clean before prune started
    let pre := match c.find "pre" with | some r => r.getD 1 "1" == "1" | none => true
    if v.getD 2 "0" != "0" then .specfalse ("C09:" ++ c.stream ++ ":snapshot-content-lost" ++ tag) s!"{cut} bad={v.getD 2 "?"}/{v.getD 3 "?"} opts={optLabels o mu}"
    else if pre && v.getD 1 "1" != "1" then .specfalse ("C09:" ++ c.stream ++ ":check-reports-errors" ++ tag) s!"{cut} {v.getD 4 ""} opts={optLabels o mu}"
    else
      match c.find "rerun" with
      | some r =>
        if r.getD 3 "0" != "0" then .specfalse ("C09:rerun:snapshot-content-lost" ++ tag) s!"{cut} rerun={r.getD 1 "?"}"
        else if pre && r.getD 2 "1" != "1" then .specfalse ("C09:rerun:check-reports-errors" ++ tag) s!"{cut} rerun={r.getD 1 "?"} {r.getD 4 ""}"
        else
          let ft := match c.find "fault" with | some r => [s!"fault:{r.getD 1 "-"}-{r.getD 2 "-"}"] | none => []
          .agree true (labs ++ optLabels o mu ++ ft ++ [c.stream ++ "+rerun", if (r.getD 1 "").startsWith "ok" then "rerun-ok" else "rerun-refused"])
      | none =>
        let crashed := match c.find "cut" with | some r => r.getD 4 "0" == "1" | none => false
        let ft := match c.find "fault" with | some r => [s!"fault:{r.getD 1 "-"}-{r.getD 2 "-"}"] | none => []
        let last := if c.stream == "forgetprune" then (if crashed then "forget-prune:one-snapshot-removal-failed" else "forget-prune:no-fault")
          else if crashed then c.stream else "cut-beyond-end"
        .agree true (labs ++ optLabels o mu ++ ft ++ [last])

/-! ### C10: completed full prune -/

def dedupEntries (r : Repo) : List (ID × Entry) := distinctEntries r

def handleFull (c : Case) : Verdict :=
  let t := parseTrace c
  let (o, mu) := parseOpts c
  let pl := effectivePlan t
  let res := match c.find "res" with | some r => r.getD 1 "?" | none => "?"
  if res != "ok" then .agree false (caseLabels c ++ ["prune-refused"]) else
  if !planOKRepoB pl t.used t.r0 then .differ "precondition" "a-used-blob-is-not-indexed-in-a-present-pack-before-prune" else
  match firstReject pl 0 t.r0 t.tr 0 with
  | some n => .differ "trace-not-accepted" s!"event#{n}:{(t.tr.getD n (.read .pack "")) |> evName}"
  | none =>
    let final := applyAll t.r0 t.tr
    let after := (c.findAll "after").toList
    let aPacks := sortIDs ((after.filter fun r => r.getD 1 "" == "pack").map fun r => r.getD 2 "?")
    let aIdx := sortIDs ((after.filter fun r => r.getD 1 "" == "index").map fun r => r.getD 2 "?")
    if aPacks != sortIDs (final.packs.map (·.1)) || aIdx != sortIDs (final.indexes.map (·.1)) then
      .differ "after-state" s!"model-packs={sortIDs (final.packs.map (·.1))} impl-packs={aPacks}" else
    -- the property on the implementation's own after-state
    -- the index = the set of distinct entries: the same entry listed by two index files (left by an
    -- interrupted index rewrite) is one stored copy, as in the loaded (merged) master index
    let ib := (dedupEntries final).map (·.2.blob)
    if !(ib.all fun b => t.used.contains b) then .specfalse "C10:full:unreachable-blob-left-in-index" "" else
    if !(t.used.all fun b => ib.count b ≥ 1) then .specfalse "C10:full:used-blob-missing-from-index" "" else
    if !(t.used.all fun b => ib.count b = 1) then .specfalse "C10:full:blob-indexed-twice" "" else
    if !((indexedPacks final).all (packPresent final)) then .specfalse "C10:full:index-entry-for-missing-pack" "" else
    if !(final.packs.all fun p => (indexedPacks final).contains p.1) then .specfalse "C10:full:pack-without-index-entry" "" else
    if !fullPruneOK t.used final then .differ "fullPruneOK" "inconsistent" else
    match c.find "verify" with
    | none => .differ "protocol" "no-verify-record"
    | some v =>
    if v.getD 2 "0" != "0" then .specfalse "C10:full:snapshot-content-lost" "" else
    if v.getD 1 "1" != "1" then .specfalse "C10:full:check-reports-errors" (v.getD 4 "") else  -- a completed prune also repairs index entries of missing packs
    match c.find "stats" with
    | none => .differ "protocol" "no-stats-record"
    | some sr =>
      let s := parseStats sr
      let before := dedupEntries t.r0
      let afterE := dedupEntries final
      let isUsed (b : BlobH) := t.used.contains b
      let unindexed := t.r0.packs.filter fun p => !(indexedPacks t.r0).contains p.1
      let gone := t.r0.packs.filter fun p => !packPresent final p.1
      let size (l : List (ID × Entry)) : Nat := l.foldl (fun a x => a + x.2.len) 0
      let packSizeOf (p : ID) : Nat := match (c.findAll "packc").toList.find? (fun r => r.getD 1 "" == p) with | some r => (r.getD 2 "0").toNat! | none => 0
      -- repacking may store a blob with another length (it compresses what was uncompressed), so the
      -- planned remaining size is compared with the remaining entries at their length *before*;
      -- blobs whose copies had different lengths before are ambiguous: the size check is skipped
      let lenBefore (b : BlobH) : Option Nat :=
        match (before.filter fun x => x.2.blob = b).map (·.2.len) |>.eraseDups with
        | [l] => some l
        | _ => none
      let afterLens : List (Option Nat) := afterE.map fun x =>
        if packPresent t.r0 x.1 then some x.2.len else lenBefore x.2.blob
      let remainExpected : Option Nat := if afterLens.all (·.isSome) then some (afterLens.foldl (fun a l => a + l.getD 0) 0) else none
      let checks : List (String × Nat × Nat) :=
        [("blobs.total=index-entries-before", s.bTotal, before.length),
         ("blobs.used=used-blobs", s.bUsed, t.used.length),
         ("blobs.unused=entries-of-unreachable-blobs", s.bUnused, (before.filter fun x => !isUsed x.2.blob).length),
         ("blobs.used+duplicate+unused=total", s.bUsed + s.bDup + s.bUnused, s.bTotal),
         ("blobs.remain=index-entries-after", s.bRemain, afterE.length),
         ("blobs.removetotal=total-remain", s.bRemoveTotal, before.length - afterE.length),
         ("size.used+duplicate=bytes-of-reachable-entries", s.sUsed + s.sDup, size (before.filter fun x => isUsed x.2.blob)),
         ("size.unused=bytes-of-unreachable-entries", s.sUnused, size (before.filter fun x => !isUsed x.2.blob)),
         ("size.unref=bytes-of-unindexed-packs", s.sUnref, unindexed.foldl (fun a p => a + packSizeOf p.1) 0),
         ("size.remain=bytes-of-remaining-entries", s.sRemain, remainExpected.getD s.sRemain),
         ("size.remainunused=0", s.sRemainUnused, 0),
         ("packs.unref=unindexed-packs", s.pUnref, unindexed.length),
         ("packs.total=packs-before", s.pTotal, t.r0.packs.length),
         ("packs.remove+repack+unref=packs-gone", s.pRemove + s.pRepack + s.pUnref, gone.length),
         ("packs.keep=packs-staying", s.pKeep, t.r0.packs.length - gone.length),
         ("packs.removetotal=unref+remove", s.pRemoveTotal, s.pUnref + s.pRemove)]
      match checks.find? fun x => x.2.1 != x.2.2 with
      | some (n, a, b) => .specfalse ("C10:stats:" ++ n) s!"reported={a} actual={b}"
      | none =>
        let labels := caseLabels c ++ optLabels o mu ++ ["completed"] ++
          (if s.bDup > 0 then ["duplicates"] else []) ++ (if s.bUnused > 0 then ["unused-blobs"] else []) ++
          (if s.pUnref > 0 then ["unindexed-packs"] else []) ++ (if s.pPartly > 0 then ["mixed-packs"] else []) ++
          (if s.pRepack > 0 then ["repack"] else []) ++ (if s.pRemove > 0 then ["remove-packs"] else []) ++
          (if pl.exclude.any (fun p => !packPresent t.r0 p) then ["missing-unneeded-packs"] else []) ++
          (if s.pKeep > 0 then ["kept-packs"] else []) ++
          (if (indexBlobs final).length != afterE.length then ["same-entry-in-two-index-files"] else [])
        .agree (gone != []) labels

def handle (c : Case) : Verdict :=
  match c.stream with
  | "plan" => handlePlan c
  | "trace" => handleTrace c
  | "crash" => handleCrash c
  | "fault" => handleCrash c
  | "forgetprune" => handleCrash c
  | "full" => handleFull c
  | "skip" => .agree false ["skipped:" ++ (match c.find "why" with | some r => r.getD 1 "?" | none => "?")]
  | s => .differ "protocol" ("unknown-substream-" ++ s)

end PruneLib
