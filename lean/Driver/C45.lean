import Driver.Common
import Driver.TreeWire
import Restic.Model.Dump
/-!
Driver for C45. Records per case:
  fmt tar|zip
  target <hexcomp>*                path components of the dump argument ("/" = none)
  n 0 <depth> …                    the snapshot's tree (Driver/TreeWire.lean)
  blob <id#> <hexbytes>            content of the data blobs
  res file <hexbytes> | res archive | res err <hexmsg> | res panic
  ent <hexname> <reg|dir|symlink|other> <mode> <hexlink> <size> <hexdata>   archive members, in order
  archive-error <hexmsg>           the harness could not read the archive back
  adv <connections> <nblobs>       adversarial loader used (later downloads overtake earlier ones)
-/
open Driver Driver.TreeWire Restic.Model.SnapTree Restic.Model.Dump

def renderEntry (e : Entry) : List Nat :=
  (e.path.intersperse [47]).flatten ++ (if e.slash then [47] else [])

/-- the directory addressed by the components (none: not a directory path) -/
def resolveDir : List Name → List Tree → Option (List Tree)
  | [], ts => some ts
  | c :: rest, ts => match findFirst ts c with
    | some (.mk m kids) => if m.type == .dir then resolveDir rest kids else none
    | none => none

structure ImplEntry where
  name : List Nat
  kind : String
  mode : Nat
  link : List Nat
  size : Nat
  data : List Nat
deriving BEq, Repr

def toImpl (e : Entry) : ImplEntry :=
  { name := renderEntry e, kind := (match e.kind with | .reg => "reg" | .dir => "dir" | .symlink => "symlink"),
    mode := e.mode, link := e.link, size := e.size, data := e.data }

def showE (e : ImplEntry) : String := s!"{e.kind}:{strOfBytes e.name}:{e.mode}:{e.size}:{e.data.length}"

def handleC45 (c : Case) : Verdict :=
  let fmt := match c.find "fmt" with | some r => r.getD 1 "tar" | none => "tar"
  let comps : List Name := match c.find "target" with | some r => (r.toList.drop 1).filter (· != "-") |>.map bytesOf | none => []
  let tree := treeOf c "0"
  let table := (c.findAll "blob").toList.map fun r => ((r.getD 1 "0").toNat!, bytesOf (r.getD 2 "-"))
  let blobs : Blobs := fun i => (table.find? (·.1 == i)).map (·.2)
  let model := printFromTree blobs [] comps tree
  match c.find "res" with
  | none => .differ "protocol" "no-res-record"
  | some r =>
    let kind := r.getD 1 ""
    if kind == "panic" then .specfalse "C45:panic" "implementation-panicked" else
    if (c.find "archive-error").isSome then .specfalse "C45:unreadable-archive" "archive/tar or archive/zip could not read the output back" else
    let ents : List ImplEntry := (c.findAll "ent").toList.map fun r =>
      { name := bytesOf (r.getD 1 "-"), kind := r.getD 2 "", mode := (r.getD 3 "0").toNat!, link := bytesOf (r.getD 4 "-"),
        size := (r.getD 5 "0").toNat!, data := bytesOf (r.getD 6 "-") }
    let hasSpecialTop := match resolveDir comps tree with
      | some ts => ts.any fun t => !(dumpable t.meta.type)
      | none => false
    let allNodes := flattenL tree
    let baseLabels := [fmt] ++
      (if comps.isEmpty then ["root"] else []) ++
      (if allNodes.any (fun n => n.type == .file && n.content.length > 1) then ["multi-blob"] else []) ++
      (if allNodes.any (fun n => n.type == .file && n.content.eraseDups.length < n.content.length) then ["repeated-blob"] else []) ++
      (if allNodes.any (fun n => n.type == .symlink) then ["symlink"] else []) ++
      (if allNodes.any (fun n => !(dumpable n.type)) then ["special"] else []) ++
      (if hasSpecialTop then ["special-at-top"] else []) ++
      (if allNodes.any (fun n => tarMode n.mode ≥ 512) then ["suid-sgid-sticky"] else []) ++
      (match c.find "adv" with | some r => [s!"adversarial-loader-conns{r.getD 1 "?"}"] | none => []) ++
      (if allNodes.any (fun n => n.type == .file && n.content.length ≥ 8) then ["many-blobs"] else [])
    match kind with
    | "file" =>
      let got := bytesOf (r.getD 2 "-")
      -- the property on the implementation's output: exactly the file's content
      let want : Option (List Nat) := match comps.reverse with
        | [] => none
        | last :: revdir => match resolveDir revdir.reverse tree with
          | some ts => match findFirst ts last with
            | some t => if t.meta.type == .file then some (contentOf blobs t.meta.content) else none
            | none => none
          | none => none
      match want with
      | none => .differ "result" "implementation dumped a file where the model sees none"
      | some w =>
        if got != w then .specfalse "C45:file-content-differs" s!"got {got.length} bytes, want {w.length}"
        else if model != Out.file got then .differ "result" s!"model {repr model}"
        else .agree true (baseLabels ++ ["single-file"])
    | "archive" =>
      match resolveDir comps tree with
      | none => .differ "result" "implementation wrote an archive for a path that is no directory"
      | some ts =>
        let want := (expectedEntries blobs comps ts).map toImpl
        if ents != want then
          let extra := ents.filter fun e => !(want.contains e)
          let sig :=
            if ents.length > want.length && extra.any (fun e => !(want.any fun w => w.name == e.name)) && hasSpecialTop then "C45:special-node-dumped:top-level"
            else if ents.length > want.length then "C45:extra-entry"
            else if ents.length < want.length then "C45:missing-entry"
            else if ents.map (·.name) != want.map (·.name) then "C45:entry-order-or-name"
            else if (ents.zip want).any (fun (a, b) => a.data != b.data) then "C45:entry-content-differs"
            else "C45:entry-header-differs"
          .specfalse sig s!"got {ents.map showE} want {want.map showE}"
        else match model with
          | .archive es =>
            if es.map toImpl != ents then .differ "entries" s!"model {(es.map toImpl).map showE} impl {ents.map showE}"
            else .agree (!ents.isEmpty) (baseLabels ++ ["archive"] ++ (if ents.isEmpty then ["empty-archive"] else []))
          | _ => .differ "result" s!"model {repr model} but implementation wrote an archive"
    | _ =>
      match model with
      | .error => .agree false (baseLabels ++ ["error"])
      | _ => .differ "result" s!"implementation failed ({(unhexStr (r.getD 2 "-")).getD "?"}), model {repr model}"

def main : IO Unit := mainLoop handleC45
