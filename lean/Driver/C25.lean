import Driver.Common
import Restic.Model.Tags
/-!
Driver for C25. Records per case:
  old <hex tag>*            tags of the selected snapshot before the command
  set|add|rem <hex value>   one record per occurrence of the set / add / remove flag, raw flag value
  res fatal | res ok <changed 0/1> <hex tag>*     what the implementation produced
  side <count_before> <count_after> <fields_same 0/1> <unselected_same 0/1> <original_ok 0/1>
-/
open Driver Restic.Model.Tags

def tagsOf (r : Array String) (from_ : Nat) : List Tag :=
  (r.toList.drop from_).map fun t => (unhexStr t).getD "?"

def handleC25 (c : Case) : Verdict :=
  let old := match c.find "old" with | some r => tagsOf r 1 | none => []
  let lists (k : String) : List (List Tag) := (c.findAll k).toList.map fun r => splitTagList ((unhexStr (r.getD 1 "-")).getD "?")
  let setL := lists "set"; let addL := lists "add"; let remL := lists "rem"
  let model := runTag old setL addL remL
  match c.find "res" with
  | none => .differ "protocol" "no-res-record"
  | some r =>
    if r.getD 1 "" == "panic" then .specfalse "C25:panic" "implementation-panicked" else
    let impl : TagResult :=
      if r.getD 1 "" == "fatal" then .fatal "" else .ok (tagsOf r 3) (r.getD 2 "0" == "1")
    -- the property predicate on the implementation's own output
    let specViolation : Option (String × String) :=
      match impl with
      | .fatal _ => none
      | .ok new _ =>
        if !specOK old setL addL remL new then
          let sig :=
            if setL ≠ [] then "C25:set:tags-differ-from-L"
            else if (flatten remL).any (· ∈ new) then "C25:remove:removed-tag-still-present"
            else if (flatten addL).any (fun a => !(a ∈ flatten remL) && !(a ∈ new)) then "C25:add:added-tag-missing"
            else "C25:addremove:other-tags-changed"
          some (sig, s!"old={old} set={setL} add={addL} rem={remL} new={new}")
        else none
    let side := c.find "side"
    let sideViolation : Option (String × String) :=
      match side with
      | none => none
      | some s =>
        if s.getD 1 "" != s.getD 2 "" then some ("C25:snapshot-count-changed", s!"{s.getD 1 ""}->{s.getD 2 ""}")
        else if s.getD 3 "1" != "1" then some ("C25:other-field-changed", "")
        else if s.getD 4 "1" != "1" then some ("C25:unselected-snapshot-changed", "")
        else if s.getD 5 "1" != "1" then some ("C25:original-id-wrong", "")
        else none
    match specViolation, sideViolation with
    | some (sig, d), _ => .specfalse sig d
    | none, some (sig, d) => .specfalse sig d
    | none, none =>
      let same := match model, impl with
        | .fatal _, .fatal _ => true
        | .ok t c, .ok t' c' => t == t' && c == c'
        | _, _ => false
      if !same then .differ "result" s!"model={repr model} impl={repr impl}"
      else
        let dup := old.eraseDups.length != old.length
        let labels := (if dup then ["dup-old"] else []) ++
          (if setL ≠ [] then ["set"] else []) ++ (if addL ≠ [] then ["add"] else []) ++
          (if remL ≠ [] then ["rem"] else []) ++
          (match model with | .fatal _ => ["fatal"] | .ok _ true => ["changed"] | .ok _ false => ["unchanged"])
        .agree (match model with | .ok _ true => true | _ => false) labels

def main : IO Unit := mainLoop handleC25
