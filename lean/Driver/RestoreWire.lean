import Driver.Common
import Restic.Model.FileRestore
/-!
Wire helpers shared by the drivers of C19 and C21: run-length coded byte strings
(`aabb.z524288.cc` = hex literals and runs of zero bytes, "-" = empty) and the conversion of
byte lists into the `File` model (array backed, so that reading a byte is O(1)).
-/
namespace Driver.RestoreWire
open Driver Restic.Model.FileRestore

def unrlePart (s : String) : Option (List UInt8) :=
  if s.startsWith "z" then
    (s.drop 1).toNat?.map fun n => List.replicate n (0 : UInt8)
  else unhex s

/-- decode a run-length coded token -/
def unrle (s : String) : Option (List UInt8) :=
  if s == "-" then some [] else
  (s.splitOn ".").foldl (fun acc p => match acc, unrlePart p with
    | some a, some b => some (a ++ b)
    | _, _ => none) (some [])

/-- the `File` with the given bytes; reads go through an array -/
def fileOf (b : List UInt8) : File :=
  let a := b.toArray
  ⟨a.size, fun i => a.getD i 0⟩

/-- identity "hash": blob ids are the plaintexts themselves (an injective instance of the
    model's hash parameter; the real ids are SHA-256 values computed by restic) -/
def idHash (b : Bytes) : Bytes := b

def mkNode (size : Nat) (mtime : Int) (blobs : List Bytes) : FNode Bytes :=
  ⟨size, blobs.map fun d => ⟨d, d⟩, mtime⟩

def tokNat (r : Array String) (i : Nat) : Nat := (r.getD i "0").toNat?.getD 0
def tokInt (r : Array String) (i : Nat) : Int := (r.getD i "0").toInt?.getD 0
def tokBool (r : Array String) (i : Nat) : Bool := r.getD i "0" == "1"

end Driver.RestoreWire
