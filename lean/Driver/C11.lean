import Driver.RepoTraceIO
/-!
Driver for C11 (stream: harness/main/c11.go). One case = one `restic backup` run, complete,
cut at a crash point, with a persistent backend error, or cancelled, or with a persistent Load error. Records:
  mode <complete|crash|fail|cancel|loadfail|lostreply> <at> <n>   (lostreply: the at-th Save is stored, then reports an error, once)
  last <kind> <count>
  r0pack / r0index / r0snap        repository before the run
  ev w <event>                     recorded backend trace
  s1pack / s1index / s1snap        decoded backend content after the run (implementation's output)
  res <exit> <complete 0|1> <hex stderr>
  state check <0|1> <hex>          real `check` on the state after the run
  state restoreold <0|1> <hex>     every older snapshot restores to exactly its source
  state restorenew <0|1> <hex>     a new snapshot (if any) restores to exactly the new source
  state followup <0|1> <hex>       backup + check + prune + check + restore on that state succeed
-/
open Driver Driver.RT Restic.Model.RepoTrace

def stateRec (c : Case) (k : String) : Option (Bool × String) :=
  ((c.findAll "state").toList.find? fun r => r.getD 1 "" == k).map fun r =>
    (r.getD 2 "0" == "1", (unhexStr (r.getD 3 "-")).getD "?")

def sameRepo (a b : Repo) : Bool :=
  sameSet (a.packs.map (·.1)) (b.packs.map (·.1)) &&
  sameSet (a.indexes.map (·.1)) (b.indexes.map (·.1)) &&
  sameSet (a.snaps.map (·.1)) (b.snaps.map (·.1)) &&
  a.packs.all (fun p => b.packs.any fun q => q.1 == p.1 && q.2 == p.2)

def handleC11 (c : Case) : Verdict :=
  let r0 := parseRepo c
  let s1 := parseRepo c "s1"
  let tr := (parseEvents c).map (·.2)
  let rk := applyAll r0 tr
  let mode := match c.find "mode" with | some r => r.getD 1 "?" | none => "?"
  let last := match c.find "last" with | some r => r.getD 1 "none" | none => "none"
  let exit0 := match c.find "res" with | some r => r.getD 1 "1" == "0" | none => false
  let complete := mode == "complete"
  -- exit code 99 = the harness gave up waiting for the command (hang / overloaded machine)
  if (match c.find "res" with | some r => r.getD 1 "" == "99" | none => false) then .agree false ["run-timeout"] else
  let chk := stateRec c "check"
  let rold := stateRec c "restoreold"
  let rnew := stateRec c "restorenew"
  let fup := stateRec c "followup"
  -- the property on the implementation's own outputs ----------------------------------------
  let spec : Option (String × String) :=
    match chk, rold, rnew, fup with
    | some (false, m), _, _, _ => some (s!"C11:{mode}:check-fails-after-{last}", m)
    | _, some (false, m), _, _ => some (s!"C11:{mode}:old-snapshot-not-restorable-after-{last}", m)
    | _, _, some (false, m), _ => some (s!"C11:{mode}:new-snapshot-not-restorable-after-{last}", m)
    | _, _, _, some (false, m) => some (s!"C11:{mode}:later-backup-or-prune-fails-after-{last}", m)
    | _, _, _, _ =>
      if !specC11State r0 s1 then
        let why := if !indexSound s1 then "index-names-missing-pack"
          else if !snapsOK s1 then "snapshot-refers-to-unindexed-data"
          else "old-snapshot-gone"
        some (s!"C11:{mode}:state-inconsistent:{why}-after-{last}", "abstract check on the decoded backend content")
      else if exit0 && s1.snaps.length ≤ r0.snaps.length then
        some (s!"C11:{mode}:success-reported-without-new-snapshot-after-{last}", "backup exit code 0 but no new snapshot file exists")
      else if complete && !exit0 then
        some ("C11:complete:backup-without-fault-fails", (c.find "res").map (fun r => (unhexStr (r.getD 3 "-")).getD "?") |>.getD "")
      else none
  match spec with
  | some (sig, d) => .specfalse sig d
  | none =>
    -- model vs implementation ---------------------------------------------------------------
    if !sameRepo rk s1 then
      .differ "state" s!"applyAll r0 trace has packs {rk.packs.map (·.1)} indexes {rk.indexes.map (·.1)} snaps {rk.snaps.map (·.1)}; backend has packs {s1.packs.map (·.1)} indexes {s1.indexes.map (·.1)} snaps {s1.snaps.map (·.1)}"
    else if !accept_backup r0 tr then
      .differ "trace-not-in-language" s!"accept_backup rejects a trace of {tr.length} events (acceptAdds={acceptAdds r0 tr} snapOnlyLast={snapOnlyLast tr})"
    else if !freshOK r0 tr then
      .differ "file-name-reused" "a save hit a name that already existed"
    else if complete && !endsWithSnap tr then
      .differ "complete-run-without-snapshot" ""
    else if endsWithSnap tr && !(unindexedPacks tr).isEmpty then
      .differ "snapshot-with-unflushed-index" s!"packs {unindexedPacks tr} uploaded in this run are in no index file of this run"
    else if (chk.map (·.1)).getD true != checkOK rk then
      .differ "check" s!"model checkOK={checkOK rk} real={chk.map (·.1)}"
    else
      let nSnap := tr.filter isSaveSnap |>.length
      let nIdx := (tr.filter fun e => match e with | .saveIndex _ _ => true | _ => false).length
      let labels := labelsOf c ++ [s!"last:{last}"] ++ (if nSnap > 0 then ["snapshot-written"] else ["no-snapshot"]) ++
        (if exit0 then ["exit0"] else ["exit-nonzero"]) ++ (if nIdx > 1 then ["multi-index"] else [])
      .agree (tr.length > 0) labels

def main : IO Unit := mainLoop handleC11
