import Driver.Common
import Restic.Model.Cache
/-!
Driver for C38. Substreams:

raw — history of `Repository.LoadRaw` calls on one handle:
  kind index|snapshot|pack|key
  good <hex bytes> <0/1>             real sha256(bytes) == id, for every byte string that occurs
  load <be A|hex> <cell K|A|hex> <adv1> <adv2> <be label> <cell label>
        adv: N nothing | A cell deleted | D directory removed | E cell := empty | hex cell := bytes,
        applied by "another process" right after the 1st / 2nd download of the file
  res ok <hex> | res invalidData <hex> | res notExist | res other | res panic
  after <A|hex>                       cache cell after the load
  endload
conc — concurrent LoadRaw of one file: setup <hex be> <cell label>, good…, res…*, after
blob — LoadBlob of a tree blob from a cached pack:
  blob <length> <offset> <pack length> <auto|cacheable> <tree-pack|mixed-pack-tree-blob|mixed-pack-data-blob>
  bload <be intact|deleted> <cell label> <cell present> <long enough> <range intact>
  res ok <plaintext equal 0/1> | res err | res panic ; after pack|other|absent ; endload
-/
open Driver Restic.Model.Cache

namespace C38

def kindOf : String → Kind
  | "key" => .notCacheable
  | "pack" => .cacheable
  | _ => .autoCached

def parseFault (t : String) : Fault :=
  if t == "F" then .failBefore
  else if t.startsWith "L" then .late (t.drop 1).toNat!
  else .none

def parseOpt (t : String) : Option Bytes := if t == "A" then none else unhex t

def parseAdv (t : String) : Adv :=
  match t with
  | "N" => none
  | "A" => some none
  | "D" => some none
  | "E" => some (some [])
  | h => some (unhex h)

/-- the model instantiated with ID := Bool, id := true, hash b := "b is good" -/
def runRaw (good : Bytes → Bool) (k : Kind) (adv : Advs) (s : S) : S × Res :=
  loadRaw good true k false adv s

structure Acc where
  k : Kind
  good : List (Bytes × Bool) := []
  s : S := { be := none, cell := none, forgotten := false }
  pending : Option (Array String) := none
  res : Option (Array String) := none
  after : Option String := none
  labels : List String := []
  nt : Bool := false
  verdict : Option Verdict := none

def lookupGood (tbl : List (Bytes × Bool)) (b : Bytes) : Bool :=
  match tbl.find? (·.1 == b) with
  | some (_, g) => g
  | none => false

def resClass : Res → String
  | .ok _ => "ok"
  | .err .backendNotExist => "notExist"
  | .err _ => "other"
  | .errWithData .invalidData _ => "invalidData"
  | .errWithData _ _ => "other"     -- the backend failed after the consumer saw (part of) the body

def finishRaw (a : Acc) : Acc :=
  match a.pending, a.res, a.after with
  | some ld, some rs, some af =>
    let good := lookupGood a.good
    let be := parseOpt (ld.getD 1 "A")
    let cell := if ld.getD 2 "K" == "K" then a.s.cell else parseOpt (ld.getD 2 "A")
    let before : S := { be := be, cell := cell, forgotten := a.s.forgotten }
    let advs := [ld.getD 3 "N", ld.getD 4 "N"]
    let interference := advs.any (· != "N") || ld.getD 7 "N" != "N" || ld.getD 8 "N" != "N"
    let cellAfter := parseOpt af
    let implRes : Option Res :=
      match rs.getD 1 "" with
      | "ok" => (unhex (rs.getD 2 "-")).map .ok
      | "invalidData" => (unhex (rs.getD 2 "-")).map (.errWithData .invalidData)
      | "notExist" => some (.err .backendNotExist)
      | "other" => some (.err .cacheTooShort)
      | _ => none
    match implRes with
    | none => { a with verdict := some (.specfalse "C38:raw:panic-or-unknown-result" s!"{rs}") }
    | some ir =>
      match specViolation good a.k interference before ir cellAfter with
      | some clause => { a with verdict := some (.specfalse s!"C38:raw:{clause}" s!"kind={repr a.k} before={repr before} res={repr ir} after={af} advs={advs}") }
      | none =>
        -- model: which of the two cache loads performs the first download?
        let d1 := a.k == .autoCached && before.cell.isNone && before.be.isSome
        let a1 := parseAdv (advs.getD 0 "N"); let a2 := parseAdv (advs.getD 1 "N")
        -- backend faults: one per backend call; the first cache load makes a call unless it is
        -- served from an existing cell
        let x0 := parseFault (ld.getD 7 "N"); let x1 := parseFault (ld.getD 8 "N")
        let call1 := !(before.cell.isSome && a.k != .notCacheable)
        let f1 : Faults := if call1 then { dl := x0, be := x0 } else {}
        let f2 : Faults := if call1 then { dl := x1, be := x1 } else { dl := x0, be := x0 }
        let adv : Advs := if d1 then { a2 := a1, a4 := a2, f1 := f1, f2 := f2 } else { a4 := a1, f1 := f1, f2 := f2 }
        let faulty := ld.getD 7 "N" != "N" || ld.getD 8 "N" != "N"
        let (s', mr) := runRaw good a.k adv before
        if resClass mr != resClass ir || (match mr, ir with | .ok x, .ok y => x != y | .errWithData _ x, .errWithData _ y => x != y | _, _ => false) then
          { a with verdict := some (.differ "raw-result" s!"kind={repr a.k} before={repr before} advs={advs} model={repr mr} impl={repr ir}") }
        else if s'.cell != cellAfter then
          { a with verdict := some (.differ "raw-cell" s!"kind={repr a.k} before={repr before} advs={advs} model={repr s'.cell} impl={af}") }
        else
          let servedStale := match ir, be with
            | .ok b, some d => d != b
            | .ok _, none => true
            | _, _ => false
          let lbl := [s!"be-{ld.getD 5 "?"}", s!"cell-{ld.getD 6 "?"}", s!"res-{resClass ir}"] ++
            (if interference && !faulty then ["interference"] else []) ++
            (if faulty then ["backend-faults"] else []) ++
            (if before.forgotten then ["already-forgotten"] else []) ++
            (if s'.forgotten && !before.forgotten then ["forget"] else []) ++
            (if servedStale then ["served-from-cache-while-repo-differs"] else [])
          { a with s := s', pending := none, res := none, after := none, labels := a.labels ++ lbl,
                   nt := a.nt || (cell.isSome && a.k != .notCacheable) || interference }
  | _, _, _ => { a with verdict := some (.differ "protocol" "endload without load/res/after") }

def handleRaw (c : Case) : Verdict :=
  let k := kindOf ((c.find "kind").getD #[] |>.getD 1 "index")
  let fin := c.recs.foldl (init := ({ k := k } : Acc)) fun a r =>
    if a.verdict.isSome then a else
    match r.getD 0 "" with
    | "good" => { a with good := ((unhex (r.getD 1 "-")).getD [], r.getD 2 "" == "1") :: a.good }
    | "load" => { a with pending := some r }
    | "res" => { a with res := some r }
    | "after" => { a with after := some (r.getD 1 "A") }
    | "endload" => finishRaw a
    | _ => a
  match fin.verdict with
  | some v => v
  | none => .agree fin.nt (([s!"kind-{repr k}".replace "Restic.Model.Cache.Kind." ""] ++ fin.labels).eraseDups)

/-- history of `cacheBackend.Load` calls: cbinit <kind> <be> <cell> <label>;
    cbload <length> <offset> <fault>; res ok <hex> | <error class>; after <cell>; endload -/
def handleCb (c : Case) : Verdict :=
  match c.find "cbinit" with
  | none => .differ "protocol" "no cbinit"
  | some ini =>
    let k : Kind := match ini.getD 1 "" with
      | "key" => .notCacheable | "pack" => .cacheable | _ => .autoCached
    let s0 : S := { be := parseOpt (ini.getD 2 "A"), cell := parseOpt (ini.getD 3 "A"), forgotten := false }
    let step (acc : S × Option Verdict × List String × Option (Array String) × Option (Array String) × Option String) (r : Array String) :=
      let (s, v, lbl, ld, rs, af) := acc
      if v.isSome then acc else
      match r.getD 0 "" with
      | "cbload" => (s, v, lbl, some r, rs, af)
      | "res" => (s, v, lbl, ld, some r, af)
      | "after" => (s, v, lbl, ld, rs, some (r.getD 1 "A"))
      | "endload" =>
        match ld, rs, af with
        | some ld, some rs, some af =>
          let length := (ld.getD 1 "0").toNat!; let off := (ld.getD 2 "0").toNat!
          let x := parseFault (ld.getD 3 "N")
          let cellAfter := parseOpt af
          let implRes : Option Res := match rs.getD 1 "" with
            | "ok" => (unhex (rs.getD 2 "-")).map .ok
            | "notExist" => some (.err .backendNotExist)
            | "other" => some (.err .backendFail)
            | "invalidData" => some (.err .invalidData)
            | _ => none
          match implRes with
          | none => (s, some (.specfalse "C38:cb:panic-or-unknown-result" s!"{rs}"), lbl, none, none, none)
          | some ir =>
            match cbSpecViolation length off s ir cellAfter with
            | some clause =>
              (s, some (.specfalse s!"C38:cb:{clause}" s!"kind={repr k} before={repr s} length={length} offset={off} fault={ld.getD 3 "N"} res={repr ir} after={af}"), lbl, none, none, none)
            | none =>
              let (s', mr) := cbLoad k length off none none s { dl := x, be := x }
              if resClass mr != resClass ir || (match mr, ir with | .ok a, .ok b => a != b | _, _ => false) then
                (s, some (.differ "cb-result" s!"kind={repr k} before={repr s} length={length} offset={off} fault={ld.getD 3 "N"} model={repr mr} impl={repr ir}"), lbl, none, none, none)
              else if s'.cell != cellAfter then
                (s, some (.differ "cb-cell" s!"kind={repr k} before={repr s} length={length} offset={off} fault={ld.getD 3 "N"} model={repr s'.cell} impl={af}"), lbl, none, none, none)
              else
                (s', v, lbl ++ [s!"cb-res-{resClass ir}", s!"cb-fault-{(ld.getD 3 "N").take 1}",
                    (if length == 0 && off == 0 then "cb-whole-file" else "cb-range")] ++
                    (if cellOK s then [] else ["cb-cell-corrupt-before"]), none, none, none)
        | _, _, _ => (s, some (.differ "protocol" "endload without records"), lbl, none, none, none)
      | _ => acc
    let (_, v, lbl, _, _, _) := c.recs.foldl step (s0, none, [], none, none, none)
    match v with
    | some v => v
    | none => .agree true ((["cb", s!"cb-kind-{ini.getD 1 ""}", s!"cb-cell-{ini.getD 4 ""}"] ++ lbl).eraseDups)

def handleConc (c : Case) : Verdict :=
  let tbl := (c.findAll "good").toList.map fun r => ((unhex (r.getD 1 "-")).getD [], r.getD 2 "" == "1")
  let good := lookupGood tbl
  let be := (c.find "setup").bind fun r => unhex (r.getD 1 "-")
  let results := (c.findAll "res").toList
  let bad := results.find? fun r =>
    match r.getD 1 "" with
    | "ok" => match unhex (r.getD 2 "-") with
      | some b => !good b || some b != be
      | none => true
    | _ => true     -- the repository file is intact: every concurrent load has to succeed
  match bad with
  | some r => .specfalse "C38:conc:load-not-ok-or-wrong-bytes" s!"{r}"
  | none =>
    let after := parseOpt (((c.find "after").getD #[]).getD 1 "A")
    if after != none && after != be then .specfalse "C38:conc:corrupt-cache-file-not-replaced" s!"after={after}"
    else .agree true ["conc", s!"loaders-{results.length}", s!"cell-{((c.find "setup").getD #[]).getD 2 "?"}"]

def handleBlob (c : Case) : Verdict :=
  match c.find "blob" with
  | none => .differ "protocol" "no blob record"
  | some br =>
    let length := (br.getD 1 "0").toNat!; let off := (br.getD 2 "0").toNat!; let plen := (br.getD 3 "0").toNat!
    let bk : Kind := if br.getD 4 "auto" == "cacheable" then .cacheable else .autoCached
    let pack : Bytes := List.replicate plen 1
    let verify (b : Bytes) : Bool := b == slice pack length off
    let step (acc : S × Option Verdict × List String × Option (Array String) × Option (Array String) × Option String) (r : Array String) :=
      let (s, v, lbl, ld, rs, af) := acc
      if v.isSome then acc else
      match r.getD 0 "" with
      | "bload" => (s, v, lbl, some r, rs, af)
      | "res" => (s, v, lbl, ld, some r, af)
      | "after" => (s, v, lbl, ld, rs, some (r.getD 1 ""))
      | "endload" =>
        match ld, rs, af with
        | some ld, some rs, some af =>
          let be : Option Bytes := if ld.getD 1 "" == "deleted" then none else some pack
          let present := ld.getD 3 "" == "1"; let long := ld.getD 4 "" == "1"; let rangeOK := ld.getD 5 "" == "1"
          let cell : Option Bytes :=
            if !present then none
            else if !long then some (pack.take (off + length - 1))
            else if rangeOK then (if ld.getD 2 "" == "intact" then some pack else some (pack.take (plen - 1) ++ [2]))
            else some (pack.take off ++ [2] ++ pack.drop (off + 1))
          let before : S := { be := be, cell := cell, forgotten := s.forgotten }
          let implOk := rs.getD 1 "" == "ok"
          if rs.getD 1 "" == "panic" then (s, some (.specfalse "C38:blob:panic" s!"{rs}"), lbl, none, none, none)
          else if implOk && rs.getD 2 "" != "1" then
            (s, some (.specfalse "C38:blob:ok-with-wrong-plaintext" s!"{ld}"), lbl, none, none, none)
          else if !implOk && be.isSome && !s.forgotten then
            (s, some (.specfalse "C38:blob:healthy-pack-not-loaded-despite-retry" s!"{ld}"), lbl, none, none, none)
          else
            let (s', mr) := loadBlob1 verify bk length off {} before
            let modelOk := match mr with | .ok _ => true | _ => false
            let mAfter := match s'.cell with | none => "absent" | some cc => if cc == pack then "pack" else "other"
            if modelOk != implOk then (s, some (.differ "blob-result" s!"before={ld} forgotten={s.forgotten} model={repr (resClass mr)} impl={rs}"), lbl, none, none, none)
            else if mAfter != af then (s, some (.differ "blob-cell" s!"before={ld} forgotten={s.forgotten} model={mAfter} impl={af}"), lbl, none, none, none)
            else (s', v, lbl ++ [s!"blob-be-{ld.getD 1 ""}", s!"blob-cell-{ld.getD 2 ""}", s!"blob-res-{rs.getD 1 ""}"] ++
                    (if s.forgotten then ["already-forgotten"] else []), none, none, none)
        | _, _, _ => (s, some (.differ "protocol" "endload without records"), lbl, none, none, none)
      | _ => acc
    let (_, v, lbl, _, _, _) := c.recs.foldl step (({ be := none, cell := none, forgotten := false } : S), none, [], none, none, none)
    match v with
    | some v => v
    | none => .agree true (("blob" :: s!"blob-{br.getD 5 "tree-pack"}" :: lbl).eraseDups)

def handle (c : Case) : Verdict :=
  match c.stream with
  | "raw" => handleRaw c
  | "conc" => handleConc c
  | "cb" => handleCb c
  | "blob" => handleBlob c
  | s => .differ "protocol" s!"unknown substream {s}"

end C38

def main : IO Unit := mainLoop C38.handle
