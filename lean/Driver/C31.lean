import Driver.Common
import Restic.Model.Upgrade
import Restic.Gen.Source
/-!
Driver for C31 (records: see harness/main/c31.go).
(a) the model `upgrade` (instantiated with `HasAtomicReplace`, the fault schedule, and the
    regenerated fact whether the contingency path of the current source spares the config on atomic
    backends) is compared with the implementation: attempted config operations with their success,
    the config file after the interruption point, the outcome;
(b) the property on the implementation's own output: a config (old or new) is present at every
    observed interruption point, no other file is written or changed, and after a completed upgrade
    the repository is version 2 with the same id/polynomial, passes `check --read-data` and restores
    the same tree. A missing config is reported under the signature of its class (`lossAt`).
-/
open Driver Restic.Model.Upgrade

namespace C31

/-- the current source guards the contingency `Remove` with `Properties().HasAtomicReplace` -/
def fixed : Bool := Restic.Gen.C31_UpgradeRepo_calls.contains "repo.be.Properties"

def cfgName : Cfg → String
  | .old => "old" | .new => "new" | .none => "none"

def coarse : OpKind → String
  | .remove => "remove" | _ => "save"

def handle (c : Case) : Verdict :=
  let beR := (c.find "be").getD #[]
  let atomic := beR.getD 2 "0" == "1"
  let stopS := ((c.find "stop").getD #[]).getD 1 "-1"
  let stop : Option Nat := if stopS == "-1" then none else stopS.toNat?
  let steps := (c.findAll "step").toList.map fun r => (r.getD 1 "?", r.getD 2 "0" == "1")
  let cfg := ((c.find "cfg").getD #[]).getD 1 "?"
  let outR := (c.find "outcome").getD #[]
  let outcome := outR.getD 1 "?"
  let touched := ((c.find "touched").getD #[]).getD 1 "0"
  let same := ((c.find "same").getD #[]).getD 1 "1"
  if outcome == "panic" then .specfalse "C31:panic" (outR.getD 2 "") else
  -- ---------- (b) the property on the implementation's output
  let okSteps := steps.filter (·.2)
  let dummy (l : List (String × Bool)) : List Step := l.map fun s => ⟨if s.1 == "remove" then .remove else .saveNew, s.2, .none⟩
  if touched != "0" then .specfalse "C31:data-file-written" s!"touched={touched}" else
  if same != "1" then .specfalse "C31:data-file-changed" "" else
  if c.stream == "again" then
    if cfg != "new" || !steps.isEmpty then .specfalse "C31:upgrade-of-v2-repository-touched-config" s!"cfg={cfg} steps={steps}"
    else .agree true ["again", "outcome-" ++ outcome]
  else
  let interrupted := stop.isSome && (outcome == "crashed")
  let before : List Step := if c.stream == "api" then dummy steps else dummy okSteps
  if cfg == "none" then
    .specfalse (lossAt atomic before (!interrupted)).signature s!"stream={c.stream} atomic={atomic} stop={stopS} steps={steps} outcome={outcome}"
  else if cfg != "old" && cfg != "new" then .specfalse "C31:config-unreadable" s!"cfg={cfg}"
  else
  let au := c.find "after-upgrade"
  let auViolation : Option String := au.bind fun r =>
    if r.getD 1 "" != "2" then some "C31:after-upgrade:version-not-2"
    else if r.getD 2 "" != "1" then some "C31:after-upgrade:repository-id-changed"
    else if r.getD 3 "" != "1" then some "C31:after-upgrade:chunker-polynomial-changed"
    else if r.getD 4 "" != "0" then some "C31:after-upgrade:check-fails"
    else if r.getD 5 "" != "1" then some "C31:after-upgrade:restore-differs"
    else none
  match auViolation with
  | some sig => .specfalse sig ""
  | none =>
  -- ---------- (a) model against implementation
  if c.stream == "api" then
    let bits := (((c.find "sched").getD #[]).getD 1 "").toList.map (· == '1')
    let fail : Nat → Bool := fun i => bits.getD i false
    let m := upgrade fixed atomic fail .old
    let k := match stop with | none => m.2.length | some s => min s m.2.length
    let expSteps := (m.2.take k).map fun s => (coarse s.op, s.ok)
    let expCfg := cfgName ((states .old m.2).getD k .none)
    if expSteps != steps then .differ "steps" s!"atomic={atomic} sched={bits} stop={stopS} model={expSteps} impl={steps}"
    else if expCfg != cfg then .differ "config" s!"atomic={atomic} sched={bits} stop={stopS} model={expCfg} impl={cfg}"
    else
      let complete := k == m.2.length
      let expOut := match m.1 with | .upgraded => "upgraded" | .failedRestored => "restored" | .failedNotRestored => "notrestored"
      if complete && outcome != "crashed" && expOut != outcome then .differ "outcome" s!"atomic={atomic} sched={bits} model={expOut} impl={outcome}"
      else .agree true ["api", if atomic then "atomic" else "non-atomic", "cfg-" ++ cfg, "outcome-" ++ outcome,
        s!"faults-{(bits.take m.2.length).count true}", if complete then "complete" else s!"stop-{k}"]
  else
    -- cli: no injected faults; the config must be the model's state after the completed config operations
    let m := upgrade fixed atomic (fun _ => false) .old
    let j := okSteps.length
    let expCfg := cfgName ((states .old m.2).getD j .none)
    if j > m.2.length then .differ "steps" s!"more-config-writes-than-model impl={steps}"
    else if (okSteps.map (·.1)) != ((m.2.take j).map fun s => coarse s.op) then .differ "steps" s!"model={(m.2.take j).map fun s => coarse s.op} impl={okSteps}"
    else if expCfg != cfg then .differ "config" s!"atomic={atomic} stop={stopS} model={expCfg} impl={cfg}"
    else if stop.isNone && outcome != "upgraded" then .differ "outcome" s!"complete-run impl={outcome}"
    else .agree true ["cli", if atomic then "atomic" else "non-atomic", "cfg-" ++ cfg, "outcome-" ++ outcome,
      if stop.isNone then "complete" else "crash"]

end C31

def main : IO Unit := mainLoop C31.handle
