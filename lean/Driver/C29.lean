import Driver.Common
import Restic.Model.Keys
import Restic.Gen.Consts
/-!
Driver for C29 (records: see harness/main/c29.go).
(a) model against implementation: every open attempt (`repoSearchKey` on the key files in the
    order the implementation tried them), the key-file writes of the operation (`opTrace`, a prefix
    of it at a crash point), the result class, the key files afterwards;
(b) the property on the implementation's own output: `specOpen` for every open attempt, same
    master key, some key still works after every (interrupted) run, the key in use is not removed.
-/
open Driver Restic.Model.Keys

namespace C29

def maxKeys : Nat := Restic.Gen.global_maxKeys

def hx (t : String) : String := (unhexStr t).getD "?"

def isID (s : String) : Bool :=
  s.toList.length == 64 && s.toList.all fun c => ('0' ≤ c && c ≤ '9') || ('a' ≤ c && c ≤ 'f') || ('A' ≤ c && c ≤ 'F')

/-- key files before the run with the harness's ground truth; master 1 = this repository's -/
def truthOf (c : Case) (master : String) : List (KeyID × KeyFile) :=
  (c.findAll "key").toList.map fun r =>
    let id := hx (r.getD 1 "-")
    if r.getD 2 "" == "good" then (id, .good (hx (r.getD 3 "-")) (if r.getD 4 "" == master then 1 else 2))
    else (id, .bad)

def splitIDs (s : String) : List String := (s.splitOn ",").filter (· ≠ "")

/-- the listing the implementation saw: tried keys first (in order), then the others -/
def listingFor (present : Listing) (hint : String) (tried : List KeyID) : Listing :=
  let present := present.filter fun e => isID e.1
  let look (id : KeyID) : Option (KeyID × KeyFile) := present.find? (·.1 == id)
  let hinted := if hint.isEmpty then none else findPrefix present hint
  let triedList := match hinted, tried with
    | some _, _ :: rest => rest      -- first load was the hinted key
    | _, t => t
  let first := triedList.filterMap look
  first ++ present.filter fun e => !(triedList.contains e.1)

def openClass : RepoOpen → String
  | .ok _ => "ok"
  | .noKeyFound => "nokey"
  | .maxKeysReached => "maxkeys"
  | .keyError => "error"
  | .damaged => "damaged"

def keyEvs (c : Case) (newKf : KeyFile) : List KEv :=
  (c.findAll "ev").toList.filterMap fun r =>
    if r.getD 2 "" == "key" && r.getD 4 "0" == "0" then
      match r.getD 1 "" with
      | "save" => some (.save (hx (r.getD 3 "-")) newKf)
      | "remove" => some (.remove (hx (r.getD 3 "-")))
      | _ => none
    else none

def triedOfEvs (c : Case) : List KeyID :=
  let rec go : List (Array String) → List KeyID
    | [] => []
    | r :: rest =>
      if r.getD 1 "" == "load" && r.getD 2 "" == "config" then []
      else if r.getD 1 "" == "load" && r.getD 2 "" == "key" then hx (r.getD 3 "-") :: go rest
      else go rest
  go (c.findAll "ev").toList

def native (l : Listing) : Bool :=
  l.all fun e => match e.2 with | .good _ m => m == 1 | .bad => false

def handle (c : Case) : Verdict :=
  let master := ((c.find "master").getD #[]).getD 1 "?"
  let pre := truthOf c master
  let opR := (c.find "op").getD #[]
  let opKind := opR.getD 1 "none"
  let newPw := hx (opR.getD 2 "-")
  let arg := hx (opR.getD 3 "-")
  let crash := ((c.find "crash").getD #[]).getD 1 "-1"
  let newKf : KeyFile := .good newPw 1
  let kevs := keyEvs c newKf
  let afterIDs := (c.findAll "after").toList.map fun r => hx (r.getD 1 "-")
  -- truth of the state afterwards: old keys that are still there + keys saved by this run
  let saved := kevs.filterMap fun e => match e with | .save id kf => some (id, kf) | _ => none
  let after : Listing := afterIDs.map fun id =>
    match saved.find? (·.1 == id) with
    | some e => e
    | none => (pre.find? (·.1 == id)).getD (id, .bad)
  let afterL := after.filter fun e => isID e.1
  let opens := (c.findAll "open").toList
  -- ---------- (b) the property on the implementation's output
  let openViolation : Option (String × String) := opens.findSome? fun r =>
    let pw := hx (r.getD 1 "-"); let hint := hx (r.getD 2 "-"); let cls := r.getD 3 "?"
    let opened := cls == "ok"
    let hintHit := !hint.isEmpty && (match findPrefix afterL hint with
      | some (_, .good p _) => p == pw
      | _ => false)
    if cls == "panic" then some ("C29:open:panic", s!"pw={pw}")
    else if native afterL && !specOpen maxKeys afterL pw hintHit opened then
      some (if opened then "C29:open:password-of-no-key-accepted" else "C29:open:password-of-a-key-rejected",
            s!"pw={pw} hint={hint} keys={afterL.length} class={cls}")
    else if opened && r.getD 4 "-" == "0" && native afterL then some ("C29:open:different-master-key", s!"pw={pw}")
    else none
  match openViolation with
  | some (sig, d) => .specfalse sig d
  | none =>
  let sessR := (c.find "session").getD #[]
  let sessPw := hx (sessR.getD 1 "-"); let sessHint := hx (sessR.getD 2 "-")
  let resR := (c.find "res").getD #[]
  let implClass := resR.getD 2 "?"
  if implClass == "panic" then .specfalse ("C29:" ++ opKind ++ ":panic") "" else
  let preL := listingFor pre sessHint (triedOfEvs c)
  let sess := if opKind == "none" then RepoOpen.noKeyFound else repoSearchKey 1 maxKeys sessPw sessHint preL
  let cur : Option KeyID := match sess with | .ok id => some id | _ => none
  let target : Option KeyID := (findPrefix (pre.filter fun e => isID e.1) arg).map (·.1)
  let anyOpens := opens.any fun r => r.getD 3 "" == "ok"
  let histViolation : Option (String × String) :=
    if opKind == "none" then none
    else if native (pre.filter fun e => isID e.1) && cur.isSome && !anyOpens then
      some (s!"C29:{opKind}:no-working-key-after-run", s!"crash={crash} keys-after={afterL.length}")
    else if opKind == "remove" && cur.isSome && target == cur && !(afterIDs.contains (cur.getD "")) then
      some ("C29:remove:current-key-removed", s!"crash={crash}")
    else none
  match histViolation with
  | some (sig, d) => .specfalse sig d
  | none =>
  -- ---------- (a) model against implementation
  let openDiff : Option String := opens.findSome? fun r =>
    let pw := hx (r.getD 1 "-"); let hint := hx (r.getD 2 "-"); let cls := r.getD 3 "?"
    let l := listingFor after hint (splitIDs (hx (r.getD 5 "-")))
    let m := openClass (repoSearchKey 1 maxKeys pw hint l)
    if m != cls then some s!"open pw={pw} hint={hint} model={m} impl={cls} keys={l.length}" else none
  match openDiff with
  | some d => .differ "open" d
  | none =>
  if opKind == "none" then
    let classes := (opens.map fun r => "open-" ++ r.getD 3 "?").eraseDups
    let bk := match c.find "badkind" with | some r => ["badkind-" ++ r.getD 1 "?"] | none => []
    .agree true ([c.stream, s!"keys-{if afterL.length > maxKeys then ">max" else "le-max"}"] ++ classes ++ bk)
  else
  -- the operation
  let newID : KeyID := (saved.head?.map (·.1)).getD "?"
  let opM : Option KeyOp := match opKind with
    | "add" => some (.add newID newPw true)
    | "passwd" => some (.passwd newID newPw true)
    | "remove" => target.map .remove
    | _ => none
  let expected : List KEv := match cur, opM with
    | some cid, some o => opTrace cid 1 o
    | _, _ => []
  let expectedAlt : List KEv := match cur, opM with
    | some cid, some (.add n p _) => opTrace cid 1 (.add n p false)
    | some cid, some (.passwd n p _) => opTrace cid 1 (.passwd n p false)
    | _, _ => expected
  let traceOK :=
    if crash == "-1" then kevs == expected
    else kevs.isPrefixOf expected || kevs.isPrefixOf expectedAlt
  if !traceOK then .differ "trace" s!"op={opKind} crash={crash} model={repr expected} impl={repr kevs}" else
  let modelClass : String := match sess with
    | .ok cid =>
      (match opKind, target with
       | "remove", none => "no-such-key"
       | "remove", some t => if t == cid then "refused-current" else "ok"
       | _, _ => "ok")
    | s => openClass s
  if crash == "-1" && modelClass != implClass then .differ "result" s!"op={opKind} model={modelClass} impl={implClass}" else
  let modelAfter := (applyAllK pre kevs).map (·.1)
  if !(modelAfter.all afterIDs.contains && afterIDs.all modelAfter.contains) then
    .differ "after" s!"model={modelAfter} impl={afterIDs}" else
  let classes := (opens.map fun r => "open-" ++ r.getD 3 "?").eraseDups
  .agree cur.isSome ([c.stream, opKind, if crash == "-1" then "complete" else "crash", "session-" ++ openClass sess,
    "res-" ++ implClass, s!"keys-{if afterL.length > maxKeys then ">max" else "le-max"}"] ++ classes ++
    (if sessHint.isEmpty then [] else ["hint"]))

end C29

def main : IO Unit := mainLoop C29.handle
