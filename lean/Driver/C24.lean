import Driver.Common
import Restic.Model.Snapshots
/-!
Driver for C24 (snapshot filters, grouping, 'latest'). Records per case (harness/main/c24.go):
  sn <idx> <sec> <nsec> <host>    snp <idx> <path>*    snt <idx> <tag>*
  fh <host>*   ft <tag>* (one per tag list)   fp <path>*   fpc <cleaned path>*   lim none|<sec> <nsec>
  arg latest|latestsub|unknown|id <idx> <sub 0/1>        gb <tag> <host> <path>
  sel <idx>* | latest none|<idx> | evs <snap:idx|err:kind>* | grp <idx>* | grpset <idx>* | ngrp <n>
  res panic|error <msg>
-/
open Driver Restic.Model.Snapshots

namespace C24

def strs (r : Array String) (from_ : Nat) : List String :=
  (r.toList.drop from_).map fun t => (unhexStr t).getD "?"

def nats (r : Array String) (from_ : Nat) : List Nat :=
  (r.toList.drop from_).map fun t => t.toNat?.getD 0

def timeOf (sec nsec : String) : Int := (sec.toInt?.getD 0) * 1000000000 + (nsec.toInt?.getD 0)

def parseSnaps (c : Case) : List Snap :=
  (c.findAll "sn").toList.map fun r =>
    let idx := r.getD 1 "0"
    let fieldOf (key : String) : List String :=
      match (c.findAll key).toList.find? (fun q => q.getD 1 "" == idx) with
      | some q => strs q 2
      | none => []
    { id := idx.toNat?.getD 0, time := timeOf (r.getD 2 "0") (r.getD 3 "0"),
      host := (unhexStr (r.getD 4 "-")).getD "?", paths := fieldOf "snp", tags := fieldOf "snt" }

def parseFilter (c : Case) (cleaned : Bool) : Filter :=
  let get (k : String) := match c.find k with | some r => strs r 1 | none => []
  { hosts := get "fh"
    tags := (c.findAll "ft").toList.map fun r => strs r 1
    paths := if cleaned then get "fpc" else get "fp"
    limit := match c.find "lim" with
      | some r => if r.getD 1 "none" == "none" then none else some (timeOf (r.getD 1 "0") (r.getD 2 "0"))
      | none => none }

def parseGroupBy (c : Case) : GroupBy :=
  match c.find "gb" with
  | some r => { tag := r.getD 1 "0" == "1", host := r.getD 2 "0" == "1", path := r.getD 3 "0" == "1" }
  | none => { tag := false, host := false, path := false }

def parseArgs (c : Case) : List Arg :=
  (c.findAll "arg").toList.map fun r =>
    match r.getD 1 "" with
    | "latest" => .latest
    | "latestsub" => .latestSub
    | "id" => .id ((r.getD 2 "0").toNat?.getD 0) (r.getD 3 "0" == "1")
    | _ => .unknown

def renderEv : Ev → String
  | .snap n => s!"snap:{n}"
  | .err k => s!"err:{k}"

def mixedList (l : List Tag) : Bool := l.contains "" && l != [""]

def filterLabels (f : Filter) : List String :=
  (if f.hosts.isEmpty then [] else ["hosts"]) ++ (if f.paths.isEmpty then [] else ["paths"]) ++
  (if f.tags.isEmpty then [] else ["tags"]) ++
  (if f.tags.any mixedList then ["mixed-taglist"] else []) ++
  (if f.tags.contains [""] then ["untagged-filter"] else []) ++
  (if f.tags.contains [] then ["empty-taglist"] else []) ++
  (if f.limit.isSome then ["limit"] else []) ++
  (if f.hosts.eraseDups.length != f.hosts.length then ["dup-hosts"] else []) ++
  (if f.paths.eraseDups.length != f.paths.length then ["dup-paths"] else []) ++
  (if f.tags.eraseDups.length != f.tags.length then ["dup-taglists"] else []) ++
  (if f.tags.any (fun l => l.eraseDups.length != l.length) then ["dup-tags-in-list"] else [])

/-- which clause of the grouping statement is false (for the signature) -/
def groupSig (g : GroupBy) (snaps : List Snap) (groups : List (List Nat)) : String :=
  let flat := groups.flatten
  if !(snaps.all fun sn => flat.count sn.id == 1) || flat.length != snaps.length then "C24:group:not-a-partition"
  else if snaps.any fun a => snaps.any fun b =>
      specSameGroup g a b && !(groups.any fun grp => grp.contains a.id && grp.contains b.id) then
    "C24:group:equal-keys-split"
  else "C24:group:different-keys-merged"

def handle (c : Case) : Verdict :=
  match c.find "res" with
  | some r =>
    if r.getD 1 "" == "panic" then .specfalse s!"C24:{c.stream}:panic" ((unhexStr (r.getD 2 "-")).getD "?")
    else .differ "unexpected-error" ((unhexStr (r.getD 2 "-")).getD "?")
  | none =>
  let snaps := parseSnaps c
  match c.stream with
  | "filter" =>
    let f := parseFilter c false
    match c.find "sel" with
    | none => .differ "protocol" "no-sel-record"
    | some r =>
      let sel := nats r 1
      if !specFindAll f snaps sel then
        .specfalse (if f.tags.any mixedList then "C24:filter:selection-wrong-mixed-taglist" else "C24:filter:selection-wrong")
          s!"sel={sel}"
      else
        let m := (findAll f snaps).map (·.id)
        if m != sel then .differ "sel" s!"model={m} impl={sel}"
        else .agree (!f.empty && !snaps.isEmpty)
          (filterLabels f ++ [if sel.isEmpty then "sel-none" else if sel.length == snaps.length then "sel-all" else "sel-some"])
  | "latest" =>
    let f := parseFilter c true
    match c.find "latest" with
    | none => .differ "protocol" "no-latest-record"
    | some r =>
      let res : Option Nat := if r.getD 1 "none" == "none" then none else (r.getD 1 "").toNat?
      if !specLatest f snaps res then
        .specfalse (match res with | none => "C24:latest:none-although-candidate-exists" | some _ => "C24:latest:not-a-newest-match")
          s!"res={res}"
      else
        let m := findLatest f snaps
        let timeOfId (n : Nat) : Option Int := (snaps.find? (·.id == n)).map (·.time)
        let same := match m, res with
          | none, none => true
          | some s, some n => timeOfId n == some s.time
          | _, _ => false
        if !same then .differ "latest" s!"model={m.map (·.id)} impl={res}"
        else
          let cand := snaps.filter fun sn => specMatches f sn && withinLimit f sn
          let ties : Nat := match m with | some s => (cand.filter (·.time == s.time)).length | none => 0
          let cut := snaps.any fun sn => specMatches f sn && !withinLimit f sn
          .agree m.isSome (filterLabels f ++ [if m.isSome then "found" else "none"] ++
            (if ties > 1 then ["tie"] else []) ++ (if cut then ["limit-excludes"] else []) ++
            (if (parseFilter c false).paths != f.paths then ["path-cleaned"] else []))
  | "ids" =>
    let f := parseFilter c true
    let args := parseArgs c
    match c.find "evs" with
    | none => .differ "protocol" "no-evs-record"
    | some r =>
      let evs := r.toList.drop 1
      let latestRes := findLatest f snaps
      let snapEvs := evs.filterMap fun e => if e.startsWith "snap:" then (e.drop 5).toString.toNat? else none
      -- reported snapshots are named ones or an admissible 'latest'; every named one is reported
      let named := args.filterMap fun a => match a with | .id n false => some n | _ => none
      let okReported := snapEvs.all fun n => named.contains n || (args.contains .latest && specLatest f snaps (some n))
      let okNamed := named.all fun n => snapEvs.contains n
      if !okReported then .specfalse "C24:ids:unnamed-snapshot-selected" s!"evs={evs}"
      else if !okNamed then .specfalse "C24:ids:named-snapshot-missing" s!"evs={evs}"
      else
        let m := (findAllIds f latestRes args).map renderEv
        if m != evs then .differ "evs" s!"model={m} impl={evs}"
        else
          let dupLatest := snapEvs.eraseDups.length != snapEvs.length
          .agree (!snapEvs.isEmpty) ((if args.contains .latest then ["latest"] else []) ++
            (if evs.contains "err:filters" then ["filters-ignored"] else []) ++
            (if evs.contains "err:syntax" then ["syntax"] else []) ++
            (if evs.contains "err:notfound" then ["notfound"] else []) ++
            (if evs.contains "err:nomatch" then ["nomatch"] else []) ++
            (if dupLatest then ["id-then-latest-twice"] else []) ++
            (if named.eraseDups.length != named.length then ["dup-arg"] else []))
  | "group" =>
    let g := parseGroupBy c
    let groups := (c.findAll "grp").toList.map fun r => nats r 1
    if !specGroups g snaps groups then .specfalse (groupSig g snaps groups) s!"groups={groups}"
    else
      let m := (groupSnapshots g snaps).map fun p => p.2.map (·.id)
      if m != groups then .differ "groups" s!"model={m} impl={groups}"
      else
        let permMerge := snaps.any fun a => snaps.any fun b =>
          a.id < b.id && specSameGroup g a b && (g.tag && a.tags != b.tags || g.path && a.paths != b.paths)
        .agree (snaps.length ≥ 2)
          ([s!"gb-{if g.tag then "t" else ""}{if g.host then "h" else ""}{if g.path then "p" else ""}",
            if groups.length ≤ 1 then "groups<=1" else if groups.length == snaps.length then "all-singletons" else "groups-mixed"] ++
           (if permMerge then ["order-insensitive-merge"] else []))
  | "cli" =>
    let f := parseFilter c false
    let g := parseGroupBy c
    match c.find "sel" with
    | none => .differ "protocol" "no-sel-record"
    | some r =>
      let sel := nats r 1
      if !specFindAll f snaps sel then
        .specfalse (if f.tags.any mixedList then "C24:filter:selection-wrong-mixed-taglist" else "C24:filter:selection-wrong")
          s!"sel={sel}"
      else
        let chosen := findAll f snaps
        if chosen.map (·.id) != sel then .differ "sel" s!"model={chosen.map (·.id)} impl={sel}"
        else if (c.find "ngrp").isSome then
          let groups := (c.findAll "grpset").toList.map fun r => nats r 1
          if !specGroups g chosen groups then .specfalse (groupSig g chosen groups) s!"groups={groups}"
          else
            let m := (groupSnapshots g chosen).map fun p => p.2.map (·.id)
            if m != groups then .differ "groups" s!"model={m} impl={groups}"
            else .agree (!sel.isEmpty) (["cli-grouped"] ++ filterLabels f)
        else .agree (!sel.isEmpty) (["cli-flat"] ++ filterLabels f)
  | s => .differ "protocol" s!"unknown-substream-{s}"

end C24

def main : IO Unit := mainLoop C24.handle
