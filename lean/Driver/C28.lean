import Driver.FilterTables
/-!
Driver for C28 (one case = a list of patterns and a list of path strings). Records:
  pat <hex>                               raw pattern strings, in order
  clean <hex body> <hex cleaned>          oracle: filepath.Clean of the pattern without a leading "!"
  prep <i> <neg> (<hex part> <simple>)*   implementation's preparePattern (shim)  | prep <i> panic
  path <hex>                              path strings, in order
  split <j> <hex comp>*                   implementation's splitPath
  glob <hex part> (<hex comp> t|f|e)*     oracle: filepath.Match(part, comp); last pair = part on itself
  mc <i> <j> <Match> <ChildMatch>         t | f | e:str | e:pat | e:other | panic
  valid <0/1>                             ValidatePatterns(all patterns) == nil
  ls <j> <List> <ListWithChild>           t|f|e:… and tt|tf|ft|ff|e:…
-/
open Driver Driver.FT Restic.Model.Filter

def showRes : Res Bool → String
  | .ok true => "t"
  | .ok false => "f"
  | .err .badString => "e:str"
  | .err .badPattern => "e:pat"
  | .panic => "panic"
  | .fuel => "fuel"

def showB (b : Bool) : String := if b then "t" else "f"


/-- is `a` a proper prefix of `b`? returns the extension -/
def extOf (a b : List Str) : Option (List Str) :=
  if a.length < b.length && b.take a.length == a then some (b.drop a.length) else none

def handleC28 (c : Case) : Verdict := Id.run do
  let pats : List Str := (c.findAll "pat").toList.map fun r => strOf (r.getD 1 "-")
  let paths : List Str := (c.findAll "path").toList.map fun r => strOf (r.getD 1 "-")
  let tabs : Tables := tablesOf c
  let glob := tabs.globF
  let clean := tabs.cleanF
  -- oracle laws (validated on every table): G1, G2, G3
  if let some v := tabs.lawViolation then return .differ "oracle-law" v
  -- prepared patterns: model vs implementation
  let mut prepared : Array (Option Pattern) := #[]
  let mut idx := 0
  let mut labels : List String := [c.stream]
  for p in pats do
    let rec? := (c.findAll "prep").find? fun r => r.getD 1 "" == toString idx
    if p.isEmpty then
      prepared := prepared.push none
    else
      let body := if p.head? == some '!' then p.drop 1 else p
      if !(tabs.clean.any (·.1 == body)) then return .differ "oracle" "missing-clean-entry"
      match preparePattern clean p, rec? with
      | .ok mp, some r =>
        if r.getD 2 "" == "panic" then return .specfalse "C28:panic:preparePattern" (showStr p)
        let rec parts : List String → List Part
          | t :: s :: rest => ⟨strOf t, s == "1"⟩ :: parts rest
          | _ => []
        let ip : Pattern := ⟨parts (r.toList.drop 3), r.getD 2 "0" == "1"⟩
        if ip != mp then return .differ "preparePattern" s!"pattern {showStr p} model={repr mp} impl={repr ip}"
        prepared := prepared.push (some mp)
        let ndw := countDW mp.parts
        labels := labels ++ [if mp.parts.head?.map (·.pat) == some slash then "pat-abs" else "pat-rel",
          s!"ndw{min ndw 3}", s!"nparts{min mp.parts.length 5}"] ++ (if mp.negated then ["neg"] else []) ++
          (if mp.parts.any (fun q => !q.simple && q.pat != [] && (glob q.pat q.pat).isNone) then ["malformed"] else []) ++
          (if mp.parts.any (fun q => q.pat.any (· == '[')) then ["class"] else []) ++
          (if mp.parts.any (fun q => q.pat.any (· == '\\')) then ["escape"] else [])
      | _, _ => return .differ "preparePattern" s!"model failed or no prep record for {showStr p}"
    idx := idx + 1
  -- paths
  let mut comps : Array (List Str) := #[]
  idx := 0
  for s in paths do
    let mc := splitPath s
    match (c.findAll "split").find? fun r => r.getD 1 "" == toString idx with
    | some r =>
      let ic := (r.toList.drop 2).map strOf
      if ic != mc then return .differ "splitPath" s!"{showStr s}"
    | none => return .differ "protocol" "no-split-record"
    comps := comps.push mc
    idx := idx + 1
  -- glob table complete?
  for op in prepared do
    if let some p := op then
      for q in p.parts do
        for cs in comps do
          for cc in cs do
            if !q.simple && q.pat != [] && !tabs.hasGlob q.pat cc then return .differ "oracle" "missing-glob-entry"
  for cs in comps do
    for cc in cs do
      if !tabs.hasGlob ['*'] cc then return .differ "oracle" "missing-glob-entry-star"
  -- Match / ChildMatch
  let mut sawT := false
  let mut sawF := false
  let mut specErr : Option (String × String) := none
  let mut differ : Option (String × String) := none
  let mcRecs := c.findAll "mc"
  let look (i j : Nat) : Option (String × String) :=
    (mcRecs.find? fun r => r.getD 1 "" == toString i && r.getD 2 "" == toString j).map fun r => (r.getD 3 "", r.getD 4 "")
  let npat := pats.length
  let npath := paths.length
  for i in [0:npat] do
    let p := pats.getD i []
    for j in [0:npath] do
      let s := paths.getD j []
      match look i j with
      | none => return .differ "protocol" s!"no-mc-record {i} {j}"
      | some (im, ic) =>
        let mm := showRes (Match clean glob p s)
        let mcm := showRes (ChildMatch clean glob p s)
        if im == "panic" || ic == "panic" then
          specErr := specErr <|> some ("C28:panic:match", s!"pattern={showStr p} path={showStr s}")
        else
          if (im != mm || ic != mcm) && differ.isNone then
            differ := some ("match", s!"pattern={showStr p} path={showStr s} model={mm},{mcm} impl={im},{ic}")
          if im == "t" then sawT := true
          if im == "f" then sawF := true
          -- spec on the implementation's own answers
          if p.isEmpty then
            if im != "t" || ic != "t" then specErr := specErr <|> some ("C28:match:empty-pattern-must-match", showStr s)
          else if s.isEmpty then
            if im != "e:str" || ic != "e:str" then specErr := specErr <|> some ("C28:match:empty-path-not-rejected", showStr p)
          else if let some (some pp) := prepared[i]? then
            let cs := comps.getD j []
            let spec := specMatch glob pp.parts cs
            let clean_ := noErrOn glob pp.parts cs
            if im == "t" || im == "f" then
              if (im == "t") != spec then
                let sig := if spec && countDW pp.parts ≥ 2 then "C28:match:multi-doublewildcard-short-path"
                  else if spec then "C28:match:false-negative" else "C28:match:false-positive"
                specErr := specErr <|> some (sig, s!"pattern={showStr p} path={showStr s} impl={im} spec={showB spec}")
            else if im == "e:pat" then
              if clean_ then specErr := specErr <|> some ("C28:match:spurious-error", s!"pattern={showStr p} path={showStr s}")
            else specErr := specErr <|> some ("C28:match:unexpected-error-kind", s!"pattern={showStr p} path={showStr s} impl={im}")
  -- closure properties on the implementation's answers: path j2 = path j ++ ext
  for i in [0:npat] do
    if let some (some pp) := prepared[i]? then
      for j in [0:npath] do
        for j2 in [0:npath] do
          let a := comps.getD j []
          let b := comps.getD j2 []
          if (paths.getD j []).isEmpty || (paths.getD j2 []).isEmpty then continue
          if let some ext := extOf a b then
            match look i j, look i j2 with
            | some (m1, c1), some (m2, _) =>
              if m1 == "t" && m2 == "f" then
                specErr := specErr <|> some ("C28:upward:directory-match-does-not-cover-contents",
                  s!"pattern={showStr (pats.getD i [])} dir={showStr (paths.getD j [])} below={showStr (paths.getD j2 [])}")
              if m2 == "t" && c1 == "f" then
                specErr := specErr <|> some ("C28:child:children-may-match-false-but-descendant-matches",
                  s!"pattern={showStr (pats.getD i [])} dir={showStr (paths.getD j [])} below={showStr (paths.getD j2 [])}")
              if (m1 == "t" || m1 == "f") && (m2 == "t" || m2 == "f") && (c1 == "t" || c1 == "f") then
                if !specOK glob pp.parts a ext (m1 == "t") (m2 == "t") (c1 == "t") then
                  specErr := specErr <|> some ("C28:specOK", s!"pattern={showStr (pats.getD i [])} dir={showStr (paths.getD j [])} below={showStr (paths.getD j2 [])}")
            | _, _ => pure ()
  -- List / ListWithChild
  let parsed := parsePatterns clean pats
  let lsRecs := c.findAll "ls"
  let lookL (j : Nat) : Option (String × String) :=
    (lsRecs.find? fun r => r.getD 1 "" == toString j).map fun r => (r.getD 2 "", r.getD 3 "")
  if (c.find "parse").isSome then
    specErr := specErr <|> some ("C28:panic:ParsePatterns", "")
  match parsed with
  | .ok ps =>
    let allValid := ps.all (validPattern glob)
    if let some v := c.find "valid" then
      if (v.getD 1 "" == "1") != allValid && differ.isNone then
        differ := some ("ValidatePatterns", s!"model={allValid} impl={v.getD 1 ""}")
    if ps.any (·.negated) then labels := labels ++ ["list-neg"]
    labels := labels ++ [s!"npats{min ps.length 4}"]
    for j in [0:npath] do
      let s := paths.getD j []
      match lookL j with
      | none => if (c.find "parse").isNone then return .differ "protocol" s!"no-ls-record {j}"
      | some (il, ilc) =>
        if il == "panic" || ilc == "panic" then
          specErr := specErr <|> some ("C28:panic:list", s!"path={showStr s}")
          continue
        let ml := match list glob ps false s with
          | .ok (m, _) => showB m
          | .err .badString => "e:str"
          | .err .badPattern => "e:pat"
          | .panic => "panic"
          | .fuel => "fuel"
        let mlc := match list glob ps true s with
          | .ok (m, ch) => showB m ++ showB ch
          | .err .badString => "e:str"
          | .err .badPattern => "e:pat"
          | .panic => "panic"
          | .fuel => "fuel"
        if (il != ml || ilc != mlc) && differ.isNone then
          differ := some ("list", s!"path={showStr s} model={ml},{mlc} impl={il},{ilc}")
        -- spec: for validated patterns the answer is the documented fold
        if allValid && !ps.isEmpty && !s.isEmpty then
          let spec := specList glob ps (comps.getD j [])
          if il != showB spec then
            specErr := specErr <|> some ("C28:list:wrong-answer", s!"path={showStr s} impl={il} spec={showB spec}")
          if ilc.length == 2 && ilc.take 1 != il then
            specErr := specErr <|> some ("C28:list:List-and-ListWithChild-disagree", s!"path={showStr s}")
    -- soundness of the children-may-match answer of the list
    if allValid then
      for j in [0:npath] do
        for j2 in [0:npath] do
          if (paths.getD j []).isEmpty || (paths.getD j2 []).isEmpty then continue
          if (extOf (comps.getD j []) (comps.getD j2 [])).isSome then
            match lookL j, lookL j2 with
            | some (_, lc1), some (l2, _) =>
              if l2 == "t" && (lc1 == "tf" || lc1 == "ff") then
                specErr := specErr <|> some ("C28:list:children-may-match-false-but-descendant-matches",
                  s!"dir={showStr (paths.getD j [])} below={showStr (paths.getD j2 [])}")
            | _, _ => pure ()
  | _ => if differ.isNone then differ := some ("ParsePatterns", "model failed")
  match specErr, differ with
  | some (sig, d), _ => return .specfalse sig d
  | none, some (f, d) => return .differ f d
  | none, none =>
    labels := labels ++ (if sawT then ["match-t"] else []) ++ (if sawF then ["match-f"] else [])
    return .agree (sawT && sawF) labels.eraseDups

def main : IO Unit := mainLoop handleC28
