import Driver.Common
import Restic.Model.CheckSubset
import Restic.Gen.Consts
/-!
Driver for C52 (`check --read-data-subset`). Record formats: see harness/main/c52.go.
-/
open Driver Restic.Model.CheckSubset Restic.Model.Strconv

def parsePack (tok : String) : Option Pack :=
  match tok.splitOn ":" with
  | [h, s] => do
    let id ← unhex h
    let sz ← s.toInt?
    some { id := id, size := sz }
  | _ => none

def packsOf (c : Case) : Option (List Pack) :=
  match c.find "packs" with
  | none => none
  | some r => (r.toList.drop 1).mapM parsePack

/-- index tokens → packs; `none` when a token is not a valid index (e.g. "foreign") -/
def byIdx (packs : Array Pack) (toks : List String) : Option (List Pack) :=
  toks.mapM fun t => do
    let i ← t.toNat?
    packs[i]?

inductive Impl where
  | sel (l : List Pack)
  | panic
  | foreign       -- selection contained something that is not a pack of the repository
deriving BEq

def implOfOut (packs : Array Pack) (r : Array String) (from_ : Nat) : Impl :=
  match byIdx packs (r.toList.drop from_) with
  | some l => .sel l
  | none => .foreign

def outEq (m : Out (List Pack)) (i : Impl) : Bool :=
  match m, i with
  | .ok l, .sel l' => l == l'
  | .panic, .panic => true
  | _, _ => false

def showOut (m : Out (List Pack)) : String :=
  match m with | .ok l => s!"ok#{l.length}" | .panic => "panic"
def showImpl (i : Impl) : String :=
  match i with | .sel l => s!"ok#{l.length}" | .panic => "panic" | .foreign => "foreign"

/-! bucket stream -/

def handleBucket (c : Case) (packs : List Pack) : Verdict := Id.run do
  let pa := packs.toArray
  let T := ((c.find "full").bind fun r => (r.getD 1 "").toNat?).getD 0
  -- table of the implementation's selections, index t*(T+1)+n for t,n ≤ T; others in `rest`
  let mut tab : Array (Option Impl) := Array.replicate ((T + 1) * (T + 1)) none
  let mut rest : List ((Nat × Nat) × Impl) := []
  for r in c.recs do
    let key := r.getD 0 ""
    if key == "sel" || key == "pan" then
      match (r.getD 1 "").toNat?, (r.getD 2 "").toNat? with
      | some t, some n =>
        let v := if key == "pan" then Impl.panic else implOfOut pa r 3
        if t ≤ T && n ≤ T then tab := tab.set! (t * (T + 1) + n) (some v)
        else rest := ((t, n), v) :: rest
      | _, _ => return .differ "protocol" "bad-sel-record"
  let implAt (t n : Nat) : Impl :=
    if t ≤ T && n ≤ T then (tab[t * (T + 1) + n]!).getD (.sel [])
    else match rest.lookup (t, n) with | some v => v | none => .sel []
  -- 1. the property predicate on the implementation's own selections, for every t
  for t in [1:T+1] do
    let selF (n : Nat) : List Pack := match implAt t n with | .sel l => l | _ => []
    let bad := (List.range t).any fun i => match implAt t (i + 1) with | .sel _ => false | _ => true
    if bad then
      return .specfalse "C52:bucket:accepted-pair-panics-or-selects-foreign-pack" s!"t={t}"
    if !specBuckets packs t selF then
      let uncovered := packs.any fun p => !((List.range t).any fun i => (selF (i + 1)).contains p)
      let sig := if uncovered then "C52:bucket:pack-in-no-bucket" else "C52:bucket:pack-in-several-buckets-or-foreign"
      return .specfalse sig s!"t={t} packs={packs.length}"
  -- 2. model vs implementation, every (t, n)
  let mut nonEmptyBuckets := 0
  let mut maxBucket := 0
  for t in [1:T+1] do
    for n in [1:t+1] do
      let m := selectPacksByBucket packs n t
      let i := implAt t n
      if !outEq m i then
        return .differ "bucket" s!"t={t} n={n} model={showOut m} impl={showImpl i}"
      match i with
      | .sel l => if !l.isEmpty then
          nonEmptyBuckets := nonEmptyBuckets + 1
          if l.length > maxBucket then maxBucket := l.length
      | _ => pure ()
  -- pairs outside the accepted range: correspondence only
  let mut extraPanics := 0
  for r in c.findAll "extra" do
    match (r.getD 1 "").toNat?, (r.getD 2 "").toNat? with
    | some t, some n =>
      let m := selectPacksByBucket packs n t
      let i := implAt t n
      if !outEq m i then return .differ "bucket-extra" s!"t={t} n={n} model={showOut m} impl={showImpl i}"
      if m == .panic then extraPanics := extraPanics + 1
    | _, _ => return .differ "protocol" "bad-extra-record"
  let firstBytes := (packs.map firstByte).eraseDups.length
  let labels := ["bucket",
    (if packs.isEmpty then "packs0" else if packs.length < 8 then "packs1-7" else if packs.length < 25 then "packs8-24" else "packs25+"),
    (if firstBytes ≤ 1 then "fb<=1" else if firstBytes < 8 then "fb2-7" else "fb8+")] ++
    (if extraPanics > 0 then ["t0-panics"] else []) ++
    (if maxBucket * 2 > packs.length && packs.length ≥ 4 then ["skewed"] else [])
  return .agree (!packs.isEmpty) labels

/-! random subsets -/

def handleSubset (c : Case) (packs : List Pack) (k : Int) (accepted : Bool) (viaSize : Option (Int × Int)) : Verdict :=
  let pa := packs.toArray
  match c.find "out" with
  | none => .differ "protocol" "no-out-record"
  | some r =>
    let impl : Impl := if r.getD 1 "" == "panic" then .panic else implOfOut pa r 2
    let n := packs.length
    let model := match viaSize with
      | none => selectRandomByK packs (List.range n) k
      | some (sub, _) => selectBySize packs (List.range n) sub (fun _ _ => k)
    let pre := if viaSize.isSome then "C52:size" else "C52:pct"
    -- property predicate on the implementation's output, for accepted flag values
    if accepted then
      match impl with
      | .panic => .specfalse s!"{pre}:accepted-value-panics" s!"packs={n} k={k}"
      | .foreign => .specfalse s!"{pre}:selection-not-subset-of-packs" s!"packs={n} k={k}"
      | .sel l =>
        if !specSubset packs l then
          let sig := if l.isEmpty then s!"{pre}:no-pack-selected" else s!"{pre}:selection-not-subset-of-packs"
          .specfalse sig s!"packs={n} k={k} selected={l.length}"
        else
          match model with
          | .panic => .differ "subset" s!"model=panic impl=ok#{l.length} packs={n} k={k}"
          | .ok ml =>
            if ml.length != l.length then .differ "subset-size" s!"model={ml.length} impl={l.length} packs={n} k={k}"
            else
              let labels := [c.stream, (if n == 0 then "packs0" else "packs+"),
                (if k < 1 then "clamped-to-1" else if k == n then "all" else "some")] ++
                (match viaSize with | some (sub, repo) => (if sub > repo then ["size>repo"] else []) ++ (if repo == 0 then ["repo-size0"] else []) | none => [])
              .agree (n > 0) labels
    else
      -- outside the accepted range: correspondence of panic / size only
      match model, impl with
      | .panic, .panic => .agree false [c.stream, "rejected-value", "index-panic"]
      | .ok ml, .sel l =>
        if ml.length != l.length then .differ "subset-size" s!"model={ml.length} impl={l.length} packs={n} k={k}"
        else .agree false [c.stream, "rejected-value"]
      | m, i => .differ "subset" s!"model={showOut m} impl={showImpl i} packs={n} k={k}"

/-! flags -/

def handleFlags (c : Case) (packs : List Pack) : Verdict :=
  match (c.find "flag").bind (fun r => unhex (r.getD 1 "-")), c.find "res" with
  | some s, some r =>
    let res := r.getD 1 ""
    if res == "panic" then .specfalse "C52:flags:panic" s!"flag={hex s}" else
    if res == "other" then .differ "flags" s!"unclassified {r.getD 2 "-"} flag={hex s}" else
    let M := Restic.Gen.check_totalBucketsMax
    let model := checkFlagsNT M s
    let via := if (c.find "via").isSome then ["via-cli"] else []
    -- property predicate on the implementation's verdict: an accepted n/t lies in 1 ≤ n ≤ t ≤ max
    let parsed := stringToIntSlice s
    let specBad := match parsed with
      | .ok [n, t] => res == "accept" && !(1 ≤ n && n ≤ t && t ≤ M)
      | _ => false
    if specBad then .specfalse "C52:flags:accepted-outside-range" s!"flag={hex s}" else
    let expect : List String := match model with
      | .accept _ _ => ["accept"]
      | .invalidValue => ["invalid"]
      | .badRange => ["badrange"]
      | .tTooLarge => ["toolarge"]
      | .notIntSlice => ["accept", "invalid", "pctrange", "sizerange"]
    if !expect.contains res then .differ "flags" s!"flag={hex s} model={repr model} impl={res}" else
    match model, c.find "out" with
    | .accept n t, some o =>
      let impl : Impl := if o.getD 1 "" == "panic" then .panic else implOfOut packs.toArray o 2
      let m := selectPacksByBucket packs n t
      if !outEq m impl then
        match impl with
        | .panic => .specfalse "C52:flags:accepted-value-panics" s!"flag={hex s}"
        | _ => .differ "flags-filter" s!"flag={hex s} model={showOut m} impl={showImpl impl}"
      else .agree true (["flags", "nt-accepted", "filter-applied"] ++ via)
    | .accept _ _, none => .agree true (["flags", "nt-accepted"] ++ via)
    | .notIntSlice, _ => .agree false (["flags", "not-nt:" ++ res] ++ via)
    | m, _ => .agree false (["flags", "nt-rejected:" ++ (match m with | .invalidValue => "invalid" | .badRange => "badrange" | .tTooLarge => "toolarge" | _ => "?")] ++ via)
  | _, _ => .differ "protocol" "missing-flag-or-res"

/-! cli -/

def handleCli (c : Case) (packs : List Pack) : Verdict := Id.run do
  let recs := c.findAll "cnt"
  if recs.isEmpty then return .differ "protocol" "no-cnt-records"
  let mut tSeen := 0
  let mut sum := 0
  let mut cntN := 0
  let mut firstDiffer : Option Verdict := none
  for r in recs do
    match (r.getD 1 "").toNat?, (r.getD 2 "").toNat?, (r.getD 3 "").toNat?, (r.getD 4 "").toNat? with
    | some t, some n, some cnt, some total =>
      tSeen := t
      let m := match selectPacksByBucket packs n t with | .ok l => l.length | .panic => 0
      if firstDiffer.isNone then
        if total != packs.length then firstDiffer := some (.differ "cli-total" s!"t={t} n={n} total={total} packs-in-backend={packs.length}")
        else if m != cnt then firstDiffer := some (.differ "cli-count" s!"t={t} n={n} model={m} impl={cnt}")
      sum := sum + cnt
      cntN := cntN + 1
    | _, _, _, _ => return .differ "cli" s!"unparsable check output {r.getD 4 "-"}"
  -- when every n of t was run: the counts must add up to the number of packs (partition)
  if cntN == tSeen && sum != packs.length then
    return .specfalse "C52:cli:bucket-counts-do-not-add-up" s!"t={tSeen} sum={sum} packs={packs.length}"
  if let some v := firstDiffer then return v
  return .agree (!packs.isEmpty) ["cli", if cntN == tSeen then "all-n" else "sampled-n"]

def handleC52 (c : Case) : Verdict :=
  match packsOf c with
  | none => .differ "protocol" "bad-packs-record"
  | some packs =>
    if c.stream == "bucket" then handleBucket c packs
    else if c.stream == "flags" then handleFlags c packs
    else if c.stream == "cli" then handleCli c packs
    else if c.stream == "pct" then
      match c.find "pct" with
      | some r =>
        match (r.getD 3 "").toInt? with
        | some k => handleSubset c packs k (r.getD 5 "0" == "1") none
        | none => .differ "protocol" "bad-pct-record"
      | none => .differ "protocol" "no-pct-record"
    else if c.stream == "size" then
      match c.find "sub" with
      | some r =>
        match (r.getD 1 "").toInt?, (r.getD 3 "").toInt?, (r.getD 5 "").toInt? with
        | some sub, some repo, some k => handleSubset c packs k true (some (sub, repo))
        | _, _, _ => .differ "protocol" "bad-sub-record"
      | none => .differ "protocol" "no-sub-record"
    else .differ "protocol" s!"unknown-stream {c.stream}"

def main : IO Unit := mainLoop handleC52
