import Driver.Common
import Restic.Model.LocalFS
import Restic.Gen.Source
/-!
Driver for C36. One case = one run of the real `local.Save` in a child process killed at a
system call. Records:
  setup <type> <size> <premk> <prev none|same> <syscall> <when>
  data <size> <sum>                    size and short hash of the data being saved
  name <hex final name>
  trace <event>*                       completed file system calls of the child on the repository:
                                       create create-failed mkdir prealloc:<n> write:<n> fsyncFile close
                                       rename fsyncDir chmod unlinkTmp open-final-for-writing write-final:<n>
  inflight <event>                     call during which the kill arrived (effect unknown); write:any
  status killed|completed|error|killed-before-save|timeout
  file <role final|tmp|other> <hex name> <size> <sum> <real ParseID ok 0/1>
  childfail <hex stderr>               the undisturbed run did not work (reported as differ)

The model is run on a surrogate content of the same length (all bytes 1): the theorems are
parametric in the data, observations are compared by length and "equals the data".
-/
open Driver Restic.Model.LocalFS

namespace C36

def genMain : List Step := mainSteps Restic.Gen.localSave_calls
def genInfix : List Char := (tmpInfixOf Restic.Gen.localSave_literals).getD []

def isDigitC (c : Char) : Bool := '0' ≤ c && c ≤ '9'

/-- `name` = final ++ regenerated infix ++ decimal digits -/
def isTempNameOf (final name : List Char) : Bool :=
  let pre := final ++ genInfix
  name.take pre.length == pre && (name.drop pre.length).all isDigitC && name.length > pre.length

structure Obs where
  tmp : Option (Nat × Bool)      -- size, content equals the data
  fin : Option (Nat × Bool)
deriving BEq, Repr

def obsOfView (data : Bytes) (prev : Option Bytes) (v : View) : Obs :=
  let f (o : Option Bytes) : Option (Nat × Bool) := o.map fun c => (c.length, c == data)
  { tmp := f v.tmpC, fin := f (finalContent prev v) }

/-- parse the trace into model events; returns events and kinds -/
def parseEvents (data : Bytes) (toks : List String) : Option (List Ev) :=
  let rec go (toks : List String) (off : Nat) (acc : List Ev) : Option (List Ev) :=
    match toks with
    | [] => some acc.reverse
    | t :: rest =>
      match t.splitOn ":" with
      | ["create"] => go rest 0 (.create :: acc)
      | ["create-failed"] => go rest off acc
      | ["mkdir"] => go rest off (.mkdir :: acc)
      | ["prealloc", n] => go rest off (.prealloc n.toNat! :: acc)
      | ["write", n] => go rest (off + n.toNat!) (.write ((data.drop off).take n.toNat!) :: acc)
      | ["fsyncFile"] => go rest off (.fsyncFile :: acc)
      | ["close"] => go rest off (.close :: acc)
      | ["rename"] => go rest off (.rename :: acc)
      | ["fsyncDir"] => go rest off (.fsyncDir :: acc)
      | ["chmod"] => go rest off (.chmod :: acc)
      | ["unlinkTmp"] => go rest off (.unlinkTmp :: acc)
      | _ => none
  go toks 0 []

def kindOf : Ev → String
  | .mkdir => "mkdir" | .create => "create" | .prealloc _ => "prealloc" | .write _ => "write"
  | .fsyncFile => "fsyncFile" | .close => "close" | .rename => "rename" | .fsyncDir => "fsyncDir"
  | .chmod => "chmod" | .unlinkTmp => "unlinkTmp"

def stepKind : Step → String
  | .mkdir => "mkdir" | .create => "create" | .prealloc => "prealloc" | .write => "write" | .writePartial => "write"
  | .fsyncFile => "fsyncFile" | .close => "close" | .rename => "rename" | .fsyncDir => "fsyncDir"
  | .chmod => "chmod" | .unlinkTmp => "unlinkTmp"

def dedupAdj : List String → List String
  | a :: b :: rest => if a == b then dedupAdj (b :: rest) else a :: dedupAdj (b :: rest)
  | l => l

/-- kinds of a trace / of the expected main path, without the optional parts (mkdir, prealloc;
    no write at all for empty data; several write calls count as one) -/
def normKinds (size : Nat) (ks : List String) : List String :=
  dedupAdj (ks.filter fun k => k != "mkdir" && k != "prealloc" && !(size == 0 && k == "write"))

/-- power-loss semantics evaluated along the implementation's own call sequence: first prefix
    (by its last event) at which some crash choice shows neither the previous nor the complete
    content under the final name -/
def firstUnsafe (data : Bytes) (prev : Option Bytes) (evs : List Ev) : Option String :=
  let rec go (s : St) (evs : List Ev) (last : String) : Option String :=
    let bad := (List.range (s.pending.length + 1)).any fun k => !specOK prev data (crashView s k [0xEE])
    if bad then some last else
    match evs with
    | [] => none
    | e :: rest => go (apply s e) rest (kindOf e)
  go {} evs "start"

def handle (c : Case) : Verdict :=
  match c.find "childfail" with
  | some r => .differ "child" s!"undisturbed save failed: {(unhexStr (r.getD 1 "-")).getD "?"}"
  | none =>
  match c.find "setup", c.find "data", c.find "trace", c.find "status" with
  | some su, some da, some tr, some stt =>
    let size := (da.getD 1 "0").toNat!
    let sum := da.getD 2 ""
    let data : Bytes := List.replicate size 1
    let prevSame := su.getD 4 "" == "same"
    let prev : Option Bytes := if prevSame then some data else none
    let status := stt.getD 1 ""
    -- the tracer itself was killed by the harness timeout (overloaded machine): log and state are
    -- unrelated, nothing can be concluded from this run
    if status == "timeout" then .agree false ["harness-timeout"] else
    match parseEvents data (tr.toList.drop 1) with
    | none => .differ "protocol" s!"unparsable trace {tr}"
    | some evs =>
      let files := (c.findAll "file").toList
      let ofRole (role : String) : List (Array String) := files.filter fun f => f.getD 1 "" == role
      let obsOf (f : Array String) : Nat × Bool := ((f.getD 3 "0").toNat!, (f.getD 3 "0").toNat! == size && f.getD 4 "" == sum)
      let obs : Obs := { tmp := (ofRole "tmp").head?.map obsOf, fin := (ofRole "final").head?.map obsOf }
      -- (b) the statement on the implementation's own outputs
      let finalBad : Bool := match obs.fin with
        | some (_, complete) => !complete
        | none => prevSame            -- an existing complete file must not disappear
      let tempListed := files.filter fun f => f.getD 1 "" != "final" && f.getD 5 "" == "1"
      if finalBad then .specfalse "C36:kill:final-name-shows-partial-file" s!"obs={repr obs} size={size} trace={tr}"
      else if (tr.toList.drop 1).any (fun t => t == "open-final-for-writing" || (t.splitOn ":").head! == "write-final") ||
              (match c.find "inflight" with | some r => r.getD 1 "" == "open-final-for-writing" || ((r.getD 1 "").splitOn ":").head! == "write-final" | none => false) then
        -- the final name may only come into being by renaming a complete, fsynced temporary file
        .specfalse "C36:powerloss:final-name-opened-for-writing" s!"type={su.getD 1 ""} trace={tr} inflight={c.find "inflight"}"
      else if !tempListed.isEmpty then
        .specfalse "C36:list:temporary-name-parses-as-id" s!"{(unhexStr ((tempListed.head!).getD 2 "-")).getD "?"}"
      else if (ofRole "tmp").length > 1 then .differ "observation" "more than one temporary file"
      else
      match firstUnsafe data prev evs with
      | some last => .specfalse s!"C36:powerloss:after-{last}:final-name-may-show-unsynced-data" s!"trace={tr}"
      | none =>
        let s := run {} evs
        let durableBad := status == "completed" &&
          (List.range (s.pending.length + 1)).any fun k => finalContent prev (crashView s k [0xEE]) != some data
        if durableBad then .specfalse "C36:powerloss:completed-save-not-durable" s!"trace={tr}"
        else
        -- (a) model vs implementation
        -- names: the model's ParseID on every name agrees with the real one
        let nameDiff := files.find? fun f =>
          parsesAsID ((unhexStr (f.getD 2 "-")).getD "").toList != (f.getD 5 "" == "1")
        if nameDiff.isSome then .differ "parseID" s!"{(unhexStr ((nameDiff.get!).getD 2 "-")).getD "?"}" else
        -- every leftover name that is not the final one is a temporary name built with the infix
        -- regenerated from the source (tie between the `literals` fact and the real names)
        let finalName := ((c.find "name").bind fun r => unhexStr (r.getD 1 "-")).getD ""
        let strange := files.find? fun f => f.getD 1 "" != "final" &&
          !isTempNameOf finalName.toList ((unhexStr (f.getD 2 "-")).getD "").toList
        if strange.isSome then .differ "temp-name" s!"{(unhexStr ((strange.get!).getD 2 "-")).getD "?"} is not <final>{String.ofList genInfix}<digits>" else
        -- the call sequence is a prefix of the step order regenerated from the source
        let want := normKinds size (genMain.map stepKind)
        let got := normKinds size (evs.map kindOf)
        if status != "error" && !(got.isPrefixOf want) then .differ "step-order" s!"trace={got} regenerated={want}" else
        if status == "completed" && got != want then .differ "step-order" s!"completed but trace={got} regenerated={want}" else
        -- the observed directory is the model's state after the completed calls (or after the
        -- call in flight took effect, completely or for a write partially)
        let mv := obsOfView data prev (killView s)
        let okObs : Bool :=
          obs == mv ||
          (match c.find "inflight" with
           | none => false
           | some inf =>
             let t := inf.getD 1 "-"
             if t == "write:any" then
               -- any number of further bytes may have arrived
               (match obs.tmp, mv.tmp with
                | some (n, _), some (m, _) => obs.fin == mv.fin && n ≥ m && n ≤ max m size
                | _, _ => false)
             else match parseEvents data [t] with
               | some [e] => obs == obsOfView data prev (killView (apply s e))
               | _ => false)
        if !okObs then .differ "state" s!"observed={repr obs} model={repr mv} trace={tr} inflight={c.find "inflight"}"
        else
          let last := (evs.getLast?.map kindOf).getD "nothing"
          let szl := if size == 0 then "size-0" else if size < 4096 then "size-small" else if size < 1048576 then "size-medium" else "size-large"
          .agree (evs.length > 0 && status == "killed")
            [s!"after-{last}", szl, s!"type-{su.getD 1 ""}", s!"prev-{su.getD 4 ""}", s!"status-{status}",
             (if (c.find "inflight").isSome then "kill-inside-fs-call" else "kill-between-calls"),
             (if obs.tmp.isSome then "tmp-left-behind" else "no-tmp"),
             (if evs.any (· == .mkdir) then "mkdir-path" else "dir-exists")]
  | _, _, _, _ => .differ "protocol" "missing records"

end C36

def main : IO Unit := mainLoop C36.handle
