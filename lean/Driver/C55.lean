import Driver.Common
import Restic.Model.BackupErr
/-!
Driver for C55 (records: see harness/main/c55.go). The tree with its per-operation faults is
rebuilt from the preorder `item` records; (a) the model `backupCmd` must predict exit status,
snapshot presence, the set of snapshot paths and the multiset of reported items; (b) the executable
statement `specOK` is evaluated on the implementation's exit status and snapshot paths.
-/
open Driver Restic.Model.BackupErr

def parseFault (s : String) : Fault :=
  match s with
  | "ok" => .ok | "enoent" => .enoent | _ => .other

structure Flat where
  depth : Nat
  name : Bytes
  kind : String
  toks : Array String

/-- rebuild the forest of items at depth `d` from a preorder list (fuel = list length) -/
def build : Nat → Nat → List Flat → List Src × List Flat
  | 0, _, l => ([], l)
  | fuel + 1, d, l =>
    match l with
    | [] => ([], [])
    | f :: rest =>
      if f.depth < d then ([], l) else
      if f.kind == "dir" then
        let (kids, rest') := build fuel (d + 1) rest
        let df : DirF := { lstat := parseFault (f.toks.getD 4 "ok"), open_ := parseFault (f.toks.getD 5 "ok"),
                           readdir := parseFault (f.toks.getD 6 "ok"), metaFault := f.toks.getD 7 "0" == "1" }
        let (sibs, rest'') := build fuel d rest'
        (Src.dir f.name df kids :: sibs, rest'')
      else
        let k : LeafKind := if f.kind == "file" then .file else if f.kind == "socket" then .socket else .special
        let lf : LeafF := { lstat := parseFault (f.toks.getD 4 "ok"), open_ := parseFault (f.toks.getD 5 "ok"),
                            fstat := parseFault (f.toks.getD 6 "ok"), typeChanged := f.toks.getD 7 "0" == "1",
                            read := parseFault (f.toks.getD 8 "ok"), metaFault := f.toks.getD 9 "0" == "1" }
        let (sibs, rest') := build fuel d rest
        (Src.leaf f.name k lf :: sibs, rest')

def splitPath55 (bs : List UInt8) : Path :=
  if bs.isEmpty then [] else
  let rec go (cur : List UInt8) (acc : Path) : List UInt8 → Path
    | [] => (cur.reverse :: acc).reverse
    | b :: r => if b == 47 then go [] (cur.reverse :: acc) r else go (b :: cur) acc r
  go [] [] bs

def pathStr (p : Path) : String := hex (p.intersperse [47]).flatten

def sortPaths (l : List Path) : List String := (l.map pathStr).toArray.qsort (· < ·) |>.toList

mutual
def faultLabels : Src → List String
  | .leaf _ k f =>
    (if f.lstat == .enoent then ["vanished-before-lstat"] else []) ++ (if f.lstat == .other then ["lstat-error"] else []) ++
    (if k == .file && f.open_ == .other then ["file-open-denied"] else []) ++ (if k == .file && f.open_ == .enoent then ["file-vanished-before-open"] else []) ++
    (if k == .file && f.fstat != .ok then ["fstat-error"] else []) ++ (if k == .file && f.typeChanged then ["type-changed"] else []) ++
    (if k == .file && f.read != .ok then ["read-error"] else []) ++ (if f.metaFault then ["incomplete-metadata"] else []) ++
    (if k == .socket then ["socket"] else [])
  | .dir _ f cs =>
    (if f.lstat == .enoent then ["dir-vanished"] else []) ++ (if f.lstat == .other then ["dir-lstat-error"] else []) ++
    (if f.open_ != .ok then ["dir-open-error"] else []) ++ (if f.readdir != .ok then ["readdir-error"] else []) ++
    (if f.metaFault then ["dir-incomplete-metadata"] else []) ++ faultLabelsL cs
def faultLabelsL : List Src → List String
  | [] => []
  | c :: cs => faultLabels c ++ faultLabelsL cs
end

def handleC55 (c : Case) : Verdict :=
  if (c.findAll "panic").size > 0 then .specfalse "C55:panic" "backup-panicked" else
  if (c.findAll "hang").size > 0 then .differ "harness" "child-timeout" else
  let flats : List Flat := (c.findAll "item").toList.map fun r =>
    { depth := (r.getD 1 "0").toNat!, name := (unhex (r.getD 2 "-")).getD [], kind := r.getD 3 "file", toks := r }
  match (build (flats.length + 1) 0 flats).1 with
  | [t] =>
    let exit := ((c.find "exit").map fun r => (r.getD 1 "99").toNat!).getD 99
    let snapshot := ((c.find "snapshot").map fun r => r.getD 1 "0" == "1").getD false
    let snaps : List Path := ((c.find "snap").map fun r => (r.toList.drop 1).map fun t => splitPath55 ((unhex t).getD [])).getD []
    let errs : List Path := ((c.find "err").map fun r => (r.toList.drop 1).map fun t => splitPath55 ((unhex t).getD [])).getD []
    let o : Outcome := ⟨exit, snapshot⟩
    if !specOK t o snaps then
      let sig :=
        if !snapshot && !(readItems t).isEmpty then "C55:no-snapshot-although-items-readable"
        else if !snapshot then "C55:no-snapshot-but-exit-0"
        else if (unreadItems t).isEmpty && exit != 0 then "C55:all-items-read-but-exit-nonzero"
        else if !(unreadItems t).isEmpty && exit != 3 then "C55:unread-item-but-exit-not-3"
        else if !(readItems t).all (snaps.contains ·) then "C55:readable-item-missing-from-snapshot"
        else "C55:unreadable-item-in-snapshot"
      .specfalse sig s!"exit={exit} snapshot={snapshot} unread={(unreadItems t).map pathStr} read={(readItems t).map pathStr} snap={snaps.map pathStr}"
    else
      let m := backupCmd (((c.find "target").map fun r => r.getD 1 "abs" == "abs").getD true) t
      if m.1 != o then .differ "outcome" s!"model={repr m.1} impl={repr o}"
      else if snapshot && sortPaths m.2.included != sortPaths snaps then .differ "snapshot-paths" s!"model={sortPaths m.2.included} impl={sortPaths snaps}"
      else if sortPaths m.2.errors != sortPaths errs then .differ "reported-items" s!"model={sortPaths m.2.errors} impl={sortPaths errs}"
      else
        let labels := (if (c.findAll "parent").size > 0 then ["with-parent-snapshot"] else []) ++
          (if (c.findAll "duptarget").size > 0 then ["duplicate-target"] else []) ++ (faultLabels t).eraseDups ++ [s!"exit{exit}", c.stream, "target-" ++ ((c.find "target").map fun r => r.getD 1 "abs").getD "abs"] ++ (if (faultLabels t).isEmpty then ["no-fault"] else [])
        .agree (!m.2.errors.isEmpty || !(faultLabels t).isEmpty) labels
  | _ => .differ "protocol" "tree-not-rebuilt"

def main : IO Unit := mainLoop handleC55
