import Driver.Common
import Restic.Model.Index
/-!
Driver for C08. Sub-streams:

`hist` — history of index files in a real repository, incremental `LoadIndex` on one long-lived
repository object, compared with the model, with the specification (the files currently present)
and with a fresh repository object:
  file <fid> / fpack <fid> <pack> <t:id:off:len:ulen>* / bad <fid> / del <fid> / pending <h> <size>
  load ok|err       then lookup <h> <pb>* / size <h> <n|-> / list <pb>*      (pb = pack:t:id:off:len:ulen)
  fresh ok|err      then flookup / fsize / flist
`codec` — store <pack> <blob>* ; orig <pb>* ; encode ok ; epack <pack> <blob>* ; decode ok ; decoded <pb>*
`malformed` — doc decodable|undecodable ; fpack - <pack> <blob>* ; decode ok|err|panic ; decoded <pb>*
-/
open Driver Restic.Model.IndexMap Restic.Model.Index

namespace C08

def parseID (s : String) : ID := (unhex s).getD []
def parseType (s : String) : BlobType := if s == "t" then .tree else .data

def parseHandle (s : String) : Handle :=
  match s.splitOn ":" with
  | [t, i] => ⟨parseType t, parseID i⟩
  | _ => ⟨.data, []⟩

def parseBlob (s : String) : Option Blob :=
  match s.splitOn ":" with
  | [t, i, o, l, u] =>
    match o.toNat?, l.toNat?, u.toNat? with
    | some o, some l, some u => some ⟨parseType t, parseID i, o, l, u⟩
    | _, _, _ => none
  | _ => none

def parsePB (s : String) : Option PackedBlob :=
  match s.splitOn ":" with
  | [p, t, i, o, l, u] =>
    match o.toNat?, l.toNat?, u.toNat? with
    | some o, some l, some u => some ⟨parseID p, ⟨parseType t, parseID i, o, l, u⟩⟩
    | _, _, _ => none
  | _ => none

def parsePBs (r : Array String) (from_ : Nat) : List PackedBlob := (r.toList.drop from_).filterMap parsePB
def parseBlobs (r : Array String) (from_ : Nat) : List Blob := (r.toList.drop from_).filterMap parseBlob

def showHandle (h : Handle) : String := (if h.type == .tree then "t:" else "d:") ++ hex h.id
def showPB (pb : PackedBlob) : String :=
  s!"{hex pb.pack}:{showHandle pb.handle}:{pb.blob.offset}:{pb.blob.length}:{pb.blob.ulen}"
def showPBs (l : List PackedBlob) : String := "[" ++ ",".intercalate (l.map showPB) ++ "]"

def outTag {α} : Out α → String
  | .ok _ => "ok" | .err _ => "err" | .panic _ => "panic"

structure St where
  files : List (ID × Option IndexFile) := []
  mi : MasterIndex := MasterIndex.new
  fresh : MasterIndex := MasterIndex.new
  idx : Index := Index.new                -- codec: index under construction
  orig : List PackedBlob := []
  doc : Option IndexFile := none          -- malformed: decodable document
  epacks : IndexFile := []
  labels : List String := []
  verdict : Option Verdict := none   -- first spec-false (ends the case)
  differ : Option Verdict := none    -- first model/implementation difference (the case goes on: a spec-false later on wins)
  nloads : Nat := 0
  nlookupMulti : Nat := 0

def St.fail (s : St) (v : Verdict) : St :=
  match v with
  | .differ _ _ => if s.differ.isSome then s else { s with differ := some v }
  | _ => if s.verdict.isSome then s else { s with verdict := some v }
def St.label (s : St) (l : String) : St := if s.labels.contains l then s else { s with labels := l :: s.labels }

def St.good (s : St) : List (ID × IndexFile) := s.files.filterMap fun f => f.2.map fun c => (f.1, c)

def addPack (files : List (ID × Option IndexFile)) (fid : ID) (p : ID × List Blob) : List (ID × Option IndexFile) :=
  files.map fun f => if f.1 == fid then (f.1, f.2.map (· ++ [p])) else f

/-- compare two pack lists as sets of packs, each pack a multiset of blobs -/
def samePackList (a b : IndexFile) : Bool :=
  a.length == b.length &&
  a.all (fun p => b.any fun q => p.1 == q.1 && p.2.isPerm q.2) &&
  b.all (fun q => a.any fun p => p.1 == q.1 && p.2.isPerm q.2)

def observe (s : St) (which : String) (mi : MasterIndex) (key : String) (r : Array String) : St :=
  let files := s.good
  if key == "lookup" then
    let h := parseHandle (r.getD 1 "")
    let out := parsePBs r 2
    let want := (allEntries files).filter fun pb => pb.handle == h
    if !specLookup files h out then
      let sig := if want.any (fun pb => !out.contains pb) then s!"C08:{which}:lookup-misses-recorded-location"
                 else s!"C08:{which}:lookup-returns-unrecorded-location"
      s.fail (.specfalse sig s!"h={showHandle h} recorded={showPBs want.eraseDups} got={showPBs out}")
    else match mi.lookup h with
      | .ok l =>
        if !sameSet l out then s.fail (.differ s!"{which}-lookup" s!"h={showHandle h} model={showPBs l} impl={showPBs out}")
        else
          let s := if out.eraseDups.length ≥ 2 then { s.label "blob-in-several-packs" with nlookupMulti := s.nlookupMulti + 1 } else s
          let s := if want.length > want.eraseDups.length then s.label "exact-duplicate-entries" else s
          if out.isEmpty then s.label "lookup-absent" else s
      | e => s.fail (.differ s!"{which}-lookup" ("model=" ++ outTag e))
  else if key == "size" then
    let h := parseHandle (r.getD 1 "")
    let out : Option Nat := if r.getD 2 "-" == "-" then none else (r.getD 2 "").toNat?
    if !specLookupSize files h out then
      let sig := if out.isNone then s!"C08:{which}:size-of-recorded-blob-not-found"
                 else s!"C08:{which}:size-not-from-a-recorded-entry"
      s.fail (.specfalse sig s!"h={showHandle h} got={out}")
    else
      let cands := mi.lookupSizeCandidates h
      match out with
      | none => if cands.isEmpty then s else s.fail (.differ s!"{which}-size" (showHandle h))
      | some n =>
        if !cands.contains n then s.fail (.differ s!"{which}-size" s!"h={showHandle h} model={cands} impl={n}")
        else if n ≥ 2 ^ 63 then s.label "size-wrapped-below-crypto-overhead" else s
  else if key == "list" then
    let out := parsePBs r 1
    if !specList files out then
      let sig := if (allEntries files).any (fun pb => !out.contains pb) then s!"C08:{which}:list-misses-recorded-entry"
                 else s!"C08:{which}:list-returns-unrecorded-entry"
      s.fail (.specfalse sig s!"recorded={(allEntries files).eraseDups.length} got={out.length}")
    else match mi.values with
      | .ok l => if sameSet l out then s else s.fail (.differ s!"{which}-list" s!"model={l.length} impl={out.length}")
      | e => s.fail (.differ s!"{which}-list" ("model=" ++ outTag e))
  else s

def stepRec (s : St) (r : Array String) : St :=
  if s.verdict.isSome then s else
  let key := r.getD 0 ""
  if key == "profile" then s.label (r.getD 1 "?")
  else if key == "panic" then s.fail (.specfalse "C08:panic" ((unhexStr (r.getD 1 "-")).getD "?" |>.replace " " "_"))
  -- history
  else if key == "file" then { s with files := s.files ++ [(parseID (r.getD 1 "-"), some [])] }
  else if key == "fpack" && r.getD 1 "-" != "-" then
    { s with files := addPack s.files (parseID (r.getD 1 "-")) (parseID (r.getD 2 "-"), parseBlobs r 3) }
  else if key == "bad" then ({ s with files := s.files ++ [(parseID (r.getD 1 "-"), none)] }).label "undecodable-file"
  else if key == "del" then ({ s with files := s.files.filter fun f => f.1 != parseID (r.getD 1 "-") }).label "file-removed"
  else if key == "pending" then
    -- an aborted upload: SaveBlob announced the blob with AddPending, its pack never reached the index
    let h := parseHandle (r.getD 1 "")
    ({ s with mi := (s.mi.addPending h ((r.getD 2 "0").toNat?.getD 0)).1 }).label "pending-blob-of-aborted-upload"
  else if key == "load" then
    let cleared := s.mi.first.ids.any fun id => !(s.files.map (·.1)).contains id
    let s := if cleared then s.label "reload-clears-index" else if !s.mi.first.ids.isEmpty then s.label "reload-incremental" else s
    match s.mi.load s.files, r.getD 1 "" with
    | .ok mi, "ok" => { s with mi := mi, nloads := s.nloads + 1 }
    | .err _, "err" =>
      -- the failed load leaves the files delivered before the failure inserted but not merged
      -- (which ones depends on the schedule); later loads are insensitive to that choice
      let pre := match s.mi.prepareIncrementalLoad (s.files.map (·.1)) with | .ok p => p | _ => (s.mi, [])
      let mi := s.good.foldl (fun mi f =>
        if pre.2.contains f.1 then mi else
        match decodeIndex f.2 f.1 with | .ok i => mi.insert i | _ => mi) pre.1
      ({ s with mi := mi }).label "load-failed"
    | m, i => s.fail (.differ "load-outcome" s!"model={outTag m} impl={i}")
  else if key == "fresh" then
    match MasterIndex.new.load s.files, r.getD 1 "" with
    | .ok mi, "ok" => { s with fresh := mi }
    | .err _, "err" => s
    | m, i => s.fail (.differ "fresh-load-outcome" s!"model={outTag m} impl={i}")
  else if key == "lookup" || key == "size" || key == "list" then observe s "reload" s.mi key r
  else if key == "flookup" || key == "fsize" || key == "flist" then observe s "fresh-load" s.fresh (key.drop 1).toString r
  -- codec
  else if key == "store" then
    match s.idx.storePack (parseID (r.getD 1 "-")) (parseBlobs r 2) with
    | .ok i => { s with idx := i }
    | e => s.fail (.differ "codec-store" ("model=" ++ outTag e))
  else if key == "orig" then
    let out := parsePBs r 1
    match s.idx.values with
    | .ok l => if l.isPerm out then { s with orig := out } else ({ s with orig := out }).fail (.differ "codec-values" s!"model={showPBs l} impl={showPBs out}")
    | e => ({ s with orig := out }).fail (.differ "codec-values" ("model=" ++ outTag e))
  else if key == "encode" then
    if r.getD 1 "" == "ok" then s else s.fail (.specfalse "C08:codec:encode-failed" (r.getD 1 ""))
  else if key == "epack" then { s with epacks := s.epacks ++ [(parseID (r.getD 1 "-"), parseBlobs r 2)] }
  else if key == "doc" then
    if r.getD 1 "" == "decodable" then { s with doc := some [] } else s.label "undecodable-document"
  else if key == "fpack" then
    { s with doc := s.doc.map (· ++ [(parseID (r.getD 2 "-"), parseBlobs r 3)]) }
  else if key == "decode" then
    let impl := r.getD 1 ""
    if c_isCodec s then
      -- the real encoder's output against the model's
      match s.idx.encode with
      | .ok f =>
        if !samePackList f s.epacks then s.fail (.differ "codec-encode" "pack-lists-differ")
        else if impl != "ok" then s.fail (.specfalse "C08:codec:decode-of-encoded-index-failed" impl)
        else s
      | e => s.fail (.differ "codec-encode" ("model=" ++ outTag e))
    else
      match s.doc with
      | none => if impl == "err" then s.label "decode-error" else s.fail (.differ "malformed-decode" s!"undecodable-document impl={impl}")
      | some f =>
        let m := decodeIndex f []
        if outTag m != impl then s.fail (.differ "malformed-decode" s!"model={outTag m} impl={impl}")
        else s.label ("decode-" ++ impl)
  else if key == "decoded" then
    let out := parsePBs r 1
    if c_isCodec s then
      if !specRoundTrip s.orig out then
        s.fail (.specfalse "C08:codec:entry-lost-or-changed" s!"before={showPBs s.orig} after={showPBs out}")
      else match s.idx.encode with
        | .ok f => match decodeIndex f [] with
          | .ok i => match i.values with
            | .ok l => if l.isPerm out then (if out.length ≥ 2 then s.label "roundtrip" else s.label "roundtrip-small")
                       else s.fail (.differ "codec-decoded" "-")
            | e => s.fail (.differ "codec-decoded" ("model=" ++ outTag e))
          | e => s.fail (.differ "codec-decoded" ("model=" ++ outTag e))
        | e => s.fail (.differ "codec-decoded" ("model=" ++ outTag e))
    else match s.doc with
      | some f => match decodeIndex f [] with
        | .ok i => match i.values with
          | .ok l => if l.isPerm out then s else s.fail (.differ "malformed-decoded" "-")
          | e => s.fail (.differ "malformed-decoded" ("model=" ++ outTag e))
        | e => s.fail (.differ "malformed-decoded" ("model=" ++ outTag e))
      | none => s.fail (.differ "protocol" "decoded-without-doc")
  else s
where c_isCodec (s : St) : Bool := !s.labels.contains "malformed"

def handle (c : Case) : Verdict :=
  let s0 : St := { labels := [c.stream] }
  let s := c.recs.foldl stepRec s0
  match s.verdict, s.differ with
  | some v, _ => v
  | none, some d => d
  | none, none =>
    let nt := if c.stream == "hist" then s.nloads ≥ 1 && !s.good.isEmpty
              else if c.stream == "codec" then s.orig.length ≥ 1 else true
    let more := if c.stream == "hist" then
      [if s.nloads ≥ 3 then "loads>=3" else if s.nloads ≥ 1 then "loads1-2" else "loads0"] else []
    .agree nt (more ++ s.labels)

end C08

def main : IO Unit := mainLoop C08.handle
