import Driver.PruneLib
/-! Driver for C10 (full prune exactness and statistics): plan / full cases, see `Driver/PruneLib.lean`. -/
def main : IO Unit := Driver.mainLoop PruneLib.handle
