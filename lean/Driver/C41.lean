import Driver.Common
import Restic.Model.TreeCodec
/-!
Driver for C41 (records: see harness/main/c41.go).
-/
open Driver Restic.Model.TreeCodec

def ub (s : String) : Bytes := (unhex s).getD [0xde, 0xad]

def splitOnChar (s : String) (c : Char) : List String := s.splitOn (String.singleton c)

def parsePairs (s : String) : List (Bytes × Bytes) :=
  if s == "-" then [] else
  (splitOnChar s ',').map fun p =>
    match splitOnChar p ':' with
    | [a, b] => (ub a, ub b)
    | _ => ([0xde], [0xad])

def parseNums (s : String) : List Nat :=
  if s == "-" then [] else (splitOnChar s ',').map String.toNat!

def parseIds (s : String) : Option (List Bytes) :=
  if s == "nil" then none else if s == "-" then some [] else some ((splitOnChar s ',').map ub)

def parseInt (s : String) : Int :=
  if s.startsWith "-" then - (Int.ofNat (s.drop 1).toString.toNat!) else Int.ofNat s.toNat!

/-- 18 node tokens starting at index `o` of record `r` -/
def parseNode (r : Array String) (o : Nat) : Node :=
  let g (i : Nat) := r.getD (o + i) "-"
  { name := ub (g 0), linkTarget := ub (g 1),
    raw := if g 2 == "nil" then none else some (ub (g 2)),
    mtime := { year := parseInt (g 3), rest := ub (g 4) },
    atime := { year := parseInt (g 5), rest := ub (g 6) },
    ctime := { year := parseInt (g 7), rest := ub (g 8) },
    typ := ub (g 9), user := ub (g 10), group := ub (g 11), error := ub (g 12),
    xattrs := parsePairs (g 13), generic := parsePairs (g 14), nums := parseNums (g 15),
    content := parseIds (g 16), subtree := if g 17 == "nil" then none else some (ub (g 17)) }

/-- first field in which two nodes differ -/
def diffField (a b : Node) : String :=
  if a.name != b.name then "name" else if a.linkTarget != b.linkTarget then "linktarget"
  else if a.raw != b.raw then "linktarget_raw"
  else if a.mtime != b.mtime then "mtime" else if a.atime != b.atime then "atime"
  else if a.ctime != b.ctime then "ctime" else if a.typ != b.typ then "type"
  else if a.user != b.user then "user" else if a.group != b.group then "group"
  else if a.error != b.error then "error"
  else if a.xattrs.map (·.1) != b.xattrs.map (·.1) then "xattr-name"
  else if a.xattrs != b.xattrs then "xattr-value"
  else if a.generic != b.generic then "generic"
  else if a.nums != b.nums then "numbers" else if a.content != b.content then "content"
  else if a.subtree != b.subtree then "subtree" else "none"

/-- copy the plain-string fields listed in `fields` from `src` -/
def patch (fields : List String) (dst src : Node) : Node :=
  let d := if fields.contains "user" then { dst with user := src.user } else dst
  let d := if fields.contains "group" then { d with group := src.group } else d
  let d := if fields.contains "error" then { d with error := src.error } else d
  let d := if fields.contains "type" then { d with typ := src.typ } else d
  if fields.contains "xattr-name" && d.xattrs.length == src.xattrs.length then
    { d with xattrs := (d.xattrs.zip src.xattrs).map fun (x, y) => (y.1, x.2) }
  else d

def yearsOK (n : Node) : Bool :=
  [n.mtime, n.atime, n.ctime].all fun t => 0 ≤ t.year && t.year ≤ 9999

def handleNode (c : Case) : Verdict :=
  match c.find "in", c.find "impl" with
  | some rin, some rimpl =>
    let inp := parseNode rin 1
    let oq := ub ((c.find "oq").map (·.getD 1 "-") |>.getD "-")
    let ov := ((c.find "ov").map (·.getD 1 "1") |>.getD "1") == "1"
    let nj := (c.find "nj").map (parseNode · 1)
    let enc : Option Bytes := match c.find "enc" with
      | some r => if r.getD 1 "" == "ok" then some (ub (r.getD 2 "-")) else none
      | none => none
    let implBytes : Option Bytes := if rimpl.getD 1 "" == "ok" then some (ub (rimpl.getD 2 "-")) else none
    let dj : Option Node := match c.find "dj" with
      | some r => if r.getD 1 "" == "ok" then some (parseNode r 2) else none
      | none => none
    let ouq : Option Bytes := match c.find "ouq" with
      | some r => if r.getD 1 "" == "ok" then some (ub (r.getD 2 "-")) else none
      | none => none
    let o : Oracles :=
      { quote := fun _ => oq, unquote := fun _ => ouq, validUTF8 := fun _ => ov,
        jsonEnc := fun v => if some v == nj then enc else none,
        jsonDec := fun b => if some b == implBytes then dj else none }
    let invalid := match c.find "invalid" with | some r => (r.toList.drop 1).filter (· != "-") | none => []
    let hyp := c.find "hyp"
    let timesOK := (hyp.map (·.getD 1 "1") |>.getD "1") == "1"
    let genericOK := (hyp.map (·.getD 2 "1") |>.getD "1") == "1"
    -- model
    let mm := marshalNode o inp
    let implM : Marshal := match rimpl.getD 1 "" with
      | "ok" => .ok (implBytes.getD []) | "panic" => .panic | _ => .err
    if implM == .panic then .specfalse "C41:node:marshal-panics" "json.Marshal(node)-panicked" else
    -- model/implementation differences in the encoding step are reported only if the property
    -- itself holds on the implementation's output (a spec violation takes precedence)
    let pre : Option Verdict :=
      if some (wrapNode o inp) != nj then
        some (.differ "wrap" s!"model-nodeJSON-differs-from-replica-in-{diffField (wrapNode o inp) (nj.getD inp)}")
      else if mm != implM then some (.differ "marshal" s!"model={repr mm} impl={repr implM}")
      else none
    let post : Verdict :=
      match implBytes with
      | none => .agree false ["node", "marshal-error"]
      | some bytes =>
        let decR := c.find "dec"
        let decImpl : Option Node := match decR with
          | some r => if r.getD 1 "" == "ok" then some (parseNode r 2) else none
          | none => none
        if (decR.map (·.getD 1 "")) == some "panic" then .specfalse "C41:node:unmarshal-panics" "-" else
        -- laws of the oracles, checked on the stdlib's own values
        let lawJ1 := ouq == some inp.name
        let lawJ2 := !(invalid.isEmpty && timesOK && genericOK && ov) || dj == nj
        -- J3: the encoding is one self-delimiting object for the model's scanner
        let lawJ3 := scanValue (bytes ++ [44, 123]) == some (bytes, [44, 123]) && bytes.head? == some 123
        let again := (c.find "again").map (·.getD 1 "")
        -- the property on the implementation's own output
        if timesOK && genericOK then
          match decImpl with
          | none => .specfalse "C41:node:encoded-node-does-not-decode" "-"
          | some d =>
            if specNode inp (some d) then
              if again == some "panic" || again == some "0" || again == some "err" then
                .specfalse "C41:node:re-encoding-decoded-node-differs" s!"again={again}"
              else if !lawJ1 then .differ "law-J1" "unquote(quote(name))≠name"
              else if !lawJ2 then .differ "law-J2" s!"jsonDec(jsonEnc(v))≠v-in-{diffField (dj.getD inp) (nj.getD inp)}"
              else if !lawJ3 then .differ "law-J3" "encoding-is-not-one-object-for-the-scanner"
              else if unmarshalNode o bytes != decImpl then .differ "unmarshal" "model≠impl"
              else .agree true (["node", "roundtrip-exact"] ++
                (if !ov then ["linktarget-raw"] else []) ++ (if oq.length != inp.name.length + 2 then ["name-escaped"] else []) ++
                (if !inp.xattrs.isEmpty then ["xattrs"] else []) ++ (if !inp.generic.isEmpty then ["generic"] else []) ++
                (if !invalid.isEmpty then ["invalid-utf8-but-unchanged"] else []))
            else
              -- which field changed? invalid UTF-8 in a plain JSON string field is the known finding F7
              let d' := patch invalid d inp
              if !invalid.isEmpty && d' == inp then
                .specfalse s!"C41:invalid-utf8-in:{invalid.headD "?"}" s!"fields={invalid}"
              else .specfalse s!"C41:node:field-changed:{diffField d' inp}" s!"invalid={invalid}"
        else
          -- outside the property's hypotheses (year outside 0..9999, non-canonical generic attribute):
          -- only model and implementation are compared
          if unmarshalNode o bytes != decImpl then .differ "unmarshal" "model≠impl"
          else
            let expectT := decImpl.map fun d => (d.mtime, d.atime, d.ctime) == (fixTime inp.mtime, fixTime inp.atime, fixTime inp.ctime)
            if genericOK && expectT == some false then .differ "fixTime" "decoded-times≠fixTime(input)"
            else .agree false (["node"] ++ (if !timesOK then ["year-out-of-range"] else []) ++ (if !genericOK then ["generic-noncanonical"] else []))
    match post, pre with
    | .specfalse sig d, _ => .specfalse sig d
    | _, some d => d
    | v, none => v
  | _, _ => .differ "protocol" "node-case-without-in/impl"

def handleTree (c : Case) : Verdict :=
  let ns := (c.findAll "n").toList.map fun r => (ub (r.getD 1 "-"), ub (r.getD 2 "-"))
  let names := ns.map (·.1)
  let encs := ns.map (·.2)
  let labels := match c.find "label" with | some r => (r.getD 1 "-").splitOn "," | none => []
  let built : Option Bytes := match c.find "built" with
    | some r => if r.getD 1 "" == "ok" then some (ub (r.getD 2 "-")) else none
    | none => none
  let model := buildTree (ns.map fun (a, b) => (a, some b))
  let itStatus := (c.find "it").map (·.getD 1 "?")
  let dns : Option (List Bytes) :=
    if itStatus == some "ok" then some (match c.find "dn" with | some r => ((r.toList.drop 1).filter (· != "-")).map ub | none => []) else none
  -- property on the implementation's output
  if !specTree names encs built (if built.isSome then dns else none) then
    let sig := match built with
      | none => "C41:tree:sorted-list-rejected"
      | some _ => if !strictSorted names then "C41:tree:unsorted-or-duplicate-names-accepted"
                  else if dns.isNone then "C41:tree:built-tree-does-not-decode"
                  else "C41:tree:decoded-nodes-differ-from-input"
    .specfalse sig s!"names={names.map hex} it={itStatus}"
  else if model != built then .differ "builder" s!"model={model.map hex} impl={built.map hex}"
  else
    match built with
    | none => .agree false (["tree", "rejected"] ++ labels)
    | some _ =>
      let doc := ub ((c.find "doc").map (·.getD 1 "-") |>.getD "-")
      match decodeRaw doc with
      | some (raws, true) =>
        if raws != encs then .differ "iterator" s!"model-raw-values≠encodings count={raws.length}/{encs.length}"
        else .agree (ns.length ≥ 2) (["tree", "built"] ++ labels ++ (if ns.isEmpty then ["empty"] else []))
      | some (_, false) => .differ "iterator" "model-iteration-error"
      | none => .differ "iterator" "model-init-error"

def handleSaver (c : Case) : Verdict :=
  let futs : List Fut := (c.findAll "f").toList.map fun r =>
    match r.getD 1 "" with
    | "failed" => .failed (r.getD 2 "0" == "1") (r.getD 3 "0" == "1")
    | "excluded" => .excluded
    | _ => .node { name := ub (r.getD 2 "-"), enc := some (ub (r.getD 3 "-")), key := (r.getD 4 "0").toNat! }
  let labels := match c.find "label" with | some r => [r.getD 1 "-"] | none => []
  let model := treeSave futs
  let res := c.find "res"
  let impl : Option SaveRes := match res.map (·.getD 1 "") with
    | some "ok" => some (.ok (ub ((res.map (·.getD 2 "-")).getD "-")) ((res.map (·.getD 3 "0")).getD "0").toNat!)
    | some "err" => some (.err ((res.map (·.getD 2 "?")).getD "?"))
    | _ => none
  match impl with
  | none => .specfalse "C41:saver:panic" "treeSaver.save-panicked"
  | some (.ok buf _) =>
    -- property: the blob is exactly the encoding of the delivered nodes in list order (identical
    -- duplicates once), whatever the completion order of the futures was
    let nodes := futs.filterMap fun f => match f with | .node n => some n | _ => none
    let dedup := nodes.foldl (fun acc n => match acc.getLast? with
      | some l => if l.key == n.key && l.name == n.name then acc else acc ++ [n]
      | none => [n]) ([] : List TNode)
    let want := buildTree (dedup.map fun n => (n.name, n.enc))
    if want != some buf then .specfalse "C41:saver:blob-differs-from-ordered-encoding" s!"want={want.map hex} got={hex buf}"
    else if some model != impl then .differ "saver" s!"model={repr model} impl={repr impl}"
    else .agree (nodes.length ≥ 2) (["saver", "saved"] ++ labels)
  | some (.err k) =>
    if some model != impl then .differ "saver" s!"model={repr model} impl-err={k}"
    else .agree false (["saver", "err-" ++ k] ++ labels)

def handleC41 (c : Case) : Verdict :=
  if c.stream == "node" then handleNode c
  else if c.stream == "tree" then handleTree c
  else if c.stream == "saver" then handleSaver c
  else .differ "protocol" s!"unknown-substream-{c.stream}"

def main : IO Unit := mainLoop handleC41
