import Driver.Common
import Restic.Model.SnapTree
/-!
Wire format of snapshot trees (shared by the drivers of C45, C53, C54). One record per node, in
pre-order, with its depth:

  n <treekey> <depth> <type> <hexname> <mode> <size> <links> <inode> <device> <subtree#> <other#> <hextarget> <content#,content#,…|->

`treekey` selects the tree the node belongs to (a case may carry several trees).
-/
namespace Driver.TreeWire
open Driver Restic.Model.SnapTree

def ntypeOf : String → NType
  | "file" => .file | "dir" => .dir | "symlink" => .symlink | "dev" => .dev | "chardev" => .chardev
  | "fifo" => .fifo | "socket" => .socket | "irregular" => .irregular | "invalid" => .invalid
  | _ => .other

def bytesOf (tok : String) : List Nat := ((unhex tok).getD []).map (·.toNat)

def natsOf (tok : String) : List Nat :=
  if tok == "-" || tok == "" then [] else (tok.splitOn ",").map (·.toNat!)

def metaOf (r : Array String) : Nat × Meta :=
  ((r.getD 2 "0").toNat!,
   { name := bytesOf (r.getD 4 "-"), type := ntypeOf (r.getD 3 ""), mode := (r.getD 5 "0").toNat!,
     size := (r.getD 6 "0").toNat!, links := (r.getD 7 "0").toNat!, inode := (r.getD 8 "0").toNat!,
     device := (r.getD 9 "0").toNat!, subtree := (r.getD 10 "0").toNat!, other := (r.getD 11 "0").toNat!,
     target := bytesOf (r.getD 12 "-"), content := natsOf (r.getD 13 "-") })

/-- rebuild the forest from the pre-order list with depths -/
partial def parseLevel (d : Nat) : List (Nat × Meta) → List Tree × List (Nat × Meta)
  | [] => ([], [])
  | (d', m) :: rest =>
    if d' < d then ([], (d', m) :: rest)
    else
      let (kids, rest1) := parseLevel (d + 1) rest
      let (sibs, rest2) := parseLevel d rest1
      (Tree.mk m kids :: sibs, rest2)

/-- the tree with the given key of a case -/
def treeOf (c : Case) (key : String) : List Tree :=
  let recs := ((c.findAll "n").filter fun r => r.getD 1 "" == key).toList.map metaOf
  (parseLevel 0 recs).1

def strOfBytes (bs : List Nat) : String := String.ofList (bs.map fun b => Char.ofNat b)

end Driver.TreeWire
