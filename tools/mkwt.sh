#!/bin/sh
# tools/mkwt.sh <name>: create an isolated worktree of /verif for a builder (branch wip/<name>)
set -e
n="$1"
git -C /verif worktree add -q /root/wt/v-$n -b wip/$n
echo /root/wt/v-$n
