#!/usr/bin/env python3
"""tools/baseline_cmp.py [repo_dir] [pkg patterns…]: run go test -json and compare with /root/.vp/BASELINE.json:
every baseline-stable test of the packages run must still pass. Default packages: ./..."""
import ast, json, os, subprocess, sys
repo = sys.argv[1] if len(sys.argv) > 1 else "/repo"
pkgs = sys.argv[2:] or ["./..."]
b = json.load(open("/root/.vp/BASELINE.json"))
stable = b["stable_pass"]
if isinstance(stable, str):
    stable = ast.literal_eval(stable)
stable = set(stable)
env = dict(os.environ, GOFLAGS="-mod=mod", GOPROXY="off")
p = subprocess.run(["go", "test", "-json", "-vet=off", "-count=1", "-timeout", "25m"] + pkgs, cwd=repo, env=env, capture_output=True, text=True)
passed, failed, pkgs_seen = set(), set(), set()
for line in p.stdout.split("\n"):
    try:
        e = json.loads(line)
    except Exception:
        continue
    if "Package" in e:
        pkgs_seen.add(e["Package"])
    if e.get("Test") and e.get("Action") in ("pass", "fail"):
        (passed if e["Action"] == "pass" else failed).add(e["Package"] + "::" + e["Test"])
want = {t for t in stable if t.split("::")[0] in pkgs_seen}
missing = sorted(want - passed)
print(f"packages {len(pkgs_seen)}, baseline-stable tests in scope {len(want)}, passed {len(want & passed)}, NOT passing {len(missing)}; other failures {len(failed - stable)}")
for t in missing[:40]:
    print("  MISSING", t, "(failed)" if t in failed else "(not run)")
sys.exit(1 if missing else 0)
