#!/usr/bin/env python3
"""Rewrite commit ids in meta/*.known.jsonl to the ids the (cherry-picked) fix commits have on /repo's main."""
import json, os, subprocess
ROOT = os.path.dirname(os.path.dirname(os.path.abspath(__file__)))
def git(*a):
    return subprocess.run(["git", "-C", "/repo"] + list(a), capture_output=True, text=True).stdout.strip()
main = {}
for l in git("log", "main", "--format=%h\t%s", "-200").split("\n"):
    h, s = l.split("\t", 1); main.setdefault(s, h)
for f in sorted(os.listdir(os.path.join(ROOT, "meta"))):
    if not f.endswith(".known.jsonl"): continue
    p = os.path.join(ROOT, "meta", f); out = []; ch = False
    for l in open(p):
        if not l.strip(): continue
        k = json.loads(l)
        c = k.get("commit")
        if c and k.get("status") == "fixed":
            subj = git("log", "-1", "--format=%s", c)
            new = main.get(subj)
            if new and not new.startswith(c[:7]) and not c.startswith(new[:7]):
                k["record"] = k.get("record", "").replace(c, new); k["commit"] = new; ch = True
                print(f, c, "->", new)
            elif not new:
                print("WARNING: no commit on main for", f, c, subj)
        out.append(json.dumps(k))
    if ch:
        open(p, "w").write("\n".join(out) + "\n")
