#!/bin/sh
# Build everything from files on disk (offline): Lean project, extractor, harness binary.
set -e
cd "$(dirname "$0")/.."
export GOFLAGS=-mod=mod GOPROXY=off
mkdir -p .build/bin
(cd lean && lake build 2>&1 | tail -3)
python3 - <<'PY'
import json, os, subprocess, sys
sys.argv = ["vcheck"]
import importlib.machinery, importlib.util
loader = importlib.machinery.SourceFileLoader("vcheck", "tools/vcheck")
spec = importlib.util.spec_from_loader("vcheck", loader)
v = importlib.util.module_from_spec(spec); loader.exec_module(v)
log = []
print("extractor:", v.run_extractor(log)[0])
binp, err = v.build_harness({"id": "setup", "harness_files": []}, v.repo_state(), log)
print("harness:", binp or err)
for l in log: print(l)
# build all drivers
metas = sorted(f[:-5] for f in os.listdir("meta") if f.startswith("C") and f.endswith(".json"))
rc, out = v.lake_build(["rdriver_" + m for m in metas])
print("drivers:", rc)
if rc != 0: print(out[-3000:])
sys.exit(0 if binp and rc == 0 else 1)
PY
