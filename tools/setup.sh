#!/bin/sh
# Build everything from files on disk (offline): translator facts, harness binary, constants of the
# current source, then the whole Lean project (models, proofs, drivers).
set -e
cd "$(dirname "$0")/.."
export GOFLAGS=-mod=mod GOPROXY=off
mkdir -p .build/bin
python3 - <<'PY'
import json, os, subprocess, sys
import importlib.machinery, importlib.util
loader = importlib.machinery.SourceFileLoader("vcheck", "tools/vcheck")
spec = importlib.util.spec_from_loader("vcheck", loader)
v = importlib.util.module_from_spec(spec); loader.exec_module(v)
log = []
ok_ex, _ = v.run_extractor(log)
print("extractor:", ok_ex)
binp, err = v.build_harness({"id": "setup", "harness_files": []}, v.repo_state(), log)
print("harness:", binp or err)
produced = v.gen_consts(binp, log, fallback=False) if binp else set()
print("constants:", len(produced))
for l in log: print(l)
rc, out = v.lake_build([])          # default targets: every model, proof and driver module
print("lake build:", rc)
if rc != 0: print(out[-3000:])
metas = sorted(f[:-5] for f in os.listdir("meta") if f.startswith("C") and f.endswith(".json") and len(f) == 8)
rc2, out2 = v.lake_build(["rdriver_" + m for m in metas])
print("drivers:", rc2)
if rc2 != 0: print(out2[-3000:])
sys.exit(0 if binp and ok_ex and produced and rc == 0 and rc2 == 0 else 1)
PY
