#!/usr/bin/env python3
"""Regenerate MANIFEST.json from meta/Cxx.json (one file per claimed property)."""
import json, os, subprocess
ROOT = os.path.dirname(os.path.dirname(os.path.abspath(__file__)))
props = [json.loads(l) for l in open(os.path.join(ROOT, "properties.jsonl"))]
na_reasons = {}
naf = os.path.join(ROOT, "meta", "not_applicable.json")
if os.path.exists(naf):
    na_reasons = json.load(open(naf))
checks, na = [], []
for p in props:
    pid = p["id"]
    mf = os.path.join(ROOT, "meta", pid + ".json")
    if not os.path.exists(mf):
        na.append({"property_id": pid, "reason": na_reasons.get(pid, "not claimed: no check has been built for this property yet (design in DESIGN.md §5 " + pid + ")")})
        continue
    m = json.load(open(mf))
    checks.append({
        "property_id": pid,
        "quick_cmd": f"tools/vcheck {pid} --tier quick",
        "thorough_cmd": f"tools/vcheck {pid} --tier thorough",
        "evidence_file": f"/verif/evidence/{pid}.json",
        "replay_cmd_template": f"tools/vcheck {pid} --replay {{path}}",
        "engine": "lean-proof+correspondence",
        "level_claimed": m["level"],
        "level_note": m["level_note"],
        "technique": m.get("technique", "Lean 4 proof over model + differential correspondence"),
    })
fixes = []
kf = os.path.join(ROOT, "known_findings.jsonl")
# known_findings.jsonl is the concatenation of meta/*.known.jsonl (committed, never written at run time)
with open(kf, "w") as out:
    for f in sorted(os.listdir(os.path.join(ROOT, "meta"))):
        if f.endswith(".known.jsonl"):
            for l in open(os.path.join(ROOT, "meta", f)):
                if l.strip():
                    json.loads(l)
                    out.write(l.strip() + "\n")
if os.path.exists(kf):
    for l in open(kf):
        l = l.strip()
        if l and not l.startswith("#"):
            k = json.loads(l)
            if k.get("status") == "fixed" and k.get("commit") and k["commit"] not in fixes:
                fixes.append(k["commit"])
man = {
    "version": 1,
    "setup_cmd": "tools/setup.sh",
    "hooks": {
        "guard": "verif",
        "enable": "go build -tags verif -overlay /verif/.build/restic-verif.overlay.json ./cmd/restic  (harness files live under /verif/harness and are injected at build time; nothing guarded is committed to /repo)",
        "baseline_off_cmd": "cd /repo && go test -mod=mod -vet=off -count=1 -timeout 25m ./...",
        "source_commits": fixes,
        "add_only": True,
    },
    "engines": [{
        "name": "lean-proof+correspondence", "path": "tools/vcheck",
        "serves_properties": [c["property_id"] for c in checks],
        "kind_free_text": "Lean 4 theorems over executable models (lean/Restic), regenerated facts from the Go source (extract/), differential correspondence between the compiled Lean drivers (lean/Driver) and the real code (harness/ injected with go build -overlay)"}],
    "checks": checks,
    "notes": "See DESIGN.md. Only `fix:` commits touch /repo; the build tag `verif` guards harness files that are overlaid at build time from /verif/harness.",
    "not_applicable": na,
}
json.dump(man, open(os.path.join(ROOT, "MANIFEST.json"), "w"), indent=1)
print(f"{len(checks)} checks, {len(na)} not claimed")
