//go:build verif

package global

// VerifFactsC29 exports the number of key files OpenRepository is willing to try.
func VerifFactsC29() map[string]int64 {
	return map[string]int64{
		"global_maxKeys": int64(maxKeys),
	}
}
