//go:build verif

package restic

// VerifFactsC30 exports the repository format version constants (used by C30 and C31).
func VerifFactsC30() map[string]int64 {
	return map[string]int64{
		"restic_MinRepoVersion":    int64(MinRepoVersion),
		"restic_MaxRepoVersion":    int64(MaxRepoVersion),
		"restic_StableRepoVersion": int64(StableRepoVersion),
	}
}
