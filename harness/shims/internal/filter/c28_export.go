//go:build verif

package filter

// VerifC28Prepare exposes preparePattern: the parts (text, isSimple) and the negation flag.
func VerifC28Prepare(p string) (parts []string, simple []bool, negated bool) {
	pat := preparePattern(p)
	for _, part := range pat.parts {
		parts = append(parts, part.pattern)
		simple = append(simple, part.isSimple)
	}
	return parts, simple, pat.isNegated
}

// VerifC28Split exposes splitPath.
func VerifC28Split(p string) []string { return splitPath(p) }
