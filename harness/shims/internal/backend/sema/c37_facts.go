//go:build verif

package sema

import (
	"github.com/restic/restic/internal/backend"
	"github.com/restic/restic/internal/backend/mem"
)

// VerifFactsC37 evaluates, with the compiled current source, how many semaphore tokens are taken
// right after typeDependentLimit(t) returned for each file type (1 = takes a token, 0 = exempt),
// and whether the returned function gives the token back.
func VerifFactsC37() map[string]int64 {
	res := map[string]int64{}
	for _, t := range []backend.FileType{backend.PackFile, backend.KeyFile, backend.LockFile, backend.SnapshotFile, backend.IndexFile, backend.ConfigFile} {
		be := NewBackend(mem.New()).(*connectionLimitedBackend)
		release := be.typeDependentLimit(t)
		res["sema_tokens_held_"+t.String()] = int64(len(be.sem.ch))
		release()
		res["sema_tokens_after_release_"+t.String()] = int64(len(be.sem.ch))
	}
	return res
}
