//go:build verif

package cache

import "github.com/restic/restic/internal/backend"

// VerifC38Filename is the path of the cache file for h.
func VerifC38Filename(c *Cache, h backend.Handle) string { return c.filename(h) }
