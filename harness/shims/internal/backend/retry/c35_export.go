//go:build verif

package retry

import "time"

// VerifC35SetFailedLoadExpiry sets the expiry of the Load circuit breaker and returns the old
// value (the harness simulates "an hour has passed" with a negative expiry).
func VerifC35SetFailedLoadExpiry(d time.Duration) time.Duration {
	old := failedLoadExpiry
	failedLoadExpiry = d
	return old
}
