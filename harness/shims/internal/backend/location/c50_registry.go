//go:build verif

package location

import "reflect"

// VerifC50Registry reports, for every registered scheme, whether the factory strips passwords
// with location.NoPassword / nothing ("nop") or with a function of its own ("custom").
func VerifC50Registry(r *Registry) map[string]string {
	res := map[string]string{}
	nop := reflect.ValueOf(NoPassword).Pointer()
	for name, f := range r.factories {
		kind := "custom"
		v := reflect.ValueOf(f)
		if v.Kind() == reflect.Ptr && v.Elem().Kind() == reflect.Struct {
			fld := v.Elem().FieldByName("stripPasswordFn")
			if fld.IsValid() && fld.Kind() == reflect.Func && (fld.IsNil() || fld.Pointer() == nop) {
				kind = "nop"
			}
		}
		res[name] = kind
	}
	return res
}
