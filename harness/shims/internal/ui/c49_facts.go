//go:build verif

package ui

// VerifFactsC49 reports the multiplier ParseBytes applies for every unit suffix of the current
// source (evaluated by running the real function on "1<suffix>").
func VerifFactsC49() map[string]int64 {
	m := map[string]int64{}
	for _, u := range "bBkKmMgGtT" {
		v, err := ParseBytes("1" + string(u))
		if err == nil {
			m["ui_ParseBytes_unit_"+string(u)] = v
		}
	}
	return m
}
