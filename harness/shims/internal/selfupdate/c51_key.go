//go:build verif

package selfupdate

// VerifC51SetKey replaces the embedded release key (armored public key block) and returns the
// previous one, so that the harness can produce signatures that verify.
func VerifC51SetKey(k []byte) []byte {
	old := key
	key = k
	return old
}

// VerifC51FindHash exports findHash.
func VerifC51FindHash(buf []byte, filename string) ([]byte, error) {
	return findHash(buf, filename)
}
