//go:build verif

package archiver

import (
	"context"
	"sync"
	"time"

	"github.com/restic/restic/internal/data"
	"github.com/restic/restic/internal/restic"
)

// VerifC41Item is the result one future will deliver.
type VerifC41Item struct {
	Node   *data.Node // nil: excluded (when Err is nil)
	Err    error
	Ignore bool // errFn returns nil for this item's error
}

type verifC41Uploader struct {
	mu  sync.Mutex
	buf []byte
}

func (u *verifC41Uploader) SaveBlobAsync(_ context.Context, _ restic.BlobType, buf []byte, _ restic.ID, _ bool, cb func(newID restic.ID, known bool, sizeInRepo int, err error)) {
	u.mu.Lock()
	u.buf = append([]byte(nil), buf...)
	u.mu.Unlock()
	go cb(restic.Hash(buf), false, len(buf), nil)
}

// VerifC41TreeSave runs the real treeSaver.save on futures that complete in the order given by
// `order` (a permutation of the indices), with small pauses in between, and returns the tree
// blob handed to the uploader, the number of errFn calls and the error of save.
func VerifC41TreeSave(ctx context.Context, items []VerifC41Item, order []int, ignoreDup bool) (buf []byte, errFnCalls int, err error) {
	up := &verifC41Uploader{}
	var mu sync.Mutex
	ignore := map[string]bool{}
	for i, it := range items {
		if it.Err != nil && it.Ignore {
			ignore[targetName(i)] = true
		}
	}
	s := &treeSaver{
		uploader: up,
		errFn: func(file string, e error) error {
			mu.Lock()
			defer mu.Unlock()
			errFnCalls++
			if ignore[file] {
				return nil
			}
			return e
		},
	}
	futs := make([]futureNode, len(items))
	chans := make([]chan<- futureNodeResult, len(items))
	for i := range items {
		futs[i], chans[i] = newFutureNode()
	}
	go func() {
		for k, i := range order {
			if k%3 == 1 {
				time.Sleep(50 * time.Microsecond)
			}
			chans[i] <- futureNodeResult{snPath: "/" + targetName(i), target: targetName(i), node: items[i].Node, err: items[i].Err}
			close(chans[i])
		}
	}()
	_ = ignoreDup
	_, _, err = s.save(ctx, &saveTreeJob{snPath: "/", target: "dir", node: &data.Node{Name: "dir", Type: data.NodeTypeDir}, nodes: futs})
	up.mu.Lock()
	buf = up.buf
	up.mu.Unlock()
	return buf, errFnCalls, err
}

func targetName(i int) string {
	return "item" + string(rune('A'+i/26/26%26)) + string(rune('A'+i/26%26)) + string(rune('A'+i%26))
}
