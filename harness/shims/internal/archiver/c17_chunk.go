//go:build verif

package archiver

import (
	"context"
	"io"
	"sync"

	"github.com/restic/restic/internal/data"
	"github.com/restic/restic/internal/fs"
	"github.com/restic/restic/internal/restic"
	"golang.org/x/sync/errgroup"
)

// Shim for C17: run the REAL fileSaver.saveFile / fileSaver.worker (with the real readNextChunk)
// on in-memory readers and capture the chunks in node.Content order.

func VerifFactsC17() map[string]int64 {
	return map[string]int64{"archiver_chunkReadBufSize": int64(chunkReadBufSize)}
}

type verifC17File struct{ rd io.Reader }

func (f *verifC17File) MakeReadable() error                { return nil }
func (f *verifC17File) Read(p []byte) (int, error)         { return f.rd.Read(p) }
func (f *verifC17File) Close() error {
	if c, ok := f.rd.(io.Closer); ok {
		return c.Close()
	}
	return nil
}
func (f *verifC17File) Readdirnames(int) ([]string, error) { return nil, nil }
func (f *verifC17File) Stat() (*fs.ExtendedFileInfo, error) {
	return &fs.ExtendedFileInfo{}, nil
}
func (f *verifC17File) ToNode(bool, func(string, ...any)) (*data.Node, error) {
	return &data.Node{Type: data.NodeTypeFile}, nil
}

type verifC17Saver struct {
	mu    sync.Mutex
	blobs map[restic.ID][]byte
}

func (m *verifC17Saver) SaveBlobAsync(_ context.Context, _ restic.BlobType, buf []byte, _ restic.ID, _ bool, cb func(newID restic.ID, known bool, sizeInRepo int, err error)) {
	cp := append([]byte(nil), buf...)
	id := restic.Hash(cp)
	m.mu.Lock()
	m.blobs[id] = cp
	m.mu.Unlock()
	go cb(id, false, len(cp), nil)
}

// VerifC17Result is what saveFile produced for one file.
type VerifC17Result struct {
	Err    error
	Chunks [][]byte // node.Content resolved to the saved bytes, in order
	Size   uint64   // node.Size
}

func verifC17Collect(up *verifC17Saver, res futureNodeResult) VerifC17Result {
	if res.err != nil {
		return VerifC17Result{Err: res.err}
	}
	out := VerifC17Result{Size: res.node.Size}
	up.mu.Lock()
	defer up.mu.Unlock()
	for _, id := range res.node.Content {
		out.Chunks = append(out.Chunks, up.blobs[id])
	}
	return out
}

// VerifC17Worker mimics fileSaver.worker (one chunker + one fileChunkState for all files, in turn)
// but with a caller-chosen chunker and read buffer size; every file goes through the real
// saveFile. dirty: the chunker and the chunk state have been used before the first file.
func VerifC17Worker(chnker restic.Chunker, maxChunk, bufSize int, dirty bool, files []io.Reader) []VerifC17Result {
	up := &verifC17Saver{blobs: map[restic.ID][]byte{}}
	s := &fileSaver{
		uploader:     up,
		saveFilePool: newBufferPool(maxChunk),
		CompleteBlob: func(uint64) {},
		NodeFromFileInfo: func(_, _ string, meta toNoder, ign bool) (*data.Node, error) {
			return meta.ToNode(ign, func(string, ...any) {})
		},
	}
	chunkState := &fileChunkState{readBuf: make([]byte, bufSize)}
	if dirty {
		junk := []byte("previous file content that was fed to the chunker before; 0123456789 0123456789 0123456789")
		chnker.NextSplitPoint(junk)
		chunkState.bpos, chunkState.bmax, chunkState.closed = 1, uint(min(bufSize, 3)), true
	}
	var out []VerifC17Result
	for _, rd := range files {
		done := make(chan futureNodeResult, 1)
		s.saveFile(context.Background(), chnker, chunkState, "/f", "f", &verifC17File{rd}, func() {}, func() {}, func(res futureNodeResult) { done <- res })
		out = append(out, verifC17Collect(up, <-done))
	}
	return out
}

// VerifC17RealWorker runs the unmodified pipeline newFileSaver -> worker -> saveFile with ONE
// worker and the repository's chunker factory; files are submitted one after the other.
func VerifC17RealWorker(factory restic.ChunkerFactory, files []io.Reader) []VerifC17Result {
	wg, ctx := errgroup.WithContext(context.Background())
	up := &verifC17Saver{blobs: map[restic.ID][]byte{}}
	s := newFileSaver(ctx, wg, up, factory, 1)
	s.NodeFromFileInfo = func(_, _ string, meta toNoder, ign bool) (*data.Node, error) {
		return meta.ToNode(ign, func(string, ...any) {})
	}
	var out []VerifC17Result
	for _, rd := range files {
		fn := s.Save(ctx, "/f", "f", &verifC17File{rd}, func() {}, func() {}, func(*data.Node, ItemStats) {})
		res := fn.take(ctx)
		out = append(out, verifC17Collect(up, res))
		// drop the bytes, keep memory flat
		up.mu.Lock()
		up.blobs = map[restic.ID][]byte{}
		up.mu.Unlock()
	}
	s.TriggerShutdown()
	_ = wg.Wait()
	return out
}

// VerifC17ConcWorkers runs the unmodified pipeline newFileSaver -> worker -> saveFile with
// `workers` file workers and the repository's chunker factory; all files are submitted at once, so
// several workers chunk at the same time (the harness' readers decide the interleaving).
func VerifC17ConcWorkers(factory restic.ChunkerFactory, workers uint, files []io.Reader) []VerifC17Result {
	wg, ctx := errgroup.WithContext(context.Background())
	up := &verifC17Saver{blobs: map[restic.ID][]byte{}}
	s := newFileSaver(ctx, wg, up, factory, workers)
	s.NodeFromFileInfo = func(_, _ string, meta toNoder, ign bool) (*data.Node, error) {
		return meta.ToNode(ign, func(string, ...any) {})
	}
	futures := make([]futureNode, len(files))
	for i, rd := range files {
		futures[i] = s.Save(ctx, "/f", "f", &verifC17File{rd}, func() {}, func() {}, func(*data.Node, ItemStats) {})
	}
	out := make([]VerifC17Result, len(files))
	for i := range files {
		out[i] = verifC17Collect(up, futures[i].take(ctx))
	}
	s.TriggerShutdown()
	_ = wg.Wait()
	return out
}
