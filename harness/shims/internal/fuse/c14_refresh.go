//go:build verif && (darwin || freebsd || linux)

package fuse

import "time"

// VerifC14ForceRefresh makes the next access to the snapshots directory refresh the snapshot
// list (as if minSnapshotsReloadTime had passed since the last refresh).
func VerifC14ForceRefresh(r *Root) {
	ds := r.SnapshotsDir.dirStruct
	ds.mutex.Lock()
	ds.lastCheck = time.Now().Add(-2 * minSnapshotsReloadTime)
	ds.mutex.Unlock()
}
