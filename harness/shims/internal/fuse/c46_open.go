//go:build verif && (darwin || freebsd || linux)

package fuse

import (
	"context"

	"github.com/anacrolix/fuse"

	"github.com/restic/restic/internal/bloblru"
	"github.com/restic/restic/internal/data"
	"github.com/restic/restic/internal/restic"
)

// VerifC46File wraps the unexported open-file handle of the FUSE file system.
type VerifC46File struct {
	of *openFile
}

// VerifC46Node wraps the unexported `file` node (what the kernel keeps between opens).
type VerifC46Node struct {
	f *file
}

// VerifC46NewNode builds a `file` for node exactly like dir.Lookup does (newFile) over repo with a
// blob cache of cacheSize bytes.
func VerifC46NewNode(repo restic.Repository, cacheSize int, node *data.Node) (*VerifC46Node, error) {
	root := &Root{repo: repo, blobCache: bloblru.New(cacheSize)}
	f, err := newFile(root, func() {}, inodeFromNode(1, node), node)
	if err != nil {
		return nil, err
	}
	return &VerifC46Node{f: f}, nil
}

// Open calls the real file.Open; it can be called any number of times on the same node.
func (n *VerifC46Node) Open(ctx context.Context) (*VerifC46File, error) {
	h, err := n.f.Open(ctx, nil, nil)
	if err != nil {
		return nil, err
	}
	return &VerifC46File{of: h.(*openFile)}, nil
}

// VerifC46Open = VerifC46NewNode + Open.
func VerifC46Open(ctx context.Context, repo restic.Repository, cacheSize int, node *data.Node) (*VerifC46File, error) {
	n, err := VerifC46NewNode(repo, cacheSize, node)
	if err != nil {
		return nil, err
	}
	return n.Open(ctx)
}

// Read calls the real openFile.Read with a response buffer allocated like fs.Server does
// (`make([]byte, 0, r.Size)`).
func (v *VerifC46File) Read(ctx context.Context, off int64, size int) ([]byte, error) {
	req := &fuse.ReadRequest{Offset: off, Size: size}
	resp := &fuse.ReadResponse{Data: make([]byte, 0, size)}
	err := v.of.Read(ctx, req, resp)
	return resp.Data, err
}

// Size is the file size the handle reports after Open (node.Size, corrected to the index sizes).
func (v *VerifC46File) Size() uint64 { return v.of.node.Size }
