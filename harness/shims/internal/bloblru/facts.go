//go:build verif

package bloblru

func VerifFacts() map[string]int64 {
	return map[string]int64{"bloblru_overhead": int64(overhead)}
}
