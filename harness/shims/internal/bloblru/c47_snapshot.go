//go:build verif

package bloblru

import (
	"sort"

	"github.com/restic/restic/internal/restic"
)

// VerifC47Snap is a consistent view (taken under c.mu) of the cache's accounting.
type VerifC47Snap struct {
	Free, Size int
	Keys       []restic.ID // oldest to newest
	Caps       []int       // cap() of the cached blob of Keys[i]
	InProgress []restic.ID // ids with a registered computation, sorted
}

func VerifC47Snapshot(c *Cache) VerifC47Snap {
	c.mu.Lock()
	defer c.mu.Unlock()
	s := VerifC47Snap{Free: c.free, Size: c.size}
	for _, k := range c.c.Keys() {
		v, _ := c.c.Peek(k)
		s.Keys = append(s.Keys, k)
		s.Caps = append(s.Caps, cap(v))
	}
	for id := range c.inProgress {
		s.InProgress = append(s.InProgress, id)
	}
	sort.Slice(s.InProgress, func(i, j int) bool { return s.InProgress[i].String() < s.InProgress[j].String() })
	return s
}
