//go:build verif

package repository

func VerifFacts() map[string]int64 {
	return map[string]int64{
		"repo_MinPackSize":              int64(MinPackSize),
		"repo_MaxPackSize":              int64(MaxPackSize),
		"repo_DefaultPackSize":          int64(DefaultPackSize),
		"repo_maxUnusedRange":           int64(maxUnusedRange),
		"repo_defaultPackerCount":       int64(defaultPackerCount),
		"lock_staleLockTimeout_ns":      int64(staleLockTimeout),
		"lock_defaultRefreshInterval_ns": int64(defaultRefreshInterval),
		"lock_refreshInterval_ns":       int64(lockerInst.refreshInterval),
		"lock_refreshabilityTimeout_ns": int64(lockerInst.refreshabilityTimeout),
		"lock_retrySleepStart_ns":       int64(lockerInst.retrySleepStart),
		"lock_retrySleepMax_ns":         int64(lockerInst.retrySleepMax),
	}
}
