//go:build verif

package pack

import "github.com/restic/restic/internal/repository/crypto"

// VerifFacts exposes the package's layout constants to the verification harness.
func VerifFacts() map[string]int64 {
	return map[string]int64{
		"pack_entrySize":        int64(entrySize),
		"pack_plainEntrySize":   int64(plainEntrySize),
		"pack_headerLengthSize": int64(headerLengthSize),
		"pack_headerSize":       int64(headerSize),
		"pack_MaxHeaderSize":    int64(MaxHeaderSize),
		"pack_eagerEntries":     int64(eagerEntries),
		"pack_minFileSize":      int64(minFileSize),
		"pack_MaxHeaderEntries": int64(MaxHeaderEntries),
		"crypto_Extension":      int64(crypto.Extension),
	}
}
