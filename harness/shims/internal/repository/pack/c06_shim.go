//go:build verif

package pack

import (
	"github.com/restic/restic/internal/repository/crypto"
	"github.com/restic/restic/internal/restic"
)

// VerifFactsC06 adds the constants of the blob handle / crypto layer the pack model refers to.
func VerifFactsC06() map[string]int64 {
	k := crypto.NewRandomKey()
	return map[string]int64{
		"restic_DataBlob":    int64(restic.DataBlob),
		"restic_TreeBlob":    int64(restic.TreeBlob),
		"restic_InvalidBlob": int64(restic.InvalidBlob),
		"restic_idSize":      int64(len(restic.ID{})),
		"crypto_ivSize":      int64(k.NonceSize()),
		"crypto_macSize":     int64(k.Overhead()),
	}
}

// VerifC06SetBlobs replaces the blob list of a packer (to reach lengths no real write can reach).
func VerifC06SetBlobs(p *Packer, blobs []Blob) {
	p.m.Lock()
	defer p.m.Unlock()
	p.blobs = blobs
}

func VerifC06MakeHeader(blobs []Blob) ([]byte, error) { return makeHeader(blobs) }

func VerifC06ParseHeaderEntry(p []byte) (Blob, uint, error) { return parseHeaderEntry(p) }

func VerifC06VerifyHeader(k *crypto.Key, header []byte, expected []Blob) error {
	return verifyHeader(k, header, expected)
}

func VerifC06HeaderFullAt(n int) bool {
	p := &Packer{blobs: make([]Blob, n)}
	return p.HeaderFull()
}
