//go:build verif

package repository

import (
	"context"
	"os"
	"time"

	"github.com/restic/restic/internal/restic"
)

// VerifC12Lock gives the harness access to the unexported lock handle: the real newLock,
// refresh, refreshStaleLock and unlock are called, nothing is re-implemented.
type VerifC12Lock struct {
	h *lockHandle
}

func VerifC12NewLock(ctx context.Context, repo *Repository, exclusive bool) (*VerifC12Lock, error) {
	h, err := newLock(ctx, &internalRepository{repo}, exclusive)
	if err != nil {
		return nil, err
	}
	return &VerifC12Lock{h: h}, nil
}

func (l *VerifC12Lock) Refresh(ctx context.Context) error      { return l.h.refresh(ctx) }
func (l *VerifC12Lock) RefreshStale(ctx context.Context) error { return l.h.refreshStaleLock(ctx) }
func (l *VerifC12Lock) Unlock(ctx context.Context) error       { return l.h.unlock(ctx) }
func (l *VerifC12Lock) ID() string                             { return l.h.lockID.String() }
func (l *VerifC12Lock) Time() time.Time                        { return l.h.Time }
func VerifC12IsRemovedLock(err error) bool                     { return err == errRemovedLock }

// VerifC12FakeLock writes a lock file as another (possibly crashed) process would have.
func VerifC12FakeLock(repo *Repository, t time.Time, pid int, host string, exclusive bool) (restic.ID, error) {
	l := &Lock{Time: t, PID: pid, Hostname: host, Exclusive: exclusive}
	return restic.SaveJSONUnpacked(context.TODO(), &internalRepository{repo}, restic.LockFile, l)
}

// VerifC12AgedLock puts a process into the situation refreshStaleLock exists for: it holds a lock
// whose file (Time = now - age, this host, this PID) it could not refresh since. Only the set-up is
// done here (the lock file is written directly); the forced refresh itself is the real code.
func VerifC12AgedLock(repo *Repository, age time.Duration, exclusive bool) (*VerifC12Lock, error) {
	ir := &internalRepository{repo}
	h := &lockHandle{Lock: Lock{Time: time.Now().Add(-age), PID: os.Getpid(), Exclusive: exclusive}, repo: ir}
	if hn, err := os.Hostname(); err == nil {
		h.Hostname = hn
	}
	if err := h.fillUserInfo(); err != nil {
		return nil, err
	}
	id, err := h.createLock(context.TODO())
	if err != nil {
		return nil, err
	}
	h.lockID = &id
	return &VerifC12Lock{h: h}, nil
}

func VerifFactsC12() map[string]int64 {
	return map[string]int64{
		"lock_waitBeforeLockCheck_default_ns": int64(verifC12DefaultWait),
		"lock_unlockCancelDelay_ns":           int64(unlockCancelDelay),
	}
}

// value of waitBeforeLockCheck at package initialisation (before any test helper shortens it)
var verifC12DefaultWait = waitBeforeLockCheck
