//go:build verif

package repository

import (
	"context"
	"io"

	"github.com/klauspost/compress/zstd"

	"github.com/restic/restic/internal/backend"
	"github.com/restic/restic/internal/repository/crypto"
	"github.com/restic/restic/internal/repository/pack"
	"github.com/restic/restic/internal/restic"
)

// VerifC43StreamPack calls the unexported streamPack with a caller-supplied download function and
// fallback loader (nil = no fallback, as in `check`).
func VerifC43StreamPack(ctx context.Context,
	beLoad func(ctx context.Context, h backend.Handle, length int, offset int64, fn func(rd io.Reader) error) error,
	loadBlob func(ctx context.Context, bh restic.BlobHandle, buf []byte) ([]byte, error),
	key *crypto.Key, packID restic.ID, blobs pack.Blobs,
	handle func(blob restic.BlobHandle, buf []byte, err error) error) error {

	dec, err := zstd.NewReader(nil)
	if err != nil {
		panic(err)
	}
	defer dec.Close()
	var lb loadBlobFn
	if loadBlob != nil {
		lb = loadBlob
	}
	return streamPack(ctx, beLoad, lb, dec, key, packID, blobs, handle)
}

// VerifC43Lookup returns the index entries (pack, offset, length) of a blob.
func VerifC43Lookup(r *Repository, bh restic.BlobHandle) []*pack.PackedBlob {
	return r.idx.Lookup(bh)
}

// VerifC43MaxUnusedRange exposes the package constant for input generation (the checked value
// is Restic.Gen.repo_maxUnusedRange).
func VerifC43MaxUnusedRange() uint { return maxUnusedRange }
