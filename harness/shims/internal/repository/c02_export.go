//go:build verif

package repository

import (
	"context"

	"github.com/restic/restic/internal/backend"
	"github.com/restic/restic/internal/repository/pack"
	"github.com/restic/restic/internal/restic"
)

// VerifC02Lookup exposes the candidate list LoadBlob works on (r.idx.Lookup).
func VerifC02Lookup(r *Repository, bh restic.BlobHandle) []*pack.PackedBlob {
	return r.idx.Lookup(bh)
}

// VerifC02SaveUnpacked exposes saveUnpacked for every file type.
func VerifC02SaveUnpacked(ctx context.Context, r *Repository, t restic.FileType, buf []byte) (restic.ID, error) {
	return r.saveUnpacked(ctx, t, buf)
}

// VerifC02WrapBackend puts a wrapper around the repository's current backend stack (i.e. ABOVE the
// cache layer installed by UseCache), so the harness can observe exactly what LoadRaw receives.
func VerifC02WrapBackend(r *Repository, w func(backend.Backend) backend.Backend) {
	r.be = w(r.be)
}
