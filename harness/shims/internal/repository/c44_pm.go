//go:build verif

package repository

// Shim for C44: drive the real (unexported) packerManager with a capturing queueFn and observe
// which slot pickPacker chose (the random choice is the model's oracle).

import (
	"context"
	"fmt"
	"sync"

	"github.com/restic/restic/internal/repository/crypto"
	"github.com/restic/restic/internal/restic"
)

// VerifC44Blob is one header entry of a packer, in order of Add.
type VerifC44Blob struct {
	Type   restic.BlobType
	ID     restic.ID
	Length uint
	ULen   uint
}

// VerifC44Packer is what the harness sees of a packer handed to queueFn.
type VerifC44Packer struct {
	Serial  int // order of creation as observed (0-based); -1 = never seen before it was queued (oversize)
	QType   restic.BlobType
	Count   int
	Size    uint
	Blobs   []VerifC44Blob
	p       *packer
	Final   bool
	FinErr  error
	HdrSize int // bytes written by Finalize (encrypted header incl. length field), when Finalize succeeded
}

type VerifC44PM struct {
	pm      *packerManager
	mu      sync.Mutex // protects Queued/serials (queueFn is called with pm.pm held, but keep it safe)
	Queued  []*VerifC44Packer
	serials map[*packer]int
	next    int
}

func VerifC44NewPM(tpe restic.BlobType, packSize uint, packerCount int) *VerifC44PM {
	v := &VerifC44PM{serials: map[*packer]int{}}
	key := crypto.NewRandomKey()
	v.pm = newPackerManager(key, tpe, packSize, packerCount, func(ctx context.Context, t restic.BlobType, p *packer) error {
		v.mu.Lock()
		defer v.mu.Unlock()
		v.Queued = append(v.Queued, &VerifC44Packer{QType: t, p: p, Serial: -1})
		return nil
	})
	return v
}

// serialOf numbers packers in the order in which they are first observed.
func (v *VerifC44PM) serialOf(p *packer) int {
	if s, ok := v.serials[p]; ok {
		return s
	}
	s := v.next
	v.next++
	v.serials[p] = s
	return s
}

// VerifC44Slot describes one slot of the manager: Serial -1 = empty.
type VerifC44Slot struct {
	Serial int
	Count  int
	Size   uint
}

// Slots returns the current slot contents (only call while no SaveBlob is running).
func (v *VerifC44PM) Slots() []VerifC44Slot {
	v.pm.pm.Lock()
	defer v.pm.pm.Unlock()
	res := make([]VerifC44Slot, len(v.pm.packers))
	for i, p := range v.pm.packers {
		if p == nil {
			res[i] = VerifC44Slot{Serial: -1}
		} else {
			res[i] = VerifC44Slot{Serial: v.serialOf(p), Count: p.Count(), Size: p.Size()}
		}
	}
	return res
}

// SaveSeq performs one SaveBlob sequentially and reports the slot that pickPacker chose
// (-1: a separate packer was created for an oversized blob) and the number of packers queued by
// this call. Must not be used concurrently.
func (v *VerifC44PM) SaveSeq(t restic.BlobType, id restic.ID, ciphertext []byte, ulen int) (size int, err error, slot int, queued int) {
	before := append([]*packer(nil), v.pm.packers...)
	beforeCnt := make([]int, len(before))
	for i, p := range before {
		if p != nil {
			beforeCnt[i] = p.Count()
		}
	}
	q0 := len(v.Queued)
	size, err = v.pm.SaveBlob(context.Background(), t, id, ciphertext, ulen)
	slot = -1
	for i, p := range v.pm.packers {
		switch {
		case p != before[i]:
			slot = i
		case p != nil && p.Count() != beforeCnt[i]:
			slot = i
		}
	}
	// number packers in creation order: slot packers first seen now, then queued ones
	for _, p := range v.pm.packers {
		if p != nil {
			v.serialOf(p)
		}
	}
	v.noteQueued()
	return size, err, slot, len(v.Queued) - q0
}

// Save is the concurrent variant (no observation of the slot).
func (v *VerifC44PM) Save(t restic.BlobType, id restic.ID, ciphertext []byte, ulen int) (int, error) {
	return v.pm.SaveBlob(context.Background(), t, id, ciphertext, ulen)
}

func (v *VerifC44PM) noteQueued() {
	v.mu.Lock()
	defer v.mu.Unlock()
	for _, q := range v.Queued {
		if q.Blobs == nil {
			q.Serial = v.serialOf(q.p)
			q.Count = q.p.Count()
			q.Size = q.p.Size()
			for _, b := range q.p.Packer.Blobs() {
				q.Blobs = append(q.Blobs, VerifC44Blob{Type: b.Type, ID: b.ID, Length: b.Length, ULen: b.UncompressedLength})
			}
		}
	}
}

// Flush runs the real Flush (mergePackers + queueing) and returns how many packers it queued.
func (v *VerifC44PM) Flush() (int, error) {
	// number the packers still sitting in slots first (concurrent runs never numbered them)
	v.pm.pm.Lock()
	for _, p := range v.pm.packers {
		if p != nil {
			v.serialOf(p)
		}
	}
	v.pm.pm.Unlock()
	q0 := len(v.Queued)
	err := v.pm.Flush(context.Background())
	v.noteQueued()
	return len(v.Queued) - q0, err
}

// FinalizeAll runs the real Packer.Finalize (header construction + self check) on every queued
// packer, as savePacker would, and releases the temp files.
func (v *VerifC44PM) FinalizeAll() {
	v.noteQueued()
	for _, q := range v.Queued {
		if q.Final {
			continue
		}
		q.Final = true
		before := q.p.Size()
		q.FinErr = q.p.Packer.Finalize()
		if q.FinErr == nil {
			q.HdrSize = int(q.p.Size() - before)
		}
		_ = q.p.tmpfile.Close()
	}
}

// Close releases the temp files of packers still held by the manager.
func (v *VerifC44PM) Close() {
	v.pm.pm.Lock()
	defer v.pm.pm.Unlock()
	for i, p := range v.pm.packers {
		if p != nil {
			_ = p.tmpfile.Close()
			v.pm.packers[i] = nil
		}
	}
}

// VerifC44SetPacking lets a stream use small packs / several packers on a real repository so
// that many packs are produced from little data.
func VerifC44SetPacking(r *Repository, packSize uint, packerCount int) {
	r.opts.PackSize = packSize
	if packerCount > 0 {
		r.packerCount = packerCount
	}
}

func VerifC44String(q *VerifC44Packer) string {
	return fmt.Sprintf("<%d: %d blobs %d bytes>", q.Serial, q.Count, q.Size)
}
