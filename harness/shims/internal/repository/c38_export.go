//go:build verif

package repository

import "github.com/restic/restic/internal/restic"

// VerifC38LookupBlob returns pack id, offset and stored length of the first index entry of bh.
func VerifC38LookupBlob(r *Repository, bh restic.BlobHandle) (restic.ID, uint, uint, bool) {
	l := r.idx.Lookup(bh)
	if len(l) == 0 {
		return restic.ID{}, 0, 0, false
	}
	return l[0].PackID(), l[0].Blob.Offset, l[0].Blob.Length, true
}
