//go:build verif

package repository

import (
	"bytes"
	"context"

	"github.com/restic/restic/internal/backend"
	"github.com/restic/restic/internal/repository/crypto"
	"github.com/restic/restic/internal/repository/pack"
	"github.com/restic/restic/internal/restic"
)

// VerifC38LookupBlob returns pack id, offset and stored length of the first index entry of bh.
func VerifC38LookupBlob(r *Repository, bh restic.BlobHandle) (restic.ID, uint, uint, bool) {
	l := r.idx.Lookup(bh)
	if len(l) == 0 {
		return restic.ID{}, 0, 0, false
	}
	return l[0].PackID(), l[0].Blob.Offset, l[0].Blob.Length, true
}

// VerifC38AddMixedPack stores a hand-built pack holding a tree blob and a data blob side by side
// (as old restic versions wrote them) in be and adds it to the repository's index.
func VerifC38AddMixedPack(ctx context.Context, r *Repository, be backend.Backend, treeData, fileData []byte) (restic.ID, []byte, error) {
	seal := func(plain []byte) []byte {
		nonce := crypto.NewRandomNonce()
		ct := make([]byte, 0, crypto.CiphertextLength(len(plain)))
		ct = append(ct, nonce...)
		return r.key.Seal(ct, nonce, plain, nil)
	}
	var packBuf bytes.Buffer
	p := pack.NewPacker(r.Key(), &packBuf)
	if _, err := p.Add(restic.TreeBlob, restic.Hash(treeData), seal(treeData), 0); err != nil {
		return restic.ID{}, nil, err
	}
	if _, err := p.Add(restic.DataBlob, restic.Hash(fileData), seal(fileData), 0); err != nil {
		return restic.ID{}, nil, err
	}
	if err := p.Finalize(); err != nil {
		return restic.ID{}, nil, err
	}
	packBytes := packBuf.Bytes()
	packID := restic.Hash(packBytes)
	ph := backend.Handle{Type: backend.PackFile, Name: packID.String()}
	if err := be.Save(ctx, ph, backend.NewByteReader(packBytes, be.Hasher())); err != nil {
		return restic.ID{}, nil, err
	}
	if err := r.idx.StorePack(ctx, packID, p.Blobs(), &internalRepository{r}); err != nil {
		return restic.ID{}, nil, err
	}
	return packID, packBytes, nil
}
