//go:build verif

package repository

import (
	"context"

	"github.com/restic/restic/internal/restic"
)

// VerifC15SaveIndexCopy stores the plaintext of an index file once more (fresh nonce, hence a new
// file id): the harness uses it to fabricate a duplicate index file.
func VerifC15SaveIndexCopy(ctx context.Context, r *Repository, buf []byte) (restic.ID, error) {
	return r.saveUnpacked(ctx, restic.IndexFile, buf)
}
