//go:build verif

package repository

import (
	"context"

	"github.com/restic/restic/internal/restic"
)

// VerifC33SaveUnpacked saves an unpacked file of any type (the harness writes crafted index files).
func VerifC33SaveUnpacked(ctx context.Context, r *Repository, t restic.FileType, buf []byte) (restic.ID, error) {
	return r.saveUnpacked(ctx, t, buf)
}
