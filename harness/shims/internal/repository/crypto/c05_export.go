//go:build verif

package crypto

// VerifFactsC05 exposes the size constants of this package (values of the *current* source).
func VerifFactsC05() map[string]int64 {
	return map[string]int64{
		"crypto_ivSize":      int64(ivSize),
		"crypto_macSize":     int64(macSize),
		"crypto_aesKeySize":  int64(aesKeySize),
		"crypto_macKeySizeK": int64(macKeySizeK),
		"crypto_macKeySizeR": int64(macKeySizeR),
		"crypto_saltLength":  int64(saltLength),
	}
}

// VerifC05ValidNonce exports validNonce.
func VerifC05ValidNonce(nonce []byte) bool { return validNonce(nonce) }
