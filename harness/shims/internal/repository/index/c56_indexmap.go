//go:build verif

package index

import (
	"hash/maphash"

	"github.com/restic/restic/internal/restic"
)

// VerifC56Map exports the unexported indexMap for the C56 correspondence stream.
type VerifC56Map struct {
	m indexMap
}

// VerifC56Entry is the user-visible part of an indexEntry.
type VerifC56Entry struct {
	ID                                 restic.ID
	PackIndex, Offset, Length, ULength uint32
}

func verifC56Entry(e *indexEntry) VerifC56Entry {
	return VerifC56Entry{ID: e.id, PackIndex: e.packIndex, Offset: e.offset, Length: e.length, ULength: e.uncompressedLength}
}

func (v *VerifC56Map) Add(e VerifC56Entry) {
	v.m.add(e.ID, e.PackIndex, e.Offset, e.Length, e.ULength)
}

func (v *VerifC56Map) Preallocate(n int) { v.m.preallocate(n) }

func (v *VerifC56Map) ValuesWithID(id restic.ID) []VerifC56Entry {
	var res []VerifC56Entry
	for e := range v.m.valuesWithID(id) {
		res = append(res, verifC56Entry(e))
	}
	return res
}

func (v *VerifC56Map) Get(id restic.ID) (VerifC56Entry, bool) {
	e := v.m.get(id)
	if e == nil {
		return VerifC56Entry{}, false
	}
	return verifC56Entry(e), true
}

func (v *VerifC56Map) FirstIndex(id restic.ID) int { return v.m.firstIndex(id) }

func (v *VerifC56Map) Values() []VerifC56Entry {
	var res []VerifC56Entry
	for e := range v.m.values() {
		res = append(res, verifC56Entry(e))
	}
	return res
}

func (v *VerifC56Map) Len() uint { return v.m.len() }

// NumBuckets is len(m.buckets) (0 before the lazy initialisation).
func (v *VerifC56Map) NumBuckets() int { return len(v.m.buckets) }

// Bucket is the real m.hash(id) (only valid once the table is initialised).
func (v *VerifC56Map) Bucket(id restic.ID) uint { return v.m.hash(id) }

// Hash64 is the unmasked 64-bit hash that m.hash(id) reduces modulo the table size. The harness
// cross-checks Hash64(id) & (NumBuckets-1) == Bucket(id) for every id it reports.
func (v *VerifC56Map) Hash64(id restic.ID) uint64 {
	mh := maphash.Hash{}
	mh.SetSeed(v.m.mh.Seed())
	_, _ = mh.Write(id[:])
	return mh.Sum64()
}
