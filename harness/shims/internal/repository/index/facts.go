//go:build verif

package index

func VerifFacts() map[string]int64 {
	return map[string]int64{
		"index_indexMaxBlobs": int64(indexMaxBlobs),
		"index_maxLoad":       int64(maxLoad),
		"index_bloomShift":    int64(bloomShift),
	}
}
