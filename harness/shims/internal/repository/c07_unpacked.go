//go:build verif

package repository

import (
	"bytes"
	"context"

	"github.com/restic/restic/internal/repository/crypto"
	"github.com/restic/restic/internal/restic"
)

// VerifC07Save calls the unexported saveUnpacked (all file types, incl. index / lock / config).
func VerifC07Save(r *Repository, t restic.FileType, buf []byte) (restic.ID, error) {
	return r.saveUnpacked(context.Background(), t, buf)
}

func VerifC07Compress(r *Repository, p []byte) ([]byte, error)   { return r.compressUnpacked(p) }
func VerifC07Decompress(r *Repository, p []byte) ([]byte, error) { return r.decompressUnpacked(p) }

// VerifC07Version is the repository format version the code paths consult.
func VerifC07Version(r *Repository) uint { return r.cfg.Version }

// VerifFactsC07 derives the encoding constants of compressUnpacked / decompressUnpacked by
// *running* the current code on a bare Repository value (no backend needed): the version byte
// written in front of compressed files, the first version that compresses, and the set of first
// bytes for which a version-2 repository returns the stored bytes unchanged (legacy raw JSON).
func VerifFactsC07() map[string]int64 {
	m := map[string]int64{
		"restic_ConfigFile":   int64(restic.ConfigFile),
		"restic_IndexFile":    int64(restic.IndexFile),
		"restic_SnapshotFile": int64(restic.SnapshotFile),
		"restic_LockFile":     int64(restic.LockFile),
		"restic_KeyFile":      int64(restic.KeyFile),
		"crypto_ivSize":       int64(crypto.NewRandomKey().NonceSize()),
		"crypto_macSize":      int64(crypto.NewRandomKey().Overhead()),
	}
	probe := []byte("verif-probe-payload")
	minV := int64(-1)
	for v := uint(0); v <= 6; v++ {
		r := &Repository{cfg: restic.Config{Version: v}}
		out, err := r.compressUnpacked(probe)
		if err == nil && !bytes.Equal(out, probe) {
			minV = int64(v)
			break
		}
	}
	m["unpacked_minCompressVersion"] = minV
	r := &Repository{cfg: restic.Config{Version: 2}}
	out, err := r.compressUnpacked(probe)
	if err == nil && len(out) > 0 && !bytes.Equal(out, probe) {
		m["unpacked_versionByte"] = int64(out[0])
	} else {
		m["unpacked_versionByte"] = -1
	}
	var raw []int64
	for b := 0; b < 256; b++ {
		in := []byte{byte(b), 0xAA, 0xBB}
		res, err := r.decompressUnpacked(in)
		if err == nil && bytes.Equal(res, in) {
			raw = append(raw, int64(b))
		}
	}
	m["unpacked_rawByteCount"] = int64(len(raw))
	for i := 0; i < 2; i++ {
		v := int64(-1)
		if i < len(raw) {
			v = raw[i]
		}
		m["unpacked_rawByte"+string(rune('0'+i))] = v
	}
	return m
}
