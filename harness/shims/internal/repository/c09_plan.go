//go:build verif

package repository

import (
	"context"
	"sort"

	"github.com/restic/restic/internal/backend"
	"github.com/restic/restic/internal/repository/index"
	"github.com/restic/restic/internal/repository/pack"
	"github.com/restic/restic/internal/restic"
)

// Export shims for C09/C10 (prune planning). Nothing here re-implements prune logic: the
// functions only build inputs for, and read the unexported results of, the real PlanPrune.

// VerifC09Entry is one index entry (one blob stored in one pack).
type VerifC09Entry struct {
	Pack    restic.ID
	Type    restic.BlobType
	ID      restic.ID
	Offset  uint
	Length  uint // ciphertext length
	ULength uint // uncompressed length, 0 = stored uncompressed
}

// VerifC09SynthRepo returns a Repository over be (no key needed for planning) whose in-memory
// master index holds exactly the given entries: groups[i] becomes one index "file" (entries of one
// pack inside a group are stored together, in the given order), all merged like LoadIndex does.
func VerifC09SynthRepo(be backend.Backend, version uint, groups [][]VerifC09Entry) *Repository {
	repo, err := New(be, Options{})
	if err != nil {
		panic(err)
	}
	repo.cfg = restic.Config{Version: version, ID: "verif"}
	mi := index.NewMasterIndex()
	for gi, g := range groups {
		idx := index.NewIndex()
		var order []restic.ID
		byPack := map[restic.ID]pack.Blobs{}
		for _, e := range g {
			if _, ok := byPack[e.Pack]; !ok {
				order = append(order, e.Pack)
			}
			byPack[e.Pack] = append(byPack[e.Pack], pack.Blob{
				BlobHandle:         restic.BlobHandle{Type: e.Type, ID: e.ID},
				Offset:             e.Offset,
				Length:             e.Length,
				UncompressedLength: e.ULength,
			})
		}
		for _, p := range order {
			idx.StorePack(p, byPack[p])
		}
		idx.Finalize()
		if err := idx.SetID(restic.Hash([]byte{byte(gi), byte(gi >> 8), 'i', 'd', 'x'})); err != nil {
			panic(err)
		}
		mi.Insert(idx)
	}
	if err := mi.MergeFinalIndexes(); err != nil {
		panic(err)
	}
	repo.idx = mi
	return repo
}

// VerifC09ListBlobs returns the entries of the repository's loaded index in ListBlobs order (the
// order every pass of packInfoFromIndex sees).
func VerifC09ListBlobs(repo *Repository) []VerifC09Entry {
	var res []VerifC09Entry
	_ = repo.ListBlobs(context.Background(), func(pb restic.PackBlob) {
		p := pb.(*pack.PackedBlob)
		res = append(res, VerifC09Entry{Pack: p.Pack, Type: p.Blob.Type, ID: p.Blob.ID, Offset: p.Blob.Offset,
			Length: p.Blob.Length, ULength: p.Blob.UncompressedLength})
	})
	return res
}

// VerifC09Plan is the content of a PrunePlan.
type VerifC09Plan struct {
	RemoveFirst, Repack, Remove, Ignore restic.IDs
	KeepNil                             bool
	Keep                                restic.BlobHandles // sorted, without repetitions
	Stats                               PruneStats
}

func verifC09IDs(s restic.IDSet) restic.IDs {
	l := s.List()
	sort.Sort(l)
	return l
}

func VerifC09PlanSets(p *PrunePlan) VerifC09Plan {
	res := VerifC09Plan{
		RemoveFirst: verifC09IDs(p.removePacksFirst),
		Repack:      verifC09IDs(p.repackPacks),
		Remove:      verifC09IDs(p.removePacks),
		Ignore:      verifC09IDs(p.ignorePacks),
		KeepNil:     p.keepBlobs == nil,
		Stats:       p.stats,
	}
	if p.keepBlobs != nil {
		seen := restic.NewBlobSet()
		for bh := range p.keepBlobs.Keys() {
			if !seen.Has(bh) {
				seen.Insert(bh)
				res.Keep = append(res.Keep, bh)
			}
		}
		sort.Sort(res.Keep)
	}
	return res
}

// VerifC09Connections exposes the connection count PlanPrune checks.
func VerifC09Connections(be backend.Backend) uint { return be.Properties().Connections }

// VerifC09ListPack returns the blobs listed in the header of a pack file.
func VerifC09ListPack(repo *Repository, id restic.ID, size int64) (pack.Blobs, error) {
	return repo.listPack(context.Background(), id, size)
}
