//go:build verif

package repository

import (
	"context"
	"time"
)

// VerifC13Lock runs the real locker.Lock (newLock, then the refreshLocks and monitorLockRefresh
// goroutines) with shortened intervals, exactly as the repository's own tests build a locker.
func VerifC13Lock(ctx context.Context, repo *Repository, exclusive bool, refreshInterval, refreshabilityTimeout time.Duration,
	logger func(format string, args ...any)) (func(), context.Context, error) {
	li := &locker{
		retrySleepStart:       lockerInst.retrySleepStart,
		retrySleepMax:         lockerInst.retrySleepMax,
		refreshInterval:       refreshInterval,
		refreshabilityTimeout: refreshabilityTimeout,
	}
	return li.Lock(ctx, repo, exclusive, 0, func(string) {}, logger)
}
