//go:build verif

package data

import "time"

// VerifFactsC22 probes the bucket key functions of the current source: the coefficient of a
// civil field is the change of the key when only that field is increased by one; the offset is
// what remains of the key of the base time after subtracting the linear part (0 for the
// formulas YYYYMMDDHH, YYYYMMDD, YYYYWW, YYYYMM, YYYY).
func VerifFactsC22() map[string]int64 {
	base := time.Date(2001, 2, 3, 4, 0, 0, 0, time.UTC) // Saturday, ISO week 5 of 2001
	diff := func(f func(time.Time, int) int, t time.Time) int64 { return int64(f(t, 0) - f(base, 0)) }
	// a time with the same ISO week number in the next ISO year
	nextIsoYear := base
	for i := 0; i < 800; i++ {
		nextIsoYear = nextIsoYear.AddDate(0, 0, 1)
		y, w := nextIsoYear.ISOWeek()
		if y == 2002 && w == 5 {
			break
		}
	}
	m := map[string]int64{
		"data_ymdh_year":  diff(ymdh, base.AddDate(1, 0, 0)),
		"data_ymdh_month": diff(ymdh, base.AddDate(0, 1, 0)),
		"data_ymdh_day":   diff(ymdh, base.AddDate(0, 0, 1)),
		"data_ymdh_hour":  diff(ymdh, base.Add(time.Hour)),
		"data_ymd_year":   diff(ymd, base.AddDate(1, 0, 0)),
		"data_ymd_month":  diff(ymd, base.AddDate(0, 1, 0)),
		"data_ymd_day":    diff(ymd, base.AddDate(0, 0, 1)),
		"data_yw_year":    diff(yw, nextIsoYear),
		"data_yw_week":    diff(yw, base.AddDate(0, 0, 7)),
		"data_ym_year":    diff(ym, base.AddDate(1, 0, 0)),
		"data_ym_month":   diff(ym, base.AddDate(0, 1, 0)),
		"data_y_year":     diff(y, base.AddDate(1, 0, 0)),
		"data_always_nr":  int64(always(base, 7)),
	}
	m["data_ymdh_offset"] = int64(ymdh(base, 0)) - (2001*m["data_ymdh_year"] + 2*m["data_ymdh_month"] + 3*m["data_ymdh_day"] + 4*m["data_ymdh_hour"])
	m["data_ymd_offset"] = int64(ymd(base, 0)) - (2001*m["data_ymd_year"] + 2*m["data_ymd_month"] + 3*m["data_ymd_day"])
	m["data_yw_offset"] = int64(yw(base, 0)) - (2001*m["data_yw_year"] + 5*m["data_yw_week"])
	m["data_ym_offset"] = int64(ym(base, 0)) - (2001*m["data_ym_year"] + 2*m["data_ym_month"])
	m["data_y_offset"] = int64(y(base, 0)) - 2001*m["data_y_year"]
	return m
}

// VerifC22FindLatest exports findLatestTimestamp.
func VerifC22FindLatest(list Snapshots) time.Time { return findLatestTimestamp(list) }
