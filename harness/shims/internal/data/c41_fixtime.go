//go:build verif

package data

import "time"

// VerifC41FixTime exports fixTime for the C41 correspondence harness.
func VerifC41FixTime(t time.Time) time.Time { return fixTime(t) }
