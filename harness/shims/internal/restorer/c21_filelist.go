//go:build verif

package restorer

// VerifC21FileList exports the restorer's record of which snapshot locations were restored
// (value false) or only had their metadata updated (value true).
func VerifC21FileList(res *Restorer) map[string]bool {
	m := make(map[string]bool, len(res.fileList))
	for k, v := range res.fileList {
		m[k] = v
	}
	return m
}
