//go:build verif

package restorer

func VerifFacts() map[string]int64 {
	return map[string]int64{"restorer_largeFileBlobCount": int64(largeFileBlobCount)}
}
