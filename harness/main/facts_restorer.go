//go:build verif

package main

import "github.com/restic/restic/internal/restorer"

var _ = verifRegisterFacts(restorer.VerifFacts)
