//go:build verif

package main

// C09 / C10 — prune. Three kinds of cases:
//
//   plan   real PlanPrune (via export shim) on synthetic indexes / listings and on the real
//          repositories of the histories below: inputs in ListBlobs order + the plan + statistics.
//   trace  a real `restic prune …` run through the CLI on a recording backend: decoded initial
//          state, decoded operation sequence, used blobs.
//   crash  the same prune re-run on a copy of the initial state with the backend failing after k
//          completed mutations (every k), followed by REAL `check --read-data` and `dump` of every
//          snapshot (hash compared with before), then prune re-run to completion and checked again.
//   full   (C10) before/after state + `prune --json` statistics of a completed full prune.

import (
	"context"
	"crypto/sha256"
	"encoding/hex"
	"encoding/json"
	"errors"
	"fmt"
	"os"
	"path/filepath"
	"sort"
	"strings"

	"github.com/restic/restic/internal/backend"
	"github.com/restic/restic/internal/backend/mem"
	"github.com/restic/restic/internal/repository"
	"github.com/restic/restic/internal/repository/index"
	"github.com/restic/restic/internal/repository/pack"
	"github.com/restic/restic/internal/restic"
)

var _ = verifRegister("C09plan", streamC09plan)
var _ = verifRegister("C09", streamC09)
var _ = verifRegister("C10", streamC10)

// ---------------------------------------------------------------- tokens

func c09ID(id restic.ID) string { return id.String()[:16] }

func c09BH(h restic.BlobHandle) string {
	t := "d"
	if h.Type == restic.TreeBlob {
		t = "t"
	} else if h.Type != restic.DataBlob {
		t = "x"
	}
	return t + ":" + c09ID(h.ID)
}

func c09Entry(b pack.Blob) string {
	return fmt.Sprintf("%s:%d:%d:%s", c09BH(b.BlobHandle), b.Offset, b.Length, B(!b.IsCompressed()))
}

func c09IDs(l restic.IDs) []string {
	r := make([]string, len(l))
	for i, id := range l {
		r[i] = c09ID(id)
	}
	sort.Strings(r)
	return r
}

// ---------------------------------------------------------------- options

type c09Opts struct {
	CacheableOnly bool
	Uncompressed  bool
	Small         uint64 // --repack-smaller-than, 0 = unset
	MaxRepack     uint64 // ^0 = unlimited
	MaxUnused     string // "0", "0%", "5%", "unlimited", "<n>"
	Version       uint
}

func (o c09Opts) unusedFunc() func(uint64) uint64 {
	switch o.MaxUnused {
	case "unlimited":
		return func(uint64) uint64 { return ^uint64(0) }
	case "0", "0%":
		return func(uint64) uint64 { return 0 }
	case "5%":
		return func(used uint64) uint64 { return uint64(5.0 / (100 - 5.0) * float64(used)) }
	}
	var n uint64
	fmt.Sscan(o.MaxUnused, &n)
	return func(uint64) uint64 { return n }
}

func (o c09Opts) repoOpts() repository.PruneOptions {
	return repository.PruneOptions{
		MaxUnusedBytes:      o.unusedFunc(),
		MaxRepackBytes:      o.MaxRepack,
		SmallPackBytes:      o.Small,
		RepackCacheableOnly: o.CacheableOnly,
		RepackUncompressed:  o.Uncompressed,
	}
}

// cliArgs gives the command line of `restic prune` for the option set.
func (o c09Opts) cliArgs() []string {
	a := []string{"prune", "--max-unused", o.MaxUnused}
	if o.MaxRepack != ^uint64(0) {
		a = append(a, "--max-repack-size", U64(o.MaxRepack))
	}
	if o.Small != 0 {
		a = append(a, "--repack-smaller-than", U64(o.Small))
	}
	if o.CacheableOnly {
		a = append(a, "--repack-cacheable-only")
	}
	if o.Uncompressed {
		a = append(a, "--repack-uncompressed")
	}
	return a
}

func (o c09Opts) rec(h *H, packSize uint, conns uint) {
	zero := "other"
	if o.MaxUnused == "0" || o.MaxUnused == "0%" {
		zero = "zero"
	}
	h.Rec("opts", B(o.CacheableOnly), B(o.Uncompressed), U64(o.Small), U64(o.MaxRepack), zero, Itoa(int(o.Version)), Itoa(int(packSize)), Itoa(int(conns)), o.MaxUnused)
}

func c09ErrKind(err error, panicMsg string) string {
	switch {
	case panicMsg != "":
		if strings.Contains(panicMsg, "internal error during blob selection") {
			return "panicSelection"
		}
		return "panic:" + strings.ReplaceAll(panicMsg, " ", "_")
	case errors.Is(err, repository.ErrIndexIncomplete):
		return "indexIncomplete"
	case errors.Is(err, repository.ErrPacksMissing):
		return "packsMissing"
	case errors.Is(err, repository.ErrSizeNotMatching):
		return "sizeNotMatching"
	}
	m := err.Error()
	if strings.Contains(m, "connection limit") || strings.Contains(m, "compression requires") || strings.Contains(m, "repack-smaller-than") {
		return "badOptions"
	}
	return "other:" + strings.ReplaceAll(m, " ", "_")
}

func c09Stats(h *H, s repository.PruneStats) {
	b, z, p := s.Blobs, s.Size, s.Packs
	h.Rec("stats",
		U64(uint64(b.Used)), U64(uint64(b.Duplicate)), U64(uint64(b.Unused)), U64(uint64(b.Total)), U64(uint64(b.Repack)), U64(uint64(b.Repackrm)), U64(uint64(b.Remove)), U64(uint64(b.RemoveTotal)), U64(uint64(b.Remain)),
		U64(z.Used), U64(z.Duplicate), U64(z.Unused), U64(z.Unref), U64(z.Uncompressed), U64(z.Total), U64(z.Repack), U64(z.Repackrm), U64(z.Remove), U64(z.RemoveTotal), U64(z.Remain), U64(z.RemainUnused),
		U64(uint64(p.Used)), U64(uint64(p.Unused)), U64(uint64(p.PartlyUsed)), U64(uint64(p.Unref)), U64(uint64(p.Total)), U64(uint64(p.Keep)), U64(uint64(p.Repack)), U64(uint64(p.Remove)), U64(uint64(p.RemoveTotal)))
}

// c09PlanCase runs the real PlanPrune on repo (index already loaded / synthesised) and writes one
// `plan` case. It never modifies the repository.
func c09PlanCase(h *H, origin string, repo *repository.Repository, used []restic.BlobHandle, o c09Opts) {
	h.Case("plan")
	h.Rec("origin", origin)
	o.rec(h, repo.PackSize(), repo.Connections())
	toks := make([]string, len(used))
	for i, u := range used {
		toks[i] = c09BH(u)
	}
	h.Rec("used", toks...)
	for _, e := range repository.VerifC09ListBlobs(repo) {
		h.Rec("pb", c09ID(e.Pack), c09Entry(pack.Blob{BlobHandle: restic.BlobHandle{Type: e.Type, ID: e.ID}, Offset: e.Offset, Length: e.Length, UncompressedLength: e.ULength}))
	}
	_ = repo.List(context.Background(), restic.PackFile, func(id restic.ID, size int64) error {
		h.Rec("pack", c09ID(id), I64(size))
		return nil
	})
	var plan *repository.PrunePlan
	var err error
	panicked, msg := Protect(func() {
		plan, err = repository.PlanPrune(context.Background(), o.repoOpts(), repo, func(ctx context.Context, _ restic.Repository, set restic.FindBlobSet) error {
			for _, u := range used {
				set.Insert(u)
			}
			return nil
		}, restic.NewNoopPrinter())
	})
	if !panicked {
		msg = ""
	}
	if panicked || err != nil {
		h.Rec("res", "err", c09ErrKind(err, msg))
		h.End()
		return
	}
	ps := repository.VerifC09PlanSets(plan)
	h.Rec("res", "ok")
	h.Rec("rf", c09IDs(ps.RemoveFirst)...)
	h.Rec("rp", c09IDs(ps.Repack)...)
	h.Rec("rm", c09IDs(ps.Remove)...)
	h.Rec("ig", c09IDs(ps.Ignore)...)
	if ps.KeepNil {
		h.Rec("keep", "nil")
	} else {
		k := []string{"some"}
		for _, b := range ps.Keep {
			k = append(k, c09BH(b))
		}
		sort.Strings(k[1:])
		h.Rec("keep", k...)
	}
	c09Stats(h, ps.Stats)
	h.End()
}

// ---------------------------------------------------------------- synthetic plan inputs

func c09RandOpts(h *H, full bool) c09Opts {
	o := c09Opts{MaxRepack: ^uint64(0), MaxUnused: "0", Version: 2}
	if full {
		if h.Bool() {
			o.MaxUnused = "0%"
		}
		if h.Intn(3) == 0 {
			o.Small = []uint64{300, 2000, 20000}[h.Intn(3)]
		}
		if h.Intn(4) == 0 {
			o.Uncompressed = true
		}
		if h.Intn(8) == 0 {
			o.Version = 1
			o.Uncompressed = false
		}
		return o
	}
	o.MaxUnused = h.Pick([]string{"0", "0%", "5%", "5%", "unlimited", "300", "5000"})
	switch h.Intn(5) {
	case 0:
		o.MaxRepack = 0
	case 1:
		o.MaxRepack = uint64(500 + h.Intn(20000))
	}
	if h.Intn(3) == 0 {
		o.Small = []uint64{300, 2000, 20000}[h.Intn(3)]
	}
	o.CacheableOnly = h.Intn(5) == 0
	o.Uncompressed = h.Intn(4) == 0
	if h.Intn(8) == 0 {
		o.Version = 1
		if h.Intn(3) != 0 {
			o.Uncompressed = false
		}
	}
	return o
}

func c09SynthCase(h *H, n int, full bool) {
	id := func(kind string, i int) restic.ID { return restic.Hash([]byte(fmt.Sprintf("%s-%d-%d-%d", kind, h.Seed, n, i))) }
	nBlobs := 1 + h.Intn(24)
	nPacks := 1 + h.Intn(10)
	many := h.Intn(15) == 0 // counter saturation: one blob in > 255 packs
	smallRule := h.Intn(6) == 0
	if smallRule {
		nPacks = 8 + h.Intn(10)
	}
	type blob struct {
		h    restic.BlobHandle
		len  uint
		ulen uint
	}
	blobs := make([]blob, nBlobs)
	treeShare := h.Intn(4)
	for i := range blobs {
		t := restic.DataBlob
		if h.Intn(4) < treeShare {
			t = restic.TreeBlob
		}
		l := uint(33 + h.Intn(3000))
		ul := uint(0)
		if h.Intn(3) != 0 {
			ul = l + uint(h.Intn(100))
		}
		blobs[i] = blob{restic.BlobHandle{Type: t, ID: id("b", i)}, l, ul}
	}
	var groups [][]repository.VerifC09Entry
	nGroups := 1 + h.Intn(3)
	groups = make([][]repository.VerifC09Entry, nGroups)
	type pk struct {
		id   restic.ID
		size int64
	}
	var packs []pk
	dupProb := h.Intn(4) // 0: no deliberate duplicates
	usedOnce := map[int]bool{}
	for p := 0; p < nPacks; p++ {
		pid := id("p", p)
		ne := h.Intn(6)
		if smallRule {
			ne = 1 + h.Intn(2)
		}
		mixed := h.Intn(8) == 0
		var want restic.BlobType
		size := int64(36)
		off := uint(0)
		g := h.Intn(nGroups)
		for e := 0; e < ne; e++ {
			bi := h.Intn(nBlobs)
			if dupProb == 0 || smallRule {
				// avoid duplicates: pick an unused blob index if possible
				for t := 0; t < 5 && usedOnce[bi]; t++ {
					bi = h.Intn(nBlobs)
				}
				if usedOnce[bi] {
					continue
				}
			}
			usedOnce[bi] = true
			b := blobs[bi]
			if e == 0 {
				want = b.h.Type
			} else if !mixed && b.h.Type != want {
				continue
			}
			ul := b.ulen
			if h.Intn(10) == 0 { // a copy stored with the other compression state
				if ul == 0 {
					ul = b.len + 7
				} else {
					ul = 0
				}
			}
			if h.Intn(12) == 0 && nGroups > 1 {
				g = h.Intn(nGroups) // pack split over index files
			}
			groups[g] = append(groups[g], repository.VerifC09Entry{Pack: pid, Type: b.h.Type, ID: b.h.ID, Offset: off, Length: b.len, ULength: ul})
			off += b.len
			size += int64(b.len)
			if ul != 0 {
				size += 41
			} else {
				size += 37
			}
		}
		packs = append(packs, pk{pid, size})
	}
	if many {
		b := blobs[0]
		cnt := 250 + h.Intn(12)
		for p := 0; p < cnt; p++ {
			pid := id("m", p)
			groups[0] = append(groups[0], repository.VerifC09Entry{Pack: pid, Type: b.h.Type, ID: b.h.ID, Length: b.len, ULength: b.ulen})
			sz := int64(36) + int64(b.len) + 37
			if b.ulen != 0 {
				sz += 4
			}
			if h.Intn(3) == 0 { // some of them with another, unused blob
				u := restic.BlobHandle{Type: b.h.Type, ID: id("mu", p)}
				groups[0] = append(groups[0], repository.VerifC09Entry{Pack: pid, Type: u.Type, ID: u.ID, Offset: b.len, Length: 50})
				sz += 50 + 37
			}
			packs = append(packs, pk{pid, sz})
		}
	}
	be := mem.New()
	save := func(id restic.ID, size int64) {
		if size < 0 {
			size = 0
		}
		_ = be.Save(context.Background(), backend.Handle{Type: backend.PackFile, Name: id.String()}, backend.NewByteReader(make([]byte, size), be.Hasher()))
	}
	missProb, wrongProb := 0, 0
	switch h.Intn(5) {
	case 0:
		missProb = 15
	case 1:
		wrongProb = 10
	case 2:
		missProb, wrongProb = 8, 4
	}
	for _, p := range packs {
		if h.Intn(100) < missProb || (p.size == 36 && h.Intn(4) != 0) {
			continue
		}
		sz := p.size
		if h.Intn(100) < wrongProb {
			sz += int64(h.Intn(9)) - 4
		}
		save(p.id, sz)
	}
	for i := h.Intn(3); i > 0 && h.Intn(3) == 0; i-- {
		save(id("unref", i), int64(100+h.Intn(1000)))
	}
	var used []restic.BlobHandle
	usedProb := 20 + h.Intn(75)
	placed := map[restic.ID]bool{}
	for _, g := range groups {
		for _, e := range g {
			placed[e.ID] = true
		}
	}
	for _, b := range blobs {
		if placed[b.h.ID] && h.Intn(100) < usedProb {
			used = append(used, b.h)
		}
	}
	if h.Intn(25) == 0 {
		used = append(used, restic.BlobHandle{Type: restic.DataBlob, ID: id("absent", 0)})
	}
	o := c09RandOpts(h, full)
	repo := repository.VerifC09SynthRepo(be, o.Version, groups)
	c09PlanCase(h, "synth", repo, used, o)
}

func streamC09plan(h *H) {
	n := h.N(500, 12000)
	for i := 0; i < n; i++ {
		c09SynthCase(h, i, false)
	}
}

// ---------------------------------------------------------------- real repositories

// permBackend makes the simulated crash a permanent error, so that the retry layer does not
// spend its back-off budget on an unavailable backend.
type c09PermBackend struct{ *RecBackend }

var errFault = errors.New("verif: injected permanent failure of this backend operation")

func (p *c09PermBackend) IsPermanentError(err error) bool {
	return errors.Is(err, errCrashed) || errors.Is(err, errFault) || p.RecBackend.IsPermanentError(err)
}
func (p *c09PermBackend) Unwrap() backend.Backend { return p.RecBackend }

type c09Hist struct {
	h      *H
	be     *mem.MemoryBackend
	src    string
	nfile  int
	labels map[string]bool
}

func (x *c09Hist) label(l string) { x.labels[l] = true }

func c09NewHist(h *H) *c09Hist {
	x := &c09Hist{h: h, be: mem.New(), src: MkTemp("c09src-"), labels: map[string]bool{}}
	NewCLI(x.be).MustRun("init")
	for i := 0; i < 3+h.Intn(5); i++ {
		x.addFile()
	}
	return x
}

func (x *c09Hist) Close() { os.RemoveAll(x.src) }

func (x *c09Hist) content() []byte {
	h := x.h
	switch h.Intn(6) {
	case 0:
		return []byte(strings.Repeat("compressible text ", 20+h.Intn(200)))
	case 1:
		return h.Bytes(1 + h.Intn(40))
	default:
		return h.Bytes(100 + h.Intn(4000))
	}
}

func (x *c09Hist) addFile() {
	x.nfile++
	dir := x.src
	if x.h.Intn(3) == 0 {
		dir = filepath.Join(x.src, fmt.Sprintf("d%d", x.h.Intn(3)))
		_ = os.MkdirAll(dir, 0o755)
	}
	_ = os.WriteFile(filepath.Join(dir, fmt.Sprintf("f%d", x.nfile)), x.content(), 0o644)
}

func (x *c09Hist) files() []string {
	var l []string
	_ = filepath.Walk(x.src, func(p string, fi os.FileInfo, err error) error {
		if err == nil && fi.Mode().IsRegular() {
			l = append(l, p)
		}
		return nil
	})
	sort.Strings(l)
	return l
}

func (x *c09Hist) mutate() {
	h := x.h
	for i := 0; i < 1+h.Intn(4); i++ {
		fl := x.files()
		switch {
		case len(fl) > 2 && h.Intn(3) == 0:
			_ = os.Remove(fl[h.Intn(len(fl))])
		case len(fl) > 0 && h.Intn(3) == 0:
			_ = os.WriteFile(fl[h.Intn(len(fl))], x.content(), 0o644)
		case len(fl) > 0 && h.Intn(4) == 0: // same content under a new name (deduplicated)
			b, _ := os.ReadFile(fl[h.Intn(len(fl))])
			x.nfile++
			_ = os.WriteFile(filepath.Join(x.src, fmt.Sprintf("c%d", x.nfile)), b, 0o644)
		default:
			x.addFile()
		}
	}
}

func (x *c09Hist) backupArgs() []string {
	a := []string{"backup", "--host", "h", x.src}
	if x.h.Intn(4) == 0 {
		a = append([]string{"--compression", "off"}, a...)
		x.label("uncompressed-backup")
	}
	return a
}

func (x *c09Hist) backup() {
	x.mutate()
	NewCLI(x.be).MustRun(x.backupArgs()...)
}

func c09Snapshots(be backend.Backend) []string {
	r := NewCLI(be).MustRun("snapshots", "--json", "--no-lock")
	var l []struct {
		ID string `json:"id"`
	}
	if err := json.Unmarshal([]byte(r.Stdout), &l); err != nil {
		panic(fmt.Sprintf("snapshots --json: %v: %.200s", err, r.Stdout))
	}
	var ids []string
	for _, s := range l {
		ids = append(ids, s.ID)
	}
	sort.Strings(ids)
	return ids
}

func (x *c09Hist) forgetOne() {
	ids := c09Snapshots(x.be)
	if len(ids) < 2 {
		return
	}
	NewCLI(x.be).MustRun("forget", ids[x.h.Intn(len(ids))])
	x.label("forget")
}

// two backups that do not know of each other (e.g. two hosts at the same time): the new blobs
// they have in common end up in different packs => duplicates.
func (x *c09Hist) concurrentBackups() {
	x.mutate()
	st := DumpBackend(x.be)
	a, b := LoadBackend(st), LoadBackend(st)
	NewCLI(a).MustRun(x.backupArgs()...)
	x.addFile()
	NewCLI(b).MustRun(x.backupArgs()...)
	merged := DumpBackend(a)
	for k, v := range DumpBackend(b) {
		merged[k] = v
	}
	x.be = LoadBackend(merged)
	x.label("concurrent-backups")
}

// a backup cut after some uploads: packs without index entries / snapshot
func (x *c09Hist) interruptedBackup() {
	x.mutate()
	rec := NewRecBackend(x.be)
	rec.CrashAfter = 1 + x.h.Intn(3)
	cli := NewCLI(&c09PermBackend{rec})
	cli.Run(x.backupArgs()...)
	NewCLI(x.be).Run("unlock", "--remove-all")
	x.label("interrupted-backup")
}

func (x *c09Hist) interruptedPrune() {
	rec := NewRecBackend(x.be)
	rec.CrashAfter = 1 + x.h.Intn(12)
	cli := NewCLI(&c09PermBackend{rec})
	o := c09Opts{MaxRepack: ^uint64(0), MaxUnused: "0", Version: 2}
	cli.Run(o.cliArgs()...)
	NewCLI(x.be).Run("unlock", "--remove-all")
	x.label("interrupted-prune")
}

// c09Load opens the repository, loads the index and computes the used blobs of all snapshots
// with the real getUsedBlobs of cmd/restic.
type c09RecSet struct {
	seen map[restic.BlobHandle]bool
	l    []restic.BlobHandle
}

func (s *c09RecSet) Has(bh restic.BlobHandle) bool { return s.seen[bh] }
func (s *c09RecSet) Insert(bh restic.BlobHandle) {
	if !s.seen[bh] {
		s.seen[bh] = true
		s.l = append(s.l, bh)
	}
}

func c09Load(be backend.Backend) (*repository.Repository, []restic.BlobHandle, error) {
	repo := OpenRepoOn(be, "geheim")
	if err := repo.LoadIndex(context.Background(), restic.NewNoopPrinter()); err != nil {
		return nil, nil, err
	}
	set := &c09RecSet{seen: map[restic.BlobHandle]bool{}}
	if err := getUsedBlobs(context.Background(), repo, set, restic.NewIDSet(), restic.NewNoopPrinter()); err != nil {
		return repo, nil, err
	}
	sort.Slice(set.l, func(i, j int) bool { return c09BH(set.l[i]) < c09BH(set.l[j]) })
	return repo, set.l, nil
}

// dropPack removes a pack file behind restic's back: either one that holds no used blob at all
// (=> "missing but unneeded pack"), or one whose used blobs all have another copy in a present
// pack (the snapshots stay restorable through the other copies).
func (x *c09Hist) dropPack() {
	repo, used, err := c09Load(x.be)
	if err != nil {
		return
	}
	isUsed := map[restic.BlobHandle]bool{}
	for _, u := range used {
		isUsed[u] = true
	}
	present := map[restic.ID]bool{}
	_ = repo.List(context.Background(), restic.PackFile, func(id restic.ID, _ int64) error { present[id] = true; return nil })
	copies := map[restic.BlobHandle]int{}
	entries := repository.VerifC09ListBlobs(repo)
	for _, e := range entries {
		if present[e.Pack] {
			copies[restic.BlobHandle{Type: e.Type, ID: e.ID}]++
		}
	}
	byPack := map[restic.ID][]restic.BlobHandle{}
	for _, e := range entries {
		if present[e.Pack] {
			byPack[e.Pack] = append(byPack[e.Pack], restic.BlobHandle{Type: e.Type, ID: e.ID})
		}
	}
	var cand []restic.ID
	for p, bl := range byPack {
		ok := true
		for _, b := range bl {
			if isUsed[b] && copies[b] < 2 {
				ok = false
			}
		}
		if ok {
			cand = append(cand, p)
		}
	}
	if len(cand) == 0 {
		return
	}
	sort.Slice(cand, func(i, j int) bool { return cand[i].String() < cand[j].String() })
	p := cand[x.h.Intn(len(cand))]
	hasUsed := false
	for _, b := range byPack[p] {
		if isUsed[b] {
			hasUsed = true
		}
	}
	_ = x.be.Remove(context.Background(), backend.Handle{Type: backend.PackFile, Name: p.String()})
	if hasUsed {
		x.label("dropped-redundant-pack")
	} else {
		x.label("dropped-unused-pack")
	}
}

// dropUnusedPacks removes every pack file that holds no used blob (the index keeps naming them).
func (x *c09Hist) dropUnusedPacks() int {
	repo, used, err := c09Load(x.be)
	if err != nil {
		return 0
	}
	isUsed := map[restic.BlobHandle]bool{}
	for _, u := range used {
		isUsed[u] = true
	}
	hasUsed := map[restic.ID]bool{}
	indexed := map[restic.ID]bool{}
	for _, e := range repository.VerifC09ListBlobs(repo) {
		indexed[e.Pack] = true
		if isUsed[restic.BlobHandle{Type: e.Type, ID: e.ID}] {
			hasUsed[e.Pack] = true
		}
	}
	n := 0
	for p := range indexed {
		if !hasUsed[p] {
			if x.be.Remove(context.Background(), backend.Handle{Type: backend.PackFile, Name: p.String()}) == nil {
				n++
			}
		}
	}
	if n > 0 {
		x.label("dropped-unused-pack")
	}
	return n
}

func (x *c09Hist) plainBackup() {
	NewCLI(x.be).MustRun("backup", "--host", "h", x.src)
}

// c09DirectedKinds: histories in which prune has exactly one kind of work to do (each phase of
// Execute is guarded by its own condition, so each must also be exercised alone).
var c09DirectedKinds = []string{"only-missing-unneeded-packs", "only-unindexed-packs", "only-unused-packs", "only-partly-used-packs", "nothing-to-do", "pruned-twice"}

func c09DirectedHistory(h *H, kind string) *c09Hist {
	x := c09NewHist(h)
	x.label("directed:" + kind)
	x.plainBackup()
	addSome := func() {
		for i := 0; i < 2+h.Intn(3); i++ {
			x.addFile()
		}
	}
	switch kind {
	case "only-missing-unneeded-packs":
		// a later snapshot is forgotten, its packs (holding nothing else) get lost; everything else is clean
		addSome()
		x.plainBackup()
		ids := c09Snapshots(x.be)
		first := c09FirstSnapshot(x.be)
		for _, id := range ids {
			if id != first {
				NewCLI(x.be).MustRun("forget", id)
			}
		}
		x.dropUnusedPacks()
	case "only-unindexed-packs":
		x.interruptedBackup()
	case "only-unused-packs":
		addSome()
		x.plainBackup()
		first := c09FirstSnapshot(x.be)
		for _, id := range c09Snapshots(x.be) {
			if id != first {
				NewCLI(x.be).MustRun("forget", id)
			}
		}
	case "only-partly-used-packs":
		fl := x.files()
		_ = os.Remove(fl[h.Intn(len(fl))])
		x.plainBackup()
		NewCLI(x.be).MustRun("forget", c09FirstSnapshot(x.be))
	case "nothing-to-do":
	case "pruned-twice":
		x.mutate()
		x.plainBackup()
		NewCLI(x.be).MustRun("forget", c09FirstSnapshot(x.be))
		NewCLI(x.be).MustRun("prune", "--max-unused", "0")
	}
	return x
}

// c09FirstSnapshot returns the id of the oldest snapshot.
func c09FirstSnapshot(be backend.Backend) string {
	r := NewCLI(be).MustRun("snapshots", "--json", "--no-lock")
	var l []struct {
		ID   string `json:"id"`
		Time string `json:"time"`
	}
	if err := json.Unmarshal([]byte(r.Stdout), &l); err != nil || len(l) == 0 {
		panic("no snapshots")
	}
	sort.Slice(l, func(i, j int) bool { return l[i].Time < l[j].Time })
	return l[0].ID
}

// c09GenHistory builds a repository by a random sequence of operations.
func c09GenHistory(h *H) *c09Hist {
	x := c09NewHist(h)
	x.backup()
	nops := 2 + h.Intn(6)
	dbg := os.Getenv("RESTIC_VERIF_DEBUG") != ""
	for i := 0; i < nops; i++ {
		op := ""
		r := h.Intn(20)
		if x.labels["dropped-unused-pack"] || x.labels["dropped-redundant-pack"] {
			// the index now names a missing pack: a new backup would deduplicate against blobs that
			// are gone (damage not caused by prune), so no more backups in this history
			if r < 7 || (r >= 11 && r < 16) {
				r = 7 + h.Intn(4) + 7*h.Intn(2) // forget or interrupted prune / drop
			}
		}
		switch {
		case r < 7:
			op = "backup"
			x.backup()
		case r < 11:
			op = "forget"
			x.forgetOne()
		case r < 14:
			op = "concurrent"
			x.concurrentBackups()
		case r < 16:
			op = "interrupted-backup"
			x.interruptedBackup()
		case r < 18:
			op = "interrupted-prune"
			x.interruptedPrune()
		default:
			op = "drop-pack"
			x.dropPack()
		}
		if dbg {
			_, ok := c09DumpHashes(x.be, c09Snapshots(x.be))
			fmt.Fprintf(os.Stderr, "history op %d %s: all snapshots dumpable=%v packs=%d\n", i, op, ok, len(DumpBackend(x.be).Names("data")))
		}
	}
	if h.Intn(2) == 0 {
		x.forgetOne()
	}
	if h.Intn(5) == 0 {
		x.dropPack()
	}
	return x
}

// c09DumpHashes: content hash of every snapshot as `dump --archive tar` delivers it.
func c09DumpHashes(be backend.Backend, snaps []string) (map[string]string, bool) {
	res := map[string]string{}
	ok := true
	for _, s := range snaps {
		r := NewCLI(be).Run("dump", "--no-lock", "--archive", "tar", s, "/")
		if r.Err != nil {
			res[s] = "error"
			ok = false
			continue
		}
		sum := sha256.Sum256([]byte(r.Stdout))
		res[s] = hex.EncodeToString(sum[:8])
	}
	return res, ok
}

// c09Verify runs the real check and dumps on a backend state; returns check ok, number of
// snapshots whose dump differs from want (or fails).
func c09Verify(be backend.Backend, snaps []string, want map[string]string) (checkOK bool, bad int, detail string) {
	r := NewCLI(be).Run("check", "--read-data", "--no-lock")
	checkOK = r.Err == nil
	if !checkOK {
		detail = strings.ReplaceAll(strings.TrimSpace(lastLines(r.Stderr, 3)), " ", "_")
	}
	got, _ := c09DumpHashes(be, snaps)
	for _, s := range snaps {
		if got[s] != want[s] {
			bad++
		}
	}
	return
}

func lastLines(s string, n int) string {
	l := strings.Split(strings.TrimSpace(s), "\n")
	if len(l) > n {
		l = l[len(l)-n:]
	}
	return strings.ReplaceAll(strings.Join(l, "|"), "\t", "_")
}

// c09DecodeState writes the decoded content of the backend state (packs with headers, index
// files, snapshots with their reachable blobs) plus the content of files saved later (`extra`).
func c09StateRecs(h *H, st BeState, extra BeState) {
	all := BeState{}
	for k, v := range st {
		all[k] = v
	}
	for k, v := range extra {
		all[k] = v
	}
	scratch := LoadBackend(all)
	repo := OpenRepoOn(scratch, "geheim")
	ctx := context.Background()
	for _, k := range all.Names("data") {
		name := k[len("data/"):]
		id, err := restic.ParseID(name)
		if err != nil {
			continue
		}
		blobs, err := repository.VerifC09ListPack(repo, id, int64(len(all[k])))
		toks := []string{c09ID(id), Itoa(len(all[k]))}
		if err != nil {
			toks = append(toks, "unreadable")
		}
		for _, b := range blobs {
			toks = append(toks, c09Entry(b))
		}
		h.Rec("packc", toks...)
	}
	for _, k := range all.Names("index") {
		id, err := restic.ParseID(k[len("index/"):])
		if err != nil {
			continue
		}
		buf, err := repo.LoadUnpacked(ctx, restic.IndexFile, id)
		if err != nil {
			h.Rec("idxbad", c09ID(id))
			continue
		}
		idx, err := index.DecodeIndex(buf, id)
		if err != nil {
			h.Rec("idxbad", c09ID(id))
			continue
		}
		byPack := map[restic.ID][]string{}
		var order []restic.ID
		for pb := range idx.Values() {
			if _, ok := byPack[pb.Pack]; !ok {
				order = append(order, pb.Pack)
			}
			byPack[pb.Pack] = append(byPack[pb.Pack], c09Entry(pb.Blob))
		}
		h.Rec("idxf", c09ID(id))
		for _, p := range order {
			h.Rec("idxc", append([]string{c09ID(id), c09ID(p)}, byPack[p]...)...)
		}
	}
	for _, k := range st.Names("") {
		i := strings.IndexByte(k, '/')
		switch k[:i] {
		case "data":
			h.Rec("has", "pack", k[i+1:][:16])
		case "index":
			h.Rec("has", "index", k[i+1:][:16])
		}
	}
}

func c09TraceRecs(h *H, evs []Event) {
	for _, e := range evs {
		if e.Err || (e.Op != "save" && e.Op != "remove") {
			continue
		}
		t := e.Type
		name := e.Name
		if len(name) > 16 {
			name = name[:16]
		}
		if name == "" {
			name = "-"
		}
		h.Rec("ev", e.Op, t, name)
	}
}

type c09PruneRun struct {
	st0    BeState
	snaps  []string
	want   map[string]string
	used   []restic.BlobHandle
	o      c09Opts
	labels []string
	ck0    bool // `check --read-data` reports no error before prune
}

// c09TraceCase: complete run on a recording backend; returns number of mutations and final state.
func c09TraceCase(h *H, run *c09PruneRun, stream string) (int, BeState, CmdResult) {
	be := LoadBackend(run.st0)
	rec := NewRecBackend(be)
	rec.KeepData = true
	cli := NewCLI(&c09PermBackend{rec})
	args := run.o.cliArgs()
	if stream == "full" {
		args = append([]string{"--json"}, args...)
	}
	r := cli.Run(args...)
	extra := BeState{}
	for _, e := range rec.Events {
		if e.Op == "save" && !e.Err && (e.Type == "data" || e.Type == "index") {
			extra[e.Type+"/"+e.Name] = e.Data
		}
	}
	h.Case(stream)
	h.Rec("labels", append([]string{"x"}, run.labels...)...)
	run.o.rec(h, 0, 0)
	toks := make([]string, len(run.used))
	for i, u := range run.used {
		toks[i] = c09BH(u)
	}
	h.Rec("used", toks...)
	c09StateRecs(h, run.st0, extra)
	c09TraceRecs(h, rec.Events)
	res := "ok"
	if r.Err != nil {
		res = "err:" + strings.ReplaceAll(lastLines(r.Err.Error(), 1), " ", "_")
	}
	h.Rec("res", res, Itoa(rec.Mutations()))
	after := DumpBackend(be)
	if stream == "full" {
		for _, k := range after.Names("data") {
			h.Rec("after", "pack", k[len("data/"):][:16])
		}
		for _, k := range after.Names("index") {
			h.Rec("after", "index", k[len("index/"):][:16])
		}
		// statistics as printed by `prune --json`
		for _, line := range strings.Split(r.Stdout, "\n") {
			if !strings.Contains(line, `"message_type":"summary"`) {
				continue
			}
			var s repository.PruneStats
			if err := json.Unmarshal([]byte(line), &s); err == nil {
				c09Stats(h, s)
			}
		}
		ckOK, bad, det := c09Verify(be, run.snaps, run.want)
		h.Rec("verify", B(ckOK), Itoa(bad), Itoa(len(run.snaps)), det)
		h.Rec("pre", B(run.ck0))
	}
	h.End()
	return rec.Mutations(), after, r
}

// c09CrashCase: prune cut after k completed mutations, then real check/dump, then prune re-run.
func c09CrashCase(h *H, run *c09PruneRun, k int, rerun bool) {
	be := LoadBackend(run.st0)
	rec := NewRecBackend(be)
	rec.CrashAfter = k
	r := NewCLI(&c09PermBackend{rec}).Run(run.o.cliArgs()...)
	done := rec.Mutations()
	NewCLI(be).Run("unlock", "--remove-all")
	h.Case("crash")
	h.Rec("labels", append([]string{"x"}, run.labels...)...)
	run.o.rec(h, 0, 0)
	h.Rec("cut", Itoa(k), Itoa(done), B(r.Err != nil), B(rec.Crashed))
	h.Rec("pre", B(run.ck0))
	ckOK, bad, det := c09Verify(be, run.snaps, run.want)
	h.Rec("verify", B(ckOK), Itoa(bad), Itoa(len(run.snaps)), det)
	if rerun {
		r2 := NewCLI(be).Run(c09Opts{MaxRepack: ^uint64(0), MaxUnused: h.Pick([]string{"0", "5%", "unlimited"}), Version: 2}.cliArgs()...)
		ckOK, bad, det = c09Verify(be, run.snaps, run.want)
		res := "ok"
		if r2.Err != nil {
			res = "err:" + strings.ReplaceAll(lastLines(r2.Err.Error(), 1), " ", "_")
		}
		h.Rec("rerun", res, B(ckOK), Itoa(bad), det)
	}
	h.End()
}

// c09FaultCase: the (k+1)-th mutating backend operation of the prune run fails permanently (every
// attempt on that file), all other operations keep working - unlike a crash, prune can go on after
// the failure. Then real check/dump, optionally prune re-run.
func c09FaultCase(h *H, run *c09PruneRun, k int, rerun bool) {
	be := LoadBackend(run.st0)
	rec := NewRecBackend(be)
	tgt, tgtOp, tgtType := "", "", ""
	rec.FailOp = func(op string, hd backend.Handle, nth int) error {
		if op != "save" && op != "remove" {
			return nil
		}
		key := op + "/" + hd.Type.String() + "/" + hd.Name
		if tgt == "" && nth == k+1 {
			tgt, tgtOp, tgtType = key, op, hd.Type.String()
		}
		if key == tgt {
			return errFault
		}
		return nil
	}
	r := NewCLI(&c09PermBackend{rec}).Run(run.o.cliArgs()...)
	done := rec.Mutations()
	NewCLI(be).Run("unlock", "--remove-all")
	h.Case("fault")
	h.Rec("labels", append([]string{"x"}, run.labels...)...)
	run.o.rec(h, 0, 0)
	h.Rec("cut", Itoa(k), Itoa(done), B(r.Err != nil), B(tgt != ""))
	h.Rec("fault", tgtOp, tgtType)
	h.Rec("pre", B(run.ck0))
	ckOK, bad, det := c09Verify(be, run.snaps, run.want)
	h.Rec("verify", B(ckOK), Itoa(bad), Itoa(len(run.snaps)), det)
	if rerun {
		r2 := NewCLI(be).Run(c09Opts{MaxRepack: ^uint64(0), MaxUnused: "0", Version: 2}.cliArgs()...)
		ckOK, bad, det = c09Verify(be, run.snaps, run.want)
		res := "ok"
		if r2.Err != nil {
			res = "err:" + strings.ReplaceAll(lastLines(r2.Err.Error(), 1), " ", "_")
		}
		h.Rec("rerun", res, B(ckOK), Itoa(bad), det)
	}
	h.End()
}

// c09ForgetPruneCases: `restic forget --prune <ids>` on the history's final state, once without
// faults and once per selected snapshot with the removal of THAT snapshot file failing permanently
// (all other operations work). Whatever snapshots are still listed afterwards must be restorable
// with unchanged content.
func c09ForgetPruneCases(h *H, run *c09PruneRun) {
	if len(run.snaps) < 2 {
		return
	}
	perm := h.Rng.Perm(len(run.snaps))
	n := 2 + h.Intn(len(run.snaps)-1)
	if n > 3 && !h.Thorough() {
		n = 3
	}
	var sel []string
	for _, i := range perm[:n] {
		sel = append(sel, run.snaps[i])
	}
	sort.Strings(sel)
	o := c09Opts{MaxRepack: ^uint64(0), MaxUnused: h.Pick([]string{"0", "5%", "unlimited"}), Version: 2}
	args := append([]string{"forget", "--prune"}, o.cliArgs()[1:]...)
	args = append(args, sel...)
	for f := -1; f < len(sel); f++ {
		be := LoadBackend(run.st0)
		rec := NewRecBackend(be)
		failed := false
		if f >= 0 {
			target := sel[f]
			rec.FailOp = func(op string, hd backend.Handle, _ int) error {
				if op == "remove" && hd.Type == backend.SnapshotFile && hd.Name == target {
					failed = true
					return errFault
				}
				return nil
			}
		}
		r := NewCLI(&c09PermBackend{rec}).Run(args...)
		NewCLI(be).Run("unlock", "--remove-all")
		left := c09Snapshots(be)
		h.Case("forgetprune")
		h.Rec("labels", append([]string{"x"}, run.labels...)...)
		o.rec(h, 0, 0)
		h.Rec("cut", Itoa(f+1), Itoa(rec.Mutations()), B(r.Err != nil), B(failed))
		if f >= 0 {
			h.Rec("fault", "remove", "snapshot")
		}
		h.Rec("forget", Itoa(len(sel)), Itoa(len(run.snaps)), Itoa(len(left)))
		h.Rec("pre", B(run.ck0))
		ckOK, bad, det := c09Verify(be, left, run.want)
		h.Rec("verify", B(ckOK), Itoa(bad), Itoa(len(left)), det)
		h.End()
	}
}

func c09OptionSets(h *H, n int) []c09Opts {
	base := []c09Opts{
		{MaxRepack: ^uint64(0), MaxUnused: "0", Version: 2},
		{MaxRepack: ^uint64(0), MaxUnused: "5%", Version: 2},
		{MaxRepack: ^uint64(0), MaxUnused: "unlimited", Version: 2},
		{MaxRepack: 0, MaxUnused: "0", Version: 2},
		{MaxRepack: 3000, MaxUnused: "0", Version: 2},
		{MaxRepack: ^uint64(0), MaxUnused: "0", Small: 1 << 20, Version: 2},
		{MaxRepack: ^uint64(0), MaxUnused: "0", CacheableOnly: true, Version: 2},
		{MaxRepack: ^uint64(0), MaxUnused: "5%", Uncompressed: true, Version: 2},
		{MaxRepack: ^uint64(0), MaxUnused: "0%", Uncompressed: true, Small: 4 << 20, Version: 2},
		{MaxRepack: 100000, MaxUnused: "1000", Version: 2},
		{MaxRepack: ^uint64(0), MaxUnused: "unlimited", CacheableOnly: true, Uncompressed: true, Version: 2},
		{MaxRepack: ^uint64(0), MaxUnused: "0", Uncompressed: true, Version: 2},
	}
	res := []c09Opts{base[0]}
	perm := h.Rng.Perm(len(base) - 1)
	for i := 0; len(res) < n && i < len(perm); i++ {
		res = append(res, base[1+perm[i]])
	}
	return res
}

// c09Prepare computes what is needed to judge a prune on the history's final state; ok=false if
// the snapshots are not all restorable before prune (then C09 claims nothing).
func c09Prepare(x *c09Hist) (*c09PruneRun, bool) {
	st0 := DumpBackend(x.be)
	snaps := c09Snapshots(x.be)
	want, ok := c09DumpHashes(x.be, snaps)
	if !ok {
		return nil, false
	}
	_, used, err := c09Load(LoadBackend(st0))
	if err != nil {
		return nil, false
	}
	var labels []string
	for l := range x.labels {
		labels = append(labels, l)
	}
	sort.Strings(labels)
	ck0 := NewCLI(LoadBackend(st0)).Run("check", "--read-data", "--no-lock").Err == nil
	if !ck0 {
		labels = append(labels, "check-fails-before-prune")
	}
	return &c09PruneRun{st0: st0, snaps: snaps, want: want, used: used, labels: labels, ck0: ck0}, true
}

func streamC09(h *H) {
	nh := h.N(8, 32)
	nopt := 3
	if h.Thorough() {
		nopt = 5
	}
	for i := 0; i < nh; i++ {
		var x *c09Hist
		if panicked, msg := Protect(func() {
			if i == 0 && h.Shard == 0 {
				// one directed history per run (prune has exactly one kind of work), kind rotates with the seed
				x = c09DirectedHistory(h, c09DirectedKinds[int(h.Seed%int64(len(c09DirectedKinds))+int64(len(c09DirectedKinds)))%len(c09DirectedKinds)])
			} else {
				x = c09GenHistory(h)
			}
		}); panicked {
			h.Case("skip")
			h.Rec("why", "history-generation-failed", HexS(msg[:min(len(msg), 200)]))
			h.End()
			continue
		}
		run, ok := c09Prepare(x)
		if !ok {
			h.Case("skip")
			h.Rec("why", "snapshots-not-restorable-before-prune")
			h.End()
			x.Close()
			continue
		}
		// the real planner on the real repository, under several option sets
		for _, o := range c09OptionSets(h, nopt) {
			repo, used, err := c09Load(LoadBackend(run.st0))
			if err == nil {
				c09PlanCase(h, "real", repo, used, o)
			}
		}
		for _, o := range c09OptionSets(h, nopt) {
			run.o = o
			m, _, _ := c09TraceCase(h, run, "trace")
			for k := 0; k < m; k++ {
				c09CrashCase(h, run, k, h.Thorough() || k%3 == h.Intn(3))
			}
			// single failing operations (not crashes); lock operations are not interesting targets
			for k := 1; k < m-1; k++ {
				c09FaultCase(h, run, k, h.Thorough() || k%3 == 0)
			}
		}
		c09ForgetPruneCases(h, run)
		x.Close()
	}
}

func streamC10(h *H) {
	// (a) the planner under full-prune options on synthetic inputs: exact plan and statistics
	n := h.N(300, 4000)
	for i := 0; i < n; i++ {
		c09SynthCase(h, 1000000+i, true)
	}
	// (b) completed full prunes of real histories: after-state and reported statistics
	nh := h.N(12, 120)
	for i := 0; i < nh; i++ {
		var x *c09Hist
		// the first histories of every shard are directed ones (prune has exactly one kind of work);
		// "only-missing-unneeded-packs" is in every run
		gi := i*h.NSh + h.Shard
		if panicked, msg := Protect(func() {
			if gi < len(c09DirectedKinds) {
				x = c09DirectedHistory(h, c09DirectedKinds[gi])
			} else {
				x = c09GenHistory(h)
			}
		}); panicked {
			h.Case("skip")
			h.Rec("why", "history-generation-failed", HexS(msg[:min(len(msg), 200)]))
			h.End()
			continue
		}
		run, ok := c09Prepare(x)
		if ok {
			run.o = c09Opts{MaxRepack: ^uint64(0), MaxUnused: h.Pick([]string{"0", "0%"}), Version: 2}
			if h.Intn(4) == 0 {
				run.o.Uncompressed = true
			}
			repo, used, err := c09Load(LoadBackend(run.st0))
			if err == nil {
				c09PlanCase(h, "real", repo, used, run.o)
			}
			c09TraceCase(h, run, "full")
		}
		x.Close()
	}
}
