//go:build verif

package main

// C03 — any corruption of repository data is reported, never silently used (composite).
// Small real repositories are built with the real CLI (init, two backups of a tiny tree); every
// mutant (byte flip / truncation / deletion at a stratified sample of sites in every pack, index,
// snapshot, key and config file, plus random multi-site mutants) is loaded into a fresh in-memory
// backend and the real `check --read-data`, `restore` and `dump` run on it.

import (
	"bytes"
	"context"
	"crypto/sha256"
	"encoding/hex"
	"fmt"
	"os"
	"path/filepath"
	"sort"
	"strings"
	"time"

	"github.com/restic/restic/internal/backend/mem"
	"github.com/restic/restic/internal/repository/pack"
)

var _ = verifRegister("C03", streamC03)

type c03Snap struct {
	id     string // snapshot file name
	digest string // digest of the restored tree on the unmutated repository
	dfile  string // path (inside the snapshot) of the file used for `dump`
	dsha   string // sha256 of that file's content
}

type c03Repo struct {
	state  BeState
	snaps  []c03Snap
	region map[string][]c03Region // per pack file: byte regions
	work   string
}

type c03Region struct {
	name     string
	from, to int // [from, to)
}

// digest of a directory tree: sorted relative paths, entry type, file contents
func c03TreeDigest(root string) string {
	h := sha256.New()
	var paths []string
	_ = filepath.Walk(root, func(p string, info os.FileInfo, err error) error {
		if err != nil {
			return nil
		}
		paths = append(paths, p)
		return nil
	})
	sort.Strings(paths)
	for _, p := range paths {
		rel, _ := filepath.Rel(root, p)
		fi, err := os.Lstat(p)
		if err != nil {
			continue
		}
		switch {
		case fi.IsDir():
			fmt.Fprintf(h, "d %q\n", rel)
		case fi.Mode()&os.ModeSymlink != 0:
			t, _ := os.Readlink(p)
			fmt.Fprintf(h, "l %q %q\n", rel, t)
		default:
			b, _ := os.ReadFile(p)
			s := sha256.Sum256(b)
			fmt.Fprintf(h, "f %q %d %x\n", rel, len(b), s)
		}
	}
	return hex.EncodeToString(h.Sum(nil))
}

func (h *H) c03WriteTree(dir string, round int) (dumpFile string) {
	must := func(err error) {
		if err != nil {
			panic(err)
		}
	}
	must(os.MkdirAll(filepath.Join(dir, "sub", "deep"), 0o755))
	files := map[string][]byte{
		"a.txt":           h.Bytes(200 + h.Intn(1500)),
		"empty":           {},
		"sub/b.bin":       bytes.Repeat(h.Bytes(3), 100+h.Intn(400)), // compressible
		"sub/deep/c.dat":  h.Bytes(1 + h.Intn(64)),
		"sub/deep/marker": []byte(fmt.Sprintf("C03-round-%d-%x", round, h.Bytes(8))),
	}
	if round > 0 {
		files["a.txt"] = h.Bytes(300 + h.Intn(900)) // changed
		files["new-in-round-1"] = h.Bytes(50 + h.Intn(500))
	}
	var names []string
	for n := range files {
		names = append(names, n)
	}
	sort.Strings(names)
	for _, n := range names {
		must(os.WriteFile(filepath.Join(dir, n), files[n], 0o644))
	}
	if round == 0 {
		_ = os.Symlink("a.txt", filepath.Join(dir, "link"))
	}
	return filepath.Join(dir, "a.txt")
}

func c03Timeout(c *CLI, d time.Duration, args ...string) CmdResult {
	ctx, cancel := context.WithTimeout(context.Background(), d)
	defer cancel()
	return c.RunCtx(ctx, args...)
}

func (h *H) c03NewRepo(variant int) *c03Repo {
	work := MkTemp("c03-")
	src := filepath.Join(work, "src")
	be := mem.New()
	cli := NewCLI(be)
	initArgs := []string{"init"}
	if variant%3 == 2 {
		initArgs = append(initArgs, "--repository-version", "1")
	}
	cli.MustRun(initArgs...)
	comp := []string{"auto", "off", "max"}[variant%3]
	r := &c03Repo{work: work, region: map[string][]c03Region{}}
	var dumpFiles []string
	for round := 0; round < 2; round++ {
		dumpFiles = append(dumpFiles, h.c03WriteTree(src, round))
		args := []string{"backup", src, "--host", "c03", "--tag", fmt.Sprintf("r%d", round)}
		if variant%3 != 2 {
			args = append(args, "--compression", comp)
		}
		cli.MustRun(args...)
		// the reference content of the dump file as of this round
		b, _ := os.ReadFile(dumpFiles[round])
		s := sha256.Sum256(b)
		r.snaps = append(r.snaps, c03Snap{dfile: dumpFiles[round], dsha: hex.EncodeToString(s[:])})
	}
	r.state = DumpBackend(be)
	for _, k := range r.state.Names("lock") {
		delete(r.state, k)
	}
	// snapshot IDs in backup order: ask the real CLI
	for i := range r.snaps {
		out := cli.MustRun("snapshots", "--tag", fmt.Sprintf("r%d", i), "--json").Stdout
		j := strings.Index(out, `"id":"`)
		if j < 0 {
			panic("harness: no snapshot id in " + out)
		}
		r.snaps[i].id = out[j+6 : j+6+64]
	}
	// reference restores on the unmutated repository
	for i := range r.snaps {
		t := filepath.Join(work, fmt.Sprintf("ref%d", i))
		cli.MustRun("restore", r.snaps[i].id, "--target", t)
		r.snaps[i].digest = c03TreeDigest(t)
		os.RemoveAll(t)
	}
	// pack layout (regions) from the real header parser
	repo := cli.OpenRepo()
	for _, k := range r.state.Names("data") {
		b := r.state[k]
		blobs, hdrSize, err := pack.List(repo.Key(), bytes.NewReader(b), int64(len(b)))
		if err != nil {
			panic(err)
		}
		var regs []c03Region
		end := 0
		for _, bl := range blobs {
			regs = append(regs, c03Region{"blob-" + bl.Type.String(), int(bl.Offset), int(bl.Offset + bl.Length)})
			if int(bl.Offset+bl.Length) > end {
				end = int(bl.Offset + bl.Length)
			}
		}
		_ = hdrSize
		regs = append(regs, c03Region{"header", end, len(b) - 4}, c03Region{"hdrlen", len(b) - 4, len(b)})
		r.region[k] = regs
	}
	os.RemoveAll(src)
	return r
}

type c03Mut struct {
	key    string // "type/name"
	kind   string // flip | truncate | delete
	offset int
	bit    int
}

func (r *c03Repo) regionOf(m c03Mut) string {
	for _, g := range r.region[m.key] {
		if m.offset >= g.from && m.offset < g.to {
			return g.name
		}
	}
	return "-"
}

func (r *c03Repo) apply(muts []c03Mut) BeState {
	st := BeState{}
	for k, v := range r.state {
		st[k] = v
	}
	for _, m := range muts {
		b, ok := st[m.key]
		if !ok {
			continue
		}
		switch m.kind {
		case "delete":
			delete(st, m.key)
		case "truncate":
			if m.offset < len(b) {
				st[m.key] = append([]byte(nil), b[:m.offset]...)
			}
		case "flip":
			if m.offset < len(b) {
				c := append([]byte(nil), b...)
				c[m.offset] ^= 1 << (m.bit % 8)
				st[m.key] = c
			}
		}
	}
	return st
}

var c03KindName = map[string]string{"data": "pack", "index": "index", "snapshot": "snapshot", "key": "key", "config": "config"}

func (h *H) c03RunMutant(r *c03Repo, class string, muts []c03Mut) {
	st := r.apply(muts)
	cli := NewCLI(LoadBackend(st))
	h.Case("mutant")
	m0 := muts[0]
	ft := m0.key[:strings.IndexByte(m0.key, '/')]
	if class == "multi" {
		h.Rec("site", "multi", "flip", Itoa(len(muts)), "0", "0", "-")
		for _, m := range muts {
			h.Rec("part", c03KindName[m.key[:strings.IndexByte(m.key, '/')]], m.kind, Itoa(m.offset), r.regionOf(m))
		}
	} else {
		h.Rec("site", c03KindName[ft], m0.kind, Itoa(m0.offset), Itoa(m0.bit%8), Itoa(len(r.state[m0.key])), r.regionOf(m0))
	}
	var listed, self []string
	for _, s := range r.snaps {
		_, ok := st["snapshot/"+s.id]
		listed = append(listed, B(ok))
		isSelf := false
		for _, m := range muts {
			if m.key == "snapshot/"+s.id {
				isSelf = true
			}
		}
		self = append(self, B(isSelf))
	}
	h.Rec("listed", listed...)
	h.Rec("self", self...)

	h.c03Observe(r, cli, 1)
}

func c03Worse(a, b string) string {
	for _, bad := range []string{"diff", "panic"} {
		if a == bad || b == bad {
			return bad
		}
	}
	return b
}

// c03Observe runs check --read-data once and restore / dump of every snapshot `repeats` times
// (with a shared persistent cache the second run may be served from what the first one left
// there); the reported outcome of a repeated command is the worst one.
func (h *H) c03Observe(r *c03Repo, cli *CLI, repeats int) {
	res := c03Timeout(cli, 120*time.Second, "check", "--read-data")
	switch {
	case res.Panic != "":
		h.Rec("check", "panic", HexS(res.Panic))
	case res.Err != nil:
		h.Rec("check", "err", Itoa(res.Exit))
	default:
		h.Rec("check", "ok", "0")
	}
	var rest, dump []string
	for i, s := range r.snaps {
		ro, do := "", ""
		for rep := 0; rep < repeats; rep++ {
			t := filepath.Join(r.work, fmt.Sprintf("t%d", i))
			os.RemoveAll(t)
			rr := c03Timeout(cli, 120*time.Second, "restore", s.id, "--target", t)
			var o string
			switch {
			case rr.Panic != "":
				o = "panic"
			case rr.Err != nil:
				o = "fail"
			case c03TreeDigest(t) == s.digest:
				o = "same"
			default:
				o = "diff"
			}
			ro = c03Worse(ro, o)
			os.RemoveAll(t)
			dr := c03Timeout(cli, 120*time.Second, "dump", s.id, s.dfile)
			sum := sha256.Sum256([]byte(dr.Stdout))
			switch {
			case dr.Panic != "":
				o = "panic"
			case dr.Err != nil:
				o = "fail"
			case hex.EncodeToString(sum[:]) == s.dsha:
				o = "same"
			default:
				o = "diff"
			}
			do = c03Worse(do, o)
		}
		rest = append(rest, ro)
		dump = append(dump, do)
	}
	h.Rec("restore", rest...)
	h.Rec("dump", dump...)
	h.End()
}

// c03RunSwap: the stored bytes of file a are replaced by the AUTHENTIC bytes of file b of the same
// type (misdirected write / confused sync tool); the commands run twice with a persistent local
// cache shared between the runs (the default mode of restore / dump; all other mutants run with
// --no-cache).
func (h *H) c03RunSwap(r *c03Repo, a, b string) {
	st := BeState{}
	for k, v := range r.state {
		st[k] = v
	}
	st[a] = r.state[b]
	cdir := filepath.Join(r.work, "cache")
	os.RemoveAll(cdir)
	defer os.RemoveAll(cdir)
	cli := NewCLI(LoadBackend(st))
	cli.Extra = []string{"--no-cache=false", "--cache-dir", cdir}
	h.Case("mutant")
	ft := a[:strings.IndexByte(a, '/')]
	h.Rec("site", c03KindName[ft], "swapped", "0", "0", Itoa(len(r.state[a])), "-")
	var listed, self []string
	for _, s := range r.snaps {
		listed = append(listed, "1")
		self = append(self, B(a == "snapshot/"+s.id))
	}
	h.Rec("listed", listed...)
	h.Rec("self", self...)
	h.c03Observe(r, cli, 2)
}

func streamC03(h *H) {
	nrepos := h.N(2, 24)
	for ri := 0; ri < nrepos; ri++ {
		r := h.c03NewRepo(ri + h.Shard)
		keys := r.state.Names("")
		var all []c03Mut
		for _, k := range keys {
			n := len(r.state[k])
			// offsets: boundaries of every region, first/last bytes, and random ones
			offs := map[int]bool{0: true, n - 1: true, n / 2: true}
			for _, g := range r.region[k] {
				for _, o := range []int{g.from, g.to - 1, (g.from + g.to) / 2} {
					if o >= 0 && o < n {
						offs[o] = true
					}
				}
			}
			extra := 8
			if h.Thorough() {
				extra = n / 7 // every 7th byte on average
				if extra > 250 {
					extra = 250
				}
			}
			for i := 0; i < extra; i++ {
				offs[h.Intn(n)] = true
			}
			var ol []int
			for o := range offs {
				if o >= 0 && o < n {
					ol = append(ol, o)
				}
			}
			sort.Ints(ol)
			if !h.Thorough() && len(ol) > 18 { // quick: bounded sample per file, boundaries kept by shuffling deterministically
				h.Rng.Shuffle(len(ol), func(i, j int) { ol[i], ol[j] = ol[j], ol[i] })
				ol = ol[:18]
				sort.Ints(ol)
			}
			for _, o := range ol {
				all = append(all, c03Mut{k, "flip", o, h.Intn(8)})
			}
			tr := []int{0, n - 1, n / 2, 1, n - 4, n - 5, 31, 32}
			if !h.Thorough() {
				tr = []int{0, n - 1, []int{n / 2, 1, n - 4, 31, 32}[h.Intn(5)]}
			}
			seen := map[int]bool{}
			for _, o := range tr {
				if o >= 0 && o < n && !seen[o] {
					seen[o] = true
					all = append(all, c03Mut{k, "truncate", o, 0})
				}
			}
			for _, g := range r.region[k] { // truncation points at region boundaries
				if h.Thorough() && g.from > 0 && g.from < n && !seen[g.from] {
					seen[g.from] = true
					all = append(all, c03Mut{k, "truncate", g.from, 0})
				}
			}
			all = append(all, c03Mut{k, "delete", 0, 0})
		}
		for _, m := range all {
			h.c03RunMutant(r, "single", []c03Mut{m})
		}
		// random multi-site mutants
		for i := 0; i < h.N(10, 200)/nrepos+4; i++ {
			var ms []c03Mut
			for j := 0; j < 2+h.Intn(3); j++ {
				ms = append(ms, all[h.Intn(len(all))])
			}
			h.c03RunMutant(r, "multi", ms)
		}
		// swapped files of equal type, with a persistent cache
		for _, typ := range []string{"snapshot", "index"} {
			ks := r.state.Names(typ)
			for i := range ks {
				for j := range ks {
					if i != j {
						h.c03RunSwap(r, ks[i], ks[j])
					}
				}
			}
		}
		// the unmutated repository is a case too (everything must be clean)
		h.c03RunMutant(r, "single", []c03Mut{{keys[0], "none", 0, 0}})
		os.RemoveAll(r.work)
	}
}
