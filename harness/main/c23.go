//go:build verif

package main

// C23: forget never removes a whole group and removes only what it reports. Runs the real
// `restic forget --json …` through the in-process CLI on repositories with hand-saved snapshots,
// behind a recording backend; observes the JSON report, the backend remove operations and the
// snapshot files before/after.
//
// Records (see lean/Driver/C23.lean): the C22 records now/ps/pst/pol/dur/ptag, the C24 records
// fh/ft/fp/lim/gb/arg, and
//   sh <idx> <host>     sp <idx> <path>*
//   winl <latest_sec> <latest_nsec> <i> <sec> <nsec>    window start for every possible latest × duration i
//   fo <unsafe 0/1> <dryrun 0/1> <nolock 0/1>            fail <idx>*   (removal of these is made to fail)
//   res ok|fatal|error|panic <hex msg>    exit <code>
//   jk <g> <idx>*   jr <g> <idx>*   ngrp <n>             JSON groups (sorted by smallest member)
//   deleted <idx>*    rmev <n>                           files gone afterwards; remove operations issued

import (
	"context"
	"encoding/json"
	"fmt"
	"sort"
	"strings"
	"time"

	"github.com/restic/restic/internal/backend"
	"github.com/restic/restic/internal/data"
	"github.com/restic/restic/internal/repository"
	"github.com/restic/restic/internal/restic"
)

var _ = verifRegister("C23", streamC23)

type c23Snap struct {
	*c22Snap
	host  string
	paths []string
}

func streamC23(h *H) {
	ctx := context.Background()
	n := h.N(160, 6000)
	var repo *repository.Repository
	var inner backend.Backend
	var rec *RecBackend
	var cli *CLI
	fresh := func() {
		r, be := NewRepo(0, repository.Options{})
		repo, inner = r, be
		rec = NewRecBackend(be)
		cli = NewCLI(rec)
	}
	fresh()
	pathSets := [][]string{{"/a"}, {"/b"}, {"/a", "/b"}, {"/b", "/a"}}
	for i := 0; i < n; i++ {
		if i%100 == 99 {
			fresh()
		}
		// wipe snapshots and locks of earlier cases
		for _, t := range []restic.FileType{restic.SnapshotFile, restic.LockFile} {
			var ids []restic.ID
			_ = repo.List(ctx, t, func(id restic.ID, _ int64) error { ids = append(ids, id); return nil })
			for _, id := range ids {
				_ = inner.Remove(ctx, backendHandle(t, id))
			}
		}
		now := time.Now()
		base := h.c22GenList(8, now, false, true)
		for try := 0; try < 3 && len(base) < 3; try++ {
			base = h.c22GenList(8, now, false, true)
		}
		if len(base) == 0 {
			base = []*c22Snap{{idx: 0, t: c22Anchors[1]}}
		}
		var snaps []*c23Snap
		byID := map[string]int{}
		for _, b := range base {
			s := &c23Snap{c22Snap: b, host: h.Pick([]string{"h1", "h1", "h2"}), paths: pathSets[h.Intn(len(pathSets))]}
			tree := restic.Hash([]byte(fmt.Sprintf("c23-tree-%d", s.idx)))
			sn := &data.Snapshot{Time: s.t, Hostname: s.host, Paths: append([]string(nil), s.paths...), Tree: &tree}
			if len(s.tags) > 0 {
				sn.Tags = append([]string(nil), s.tags...)
			}
			id, err := data.SaveSnapshot(ctx, repo, sn)
			if err != nil {
				panic(err)
			}
			s.id = id
			byID[id.String()] = s.idx
			snaps = append(snaps, s)
		}

		// options
		var p data.ExpirePolicy
		switch r := h.Intn(20); {
		case r < 2:
			p = data.ExpirePolicy{}
		case r < 5: // tag-only policies: may keep nothing
			p = data.ExpirePolicy{Tags: data.TagLists{[]data.TagList{{"zz"}, {"a"}, {"b"}, {"a", "b"}, {""}}[h.Intn(5)]}}
		case r < 6:
			p = data.ExpirePolicy{Within: data.Duration{Days: -1}}
		case r < 15: // small policies that really remove something
			switch h.Intn(5) {
			case 0:
				p = data.ExpirePolicy{Last: 1 + h.Intn(2)}
			case 1:
				p = data.ExpirePolicy{Daily: 1 + h.Intn(2)}
			case 2:
				p = data.ExpirePolicy{Yearly: 1, Tags: data.TagLists{{"a"}}}
			case 3:
				p = data.ExpirePolicy{Monthly: 1 + h.Intn(2), Last: 1}
			default:
				p = data.ExpirePolicy{Within: data.Duration{Days: 30}, Weekly: 1}
			}
		default:
			p = h.c22Policy(false)
		}
		unsafe := h.Intn(7) == 0
		dry := h.Intn(4) == 0
		nolock := h.Intn(20) == 0
		f := &data.SnapshotFilter{}
		if h.Intn(5) < 2 {
			switch h.Intn(4) {
			case 0:
				f.Hosts = []string{h.Pick([]string{"h1", "h2", "h3"})}
			case 1:
				f.Tags = data.TagLists{data.TagList{h.Pick([]string{"a", "b", ""})}}
			case 2:
				f.Paths = []string{h.Pick([]string{"/a", "/b"})}
			default:
				f.Hosts = []string{"h1"}
				f.Paths = []string{"/a"}
			}
		}
		if h.Intn(5) == 0 { // an option given twice
			f.Hosts = h.c24Repeat(f.Hosts)
			f.Paths = h.c24Repeat(f.Paths)
		}
		gb := data.SnapshotGroupByOptions{Host: true, Path: true}
		gbSet := false
		if h.Intn(2) == 0 {
			gbSet = true
			gb = data.SnapshotGroupByOptions{Tag: h.Bool(), Host: h.Bool(), Path: h.Bool()}
		}
		args := []string{"forget", "--json"}
		args = append(args, c22CountFlag("--keep-last", p.Last)...)
		args = append(args, c22CountFlag("--keep-hourly", p.Hourly)...)
		args = append(args, c22CountFlag("--keep-daily", p.Daily)...)
		args = append(args, c22CountFlag("--keep-weekly", p.Weekly)...)
		args = append(args, c22CountFlag("--keep-monthly", p.Monthly)...)
		args = append(args, c22CountFlag("--keep-yearly", p.Yearly)...)
		for j, d := range c22Durs6(p) {
			if !d.Zero() {
				ds := d.String()
				if d.Days < 0 {
					ds = "-1d"
				}
				args = append(args, []string{"--keep-within", "--keep-within-hourly", "--keep-within-daily",
					"--keep-within-weekly", "--keep-within-monthly", "--keep-within-yearly"}[j]+"="+ds)
			}
		}
		for _, tl := range p.Tags {
			args = append(args, "--keep-tag", strings.Join(tl, ","))
		}
		if unsafe {
			args = append(args, "--unsafe-allow-remove-all")
		}
		if dry {
			args = append(args, "--dry-run")
		}
		if nolock {
			args = append(args, "--no-lock")
		}
		for _, x := range f.Hosts {
			args = append(args, "--host", x)
		}
		for _, l := range f.Tags {
			args = append(args, "--tag", strings.Join(l, ","))
		}
		for _, x := range f.Paths {
			args = append(args, "--path", x)
		}
		if gbSet {
			args = append(args, "--group-by", gb.String())
		}

		h.Case("forget")
		h.Rec("now", I64(now.Unix()), Itoa(now.Nanosecond()))
		h.c22RecList(base)
		for _, s := range snaps {
			h.Rec("sh", Itoa(s.idx), HexS(s.host))
			h.Rec("sp", append([]string{Itoa(s.idx)}, HexList(s.paths)...)...)
		}
		h.c22RecPolicy(p, time.Time{}, false, "")
		// window oracle for every possible latest timestamp
		cands := []time.Time{{}}
		for _, s := range snaps {
			cands = append(cands, s.t)
		}
		for j, d := range c22Durs6(p) {
			if d.Zero() || d.Days < 0 {
				continue
			}
			for _, lt := range cands {
				t := lt.AddDate(-d.Years, -d.Months, -d.Days).Add(-time.Duration(d.Hours) * time.Hour)
				h.Rec("winl", I64(lt.Unix()), Itoa(lt.Nanosecond()), Itoa(j), I64(t.Unix()), Itoa(t.Nanosecond()))
			}
		}
		h.Rec("fo", B(unsafe), B(dry), B(nolock))
		h.c24RecFilter(f)
		h.Rec("gb", B(gb.Tag), B(gb.Host), B(gb.Path))

		// explicit ids (a filter next to explicit ids is an error: mostly without)
		if h.Intn(4) == 0 && (f.Empty() || h.Intn(4) == 0) {
			na := 1 + h.Intn(3)
			for j := 0; j < na; j++ {
				switch r := h.Intn(20); {
				case r < 2:
					args = append(args, "latest")
					h.Rec("arg", "latest")
				case r < 3:
					args = append(args, restic.Hash(h.Bytes(8)).String())
					h.Rec("arg", "unknown")
				case r < 4:
					s := snaps[h.Intn(len(snaps))]
					args = append(args, s.id.String()+":/sub")
					h.Rec("arg", "id", Itoa(s.idx), "1")
				case r < 8:
					s := snaps[h.Intn(len(snaps))]
					args = append(args, s.id.String()[:12])
					h.Rec("arg", "id", Itoa(s.idx), "0")
				default:
					s := snaps[h.Intn(len(snaps))]
					args = append(args, s.id.String())
					h.Rec("arg", "id", Itoa(s.idx), "0")
				}
			}
		}
		// fault injection: the removal of one snapshot file fails
		rec.Reset()
		failIdx := -1
		if !dry && h.Intn(12) == 0 {
			failIdx = snaps[h.Intn(len(snaps))].idx
			name := snaps[failIdx].id.String()
			rec.FailOp = func(op string, hd backend.Handle, _ int) error {
				if op == "remove" && hd.Type == backend.SnapshotFile && hd.Name == name {
					return fmt.Errorf("verif: injected remove failure")
				}
				return nil
			}
			h.Rec("fail", Itoa(failIdx))
		} else {
			h.Rec("fail")
		}
		h.Rec("cmd", HexS(strings.Join(args, "\x00")))

		res := cli.Run(args...)
		rec.FailOp = nil
		switch {
		case res.Panic != "":
			h.Rec("res", "panic", HexS(res.Panic))
		case res.Err == nil:
			h.Rec("res", "ok")
		case res.Fatal():
			h.Rec("res", "fatal", HexS(res.Err.Error()))
		default:
			h.Rec("res", "error", HexS(res.Err.Error()))
		}
		h.Rec("exit", Itoa(res.Exit))
		if res.Err == nil || res.Exit == 3 {
			out := strings.TrimSpace(res.Stdout)
			if out != "" {
				var groups []struct {
					Keep   []struct{ ID string } `json:"keep"`
					Remove []struct{ ID string } `json:"remove"`
				}
				if err := json.Unmarshal([]byte(out), &groups); err != nil {
					h.Rec("jsonerr", HexS(err.Error()))
				} else {
					type grp struct{ k, r []int }
					var gl []grp
					for _, g := range groups {
						var x grp
						for _, s := range g.Keep {
							x.k = append(x.k, byID[s.ID])
						}
						for _, s := range g.Remove {
							x.r = append(x.r, byID[s.ID])
						}
						gl = append(gl, x)
					}
					minOf := func(g grp) int {
						m := 1 << 30
						for _, v := range append(append([]int(nil), g.k...), g.r...) {
							if v < m {
								m = v
							}
						}
						return m
					}
					sort.Slice(gl, func(a, b int) bool { return minOf(gl[a]) < minOf(gl[b]) })
					for gi, g := range gl {
						h.Rec("jk", append([]string{Itoa(gi)}, c24IdxList(g.k)...)...)
						h.Rec("jr", append([]string{Itoa(gi)}, c24IdxList(g.r)...)...)
					}
					h.Rec("ngrp", Itoa(len(gl)))
				}
			} else {
				h.Rec("ngrp", "0")
			}
		}
		// which snapshot files are gone, which remove operations were issued
		left := map[string]bool{}
		_ = inner.List(ctx, backend.SnapshotFile, func(fi backend.FileInfo) error { left[fi.Name] = true; return nil })
		var deleted []int
		for _, s := range snaps {
			if !left[s.id.String()] {
				deleted = append(deleted, s.idx)
			}
		}
		h.Rec("deleted", c24IdxList(deleted)...)
		rm := 0
		for _, e := range rec.Events {
			if e.Op == "remove" && e.Type == backend.SnapshotFile.String() {
				rm++
			}
		}
		h.Rec("rmev", Itoa(rm))
		h.End()
	}
}
