//go:build verif

package main

// C38 — the real cache.Cache in a temporary directory wrapped around an in-memory backend, read
// through the real Repository.LoadRaw / LoadBlob. Generated: repository state of the file
// (intact, deleted, damaged), cache cell state (missing, intact, stale, truncated, bit-flipped,
// empty, temporary files lying around), interference of "another process" right after a download
// (cell deleted / replaced), repeated corruption in one run, concurrent loads of the same file.

import (
	"bytes"
	"context"
	"crypto/sha256"
	"errors"
	"fmt"
	"io"
	"os"
	"path/filepath"
	"sync"

	"github.com/restic/restic/internal/backend"
	"github.com/restic/restic/internal/backend/cache"
	"github.com/restic/restic/internal/backend/mem"
	"github.com/restic/restic/internal/repository"
	"github.com/restic/restic/internal/restic"
)

var _ = verifRegister("C38", streamC38)

var c38ErrNotFound = errors.New("c38: file does not exist in the repository")
var c38ErrTooSmall = errors.New("c38: file too small")
var c38ErrFail = errors.New("c38: backend failure")

// c38Fault is the fault of one Load of the wrapped backend: "N" none, "F" failure before the
// body, "L<n>": the body ends after n bytes with a clean EOF, the consumer returns, and only then
// Load reports the error (like util.DefaultLoad returning rd.Close()'s error)
type c38Fault struct {
	kind string
	n    int
}

func (f c38Fault) tok() string {
	if f.kind == "L" {
		return fmt.Sprintf("L%d", f.n)
	}
	return f.kind
}

// c38Be wraps a backend: per name the content can be overridden or the file made to look deleted;
// after a whole-file Load (a download by the cache) a scripted interference is applied.
type c38Be struct {
	backend.Backend
	mu       sync.Mutex
	override map[string][]byte
	deleted  map[string]bool
	// interference script for downloads of `watch`
	watch     string
	advs      []string // "N" nothing, "A" delete cell, "D" remove directory, hex = replace cell
	advBytes  [][]byte
	nDown     int
	fallback  bool
	cellPath  string
	downloads int
	faults    []c38Fault // consumed by successive Loads of `watch`
}

func (b *c38Be) IsNotExist(err error) bool {
	return errors.Is(err, c38ErrNotFound) || b.Backend.IsNotExist(err)
}

func (b *c38Be) Load(ctx context.Context, h backend.Handle, length int, offset int64, fn func(rd io.Reader) error) error {
	b.mu.Lock()
	del := b.deleted[h.Name]
	ov, hasOv := b.override[h.Name]
	fault := c38Fault{kind: "N"}
	if h.Name == b.watch && len(b.faults) > 0 {
		fault, b.faults = b.faults[0], b.faults[1:]
	}
	b.mu.Unlock()
	var err error
	switch {
	case fault.kind == "F":
		err = c38ErrFail
	case del:
		err = c38ErrNotFound
	case hasOv:
		if offset+int64(length) > int64(len(ov)) {
			err = c38ErrTooSmall
		} else {
			buf := ov[offset:]
			if length > 0 {
				buf = buf[:length]
			}
			if fault.kind == "L" {
				n := fault.n
				if n > len(buf) {
					n = len(buf)
				}
				err = fn(bytes.NewReader(buf[:n]))
				if err == nil {
					err = c38ErrFail
				}
			} else {
				err = fn(bytes.NewReader(buf))
			}
		}
	default:
		err = b.Backend.Load(ctx, h, length, offset, fn)
	}
	b.mu.Lock()
	defer b.mu.Unlock()
	if h.Name == b.watch && length == 0 && offset == 0 {
		b.downloads++
		if b.fallback {
			b.fallback = false // this was the fall-back read after the cell vanished
			return err
		}
		if err == nil && b.nDown < len(b.advs) {
			a := b.advs[b.nDown]
			b.nDown++
			switch a {
			case "N":
			case "A":
				os.Remove(b.cellPath)
				b.fallback = true
			case "D":
				os.RemoveAll(filepath.Dir(b.cellPath))
				b.fallback = true
			default:
				os.MkdirAll(filepath.Dir(b.cellPath), 0o700)
				os.WriteFile(b.cellPath, b.advBytes[b.nDown-1], 0o600)
			}
		} else if err == nil {
			b.nDown++
		}
	}
	return err
}

func c38ReadCell(p string) string {
	b, err := os.ReadFile(p)
	if err != nil {
		return "A"
	}
	return Hex(b)
}

func c38Tok(b []byte, present bool) string {
	if !present {
		return "A"
	}
	return Hex(b)
}

// c38Corrupt derives a cell content from the intact bytes
func (h *H) c38Corrupt(d []byte) (string, []byte) {
	switch h.Intn(5) {
	case 0:
		return "stale", h.Bytes(1 + h.Intn(12))
	case 1:
		if len(d) > 0 {
			return "truncated", append([]byte{}, d[:h.Intn(len(d))]...)
		}
		return "stale", []byte{1}
	case 2:
		if len(d) > 0 {
			c := append([]byte{}, d...)
			c[h.Intn(len(c))] ^= byte(1 << h.Intn(8))
			return "bitflip", c
		}
		return "stale", []byte{2}
	case 3:
		return "extended", append(append([]byte{}, d...), h.Bytes(1+h.Intn(3))...)
	default:
		if len(d) == 0 {
			return "stale", []byte{3}
		}
		return "empty", []byte{}
	}
}

type c38Good struct {
	h    *H
	id   restic.ID
	seen map[string]bool
}

func (g *c38Good) note(b []byte) {
	k := Hex(b)
	if g.seen[k] {
		return
	}
	g.seen[k] = true
	g.h.Rec("good", k, B(restic.ID(sha256.Sum256(b)) == g.id))
}

func streamC38(h *H) {
	n := h.N(1200, 15000)
	for i := 0; i < n; i++ {
		switch {
		case i%9 == 7:
			c38Conc(h)
		case i%9 == 8:
			c38Blob(h)
		case i%9 == 2 || i%9 == 5:
			c38Cb(h)
		default:
			c38Raw(h)
		}
	}
}

func c38NewCache() (*cache.Cache, string) {
	dir := MkTemp("c38-")
	c, err := cache.New("0123456789abcdef0123456789abcdef0123456789abcdef0123456789abcdef", dir)
	if err != nil {
		panic(err)
	}
	return c, dir
}

func c38Class(be *c38Be, err error) string {
	switch {
	case err == nil:
		return "ok"
	case errors.Is(err, restic.ErrInvalidData):
		return "invalidData"
	case be.IsNotExist(err):
		return "notExist"
	}
	return "other"
}

// history of LoadRaw calls on one handle
func c38Raw(h *H) {
	c, dir := c38NewCache()
	defer os.RemoveAll(dir)
	be := &c38Be{Backend: mem.New(), override: map[string][]byte{}, deleted: map[string]bool{}}
	repo, err := repository.New(be, repository.Options{})
	if err != nil {
		panic(err)
	}
	repo.UseCache(c, func(string, ...any) {})

	kinds := []string{"index", "snapshot", "pack", "key", "index", "snapshot"}
	kind := h.Pick(kinds)
	var ft restic.FileType
	var bt backend.FileType
	switch kind {
	case "index":
		ft, bt = restic.IndexFile, backend.IndexFile
	case "snapshot":
		ft, bt = restic.SnapshotFile, backend.SnapshotFile
	case "pack":
		ft, bt = restic.PackFile, backend.PackFile
	case "key":
		ft, bt = restic.KeyFile, backend.KeyFile
	}
	var d []byte
	switch h.Intn(8) {
	case 0:
		d = []byte{}
	default:
		d = h.Bytes(1 + h.Intn(24))
	}
	id := restic.ID(sha256.Sum256(d))
	name := id.String()
	hd := backend.Handle{Type: bt, Name: name}
	cellPath := ""
	if kind != "key" {
		cellPath = cache.VerifC38Filename(c, hd)
	}
	be.watch, be.cellPath = name, cellPath

	h.Case("raw")
	h.Rec("kind", kind)
	g := &c38Good{h: h, id: id, seen: map[string]bool{}}
	g.note([]byte{})
	g.note(d)
	nloads := 1 + h.Intn(3)
	for l := 0; l < nloads; l++ {
		// repository state
		beState := "intact"
		beBytes, bePresent := d, true
		switch h.Intn(8) {
		case 0:
			beState, bePresent = "deleted", false
		case 1:
			var cb []byte
			_, cb = h.c38Corrupt(d)
			beState, beBytes = "damaged", cb
		}
		be.mu.Lock()
		be.deleted[name] = !bePresent
		be.override[name] = beBytes
		be.mu.Unlock()
		// cache cell
		cellTok, cellState := "K", "keep"
		if kind != "key" && (l == 0 || h.Intn(3) != 0) {
			os.MkdirAll(filepath.Dir(cellPath), 0o700)
			switch r := h.Intn(10); {
			case r < 2:
				os.Remove(cellPath)
				cellTok, cellState = "A", "missing"
			case r < 4:
				os.WriteFile(cellPath, d, 0o600)
				cellTok, cellState = Hex(d), "intact"
			default:
				st, cb := h.c38Corrupt(d)
				os.WriteFile(cellPath, cb, 0o600)
				cellTok, cellState = Hex(cb), st
				g.note(cb)
			}
			if h.Intn(4) == 0 { // leftovers of interrupted cache writes
				os.WriteFile(filepath.Join(filepath.Dir(cellPath), fmt.Sprintf("tmp-%d", h.Intn(1000000))), h.Bytes(5), 0o600)
				cellState += "+tmpfiles"
			}
		}
		// interference after downloads
		be.mu.Lock()
		be.advs, be.advBytes, be.nDown, be.fallback = nil, nil, 0, false
		var advToks []string
		for a := 0; a < 2; a++ {
			tok, bs := "N", []byte(nil)
			if kind != "key" && kind != "pack" && h.Intn(5) == 0 {
				switch h.Intn(4) {
				case 0:
					tok = "A"
				case 1:
					tok = "D"
				default:
					_, bs = h.c38Corrupt(d)
					tok = Hex(bs)
					if tok == "-" { // "-" would read as empty: keep the token unambiguous
						tok = "E"
					}
				}
			}
			be.advs = append(be.advs, tok)
			be.advBytes = append(be.advBytes, bs)
			advToks = append(advToks, tok)
			if bs != nil {
				g.note(bs)
			}
		}
		// backend faults (only when nobody interferes: then each cache load makes at most one backend call)
		be.faults = nil
		faultToks := []string{"N", "N"}
		if advToks[0] == "N" && advToks[1] == "N" && h.Intn(3) == 0 {
			for a := 0; a < 2; a++ {
				f := h.c38Fault(len(beBytes))
				be.faults = append(be.faults, f)
				faultToks[a] = f.tok()
			}
		}
		be.mu.Unlock()
		g.note(beBytes)
		for _, f := range be.faults {
			if f.kind == "L" && f.n <= len(beBytes) {
				g.note(beBytes[:f.n])
			}
		}
		h.Rec("load", c38Tok(beBytes, bePresent), cellTok, advToks[0], advToks[1], beState, cellState, faultToks[0], faultToks[1])
		var buf []byte
		var lerr error
		panicked, msg := Protect(func() { buf, lerr = repo.LoadRaw(context.Background(), ft, id) })
		if panicked {
			h.Rec("res", "panic", HexS(msg))
		} else {
			cls := c38Class(be, lerr)
			if buf != nil || cls == "ok" {
				g.note(buf)
				h.Rec("res", cls, Hex(buf))
			} else {
				h.Rec("res", cls)
			}
		}
		after := "A"
		if cellPath != "" {
			after = c38ReadCell(cellPath)
		}
		h.Rec("after", after)
		h.Rec("endload")
	}
	h.End()
}

func (h *H) c38Fault(size int) c38Fault {
	switch h.Intn(5) {
	case 0:
		return c38Fault{kind: "F"}
	case 1, 2:
		return c38Fault{kind: "L", n: h.Intn(size + 2)}
	}
	return c38Fault{kind: "N"}
}

// history of Load calls at the cacheBackend level (no hash check above it): the cache alone must
// never store or serve bytes that differ from the repository's file
func c38Cb(h *H) {
	c, dir := c38NewCache()
	defer os.RemoveAll(dir)
	be := &c38Be{Backend: mem.New(), override: map[string][]byte{}, deleted: map[string]bool{}}
	cb := c.Wrap(be, func(string, ...any) {})
	kind := h.Pick([]string{"index", "snapshot", "mpack", "mpack", "pack", "key", "index"})
	hd := backend.Handle{}
	switch kind {
	case "index":
		hd.Type = backend.IndexFile
	case "snapshot":
		hd.Type = backend.SnapshotFile
	case "mpack":
		hd.Type, hd.IsMetadata = backend.PackFile, true
	case "pack":
		hd.Type = backend.PackFile
	case "key":
		hd.Type = backend.KeyFile
	}
	d := h.Bytes(1 + h.Intn(30))
	id := restic.ID(sha256.Sum256(d))
	hd.Name = id.String()
	cellPath := ""
	if kind != "key" {
		cellPath = cache.VerifC38Filename(c, hd)
	}
	be.watch, be.cellPath = hd.Name, cellPath
	present := h.Intn(10) != 0
	be.override[hd.Name] = d
	be.deleted[hd.Name] = !present
	cellTok, cellState := "A", "missing"
	if kind != "key" {
		switch r := h.Intn(10); {
		case r < 5:
		case r < 8:
			os.MkdirAll(filepath.Dir(cellPath), 0o700)
			os.WriteFile(cellPath, d, 0o600)
			cellTok, cellState = Hex(d), "intact"
		default:
			os.MkdirAll(filepath.Dir(cellPath), 0o700)
			st, cbytes := h.c38Corrupt(d)
			os.WriteFile(cellPath, cbytes, 0o600)
			cellTok, cellState = Hex(cbytes), st
		}
	}
	h.Case("cb")
	h.Rec("cbinit", kind, c38Tok(d, present), cellTok, cellState)
	nloads := 2 + h.Intn(3)
	for l := 0; l < nloads; l++ {
		length, offset := 0, 0
		switch h.Intn(4) {
		case 0:
			offset = h.Intn(len(d) + 1)
			length = h.Intn(len(d) - offset + 1)
		case 1:
			offset = h.Intn(len(d) + 2)
			length = h.Intn(len(d) + 2)
		}
		f := c38Fault{kind: "N"}
		if h.Intn(2) == 0 {
			f = h.c38Fault(len(d))
		}
		be.mu.Lock()
		be.faults = []c38Fault{f}
		be.mu.Unlock()
		h.Rec("cbload", Itoa(length), Itoa(offset), f.tok())
		var got []byte
		var lerr error
		panicked, msg := Protect(func() {
			lerr = cb.Load(context.Background(), hd, length, int64(offset), func(rd io.Reader) error {
				b, e := io.ReadAll(rd)
				got = b
				return e
			})
		})
		switch {
		case panicked:
			h.Rec("res", "panic", HexS(msg))
		case lerr == nil:
			h.Rec("res", "ok", Hex(got))
		default:
			h.Rec("res", c38Class(be, lerr))
		}
		after := "A"
		if cellPath != "" {
			after = c38ReadCell(cellPath)
		}
		h.Rec("after", after)
		h.Rec("endload")
	}
	h.End()
}

// several goroutines load the same index/snapshot file at the same time
func c38Conc(h *H) {
	c, dir := c38NewCache()
	defer os.RemoveAll(dir)
	be := &c38Be{Backend: mem.New(), override: map[string][]byte{}, deleted: map[string]bool{}}
	repo, err := repository.New(be, repository.Options{})
	if err != nil {
		panic(err)
	}
	repo.UseCache(c, func(string, ...any) {})
	d := h.Bytes(1 + h.Intn(40))
	id := restic.ID(sha256.Sum256(d))
	ft, bt := restic.IndexFile, backend.IndexFile
	if h.Bool() {
		ft, bt = restic.SnapshotFile, backend.SnapshotFile
	}
	hd := backend.Handle{Type: bt, Name: id.String()}
	cellPath := cache.VerifC38Filename(c, hd)
	be.override[id.String()] = d
	h.Case("conc")
	g := &c38Good{h: h, id: id, seen: map[string]bool{}}
	g.note(d)
	cellState := "missing"
	if h.Intn(4) != 0 {
		os.MkdirAll(filepath.Dir(cellPath), 0o700)
		st, cb := h.c38Corrupt(d)
		os.WriteFile(cellPath, cb, 0o600)
		g.note(cb)
		cellState = st
	}
	h.Rec("setup", Hex(d), cellState)
	nw := 2 + h.Intn(4)
	type res struct {
		buf []byte
		err error
	}
	results := make([]res, nw)
	var wg sync.WaitGroup
	start := make(chan struct{})
	for w := 0; w < nw; w++ {
		wg.Add(1)
		go func(w int) {
			defer wg.Done()
			<-start
			b, e := repo.LoadRaw(context.Background(), ft, id)
			results[w] = res{b, e}
		}(w)
	}
	close(start)
	wg.Wait()
	for _, r := range results {
		cls := c38Class(be, r.err)
		if r.buf != nil {
			g.note(r.buf)
			h.Rec("res", cls, Hex(r.buf))
		} else {
			h.Rec("res", cls)
		}
	}
	after := c38ReadCell(cellPath)
	h.Rec("after", after)
	h.End()
}

// a tree blob in a (cached) metadata pack read with LoadBlob; the cached pack is damaged
func c38Blob(h *H) {
	c, dir := c38NewCache()
	defer os.RemoveAll(dir)
	be := &c38Be{Backend: mem.New(), override: map[string][]byte{}, deleted: map[string]bool{}}
	var repo *repository.Repository
	panicked, msg := Protect(func() {
		repo, _ = repository.TestRepositoryWithBackend(TB, be, 0, repository.Options{})
	})
	if panicked {
		panic("c38: repository setup failed: " + msg)
	}
	plain := append([]byte(`{"nodes":[],"x":"`), []byte(fmt.Sprintf("%x", h.Bytes(20+h.Intn(200))))...)
	plain = append(plain, []byte(`"}`)...)
	// variant 0: pack written by restic itself (tree blobs only), the tree blob is loaded;
	// 1 / 2: hand-built MIXED pack (tree + data blob, as old restic versions wrote them): the tree
	// blob / the data blob is loaded. A cached mixed pack serves its data blob ranges too.
	variant := h.Intn(3)
	bkind := "auto"
	var bh restic.BlobHandle
	if variant == 0 {
		var bid restic.ID
		err := repo.WithBlobUploader(context.Background(), func(ctx context.Context, up restic.BlobSaverWithAsync) error {
			var e error
			bid, _, _, e = up.SaveBlob(ctx, restic.TreeBlob, plain, restic.ID{}, false)
			return e
		})
		if err != nil {
			panic(err)
		}
		bh = restic.BlobHandle{ID: bid, Type: restic.TreeBlob}
	} else {
		fileData := h.Bytes(50 + h.Intn(300))
		if _, _, err := repository.VerifC38AddMixedPack(context.Background(), repo, be.Backend, plain, fileData); err != nil {
			panic(err)
		}
		bh = restic.BlobHandle{ID: restic.Hash(plain), Type: restic.TreeBlob}
		if variant == 2 {
			bh = restic.BlobHandle{ID: restic.Hash(fileData), Type: restic.DataBlob}
			plain = fileData
			bkind = "cacheable"
		}
	}
	var err error
	packID, off, length, ok := repository.VerifC38LookupBlob(repo, bh)
	if !ok {
		panic("c38: blob not in index")
	}
	var packBytes []byte
	err = be.Backend.Load(context.Background(), backend.Handle{Type: backend.PackFile, Name: packID.String()}, 0, 0, func(rd io.Reader) error {
		var e error
		packBytes, e = io.ReadAll(rd)
		return e
	})
	if err != nil {
		panic(err)
	}
	repo.UseCache(c, func(string, ...any) {})
	hd := backend.Handle{Type: backend.PackFile, Name: packID.String(), IsMetadata: true}
	cellPath := cache.VerifC38Filename(c, hd)
	be.watch, be.cellPath = packID.String(), cellPath

	h.Case("blob")
	h.Rec("blob", Itoa(int(length)), Itoa(int(off)), Itoa(len(packBytes)), bkind, []string{"tree-pack", "mixed-pack-tree-blob", "mixed-pack-data-blob"}[variant])
	nloads := 1 + h.Intn(2)
	for l := 0; l < nloads; l++ {
		beState := "intact"
		switch h.Intn(8) {
		case 0:
			beState = "deleted"
			be.mu.Lock()
			be.deleted[packID.String()] = true
			be.mu.Unlock()
		default:
			be.mu.Lock()
			be.deleted[packID.String()] = false
			be.mu.Unlock()
		}
		os.MkdirAll(filepath.Dir(cellPath), 0o700)
		cellState := ""
		// relation of the cell to the pack, as far as the blob's range is concerned
		var cell []byte
		switch r := h.Intn(10); {
		case r < 2:
			os.Remove(cellPath)
			cellState = "missing"
		case r < 4:
			cell = packBytes
			os.WriteFile(cellPath, cell, 0o600)
			cellState = "intact"
		case r < 6: // truncated inside or before the blob's range
			cell = append([]byte{}, packBytes[:h.Intn(int(off+length))]...)
			os.WriteFile(cellPath, cell, 0o600)
			cellState = "truncated"
		case r < 8: // bit flip inside the blob's range
			cell = append([]byte{}, packBytes...)
			cell[int(off)+h.Intn(int(length))] ^= byte(1 << h.Intn(8))
			os.WriteFile(cellPath, cell, 0o600)
			cellState = "bitflip-in-range"
		default: // damage outside the range: harmless for this read
			cell = append([]byte{}, packBytes...)
			if int(off+length) < len(cell) {
				cell[int(off+length)+h.Intn(len(cell)-int(off+length))] ^= 0x10
				cellState = "bitflip-outside-range"
			} else {
				cellState = "intact"
			}
			os.WriteFile(cellPath, cell, 0o600)
		}
		rangeOK := cellState == "intact" || cellState == "bitflip-outside-range"
		longEnough := cellState != "missing" && len(cell) >= int(off+length)
		h.Rec("bload", beState, cellState, B(cellState != "missing"), B(longEnough), B(rangeOK))
		var out []byte
		var lerr error
		panicked, msg := Protect(func() { out, lerr = repo.LoadBlob(context.Background(), bh, nil) })
		switch {
		case panicked:
			h.Rec("res", "panic", HexS(msg))
		case lerr != nil:
			h.Rec("res", "err")
		default:
			h.Rec("res", "ok", B(bytes.Equal(out, plain)))
		}
		after := "absent"
		if b, e := os.ReadFile(cellPath); e == nil {
			if bytes.Equal(b, packBytes) {
				after = "pack"
			} else {
				after = "other"
			}
		}
		h.Rec("after", after)
		h.Rec("endload")
	}
	h.End()
}
