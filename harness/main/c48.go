//go:build verif

package main

import (
	"sort"

	"github.com/restic/restic/internal/repository/index"
	"github.com/restic/restic/internal/repository/pack"
	"github.com/restic/restic/internal/restic"
)

var _ = verifRegister("C48", streamC48)

func c48TypeTok(t restic.BlobType) string {
	if t == restic.TreeBlob {
		return "t"
	}
	return "d"
}

func c48HandleTok(h restic.BlobHandle) string { return c48TypeTok(h.Type) + ":" + c56IDTok(h.ID) }

func c48BlobTok(b pack.Blob) string {
	return c48HandleTok(b.BlobHandle) + ":" + U64(uint64(b.Offset)) + ":" + U64(uint64(b.Length)) + ":" + U64(uint64(b.UncompressedLength))
}

type c48Gen struct {
	h       *H
	mi      *index.MasterIndex
	pool    []restic.BlobHandle // handles that may be stored in the index
	outside []restic.BlobHandle // handles never stored in any index
	packs   []restic.ID
	prev    []struct {
		pack restic.ID
		blob pack.Blob
	}
	nidx int
}

func (g *c48Gen) blob() pack.Blob {
	h := g.h
	bh := g.pool[h.Intn(len(g.pool))]
	return pack.Blob{BlobHandle: bh, Offset: uint(h.Intn(5)) * 100, Length: uint(40 + h.Intn(3)), UncompressedLength: uint(h.Intn(2) * 77)}
}

// growIndex builds one index (1..4 packs) and inserts it; merged says whether it is given an id and merged.
func (g *c48Gen) growIndex(dupHeavy bool) {
	h := g.h
	idx := index.NewIndex()
	k := g.nidx
	g.nidx++
	h.Rec("newidx", Itoa(k))
	np := 1 + h.Intn(4)
	for p := 0; p < np; p++ {
		var pid restic.ID
		if len(g.packs) > 0 && h.Intn(4) == 0 {
			pid = g.packs[h.Intn(len(g.packs))] // a pack id that is already used (possibly in another index)
		} else {
			pid = c56ID(append([]byte{0xaa}, h.Bytes(3)...))
			g.packs = append(g.packs, pid)
		}
		nb := h.Intn(6)
		if dupHeavy {
			nb = 2 + h.Intn(8)
		}
		var blobs pack.Blobs
		for b := 0; b < nb; b++ {
			var bl pack.Blob
			if len(g.prev) > 0 && h.Intn(5) == 0 {
				// exact duplicate of an earlier entry (same pack, same location)
				pr := g.prev[h.Intn(len(g.prev))]
				if pr.pack == pid {
					bl = pr.blob
				} else {
					bl = g.blob()
				}
			} else {
				bl = g.blob()
			}
			blobs = append(blobs, bl)
			g.prev = append(g.prev, struct {
				pack restic.ID
				blob pack.Blob
			}{pid, bl})
		}
		idx.StorePack(pid, blobs)
		toks := []string{Itoa(k), c56IDTok(pid)}
		for _, b := range blobs {
			toks = append(toks, c48BlobTok(b))
		}
		h.Rec("pack", toks...)
	}
	switch h.Intn(8) {
	case 0: // not finalized: stays a separate index
		h.Rec("ins", Itoa(k))
		g.mi.Insert(idx)
	case 1: // final but without id: never merged
		idx.Finalize()
		h.Rec("fin", Itoa(k), "-")
		h.Rec("ins", Itoa(k))
		g.mi.Insert(idx)
	default:
		idx.Finalize()
		iid := c56ID(append([]byte{0xee}, h.Bytes(3)...))
		if err := idx.SetID(iid); err != nil {
			panic(err)
		}
		h.Rec("fin", Itoa(k), c56IDTok(iid))
		h.Rec("ins", Itoa(k))
		g.mi.Insert(idx)
		if h.Intn(4) != 0 {
			if err := g.mi.MergeFinalIndexes(); err != nil {
				panic(err)
			}
			h.Rec("merge")
		}
	}
}

func streamC48(h *H) {
	n := h.N(300, 16000)
	for i := 0; i < n; i++ {
		c48Case(h)
	}
}

func c48Case(h *H) {
	g := &c48Gen{h: h, mi: index.NewMasterIndex()}
	h.Case("hist")
	np := 2 + h.Intn(10)
	for i := 0; i < np; i++ {
		t := restic.DataBlob
		if h.Intn(3) == 0 {
			t = restic.TreeBlob
		}
		id := c56ID([]byte{byte(h.Intn(4)), byte(h.Intn(4))})
		g.pool = append(g.pool, restic.BlobHandle{ID: id, Type: t})
	}
	for i := 0; i < 3; i++ {
		t := restic.DataBlob
		if h.Bool() {
			t = restic.TreeBlob
		}
		g.outside = append(g.outside, restic.BlobHandle{ID: c56ID([]byte{0x77, byte(h.Intn(8))}), Type: t})
	}
	dupHeavy := h.Intn(3) == 0
	profile := "mixed"
	if dupHeavy {
		profile = "dupheavy"
	}
	ni := h.Intn(4)
	if ni == 0 {
		profile = "emptyindex"
	}
	h.Rec("profile", profile)
	for i := 0; i < ni; i++ {
		g.growIndex(dupHeavy)
	}
	names := []string{"A", "B", "C"}
	sets := map[string]*index.AssociatedSet[uint8]{}
	anyHandle := func() restic.BlobHandle {
		if h.Intn(5) == 0 {
			return g.outside[h.Intn(len(g.outside))]
		}
		return g.pool[h.Intn(len(g.pool))]
	}
	observe := func(name string) bool {
		s := sets[name]
		var ln int
		var all []string
		var keys []string
		if pn, msg := Protect(func() {
			ln = s.Len()
			for k, v := range s.All() {
				all = append(all, c48HandleTok(k)+"="+Itoa(int(v)))
			}
			for k := range s.Keys() {
				keys = append(keys, c48HandleTok(k))
			}
		}); pn {
			h.Rec("panic", HexS(msg))
			return false
		}
		sort.Strings(all)
		sort.Strings(keys)
		h.Rec("obs", append([]string{name, Itoa(ln)}, all...)...)
		h.Rec("keys", append([]string{name}, keys...)...)
		for i := 0; i < 2; i++ {
			bh := anyHandle()
			v, ok := s.Get(bh)
			vt := "-"
			if ok {
				vt = Itoa(int(v))
			}
			h.Rec("get", name, c48HandleTok(bh), vt, B(s.Has(bh)))
		}
		return true
	}
	nops := 3 + h.Intn(40)
	for op := 0; op < nops; op++ {
		name := names[h.Intn(len(names))]
		if sets[name] == nil || h.Intn(25) == 0 {
			sets[name] = index.NewAssociatedSet[uint8](g.mi)
			h.Rec("new", name)
			if !observe(name) {
				break
			}
			continue
		}
		s := sets[name]
		ok := true
		switch r := h.Intn(20); {
		case r < 8:
			bh, v := anyHandle(), uint8(h.Intn(256))
			if pn, msg := Protect(func() { s.Set(bh, v) }); pn {
				h.Rec("panic", HexS(msg))
				ok = false
				break
			}
			h.Rec("set", name, c48HandleTok(bh), Itoa(int(v)))
		case r < 11:
			bh := anyHandle()
			if pn, msg := Protect(func() { s.Insert(bh) }); pn {
				h.Rec("panic", HexS(msg))
				ok = false
				break
			}
			h.Rec("insert", name, c48HandleTok(bh))
		case r < 15:
			bh := anyHandle()
			if pn, msg := Protect(func() { s.Delete(bh) }); pn {
				h.Rec("panic", HexS(msg))
				ok = false
				break
			}
			h.Rec("delete", name, c48HandleTok(bh))
		case r < 18:
			a, b := names[h.Intn(len(names))], names[h.Intn(len(names))]
			if sets[a] == nil || sets[b] == nil {
				continue
			}
			isInter := h.Bool()
			var res *index.AssociatedSet[uint8]
			if pn, msg := Protect(func() {
				if isInter {
					res = sets[a].Intersect(sets[b])
				} else {
					res = sets[a].Sub(sets[b])
				}
			}); pn {
				h.Rec("panic", HexS(msg))
				ok = false
				break
			}
			sets[name] = res
			if isInter {
				h.Rec("intersect", name, a, b)
			} else {
				h.Rec("sub", name, a, b)
			}
		default: // the index grows while sets exist
			g.growIndex(dupHeavy)
			continue
		}
		if !ok || !observe(name) {
			break
		}
	}
	h.End()
}
