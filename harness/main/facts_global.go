//go:build verif

package main

import "github.com/restic/restic/internal/global"

var _ = verifRegisterFacts(global.VerifFactsC29)
