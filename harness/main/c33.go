//go:build verif

package main

// C33 — repair index rebuilds an index that describes the stored packs exactly.
// Real repositories (backup of generated trees on a mem backend) are damaged at the level of
// index files and pack files; the real `restic repair index [--read-all-packs]` runs on them
// through the CLI. Recorded: the complete pre-state (every pack with the result of the real
// header parser, every index file with its decoded content), the backend mutation trace of the
// command, and the complete post-state. The Lean driver runs the model on the pre-state and
// evaluates the property predicate on the post-state.

import (
	"bytes"
	"context"
	"encoding/binary"
	"io"
	"sort"
	"sync"

	"github.com/restic/restic/internal/backend"
	"github.com/restic/restic/internal/backend/mem"
	"github.com/restic/restic/internal/repository"
	"github.com/restic/restic/internal/repository/crypto"
	"github.com/restic/restic/internal/repository/index"
	"github.com/restic/restic/internal/restic"
)

var _ = verifRegister("C33", streamC33)

// c33Base builds a healthy repository: nb backups of an evolving tree (one data pack and one tree
// pack per backup, several index files).
func a16Base(h *H, nb int, version string) BeState {
	be, cli := a16NewRepo(version)
	t := a16NewTree(h)
	defer t.Close()
	for i := 0; i < nb; i++ {
		t.Mutate(2 + h.Intn(6))
		cli.MustRun("backup", "--pack-size", "4", t.Dir)
		a16Note(OpenRepoOn(be, "geheim"), be)
	}
	return DumpBackend(be)
}

func c33SetFull(thr int) func() {
	old := index.Full
	index.Full = func(idx *index.Index) bool {
		return int(idx.Len(restic.DataBlob)+idx.Len(restic.TreeBlob)) >= thr
	}
	return func() { index.Full = old }
}

func c33RecordPre(h *H, repo *repository.Repository, be backend.Backend, thr int) ([]a16PackInfo, []a16IdxInfo) {
	packs := a16Packs(repo, be)
	idxs := a16Indexes(repo, be)
	for _, p := range packs {
		ok := "bad"
		if p.HdrOK {
			ok = "ok"
		}
		h.Rec("pack", a16Short(p.ID), I64(p.Size), ok)
		for _, e := range p.Entries {
			h.Rec("ph", append([]string{a16Short(p.ID)}, e.toks()...)...)
		}
	}
	for _, ix := range idxs {
		ok := "bad"
		if ix.OK {
			ok = "ok"
		}
		h.Rec("idx", a16Short(ix.ID), ok, Itoa(ix.NBlobs), B(ix.OK && ix.NBlobs >= thr))
		for _, p := range ix.Packs {
			if len(p.Entries) == 0 {
				h.Rec("iep", a16Short(ix.ID), a16Short(p.Pack))
			}
			for _, e := range p.Entries {
				h.Rec("ie", append([]string{a16Short(ix.ID), a16Short(p.Pack)}, e.toks()...)...)
			}
		}
	}
	return packs, idxs
}

func c33RecordPost(h *H, repo *repository.Repository, be backend.Backend) {
	for _, p := range a16Packs(repo, be) {
		h.Rec("postpack", a16Short(p.ID), I64(p.Size))
	}
	for _, ix := range a16Indexes(repo, be) {
		ok := "bad"
		if ix.OK {
			ok = "ok"
		}
		h.Rec("postidx", a16Short(ix.ID), ok)
		for _, p := range ix.Packs {
			for _, e := range p.Entries {
				h.Rec("pe", append([]string{a16Short(ix.ID), a16Short(p.Pack)}, e.toks()...)...)
			}
		}
	}
}

func c33RecordTrace(h *H, rec *RecBackend) {
	for _, e := range rec.Events {
		if (e.Op == "save" || e.Op == "remove") && (e.Type == "index" || e.Type == "data" || e.Type == "snapshot") {
			n := e.Name
			if len(n) > 16 {
				n = n[:16]
			}
			st := "ok"
			if e.Err {
				st = "fail"
			}
			h.Rec("tr", e.Op, e.Type, n, st)
		}
	}
}

// c33Damage applies one random damage to the backend; returns its label.
func c33Damage(h *H, repo *repository.Repository, be *mem.MemoryBackend) string {
	packs := a16Packs(repo, be)
	idxs := a16Indexes(repo, be)
	var okIdx []a16IdxInfo
	for _, ix := range idxs {
		if ix.OK && len(ix.Packs) > 0 {
			okIdx = append(okIdx, ix)
		}
	}
	pickIdx := func() (a16IdxInfo, bool) {
		if len(okIdx) == 0 {
			return a16IdxInfo{}, false
		}
		return okIdx[h.Intn(len(okIdx))], true
	}
	switch h.Intn(20) {
	case 17, 18, 19:
		if l := c33TwinPack(h, repo, be, packs, okIdx); l != "" {
			return l
		}
	case 0:
		if len(idxs) > 0 {
			a16Remove(be, backend.IndexFile, idxs[h.Intn(len(idxs))].ID.String())
			return "idx-delete"
		}
	case 1:
		for _, ix := range idxs {
			a16Remove(be, backend.IndexFile, ix.ID.String())
		}
		return "idx-delete-all"
	case 2:
		if len(idxs) > 0 {
			ix := idxs[h.Intn(len(idxs))]
			raw := a16Raw(be, backend.IndexFile, ix.ID.String())
			raw[h.Intn(len(raw))] ^= byte(1 << uint(h.Intn(8)))
			a16Replace(be, backend.IndexFile, ix.ID.String(), raw)
			return "idx-bitflip"
		}
	case 3:
		if len(idxs) > 0 {
			ix := idxs[h.Intn(len(idxs))]
			a16Replace(be, backend.IndexFile, ix.ID.String(), h.Bytes(10+h.Intn(200)))
			return "idx-garbage"
		}
	case 4:
		if ix, ok := pickIdx(); ok {
			a16SaveIndex(repo, ix.Packs)
			return "idx-dup"
		}
	case 5: // partial: drop some blobs of one pack
		if ix, ok := pickIdx(); ok {
			ps := append([]a16IdxPack(nil), ix.Packs...)
			k := h.Intn(len(ps))
			if len(ps[k].Entries) > 1 {
				keep := 1 + h.Intn(len(ps[k].Entries)-1)
				ps[k] = a16IdxPack{Pack: ps[k].Pack, Entries: append([]a16Entry(nil), ps[k].Entries[:keep]...)}
				a16SaveIndex(repo, ps)
				a16Remove(be, backend.IndexFile, ix.ID.String())
				return "idx-partial"
			}
		}
	case 6: // split one pack's blobs over two index files (restic < 0.10 bug shape)
		if ix, ok := pickIdx(); ok {
			ps := append([]a16IdxPack(nil), ix.Packs...)
			k := h.Intn(len(ps))
			if len(ps[k].Entries) > 1 {
				cut := 1 + h.Intn(len(ps[k].Entries)-1)
				a := a16IdxPack{Pack: ps[k].Pack, Entries: append([]a16Entry(nil), ps[k].Entries[:cut]...)}
				b := a16IdxPack{Pack: ps[k].Pack, Entries: append([]a16Entry(nil), ps[k].Entries[cut:]...)}
				ps[k] = a
				a16SaveIndex(repo, ps)
				a16SaveIndex(repo, []a16IdxPack{b})
				a16Remove(be, backend.IndexFile, ix.ID.String())
				return "idx-split"
			}
		}
	case 7: // decodable but wrong entry with consistent total size: swap offsets of two blobs of equal length or shift
		if ix, ok := pickIdx(); ok {
			ps := append([]a16IdxPack(nil), ix.Packs...)
			k := h.Intn(len(ps))
			es := append([]a16Entry(nil), ps[k].Entries...)
			if len(es) > 0 {
				j := h.Intn(len(es))
				es[j].Off += uint(1 + h.Intn(5))
				ps[k] = a16IdxPack{Pack: ps[k].Pack, Entries: es}
				a16SaveIndex(repo, ps)
				a16Remove(be, backend.IndexFile, ix.ID.String())
				return "idx-wrong-offset"
			}
		}
	case 8: // entries for a pack that does not exist
		if ix, ok := pickIdx(); ok {
			ps := append([]a16IdxPack(nil), ix.Packs...)
			ghost := restic.Hash(h.Bytes(8))
			ps = append(ps, a16IdxPack{Pack: ghost, Entries: []a16Entry{{Typ: 0, ID: restic.Hash(h.Bytes(8)), Off: 0, Len: 100, ULen: 0}}})
			a16SaveIndex(repo, ps)
			if h.Bool() {
				a16Remove(be, backend.IndexFile, ix.ID.String())
			}
			return "idx-ghost-pack"
		}
	case 9, 10:
		if len(packs) > 0 {
			a16Remove(be, backend.PackFile, packs[h.Intn(len(packs))].ID.String())
			return "pack-delete"
		}
	case 11, 12:
		if len(packs) > 0 {
			p := packs[h.Intn(len(packs))]
			raw := a16Raw(be, backend.PackFile, p.ID.String())
			cut := h.Intn(len(raw))
			if h.Intn(3) == 0 {
				cut = len(raw) - 1 - h.Intn(40)
				if cut < 0 {
					cut = 0
				}
			}
			a16Replace(be, backend.PackFile, p.ID.String(), raw[:cut])
			return "pack-truncate"
		}
	case 13:
		if len(packs) > 0 {
			p := packs[h.Intn(len(packs))]
			raw := a16Raw(be, backend.PackFile, p.ID.String())
			raw = append(raw, h.Bytes(1+h.Intn(60))...)
			a16Replace(be, backend.PackFile, p.ID.String(), raw)
			return "pack-append"
		}
	case 14:
		if len(packs) > 0 { // flip a byte in the header region (last bytes)
			p := packs[h.Intn(len(packs))]
			raw := a16Raw(be, backend.PackFile, p.ID.String())
			if len(raw) > 0 {
				back := 1 + h.Intn(c33MinInt(len(raw), 80))
				raw[len(raw)-back] ^= byte(1 << uint(h.Intn(8)))
				a16Replace(be, backend.PackFile, p.ID.String(), raw)
				return "pack-flip-header"
			}
		}
	case 15:
		if len(packs) > 0 {
			p := packs[h.Intn(len(packs))]
			raw := a16Raw(be, backend.PackFile, p.ID.String())
			if len(raw) > 0 {
				raw[h.Intn(len(raw))] ^= byte(1 << uint(h.Intn(8)))
				a16Replace(be, backend.PackFile, p.ID.String(), raw)
				return "pack-flip-any"
			}
		}
	case 16: // a healthy pack the index does not know: copy a pack of another repository state is not
		// possible (different key); instead drop the pack from every index file that lists it
		if len(packs) > 0 {
			victim := packs[h.Intn(len(packs))].ID
			done := false
			for _, ix := range okIdx {
				var ps []a16IdxPack
				found := false
				for _, p := range ix.Packs {
					if p.Pack == victim {
						found = true
						continue
					}
					ps = append(ps, p)
				}
				if found {
					if len(ps) > 0 {
						a16SaveIndex(repo, ps)
					}
					a16Remove(be, backend.IndexFile, ix.ID.String())
					done = true
				}
			}
			if done {
				return "idx-forget-pack"
			}
		}
	}
	return "none"
}

// c33TwinPack stores a second, fully valid pack file with exactly the blob layout of an existing
// one (same blobs, offsets, lengths — the blob ciphertexts are copied, the header is encrypted
// again with a fresh nonce, so the pack ID differs) and lists it in a new index file. This is the
// state two clients produce that back up the same small file concurrently. No damage at all.
func c33TwinPack(h *H, repo *repository.Repository, be *mem.MemoryBackend, packs []a16PackInfo, okIdx []a16IdxInfo) string {
	var cands []a16PackInfo
	for _, p := range packs {
		if p.HdrOK && len(p.Entries) > 0 {
			cands = append(cands, p)
		}
	}
	if len(cands) == 0 {
		return ""
	}
	p := cands[h.Intn(len(cands))]
	// the index entries of the original (only twin it when the index knows it: both packs must be
	// described by old index files)
	var ents []a16Entry
	for _, ix := range okIdx {
		for _, ip := range ix.Packs {
			if ip.Pack == p.ID && len(ip.Entries) == len(p.Entries) {
				ents = ip.Entries
			}
		}
	}
	if ents == nil {
		return ""
	}
	raw := a16Raw(be, backend.PackFile, p.ID.String())
	if len(raw) < 4 {
		return ""
	}
	hl := int(binary.LittleEndian.Uint32(raw[len(raw)-4:]))
	if hl+4 > len(raw) {
		return ""
	}
	k := repo.Key()
	enc := raw[len(raw)-4-hl : len(raw)-4]
	if len(enc) < k.NonceSize() {
		return ""
	}
	pt, err := k.Open(nil, enc[:k.NonceSize()], enc[k.NonceSize():], nil)
	if err != nil {
		return ""
	}
	nonce := crypto.NewRandomNonce()
	twin := append([]byte(nil), raw[:len(raw)-4-hl]...)
	twin = append(twin, nonce...)
	twin = k.Seal(twin, nonce, pt, nil)
	twin = binary.LittleEndian.AppendUint32(twin, uint32(hl))
	id := restic.Hash(twin)
	a16Replace(be, backend.PackFile, id.String(), twin)
	a16SaveIndex(repo, []a16IdxPack{{Pack: id, Entries: ents}})
	return "twin-pack"
}

// c33Glitch delivers damaged bytes on the FIRST load of every pack file (one bit of the header MAC
// flipped in transit); the stored files are untouched and every later load is clean.
type c33Glitch struct {
	backend.Backend
	mu   sync.Mutex
	seen map[string]bool
	Hits int
}

func (g *c33Glitch) Load(ctx context.Context, hd backend.Handle, length int, offset int64, fn func(rd io.Reader) error) error {
	if hd.Type != backend.PackFile {
		return g.Backend.Load(ctx, hd, length, offset, fn)
	}
	g.mu.Lock()
	first := !g.seen[hd.Name]
	g.seen[hd.Name] = true
	g.mu.Unlock()
	if !first {
		return g.Backend.Load(ctx, hd, length, offset, fn)
	}
	return g.Backend.Load(ctx, hd, length, offset, func(rd io.Reader) error {
		buf, err := io.ReadAll(rd)
		if err != nil {
			return err
		}
		if len(buf) >= 5 {
			buf[len(buf)-5] ^= 0x04
			g.mu.Lock()
			g.Hits++
			g.mu.Unlock()
		}
		return fn(bytes.NewReader(buf))
	})
}

func (g *c33Glitch) Unwrap() backend.Backend { return g.Backend }

func c33MinInt(a, b int) int {
	if a < b {
		return a
	}
	return b
}

func streamC33(h *H) {
	n := h.N(40, 640)
	var base BeState
	for i := 0; i < n; i++ {
		if i%8 == 0 {
			v := ""
			if h.Intn(5) == 0 {
				v = "1"
			}
			base = a16Base(h, 2+h.Intn(3), v)
		}
		be := LoadBackend(base)
		repo := OpenRepoOn(be, "geheim")
		var dmg []string
		nd := h.Intn(4)
		for k := 0; k < nd; k++ {
			dmg = append(dmg, c33Damage(h, repo, be))
		}
		sort.Strings(dmg)
		thr := []int{0, 1, 4, 12, 1 << 30, 1 << 30}[h.Intn(6)]
		readAll := h.Intn(3) == 0

		h.Case("repair-index")
		if len(dmg) == 0 {
			dmg = []string{"none"}
		}
		h.Rec("dmg", dmg...)
		if readAll {
			h.Rec("mode", "readall")
		} else {
			h.Rec("mode", "default")
		}
		h.Rec("thr", Itoa(thr))
		c33RecordPre(h, repo, be, thr)

		var inner backend.Backend = be
		var glitch *c33Glitch
		if h.Intn(3) == 0 {
			glitch = &c33Glitch{Backend: be, seen: map[string]bool{}}
			inner = glitch
		}
		rec := NewRecBackend(inner)
		cli := NewCLI(rec)
		restore := c33SetFull(thr)
		args := []string{"repair", "index"}
		if readAll {
			args = append(args, "--read-all-packs")
		}
		r := cli.Run(args...)
		restore()
		h.Rec("res", a16ErrKind(r), HexS(a16OneLine(r.Stderr)))
		if glitch != nil {
			h.Rec("glitch", Itoa(glitch.Hits))
		}
		c33RecordTrace(h, rec)
		a16RemoveLocks(be)
		c33RecordPost(h, OpenRepoOn(be, "geheim"), be)
		// second run must be a fixpoint as far as entries are concerned: recorded as a side fact
		_ = context.Background()
		h.End()
	}
}
