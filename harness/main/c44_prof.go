//go:build verif

package main

import (
	"os"
	"runtime/pprof"
)

func c44Prof() func() {
	if p := os.Getenv("C44_PROF"); p != "" {
		f, _ := os.Create(p)
		pprof.StartCPUProfile(f)
		return func() { pprof.StopCPUProfile(); f.Close() }
	}
	return func() {}
}
