//go:build verif

package main

// C39 — dry runs and lock-free reads never modify the repository.
//
// A few repositories are built with the real CLI (init, three backups of a changing tree, one
// forget without prune so that prune has work; variants: format v1, a missing pack so that
// `repair snapshots` and `check` have something to report). Every case copies one repository
// state into a fresh in-memory backend below a recording wrapper (the innermost layer: it sees
// what really reaches the backend), runs one real command line, and reports every backend
// operation plus all files before and after. Records:
//
//	cmd <model-cmd> <name>       model-cmd: backup forget prune rewrite repairsnapshots reader check listlocks
//	flags <dry-run 0/1> <no-lock 0/1>
//	args <hex of the argument vector joined by NUL>
//	repo <variant>
//	pre <type> <hexname> <digest>
//	res <exit code> [panic]
//	ev <op> <type> <hexname> <err 0/1>
//	post <type> <hexname> <digest>

import (
	"encoding/json"
	"os"
	"path/filepath"
	"strings"

	"github.com/restic/restic/internal/backend"
	"github.com/restic/restic/internal/backend/mem"
)

var _ = verifRegister("C39", streamC39)

type c39Repo struct {
	variant string
	st      BeState
	snaps   []string // snapshot ids (full)
	src     string   // source directory (state after the last backup, plus one new file)
	afile   string   // absolute path of a file present in the latest snapshot
	indexes []string
}

func c39Write(p string, data []byte) {
	if err := os.MkdirAll(filepath.Dir(p), 0o755); err != nil {
		panic(err)
	}
	if err := os.WriteFile(p, data, 0o644); err != nil {
		panic(err)
	}
}

func c39SnapshotIDs(cli *CLI) []string {
	r := cli.MustRun("snapshots", "--json", "--no-lock")
	var l []struct {
		ID string `json:"id"`
	}
	if err := json.Unmarshal([]byte(r.Stdout), &l); err != nil {
		panic(err)
	}
	var ids []string
	for _, s := range l {
		ids = append(ids, s.ID)
	}
	return ids
}

func c39Build(h *H, variant string) *c39Repo {
	be := mem.New()
	cli := NewCLI(be)
	if variant == "v1" {
		cli.MustRun("init", "--repository-version", "1")
	} else {
		cli.MustRun("init")
	}
	src := MkTemp("c39-src-")
	c39Write(filepath.Join(src, "a.txt"), []byte("hello a\n"))
	c39Write(filepath.Join(src, "d", "b.bin"), h.Bytes(20000+h.Intn(30000)))
	c39Write(filepath.Join(src, "d", "e", "c.txt"), []byte(strings.Repeat("c", 300)))
	c39Write(filepath.Join(src, "d", "x.log"), h.Bytes(3000))
	cli.MustRun("backup", "--tag", "t1", src)
	c39Write(filepath.Join(src, "a.txt"), []byte("hello a, changed\n"))
	c39Write(filepath.Join(src, "d", "new.txt"), h.Bytes(5000))
	os.Remove(filepath.Join(src, "d", "x.log"))
	cli.MustRun("backup", "--tag", "t2", src)
	c39Write(filepath.Join(src, "d", "b.bin"), h.Bytes(25000))
	cli.MustRun("backup", "--tag", "t2", "--host", "other", src)
	c39Write(filepath.Join(src, "z", "big.bin"), h.Bytes(40000))
	cli.MustRun("backup", "--tag", "t3", src)
	ids := c39SnapshotIDs(cli)
	// forget the last one without prune: unused blobs for prune --dry-run
	cli.MustRun("forget", ids[len(ids)-1])
	ids = c39SnapshotIDs(cli)
	// the source directory differs from every snapshot
	c39Write(filepath.Join(src, "fresh.txt"), h.Bytes(2000))
	st := DumpBackend(be)
	if variant == "damaged" {
		// drop one pack file: repair snapshots / check have work
		packs := st.Names("data")
		delete(st, packs[h.Intn(len(packs))])
	}
	r := &c39Repo{variant: variant, st: st, snaps: ids, src: src, afile: filepath.Join(src, "a.txt")}
	for _, k := range st.Names("index") {
		r.indexes = append(r.indexes, k[len("index/"):])
	}
	return r
}

type c39Inv struct {
	mcmd   string
	name   string
	args   []string
	dry    bool
	noLock bool
}

func streamC39(h *H) {
	var repos []*c39Repo
	for _, v := range []string{"plain", "v1", "damaged", "plain"} {
		repos = append(repos, c39Build(h, v))
	}
	defer func() {
		for _, r := range repos {
			os.RemoveAll(r.src)
		}
	}()
	tmpTarget := MkTemp("c39-target-")
	defer os.RemoveAll(tmpTarget)

	gen := func(rp *c39Repo) c39Inv {
		sn := func() string { return rp.snaps[h.Intn(len(rp.snaps))] }
		short := func(id string) string { return id[:8+h.Intn(8)] }
		inv := c39Inv{}
		// writers are in scope with --dry-run (90%), readers with --no-lock (75%)
		switch h.Intn(16) {
		case 0, 1:
			inv.mcmd, inv.name = "backup", "backup"
			inv.dry = h.Intn(10) != 0
			inv.args = []string{"backup", rp.src}
			if h.Bool() {
				inv.args = append(inv.args, "--tag", "dry")
			}
			if h.Intn(3) == 0 {
				inv.args = append(inv.args, "--force")
			}
			if h.Intn(3) == 0 {
				inv.args = append(inv.args, "--exclude", "*.bin")
			}
		case 2, 3:
			inv.mcmd, inv.name = "forget", "forget"
			inv.dry = h.Intn(10) != 0
			inv.args = []string{"forget"}
			switch h.Intn(4) {
			case 0:
				inv.args = append(inv.args, "--keep-last", "1")
			case 1:
				inv.args = append(inv.args, "--keep-tag", "t1", "--group-by", "")
			case 2:
				inv.args = append(inv.args, short(sn()))
			default:
				inv.args = append(inv.args, "--keep-last", "1", "--group-by", "host")
			}
			if h.Bool() {
				inv.args = append(inv.args, "--prune")
			}
		case 4, 5:
			inv.mcmd, inv.name = "prune", "prune"
			inv.dry = h.Intn(10) != 0
			inv.args = []string{"prune"}
			switch h.Intn(3) {
			case 0:
				inv.args = append(inv.args, "--max-unused", "0")
			case 1:
				inv.args = append(inv.args, "--max-unused", "unlimited")
			}
			if h.Intn(3) == 0 {
				inv.args = append(inv.args, "--repack-small")
			}
		case 6, 7:
			inv.mcmd, inv.name = "rewrite", "rewrite"
			inv.dry = h.Intn(10) != 0
			inv.args = []string{"rewrite", "--exclude", h.Pick([]string{"*.txt", "*.bin", filepath.Join(rp.src, "d"), "nomatch"})}
			if h.Bool() {
				inv.args = append(inv.args, "--forget")
			}
			// On the damaged repository rewrite always gets one snapshot id: with several snapshots
			// the first failing rewrite leaves the pack uploader running and the next callback of
			// FindAll (already queued in a ParallelList worker) panics with "uploader already
			// started" in a worker goroutine, which kills the harness process (observation
			// outside C39, see docs/C39.md).
			if h.Bool() || rp.variant == "damaged" {
				inv.args = append(inv.args, short(sn()))
			}
		case 8:
			inv.mcmd, inv.name = "repairsnapshots", "repair-snapshots"
			inv.dry = h.Intn(10) != 0
			inv.args = []string{"repair", "snapshots"}
			if h.Bool() {
				inv.args = append(inv.args, "--forget")
			}
		case 9:
			inv.mcmd, inv.name = "check", "check"
			inv.args = []string{"check"}
			if h.Intn(3) == 0 {
				inv.args = append(inv.args, "--read-data")
			}
		default:
			inv.mcmd = "reader"
			switch h.Intn(13) {
			case 0:
				inv.name, inv.args = "snapshots", []string{"snapshots"}
				if h.Bool() {
					inv.args = append(inv.args, "--json")
				}
			case 1:
				inv.name, inv.args = "ls", []string{"ls", h.Pick([]string{"latest", short(sn())})}
				if h.Bool() {
					inv.args = append(inv.args, "-l")
				}
			case 2:
				inv.name, inv.args = "find", []string{"find", h.Pick([]string{"a.txt", "*.bin", "nothing"})}
			case 3:
				inv.name, inv.args = "stats", []string{"stats", "--mode", h.Pick([]string{"restore-size", "files-by-contents", "blobs-per-file", "raw-data"})}
			case 4:
				inv.name = "cat"
				switch h.Intn(4) {
				case 0:
					inv.args = []string{"cat", "config"}
				case 1:
					inv.args = []string{"cat", "snapshot", short(sn())}
				case 2:
					inv.args = []string{"cat", "masterkey"}
				default:
					inv.args = []string{"cat", "index", rp.indexes[h.Intn(len(rp.indexes))]}
				}
			case 5:
				inv.name, inv.args = "dump", []string{"dump", "latest", rp.afile}
			case 6:
				inv.name, inv.args = "diff", []string{"diff", short(rp.snaps[0]), short(rp.snaps[len(rp.snaps)-1])}
			case 7:
				what := h.Pick([]string{"snapshots", "index", "packs", "blobs", "keys", "locks"})
				inv.name, inv.args = "list", []string{"list", what}
				if what == "locks" {
					inv.mcmd = "listlocks"
				}
			case 8:
				inv.name, inv.args = "key-list", []string{"key", "list"}
			case 9:
				inv.name, inv.args = "restore", []string{"restore", "latest", "--target", tmpTarget}
				if h.Bool() {
					inv.args = append(inv.args, "--dry-run")
				}
			case 10:
				inv.name, inv.args = "ls", []string{"ls", "latest", "--recursive"}
			case 11:
				inv.name, inv.args = "find", []string{"find", "--snapshot", short(sn()), "c.txt", "-l"}
			default:
				inv.name, inv.args = "stats", []string{"stats", short(sn())}
			}
		}
		if inv.dry {
			inv.args = append(inv.args, h.Pick([]string{"--dry-run", "-n", "--dry-run=true"}))
		}
		isReader := inv.mcmd == "reader" || inv.mcmd == "check" || inv.mcmd == "listlocks"
		if (isReader && h.Intn(4) != 0) || (!isReader && h.Intn(3) == 0) {
			inv.noLock = true
			inv.args = append(inv.args, "--no-lock")
		}
		return inv
	}

	n := h.N(150, 1200)
	for i := 0; i < n; i++ {
		rp := repos[h.Intn(len(repos))]
		inv := gen(rp)
		inner := LoadBackend(rp.st)
		rec := NewRecBackend(inner)
		cli := NewCLI(rec)
		h.Case("inv")
		h.Rec("cmd", inv.mcmd, inv.name)
		h.Rec("flags", B(inv.dry), B(inv.noLock))
		h.Rec("args", HexS(strings.Join(inv.args, "\x00")))
		h.Rec("repo", rp.variant)
		a15RecState(h, "pre", DumpBackend(inner))
		h.W.Flush() // a panic in a worker goroutine of the command kills the process: keep the input visible
		r := cli.Run(inv.args...)
		if r.Panic != "" {
			h.Rec("res", Itoa(r.Exit), "panic", HexS(r.Panic))
		} else {
			h.Rec("res", Itoa(r.Exit))
		}
		a15RecEvents(h, rec.Events)
		a15RecState(h, "post", DumpBackend(inner))
		h.End()
		os.RemoveAll(tmpTarget)
		os.MkdirAll(tmpTarget, 0o755)
	}
	_ = backend.Handle{}
}
