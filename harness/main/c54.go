//go:build verif

package main

import (
	"encoding/json"
	"os"
	"path/filepath"
	"syscall"

	"github.com/restic/restic/internal/data"
)

var _ = verifRegister("C54", streamC54)

type c54Out struct {
	TotalSize      uint64 `json:"total_size"`
	TotalFileCount uint64 `json:"total_file_count"`
	SnapshotsCount int    `json:"snapshots_count"`
}

// streamC54: generated snapshots (hard links, empty files, specials, several snapshots) written
// directly into an in-memory repository; the real `restic stats --mode restore-size --json` is run
// through the CLI. Sub-streams:
//
//	stats    archiver-shaped trees, 1..3 snapshots
//	weird    trees with metadata the archiver never writes (model correspondence only for the size)
//	restore  one snapshot, additionally restored for real: bytes and entries found on disk
func streamC54(h *H) {
	n := h.N(90, 3000)
	var r *a7Repo
	for i := 0; i < n; i++ {
		if i%40 == 0 {
			r = newA7Repo()
		}
		g := newA7Gen(h)
		g.Hardlinks = h.Intn(5) != 0
		g.Specials = true
		g.MaxDepth = 1 + h.Intn(3)
		sub := "stats"
		switch {
		case i%6 == 5:
			sub = "restore"
			g.Specials = false
		case i%6 == 4:
			sub = "weird"
			g.Weird = true
		}
		if sub == "stats" && h.Intn(5) == 0 {
			g.NoInodes = true
		}
		k := 1
		if sub != "restore" {
			k = 1 + h.Intn(3)
		}
		var trees [][]*a7Node
		var ids []string
		for j := 0; j < k; j++ {
			var t []*a7Node
			if j > 0 && h.Intn(3) == 0 {
				t = trees[j-1] // the same tree in a second snapshot: the index must not carry over
			} else {
				t = g.Tree()
			}
			if sub == "restore" {
				c54Restorable(t)
			}
			id, _ := r.Snapshot(t)
			trees = append(trees, t)
			ids = append(ids, id.String())
		}
		h.Case(sub)
		h.Rec("snaps", Itoa(k))
		num := newA7Num()
		for j, t := range trees {
			num.Emit(h, Itoa(j), t, 0)
		}
		args := append([]string{"stats", "--mode", "restore-size", "--json"}, ids...)
		if h.Intn(4) == 0 && sub != "weird" { // restore-size is the default mode
			args = append([]string{"stats", "--json"}, ids...)
		}
		res := r.CLI.Run(args...)
		switch {
		case res.Panic != "":
			h.Rec("out", "panic", HexS(res.Panic))
		case res.Err != nil:
			h.Rec("out", "err", HexS(res.Err.Error()))
		default:
			var o c54Out
			if err := json.Unmarshal([]byte(res.Stdout), &o); err != nil {
				h.Rec("out", "err", HexS("unparsable: "+res.Stdout))
			} else {
				h.Rec("out", "ok", Itoa(o.SnapshotsCount), U64(o.TotalFileCount), U64(o.TotalSize))
			}
		}
		if sub == "restore" {
			dir := MkTemp("c54-")
			rr := r.CLI.Run("restore", ids[0], "--target", dir)
			if rr.Err == nil {
				bytes, entries := c54Scan(dir)
				h.Rec("restored", "0", U64(bytes), Itoa(entries))
			} else {
				h.Rec("restore-failed", HexS(rr.Err.Error()))
			}
			_ = os.RemoveAll(dir)
		}
		h.End()
	}
}

// c54Restorable makes a tree restorable without privileges or surprises: plain permissions.
func c54Restorable(nodes []*a7Node) {
	for _, n := range nodes {
		switch n.Type {
		case data.NodeTypeDir:
			n.Mode = os.ModeDir | 0o755
			c54Restorable(n.Kids)
		case data.NodeTypeFile:
			n.Mode = 0o644
		}
		n.UID, n.GID = 0, 0
	}
}

// c54Scan returns the bytes of regular files below dir (every inode once) and the number of entries.
func c54Scan(dir string) (uint64, int) {
	var bytes uint64
	entries := 0
	seen := map[[2]uint64]bool{}
	_ = filepath.Walk(dir, func(p string, fi os.FileInfo, err error) error {
		if err != nil || p == dir {
			return nil
		}
		entries++
		if fi.Mode().IsRegular() {
			st := fi.Sys().(*syscall.Stat_t)
			k := [2]uint64{uint64(st.Dev), st.Ino}
			if !seen[k] {
				seen[k] = true
				bytes += uint64(fi.Size())
			}
		}
		return nil
	})
	return bytes, entries
}
