//go:build verif

package main

import "github.com/restic/restic/internal/data"

var _ = verifRegisterFacts(data.VerifFactsC22)
