//go:build verif

package main

// Shared toolkit of the restore properties C18 / C19 / C21: hand-built snapshot trees written
// directly into a repository (raw tree JSON, so that unordered / duplicate / invalid node names
// are possible, as a host with repository access could produce them), sandbox directories, and
// canonical dumps of a directory tree.

import (
	"bytes"
	"context"
	"encoding/json"
	"fmt"
	"os"
	"path/filepath"
	"sort"
	"syscall"
	"time"

	"github.com/restic/restic/internal/backend"
	"github.com/restic/restic/internal/data"
	"github.com/restic/restic/internal/repository"
	"github.com/restic/restic/internal/restic"
)

// vNode is a snapshot node to be written by hand.
type vNode struct {
	Name      string
	Type      data.NodeType
	Parts     [][]byte // file: content blobs, in order
	DupPart   []bool   // file: store this part even if the repository already has the blob (second copy)
	Size      *uint64  // file: override of node.Size (default: sum of the parts)
	Target    string   // symlink target
	Children  []*vNode // dir
	NoSubtree bool     // dir without subtree id
	Mode      os.FileMode
	MTime     time.Time
	Links     uint64
	Inode     uint64
}

var vBaseTime = time.Unix(1600000000, 0)

func vNodeToData(ctx context.Context, up restic.BlobSaver, n *vNode) *data.Node {
	mode := n.Mode
	mt := n.MTime
	if mt.IsZero() {
		mt = vBaseTime
	}
	dn := &data.Node{Name: n.Name, Type: n.Type, ModTime: mt, AccessTime: mt, ChangeTime: mt,
		UID: uint32(os.Getuid()), GID: uint32(os.Getgid()), Links: n.Links, Inode: n.Inode}
	if dn.Links == 0 {
		dn.Links = 1
	}
	switch n.Type {
	case data.NodeTypeFile:
		if mode == 0 {
			mode = 0644
		}
		var size uint64
		dn.Content = restic.IDs{}
		for i, p := range n.Parts {
			dup := i < len(n.DupPart) && n.DupPart[i]
			id, _, _, err := up.SaveBlob(ctx, restic.DataBlob, p, restic.ID{}, dup)
			if err != nil {
				panic(err)
			}
			dn.Content = append(dn.Content, id)
			size += uint64(len(p))
		}
		if n.Size != nil {
			size = *n.Size
		}
		dn.Size = size
	case data.NodeTypeDir:
		if mode == 0 {
			mode = 0755
		}
		mode |= os.ModeDir
		if !n.NoSubtree {
			id := vSaveTree(ctx, up, n.Children)
			dn.Subtree = &id
		}
	case data.NodeTypeSymlink:
		mode = os.ModeSymlink | 0777
		dn.LinkTarget = n.Target
	default:
		if mode == 0 {
			mode = 0644
		}
	}
	dn.Mode = mode
	return dn
}

// vSaveTree writes the nodes in the given order as one tree blob (no ordering / duplicate check).
func vSaveTree(ctx context.Context, up restic.BlobSaver, nodes []*vNode) restic.ID {
	var buf bytes.Buffer
	buf.WriteString(`{"nodes":[`)
	for i, n := range nodes {
		if i > 0 {
			buf.WriteByte(',')
		}
		b, err := json.Marshal(vNodeToData(ctx, up, n))
		if err != nil {
			panic(err)
		}
		buf.Write(b)
	}
	buf.WriteString("]}\n")
	id, _, _, err := up.SaveBlob(ctx, restic.TreeBlob, buf.Bytes(), restic.ID{}, false)
	if err != nil {
		panic(err)
	}
	return id
}

// vSaveSnapshot stores the tree and a snapshot pointing to it.
func vSaveSnapshot(repo *repository.Repository, nodes []*vNode) (*data.Snapshot, restic.ID) {
	ctx := context.Background()
	var treeID restic.ID
	err := repo.WithBlobUploader(ctx, func(ctx context.Context, up restic.BlobSaverWithAsync) error {
		treeID = vSaveTree(ctx, up, nodes)
		return nil
	})
	if err != nil {
		panic(err)
	}
	sn, err := data.NewSnapshot([]string{"/verif"}, nil, "verif", vBaseTime)
	if err != nil {
		panic(err)
	}
	sn.Tree = &treeID
	id, err := data.SaveSnapshot(ctx, repo, sn)
	if err != nil {
		panic(err)
	}
	return sn, id
}

// vNewRepo returns a fresh in-memory repository and its backend.
func vNewRepo() (*repository.Repository, backend.Backend) {
	return NewRepo(0, repository.Options{})
}

// vEntry is one entry of a canonical directory dump.
type vEntry struct {
	Path string // relative to the dumped root, "" = the root itself
	Kind string // dir file symlink fifo other
	Data []byte // file content / link target
	Mode os.FileMode
	Nlnk uint64
	MT   int64
	Ino  uint64
}

// vDump lists everything below root (Lstat semantics, never follows symlinks), sorted by path.
// Unreadable files are reported with Kind "file" and Data nil plus Mode.
func vDump(root string) []vEntry {
	var res []vEntry
	var walk func(p, rel string)
	walk = func(p, rel string) {
		fi, err := os.Lstat(p)
		if err != nil {
			return
		}
		e := vEntry{Path: rel, Mode: fi.Mode().Perm(), MT: fi.ModTime().UnixNano()}
		if st, ok := fi.Sys().(*syscall.Stat_t); ok {
			e.Nlnk = uint64(st.Nlink)
			e.Ino = st.Ino
		}
		switch {
		case fi.Mode().IsDir():
			e.Kind = "dir"
		case fi.Mode().IsRegular():
			e.Kind = "file"
			e.Data, _ = os.ReadFile(p)
		case fi.Mode()&os.ModeSymlink != 0:
			e.Kind = "symlink"
			t, _ := os.Readlink(p)
			e.Data = []byte(t)
		case fi.Mode()&os.ModeNamedPipe != 0:
			e.Kind = "fifo"
		default:
			e.Kind = "other"
		}
		res = append(res, e)
		if e.Kind == "dir" {
			names, _ := readDirNames(p)
			sort.Strings(names)
			for _, n := range names {
				walk(filepath.Join(p, n), filepath.Join(rel, n))
			}
		}
	}
	walk(root, "")
	return res
}

func readDirNames(p string) ([]string, error) {
	f, err := os.Open(p)
	if err != nil {
		return nil, err
	}
	defer f.Close()
	return f.Readdirnames(-1)
}

// vDumpKey is a comparable fingerprint of a dump (content, type, permissions, link count and
// modification time of every entry; the root's own mtime is left out by the caller if wanted).
func vDumpKey(d []vEntry, withMtime bool) string {
	var b bytes.Buffer
	for _, e := range d {
		fmt.Fprintf(&b, "%q %s %x %o %d", e.Path, e.Kind, e.Data, e.Mode, e.Nlnk)
		if withMtime {
			fmt.Fprintf(&b, " %d", e.MT)
		}
		b.WriteByte('\n')
	}
	return b.String()
}

// vDiff returns the paths whose entries differ between two dumps (added, removed, changed).
func vDiff(a, b []vEntry, withMtime bool) []string {
	key := func(e vEntry) string { return vDumpKey([]vEntry{e}, withMtime) }
	ma := map[string]string{}
	for _, e := range a {
		ma[e.Path] = key(e)
	}
	var res []string
	seen := map[string]bool{}
	for _, e := range b {
		seen[e.Path] = true
		if ma[e.Path] != key(e) {
			res = append(res, e.Path)
		}
	}
	for _, e := range a {
		if !seen[e.Path] {
			res = append(res, e.Path)
		}
	}
	sort.Strings(res)
	return res
}

// vWithTimeout runs f and reports whether it finished in time (a hanging restore is reported
// as an outcome, never waited for).
func vWithTimeout(d time.Duration, f func(ctx context.Context)) (finished bool) {
	ctx, cancel := context.WithTimeout(context.Background(), d)
	defer cancel()
	done := make(chan struct{})
	go func() {
		defer close(done)
		f(ctx)
	}()
	select {
	case <-done:
		return true
	case <-time.After(d + 5*time.Second):
		return false
	}
}
