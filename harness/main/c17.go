//go:build verif

package main

// C17 — content-defined chunking. Drives the REAL fileSaver.saveFile / readNextChunk
// (internal/archiver, through the shim c17_chunk.go) with the REAL github.com/restic/chunker:
//   sub-stream small/edit: the library with small boundaries (so that min/max/natural cuts and
//       the read-buffer logic are hit thousands of times), several "workers" (runs) per case with
//       different read-buffer sizes and short-read patterns, several files per worker;
//   sub-stream real: the repository's own chunker factory (512 KiB / 8 MiB / 20 bits, read buffer
//       chunkReadBufSize) through newFileSaver/worker, files described by generator segments.
// Records:
//   cfg <pol> <min> <max> <avgbits>
//   file <i> <hex>            | filed <i> <seg>*     seg = z:<n> | p:<hex>:<n> | r:<seed>:<n>
//   fail <i>                  reader of file i ends with a read error instead of EOF
//   edit <plen> <xlen> <ylen> file0 = p++x++t, file1 = p++y++t
//   run <r> <bufSize> <dirty 0/1> <pattern-of-file-0> <pattern-of-file-1> ...
//   out <r> <i> ok <hex chunk>*   | out <r> <i> sizes <concat_ok 0/1> <n>* | out <r> <i> error
//   conc <r> <workers> <schedule>   run r used several file workers at once (sub-stream conc): the
//       files' readers take turns buffer by buffer as the schedule (string of reader ids) says
import (
	"context"
	"errors"
	"fmt"
	"io"
	"strconv"
	"strings"
	"sync"
	"time"

	"github.com/restic/chunker"
	"github.com/restic/restic/internal/archiver"
	"github.com/restic/restic/internal/backend/mem"
	"github.com/restic/restic/internal/repository"
)

var _ = verifRegister("C17", streamC17)
var _ = verifRegisterFacts(archiver.VerifFactsC17)
var _ = verifRegisterFacts(func() map[string]int64 {
	return map[string]int64{"chunker_MinSize": int64(chunker.MinSize), "chunker_MaxSize": int64(chunker.MaxSize)}
})

// c17Chunker is restic's baseChunker (internal/repository/chunker.go) with library options.
type c17Chunker struct {
	bc       *chunker.BaseChunker
	pol      chunker.Pol
	min, max uint
	bits     int
}

func newC17Chunker(pol chunker.Pol, min, max uint, bits int) *c17Chunker {
	c := &c17Chunker{pol: pol, min: min, max: max, bits: bits}
	c.bc = chunker.NewBase(pol, chunker.WithBaseBoundaries(min, max), chunker.WithBaseAverageBits(bits))
	return c
}
func (c *c17Chunker) Reset() {
	c.bc.Reset(c.pol, chunker.WithBaseBoundaries(c.min, c.max), chunker.WithBaseAverageBits(c.bits))
}
func (c *c17Chunker) NextSplitPoint(buf []byte) int { return c.bc.NextSplitPoint(buf) }

var errC17IO = errors.New("verif: injected read error")

// c17Reader delivers data with a cyclic list of read sizes (0 = empty read).
type c17Reader struct {
	data      []byte
	off       int
	sizes     []int
	i         int
	eofWith   bool // return io.EOF together with the last bytes
	failAtEnd bool
}

func (r *c17Reader) Read(p []byte) (int, error) {
	if r.off == len(r.data) {
		if r.failAtEnd {
			return 0, errC17IO
		}
		return 0, io.EOF
	}
	n := len(p)
	if len(r.sizes) > 0 {
		n = r.sizes[r.i%len(r.sizes)]
		r.i++
	}
	n = min(n, len(p), len(r.data)-r.off)
	copy(p, r.data[r.off:r.off+n])
	r.off += n
	if r.off == len(r.data) && r.eofWith && !r.failAtEnd {
		return n, io.EOF
	}
	return n, nil
}

// c17Xorshift: the tiny data PRNG shared with the Lean driver (Driver/C17.lean `xorshiftBytes`)
func c17Xorshift(seed uint64, n int) []byte {
	x := seed | 1
	b := make([]byte, n)
	for i := range b {
		x ^= x << 13
		x ^= x >> 7
		x ^= x << 17
		b[i] = byte(x >> 32)
	}
	return b
}

type c17Seg struct {
	kind string // z p r
	pat  []byte
	seed uint64
	n    int
}

func (s c17Seg) bytes() []byte {
	switch s.kind {
	case "z":
		return make([]byte, s.n)
	case "p":
		b := make([]byte, s.n)
		for i := range b {
			b[i] = s.pat[i%len(s.pat)]
		}
		return b
	default:
		return c17Xorshift(s.seed, s.n)
	}
}
func (s c17Seg) tok() string {
	switch s.kind {
	case "z":
		return "z:" + Itoa(s.n)
	case "p":
		return "p:" + Hex(s.pat) + ":" + Itoa(s.n)
	default:
		return "r:" + U64(s.seed) + ":" + Itoa(s.n)
	}
}

func (h *H) c17Pattern(small bool) (name string, sizes []int, eofWith bool) {
	switch h.Intn(7) {
	case 0:
		return "full", nil, false
	case 1:
		return "one", []int{1}, h.Bool()
	case 2:
		if small {
			return "prime", []int{13}, false
		}
		return "prime", []int{7919}, false
	case 3:
		n := 2 + h.Intn(14)
		l := make([]int, n)
		for i := range l {
			if small {
				l[i] = h.Intn(300)
			} else {
				l[i] = h.Intn(200000)
			}
		}
		l[0]++
		return "rand", l, h.Bool()
	case 4:
		return "zeroreads", []int{0, 5, 0, 0, 1000003}, true
	case 5:
		return "eofwith", nil, true
	default:
		if small {
			return "pow2", []int{64}, false
		}
		return "pow2", []int{65536}, false
	}
}

func c17OneBigRead() []int { return nil }

func streamC17(h *H) {
	// a few irreducible polynomials, derived deterministically from the stream PRNG
	pols := []chunker.Pol{0x3DA3358B4DC173}
	for len(pols) < 4 {
		p, err := chunker.DerivePolynomial(h.Rng)
		if err != nil {
			panic(err)
		}
		pols = append(pols, p)
	}
	nSmall := h.N(260, 12000)
	for i := 0; i < nSmall; i++ {
		h.c17Small(pols, h.Intn(4) == 0)
	}
	nReal := h.N(5, 60)
	for i := 0; i < nReal; i++ {
		h.c17Real(pols[1+h.Intn(len(pols)-1)], i)
	}
	nConc := h.N(4, 40)
	for i := 0; i < nConc; i++ {
		h.c17Conc(pols[1+h.Intn(len(pols)-1)])
	}
}

// c17Turns lets the readers of concurrently saved files proceed one at a time in the order given
// by a generated schedule. A reader keeps its turn from the moment its Read is granted until it
// asks for the next Read (or is closed), so the worker's NextSplitPoint call on the buffer it just
// filled runs while no other worker is inside the chunker: the interleaving of NextSplitPoint /
// Reset calls of different workers is exactly the schedule — deterministic, no goroutine race.
type c17Turns struct {
	mu     sync.Mutex
	cond   *sync.Cond
	sched  []int
	pos    int
	holder int // reader currently holding the turn, -1 = nobody
	done   []bool
}

func (t *c17Turns) next() int { // reader whose turn it is (skipping finished readers); -1 = all done
	for n := 0; n < len(t.sched)+len(t.done); n++ {
		id := t.sched[t.pos%len(t.sched)]
		if !t.done[id] {
			return id
		}
		t.pos++
	}
	return -1
}

type c17TurnReader struct {
	id   int
	t    *c17Turns
	rd   io.Reader
	held bool
}

func (r *c17TurnReader) release() {
	if r.held {
		r.held = false
		r.t.holder = -1
		r.t.pos++
		r.t.cond.Broadcast()
	}
}

func (r *c17TurnReader) Read(p []byte) (int, error) {
	t := r.t
	t.mu.Lock()
	r.release()
	for !(t.holder == -1 && t.next() == r.id) {
		t.cond.Wait()
	}
	t.holder, r.held = r.id, true
	t.mu.Unlock()
	return r.rd.Read(p)
}

func (r *c17TurnReader) Close() error {
	t := r.t
	t.mu.Lock()
	t.done[r.id] = true
	if r.held {
		r.release()
	} else {
		t.cond.Broadcast()
	}
	t.mu.Unlock()
	return nil
}

// c17Conc: two or three file workers of the real fileSaver chunk large files at the same time with
// chunkers handed out by the repository's factory; run 0 is the single-worker reference.
func (h *H) c17Conc(pol chunker.Pol) {
	repo, err := repository.New(mem.New(), repository.Options{})
	if err != nil {
		panic(err)
	}
	if err := repo.Init(context.Background(), 2, "geheim", &pol); err != nil {
		panic(err)
	}
	const MiB = 1 << 20
	nfiles := 2 + h.Intn(2)
	var filesSegs [][]c17Seg
	for i := 0; i < nfiles; i++ {
		n := MiB + MiB/2 + h.Intn(MiB+MiB/2) // 1.5 .. 3 MiB: 3-6 read buffers, 1-4 cuts
		if h.Thorough() {
			n += h.Intn(2 * MiB)
		}
		switch h.Intn(5) {
		case 0:
			filesSegs = append(filesSegs, []c17Seg{{kind: "r", seed: h.Rng.Uint64(), n: n / 2}, {kind: "z", n: n / 4}, {kind: "r", seed: h.Rng.Uint64(), n: n / 4}})
		case 1:
			filesSegs = append(filesSegs, []c17Seg{{kind: "z", n: n}})
		default:
			filesSegs = append(filesSegs, []c17Seg{{kind: "r", seed: h.Rng.Uint64(), n: n}})
		}
	}
	var files [][]byte
	for _, ss := range filesSegs {
		var b []byte
		for _, s := range ss {
			b = append(b, s.bytes()...)
		}
		files = append(files, b)
	}
	h.Case("conc")
	h.Rec("cfg", U64(uint64(repo.Config().ChunkerPolynomial)), Itoa(chunker.MinSize), Itoa(chunker.MaxSize), "20")
	for j, ss := range filesSegs {
		toks := []string{Itoa(j)}
		for _, s := range ss {
			toks = append(toks, s.tok())
		}
		h.Rec("filed", toks...)
	}
	bufSize := int(archiver.VerifFactsC17()["archiver_chunkReadBufSize"])
	emit := func(r int, res []archiver.VerifC17Result) {
		for j, o := range res {
			if o.Err != nil {
				h.Rec("out", Itoa(r), Itoa(j), "error")
				continue
			}
			var cat []byte
			toks := []string{Itoa(r), Itoa(j), "sizes", ""}
			for _, c := range o.Chunks {
				cat = append(cat, c...)
				toks = append(toks, Itoa(len(c)))
			}
			toks[3] = B(string(cat) == string(files[j]) && o.Size == uint64(len(files[j])))
			h.Rec("out", toks...)
		}
	}
	// run 0: one worker, one file after the other (reference)
	toks := []string{"0", Itoa(bufSize), "0"}
	var rds []io.Reader
	for _, f := range files {
		toks = append(toks, "full")
		rds = append(rds, &c17Reader{data: f})
	}
	h.Rec("run", toks...)
	var res []archiver.VerifC17Result
	if panicked, msg := Protect(func() { res = archiver.VerifC17RealWorker(repo.ChunkerFactory(), rds) }); panicked {
		h.Rec("panic", "0", HexS(msg))
		h.End()
		return
	}
	emit(0, res)
	// run 1: as many workers as files, all at once, readers take turns
	sched := make([]int, 24)
	var ss strings.Builder
	for i := range sched {
		sched[i] = h.Intn(nfiles)
		if i < nfiles {
			sched[i] = i // everybody gets going early
		}
		ss.WriteString(Itoa(sched[i]))
	}
	turns := &c17Turns{sched: sched, holder: -1, done: make([]bool, nfiles)}
	turns.cond = sync.NewCond(&turns.mu)
	toks = []string{"1", Itoa(bufSize), "0"}
	rds = nil
	for j, f := range files {
		toks = append(toks, "turns")
		rds = append(rds, &c17TurnReader{id: j, t: turns, rd: &c17Reader{data: f}})
	}
	h.Rec("run", toks...)
	h.Rec("conc", "1", Itoa(nfiles), ss.String())
	done := make(chan struct{})
	var panicked bool
	var msg string
	go func() {
		panicked, msg = Protect(func() { res = archiver.VerifC17ConcWorkers(repo.ChunkerFactory(), uint(nfiles), rds) })
		close(done)
	}()
	select {
	case <-done:
	case <-time.After(120 * time.Second):
		h.Rec("hang", "1")
		h.End()
		return
	}
	if panicked {
		h.Rec("panic", "1", HexS(msg))
		h.End()
		return
	}
	emit(1, res)
	h.End()
}

func (h *H) c17Data(n int, max int) []byte {
	switch h.Intn(6) {
	case 0:
		return make([]byte, n)
	case 1:
		pat := h.Bytes(1 + h.Intn(9))
		b := make([]byte, n)
		for i := range b {
			b[i] = pat[i%len(pat)]
		}
		return b
	case 2: // random with a run of zeros inside
		b := h.Bytes(n)
		if n > 4 {
			a := h.Intn(n)
			l := h.Intn(min(n-a, max+200) + 1)
			for i := a; i < a+l; i++ {
				b[i] = 0
			}
		}
		return b
	default:
		return h.Bytes(n)
	}
}

func (h *H) c17Small(pols []chunker.Pol, edit bool) {
	pol := pols[h.Intn(len(pols))]
	minS := []int{64, 65, 96, 128, 300}[h.Intn(5)]
	maxS := []int{minS, minS + 1, minS + 37, 2 * minS, 1024, 4096}[h.Intn(6)]
	if maxS < minS {
		maxS = minS
	}
	bits := []int{3, 5, 6, 8, 10, 20}[h.Intn(6)]
	bufSizes := []int{1, 2, 3, 5, 63, 64, 65, 100, 511, 512, 513, 4096, 524288}
	var files [][]byte
	var fail []bool
	sub := "small"
	var plen, xlen, ylen int
	if edit {
		sub = "edit"
		avg := 1 << bits
		if avg > maxS {
			avg = maxS
		}
		n := minS*2 + h.Intn(8*(minS+avg)+1)
		base := h.Bytes(n)
		if h.Intn(6) == 0 {
			base = h.c17Data(n, maxS)
		}
		plen = h.Intn(n + 1)
		xlen = h.Intn(min(n-plen, 40) + 1)
		if h.Intn(3) == 0 {
			xlen = 0
		}
		ylen = h.Intn(40)
		if h.Intn(3) == 0 {
			ylen = 0
		}
		y := h.Bytes(ylen)
		ed := append(append(append([]byte(nil), base[:plen]...), y...), base[plen+xlen:]...)
		files = [][]byte{base, ed}
		fail = []bool{false, false}
	} else {
		nf := 1 + h.Intn(4)
		for j := 0; j < nf; j++ {
			if j > 0 && h.Intn(3) == 0 {
				files = append(files, files[h.Intn(j)]) // same content again, later on the same worker
				fail = append(fail, false)
				continue
			}
			bs := bufSizes[h.Intn(len(bufSizes)-1)]
			sizes := []int{0, 1, bs - 1, bs, bs + 1, 2 * bs, minS - 1, minS, minS + 1, maxS - 1, maxS, maxS + 1, 2*maxS + 3, h.Intn(3*maxS + 100), h.Intn(3*maxS + 100), h.Intn(3*maxS + 100)}
			n := sizes[h.Intn(len(sizes))]
			if n < 0 {
				n = 0
			}
			if n > 20000 {
				n = 20000
			}
			files = append(files, h.c17Data(n, maxS))
			fail = append(fail, h.Intn(12) == 0)
		}
	}
	h.Case(sub)
	h.Rec("cfg", U64(uint64(pol)), Itoa(minS), Itoa(maxS), Itoa(bits))
	for j, f := range files {
		h.Rec("file", Itoa(j), Hex(f))
		if fail[j] {
			h.Rec("fail", Itoa(j))
		}
	}
	if edit {
		h.Rec("edit", Itoa(plen), Itoa(xlen), Itoa(ylen))
	}
	nruns := 2 + h.Intn(2)
	for r := 0; r < nruns; r++ {
		bs := bufSizes[h.Intn(len(bufSizes))]
		dirty := h.Intn(3) == 0
		toks := []string{Itoa(r), Itoa(bs), B(dirty)}
		var rds []io.Reader
		for j, f := range files {
			name, sizes, eofWith := h.c17Pattern(true)
			toks = append(toks, name)
			rds = append(rds, &c17Reader{data: f, sizes: sizes, eofWith: eofWith, failAtEnd: fail[j]})
		}
		h.Rec("run", toks...)
		var res []archiver.VerifC17Result
		panicked, msg := Protect(func() {
			res = archiver.VerifC17Worker(newC17Chunker(pol, uint(minS), uint(maxS), bits), maxS, bs, dirty, rds)
		})
		if panicked {
			h.Rec("panic", Itoa(r), HexS(msg))
			continue
		}
		for j, o := range res {
			if o.Err != nil {
				h.Rec("out", Itoa(r), Itoa(j), "error")
				continue
			}
			toks := []string{Itoa(r), Itoa(j), "ok"}
			for _, c := range o.Chunks {
				toks = append(toks, Hex(c))
			}
			h.Rec("out", toks...)
		}
	}
	h.End()
}

// c17Real: the repository's own chunker (default boundaries) through newFileSaver/worker.
func (h *H) c17Real(pol chunker.Pol, idx int) {
	repo, err := repository.New(mem.New(), repository.Options{})
	if err != nil {
		panic(err)
	}
	if err := repo.Init(context.Background(), 2, "geheim", &pol); err != nil {
		panic(err)
	}
	factory := repo.ChunkerFactory()
	const MiB = 1 << 20
	budget := 3 * MiB // quick: small multi-chunk files
	if h.Thorough() {
		budget = 6 * MiB
	}
	genSegs := func() []c17Seg {
		var segs []c17Seg
		switch h.Intn(6) {
		case 0: // all zero: cuts exactly every MinSize
			segs = append(segs, c17Seg{kind: "z", n: chunker.MinSize*2 + h.Intn(3) - 1 + h.Intn(2)*chunker.MinSize})
		case 1: // sizes around MinSize / the read buffer
			segs = append(segs, c17Seg{kind: "r", seed: h.Rng.Uint64(), n: chunker.MinSize + h.Intn(5) - 2})
		case 2: // random, zero run, random
			segs = append(segs, c17Seg{kind: "r", seed: h.Rng.Uint64(), n: 1 + h.Intn(MiB)},
				c17Seg{kind: "z", n: h.Intn(MiB + MiB/2)},
				c17Seg{kind: "r", seed: h.Rng.Uint64(), n: 1 + h.Intn(MiB/2)})
		case 3: // periodic (usually never cuts naturally -> max-size chunk when long enough)
			n := MiB + h.Intn(budget-MiB)
			if h.Thorough() && idx%8 == 3 {
				n = chunker.MaxSize + h.Intn(MiB) // one max-size cut, thorough only (memory)
			}
			segs = append(segs, c17Seg{kind: "p", pat: h.Bytes(1 + h.Intn(7)), n: n})
		default:
			segs = append(segs, c17Seg{kind: "r", seed: h.Rng.Uint64(), n: 1 + h.Intn(budget)})
		}
		return segs
	}
	var filesSegs [][]c17Seg
	filesSegs = append(filesSegs, genSegs())
	if h.Intn(2) == 0 {
		filesSegs = append(filesSegs, []c17Seg{{kind: "r", seed: h.Rng.Uint64(), n: h.Intn(100000)}})
	}
	filesSegs = append(filesSegs, filesSegs[0]) // same content again after another file
	var files [][]byte
	for _, ss := range filesSegs {
		var b []byte
		for _, s := range ss {
			b = append(b, s.bytes()...)
		}
		files = append(files, b)
	}
	h.Case("real")
	h.Rec("cfg", U64(uint64(repo.Config().ChunkerPolynomial)), Itoa(chunker.MinSize), Itoa(chunker.MaxSize), "20")
	for j, ss := range filesSegs {
		toks := []string{Itoa(j)}
		for _, s := range ss {
			toks = append(toks, s.tok())
		}
		h.Rec("filed", toks...)
	}
	bufSize := int(archiver.VerifFactsC17()["archiver_chunkReadBufSize"])
	toks := []string{"0", Itoa(bufSize), "0"}
	var rds []io.Reader
	for _, f := range files {
		name, sizes, eofWith := h.c17Pattern(false)
		toks = append(toks, name)
		rds = append(rds, &c17Reader{data: f, sizes: sizes, eofWith: eofWith})
	}
	h.Rec("run", toks...)
	var res []archiver.VerifC17Result
	panicked, msg := Protect(func() { res = archiver.VerifC17RealWorker(factory, rds) })
	if panicked {
		h.Rec("panic", "0", HexS(msg))
		h.End()
		return
	}
	for j, o := range res {
		if o.Err != nil {
			h.Rec("out", "0", Itoa(j), "error")
			continue
		}
		// the harness checks the concatenation itself (oracle bit), the driver gets the sizes
		var cat []byte
		toks := []string{"0", Itoa(j), "sizes", ""}
		for _, c := range o.Chunks {
			cat = append(cat, c...)
			toks = append(toks, Itoa(len(c)))
		}
		toks[3] = B(string(cat) == string(files[j]) && o.Size == uint64(len(files[j])))
		h.Rec("out", toks...)
	}
	h.End()
	_ = fmt.Sprint
	_ = strconv.Itoa
}
