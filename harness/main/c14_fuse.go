//go:build verif && (darwin || freebsd || linux)

package main

// C14, sub-stream `fuse`: the mount as a long-running reader. The fuse Root is driven directly
// (no kernel mount): a reader repository handle serves `ids/`, real CLI commands on the same
// backend (a second process) add / rewrite / remove snapshots — with newer, older and equal
// timestamps —, the snapshot list refresh is forced, and every snapshot the mount lists is read.

import (
	"context"
	"fmt"
	"math/rand"
	"os"
	"path/filepath"
	"strings"
	"time"

	"github.com/anacrolix/fuse/fs"
	"github.com/restic/restic/internal/backend/mem"
	"github.com/restic/restic/internal/fuse"
	"github.com/restic/restic/internal/restic"
)

func c14FuseScenario(h *H, root string, si int) {
	dir := filepath.Join(root, fmt.Sprintf("f%d", si))
	defer os.RemoveAll(dir)
	ctx, cancel := context.WithTimeout(context.Background(), 120*time.Second)
	defer cancel()
	be := mem.New()
	sched := &c14Sched{rng: rand.New(rand.NewSource(1)), rops: map[string][]string{}, rpos: map[string][]int{}}
	wcli := NewCLI(&c14Backend{Backend: be, s: sched, proc: "w"})
	base := time.Date(2020, 1, 10, 12, 0, 0, 0, time.UTC)
	newest := base
	nfile := 0
	backup := func(t time.Time) CmdResult {
		nfile++
		writeFile(filepath.Join(dir, "src", fmt.Sprintf("f%d", nfile)), h.Bytes(200+h.Intn(3000)))
		return wcli.RunCtx(ctx, "backup", filepath.Join(dir, "src"), "--time", t.Format("2006-01-02 15:04:05"))
	}
	wcli.MustRun("init")
	if r := backup(base); r.Err != nil {
		panic(fmt.Sprintf("c14 fuse: first backup failed: %v", r.Err))
	}
	// the "mount": load the index, then serve the snapshots
	rbe := &c14Backend{Backend: be, s: sched, proc: "m", reader: true, nogate: true}
	repo := OpenRepoOn(rbe, "geheim")
	if err := repo.LoadIndex(ctx, restic.NoopTerminalCounterFactory); err != nil {
		panic(err)
	}
	froot := fuse.NewRoot(repo, fuse.Config{})
	readAll := func() (listed int, bad []string, err error) {
		idsdir, err := froot.Lookup(ctx, "ids")
		if err != nil {
			return 0, nil, err
		}
		ents, err := idsdir.(fs.HandleReadDirAller).ReadDirAll(ctx)
		if err != nil {
			return 0, nil, err
		}
		for _, e := range ents {
			if e.Name == "." || e.Name == ".." {
				continue
			}
			listed++
			node, err := idsdir.(fs.NodeStringLookuper).Lookup(ctx, e.Name)
			if err == nil {
				_, err = node.(fs.HandleReadDirAller).ReadDirAll(ctx)
			}
			if err != nil {
				bad = append(bad, c14ErrClass(err.Error()))
			}
		}
		return listed, bad, nil
	}
	emit := func(step string, changed bool, opsBefore int) {
		listed, bad, err := readAll()
		sched.mu.Lock()
		ops := append([]string(nil), sched.rops["m"][opsBefore:]...)
		sched.mu.Unlock()
		var si []string
		for _, o := range ops {
			if o == "S" || o == "I" {
				si = append(si, o)
			}
		}
		h.Case("fuse")
		h.Rec("step", step, B(changed))
		h.Rec("ops", si...)
		if err != nil {
			h.Rec("read", "error", HexS(err.Error()))
		} else {
			h.Rec("read", "ok", Itoa(listed), Itoa(len(bad)), strings.Join(append([]string{"-"}, bad...), ","))
		}
		h.Rec("labels", "fuse", "step:"+step)
		h.End()
	}
	emit("initial", true, 0)
	nsteps := 3 + h.Intn(3)
	for i := 0; i < nsteps && ctx.Err() == nil; i++ {
		sched.mu.Lock()
		before := len(sched.rops["m"])
		sched.mu.Unlock()
		step, changed := "", true
		var res CmdResult
		switch h.Intn(7) {
		case 0, 1:
			newest = newest.Add(time.Duration(1+h.Intn(48)) * time.Hour)
			step, res = "backup-newer", backup(newest)
		case 2, 3:
			step, res = "backup-older", backup(base.Add(-time.Duration(1+h.Intn(200))*time.Hour))
		case 4:
			step, res = "backup-equal-time", backup(newest)
		case 5:
			step, res = "tag-all", wcli.RunCtx(ctx, "tag", "--add", fmt.Sprintf("t%d", i))
		default:
			ids := c26SnapshotIDs(be)
			if len(ids) < 2 {
				step, changed = "no-change", false
			} else {
				step, res = "forget-one", wcli.RunCtx(ctx, "forget", ids[h.Intn(len(ids))])
			}
		}
		if res.Err != nil {
			panic(fmt.Sprintf("c14 fuse: writer step %s failed: %v\n%s", step, res.Err, res.Stderr))
		}
		fuse.VerifC14ForceRefresh(froot)
		emit(step, changed, before)
	}
}

func c14ErrClass(m string) string {
	switch {
	case strings.Contains(m, "not found in repository"), strings.Contains(m, "not found in index"):
		return "blob-not-in-index"
	case strings.Contains(m, "context"):
		return "timeout"
	default:
		return "other-error"
	}
}
