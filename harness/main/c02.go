//go:build verif

package main

// C02 — loaded data always matches its content address. A faulty backend wrapper answers every
// read from a generated reply script (correct / bit flipped / truncated / extended / other file's
// bytes / empty / error / error after data / failing reader); the real LoadRaw, LoadUnpacked and
// LoadBlob run against it. Oracle values (sha256, Key.Open, zstd) are computed here with the
// libraries directly and handed to the Lean model as tables.

import (
	"bytes"
	"context"
	"crypto/sha256"
	"errors"
	"fmt"
	"io"
	"os"
	"sort"
	"strings"
	"sync"

	"github.com/klauspost/compress/zstd"
	"github.com/restic/chunker"
	"github.com/restic/restic/internal/backend"
	"github.com/restic/restic/internal/backend/cache"
	"github.com/restic/restic/internal/backend/mem"
	"github.com/restic/restic/internal/repository"
	"github.com/restic/restic/internal/repository/crypto"
	"github.com/restic/restic/internal/restic"
)

var _ = verifRegister("C02", streamC02)

type c02Kind struct {
	kind string
	a, b int
	rnd  []byte
}

type c02Read struct {
	h       backend.Handle
	length  int
	offset  int64
	kind    string
	beKind  string // data | readerr | fail
	errAftr bool
	data    []byte
}

var errC02Injected = errors.New("verif: injected backend fault")

type c02Faulty struct {
	backend.Backend
	mu      sync.Mutex
	armed   bool
	script  []c02Kind
	pos     int
	log     []c02Read
	overrun int
	other   [][]byte
	blobCT  map[int][]c02CT // authentic blob ciphertexts by length (for misdirected reads)
	only    *backend.Handle // when set, the script applies to reads of this file only
}

func (f *c02Faulty) Unwrap() backend.Backend { return f.Backend }

func (f *c02Faulty) arm(script []c02Kind) {
	f.mu.Lock()
	defer f.mu.Unlock()
	f.armed, f.script, f.pos, f.log, f.overrun = true, script, 0, nil, 0
}

func (f *c02Faulty) disarm() (log []c02Read, used, overrun int) {
	f.mu.Lock()
	defer f.mu.Unlock()
	f.armed = false
	return f.log, f.pos, f.overrun
}

type c02CT struct {
	id restic.ID
	ct []byte
}

type c02ErrReader struct{}

func (c02ErrReader) Read([]byte) (int, error) { return 0, errC02Injected }

func (f *c02Faulty) Load(ctx context.Context, h backend.Handle, length int, offset int64, fn func(rd io.Reader) error) error {
	f.mu.Lock()
	if !f.armed {
		f.mu.Unlock()
		return f.Backend.Load(ctx, h, length, offset, fn)
	}
	if f.only != nil && (f.only.Type != h.Type || f.only.Name != h.Name) {
		f.mu.Unlock()
		return f.Backend.Load(ctx, h, length, offset, fn)
	}
	if f.pos >= len(f.script) {
		f.overrun++
		f.mu.Unlock()
		return f.Backend.Load(ctx, h, length, offset, fn)
	}
	k := f.script[f.pos]
	f.pos++
	f.mu.Unlock()

	var truth []byte
	terr := f.Backend.Load(ctx, h, length, offset, func(rd io.Reader) error {
		var e error
		truth, e = io.ReadAll(rd)
		return e
	})
	rec := c02Read{h: h, length: length, offset: offset, kind: k.kind, beKind: "data"}
	d := append([]byte(nil), truth...)
	if terr != nil {
		k.kind = "fail"
		rec.kind = "fail-missing"
	}
	switch k.kind {
	case "ok":
	case "flip":
		if len(d) == 0 {
			d = append(d, k.rnd...)
		} else {
			d[k.a%len(d)] ^= 1 << (k.b % 8)
		}
	case "trunc":
		if len(d) > 0 {
			d = d[:k.a%len(d)]
		}
	case "extend":
		d = append(d, k.rnd...)
	case "other":
		if len(f.other) > 0 {
			o := f.other[k.a%len(f.other)]
			if length > 0 { // ranged read: same length as requested
				d = make([]byte, length)
				for i := range d {
					if len(o) > 0 {
						d[i] = o[(i+k.b)%len(o)]
					}
				}
			} else {
				d = append([]byte(nil), o...)
			}
		}
	case "swap": // a misdirected read: the AUTHENTIC ciphertext of another blob of the same length
		var tid restic.ID // which blob was asked for (found by its authentic bytes)
		for _, o := range f.blobCT[length] {
			if bytes.Equal(o.ct, truth) {
				tid = o.id
			}
		}
		for i := range f.blobCT[length] {
			o := f.blobCT[length][(i+k.a)%len(f.blobCT[length])]
			if o.id != tid { // a DIFFERENT blob: authentic bytes, wrong content
				d = append([]byte(nil), o.ct...)
				rec.kind = "swap-hit"
				break
			}
		}
	case "empty":
		d = nil
	case "zeros":
		d = make([]byte, len(d))
	case "random":
		d = make([]byte, len(d))
		for i := range d {
			d[i] = k.rnd[i%len(k.rnd)] ^ byte(i*31)
		}
	case "errafter":
		rec.errAftr = true
		if k.b%2 == 1 && len(d) > 0 {
			d[k.a%len(d)] ^= 0x10
		}
	case "readerr":
		rec.beKind = "readerr"
		if len(d) > 0 {
			d = d[:k.a%len(d)]
		}
	case "fail":
		rec.beKind = "fail"
		d = nil
	}
	rec.data = d
	f.mu.Lock()
	f.log = append(f.log, rec)
	f.mu.Unlock()
	switch rec.beKind {
	case "fail":
		return errC02Injected
	case "readerr":
		err := fn(io.MultiReader(bytes.NewReader(d), c02ErrReader{}))
		if err == nil {
			err = errC02Injected
		}
		return err
	}
	err := fn(bytes.NewReader(d))
	if err != nil {
		return err
	}
	if rec.errAftr {
		return errC02Injected
	}
	return nil
}

// c02Observer sits ABOVE the cache layer and records what LoadRaw receives for each read.
type c02Observer struct {
	backend.Backend
	mu  sync.Mutex
	on  bool
	log []c02Read
}

func (o *c02Observer) Unwrap() backend.Backend { return o.Backend }

func (o *c02Observer) Load(ctx context.Context, h backend.Handle, length int, offset int64, fn func(rd io.Reader) error) error {
	o.mu.Lock()
	on := o.on
	o.mu.Unlock()
	if !on {
		return o.Backend.Load(ctx, h, length, offset, fn)
	}
	called := false
	var data []byte
	var rerr, fnErr error
	err := o.Backend.Load(ctx, h, length, offset, func(rd io.Reader) error {
		called = true
		data, rerr = io.ReadAll(rd)
		if rerr != nil {
			fnErr = fn(io.MultiReader(bytes.NewReader(data), c02ErrReader{}))
			if fnErr == nil {
				fnErr = rerr
			}
			return fnErr
		}
		fnErr = fn(bytes.NewReader(data))
		return fnErr
	})
	rec := c02Read{h: h, length: length, offset: offset, kind: "seen", beKind: "data", data: data}
	switch {
	case !called:
		rec.beKind, rec.data = "fail", nil
	case rerr != nil:
		rec.beKind = "readerr"
	default:
		rec.errAftr = err != nil && fnErr == nil
	}
	o.mu.Lock()
	o.log = append(o.log, rec)
	o.mu.Unlock()
	return err
}

func c02Sha(b []byte) string {
	s := sha256.Sum256(b)
	return Hex(s[:])
}

var c02FileTypes = map[string]restic.FileType{
	"data": restic.PackFile, "key": restic.KeyFile, "lock": restic.LockFile,
	"snapshot": restic.SnapshotFile, "index": restic.IndexFile, "config": restic.ConfigFile,
}

// wire names of the model's FileType
var c02ModelType = map[string]string{"data": "pack", "key": "key", "lock": "lock", "snapshot": "snapshot", "index": "index", "config": "config"}

type c02Blob struct {
	id   restic.ID
	tpe  restic.BlobType
	data []byte
}

type c02Repo struct {
	repo    *repository.Repository
	inner   *mem.MemoryBackend
	faulty  *c02Faulty
	version uint
	state   BeState
	names   []string // sorted keys of state
	blobs   []c02Blob
	zero    []c02Blob // all-zero blobs of several lengths (first one: the MinSize chunk)
	zdec    *zstd.Decoder
}

func (h *H) c02Compressible(n int) []byte {
	b := make([]byte, n)
	w := h.Bytes(1 + h.Intn(7))
	for i := range b {
		b[i] = w[i%len(w)]
	}
	return b
}

// c02NewRepo builds a small real repository behind the faulty wrapper: blobs (some stored in two
// or three packs), snapshot / lock / index files, the key and the config.
func (h *H) c02NewRepo(version uint, withZero bool) *c02Repo {
	inner := mem.New()
	f := &c02Faulty{Backend: inner}
	opts := repository.Options{}
	switch h.Intn(3) {
	case 0:
		opts.Compression = repository.CompressionOff
	case 1:
		opts.Compression = repository.CompressionMax
	}
	if withZero && opts.Compression == repository.CompressionOff {
		opts.Compression = repository.CompressionAuto // the zero runs must compress to equal stored lengths
	}
	repo, _ := repository.TestRepositoryWithBackend(TB, f, version, opts)
	r := &c02Repo{repo: repo, inner: inner, faulty: f, version: version}
	r.zdec, _ = zstd.NewReader(nil)
	ctx := context.Background()
	nb := 7 + h.Intn(5)
	for i := 0; i < nb; i++ {
		var d []byte
		switch {
		case i < 2: // pairs of blobs of equal length (plain and compressible), so that a misdirected
			d = h.Bytes(64) // read can return AUTHENTIC bytes of a different blob of the same size
		case i < 4:
			d = h.Bytes(300)
		case i < 6:
			d = h.c02Compressible(500)
		case h.Intn(4) == 0:
			d = h.c02Compressible(20 + h.Intn(3000))
		case h.Intn(3) == 0:
			d = h.Bytes(1 + h.Intn(40))
		default:
			d = h.Bytes(17 + h.Intn(1500))
		}
		t := restic.DataBlob
		if h.Intn(3) == 0 {
			t = restic.TreeBlob
		}
		r.blobs = append(r.blobs, c02Blob{tpe: t, data: d})
	}
	if withZero {
		// the all-zero MinSize chunk (saved under the cached zero-chunk ID) and other runs of zeros:
		// in a v2 repository they compress to the same stored length, so a misdirected read can
		// deliver an AUTHENTIC all-zero plaintext of another length for the zero-chunk ID
		for _, n := range []int{chunker.MinSize, chunker.MinSize - 1, chunker.MinSize / 2, chunker.MinSize + 1} {
			r.zero = append(r.zero, c02Blob{tpe: restic.DataBlob, data: make([]byte, n)})
		}
		err := repo.WithBlobUploader(ctx, func(ctx context.Context, up restic.BlobSaverWithAsync) error {
			for i := range r.zero {
				id, _, _, err := up.SaveBlob(ctx, r.zero[i].tpe, r.zero[i].data, restic.ID{}, false)
				if err != nil {
					return err
				}
				r.zero[i].id = id
			}
			return nil
		})
		if err != nil {
			panic(err)
		}
	}
	// round 0 stores every blob; rounds 1, 2 store duplicates of some of them in new packs
	for round := 0; round < 3; round++ {
		err := repo.WithBlobUploader(ctx, func(ctx context.Context, up restic.BlobSaverWithAsync) error {
			for i := range r.blobs {
				if round > 0 && h.Intn(2) == 0 {
					continue
				}
				id, _, _, err := up.SaveBlob(ctx, r.blobs[i].tpe, r.blobs[i].data, restic.ID{}, round > 0)
				if err != nil {
					return err
				}
				r.blobs[i].id = id
			}
			return nil
		})
		if err != nil {
			panic(err)
		}
	}
	for i := 0; i < 2; i++ {
		for _, t := range []restic.FileType{restic.SnapshotFile, restic.LockFile} {
			var d []byte
			if h.Bool() {
				d = []byte(fmt.Sprintf(`{"time":"2020-01-0%dT00:00:00Z","hostname":"h%d","paths":["/p%x"]}`, i+1, i, h.Bytes(4+h.Intn(40))))
			} else {
				d = h.Bytes(1 + h.Intn(200)) // not JSON: exercises the version-byte branch of decompressUnpacked
			}
			if _, err := repository.VerifC02SaveUnpacked(ctx, repo, t, d); err != nil {
				panic(err)
			}
		}
	}
	// authentic files whose payload takes the other branches of decompressUnpacked (written with
	// the repository key directly: unsupported version byte, corrupt zstd stream, raw JSON, empty)
	for _, payload := range [][]byte{{1, 2, 3}, append([]byte{2}, h.Bytes(9)...), []byte(`{"raw":true}`), {}} {
		nonce := crypto.NewRandomNonce()
		ct := repo.Key().Seal(append([]byte(nil), nonce...), nonce, payload, nil)
		id := restic.Hash(ct)
		t := []backend.FileType{backend.SnapshotFile, backend.LockFile}[h.Intn(2)]
		if err := inner.Save(ctx, backend.Handle{Type: t, Name: id.String()}, backend.NewByteReader(ct, inner.Hasher())); err != nil {
			panic(err)
		}
	}
	r.state = DumpBackend(inner)
	r.names = r.state.Names("")
	for _, n := range r.names {
		f.other = append(f.other, r.state[n])
	}
	f.blobCT = map[int][]c02CT{}
	for _, b := range append(append([]c02Blob(nil), r.blobs...), r.zero...) {
		for _, c := range repository.VerifC02Lookup(repo, restic.BlobHandle{ID: b.id, Type: b.tpe}) {
			pb := r.state["data/"+c.PackID().String()]
			f.blobCT[int(c.Blob.Length)] = append(f.blobCT[int(c.Blob.Length)], c02CT{b.id, pb[c.Blob.Offset : c.Blob.Offset+c.Blob.Length]})
		}
	}
	return r
}

func (r *c02Repo) reopen() {
	repo := OpenRepoOn(r.faulty, "geheim")
	if err := repo.LoadIndex(context.Background(), restic.NoopTerminalCounterFactory); err != nil {
		panic(err)
	}
	r.repo = repo
}

func (h *H) c02GenKind(ranged bool) c02Kind {
	kinds := []string{"ok", "ok", "ok", "flip", "trunc", "extend", "other", "empty", "fail", "errafter", "readerr"}
	if ranged {
		kinds = []string{"ok", "ok", "ok", "flip", "flip", "trunc", "extend", "other", "swap", "swap", "zeros", "random", "fail", "readerr"}
	}
	return c02Kind{kind: h.Pick(kinds), a: h.Intn(1 << 20), b: h.Intn(64), rnd: h.Bytes(1 + h.Intn(24))}
}

func c02SplitKey(k string) (string, string) {
	i := strings.IndexByte(k, '/')
	return k[:i], k[i+1:]
}

// oracle records for a buffer a load returned: sha256, Key.Open, zstd of the unpacked payload
func (r *c02Repo) oracles(h *H, seen map[string]bool, buf []byte, unpacked bool, blobUlen int, blobMode bool) {
	key := string(buf)
	tag := fmt.Sprintf("%v/%v/%d:", unpacked, blobMode, blobUlen)
	if seen[tag+key] {
		return
	}
	seen[tag+key] = true
	if !seen["h:"+key] {
		seen["h:"+key] = true
		h.Rec("oh", Hex(buf), c02Sha(buf))
	}
	if !unpacked && !blobMode {
		return
	}
	if len(buf) <= 16 {
		return
	}
	k := r.repo.Key()
	ct := append([]byte(nil), buf[16:]...)
	pt, err := k.Open(nil, buf[:16], ct, nil)
	if err != nil {
		h.Rec("odec", Hex(buf), "err")
		return
	}
	h.Rec("odec", Hex(buf), "ok", Hex(pt))
	if unpacked {
		if len(pt) > 0 && pt[0] == 2 {
			out, err := r.zdec.DecodeAll(pt[1:], nil)
			if err != nil {
				h.Rec("ozd", Hex(pt[1:]), "err")
			} else {
				h.Rec("ozd", Hex(pt[1:]), "ok", Hex(out))
			}
		}
		return
	}
	plain := pt
	if blobUlen != 0 {
		out, err := r.zdec.DecodeAll(pt, nil)
		if err != nil {
			h.Rec("ozd", Hex(pt), "err")
			return
		}
		h.Rec("ozd", Hex(pt), "ok", Hex(out))
		plain = out
	}
	if !seen["h:"+string(plain)] {
		seen["h:"+string(plain)] = true
		h.Rec("oh", Hex(plain), c02Sha(plain))
	}
}

func (r *c02Repo) emitReplies(h *H, log []c02Read, script []c02Kind, used int) {
	for _, l := range log {
		h.Rec("rep", l.kind, l.beKind, B(l.errAftr), Hex(l.data), l.h.Type.String(), l.h.Name, I64(l.offset), Itoa(l.length))
	}
	// unused script entries are irrelevant to the result; tell the driver how many were consumed
	h.Rec("used", Itoa(used))
}

func (h *H) c02LoadRawCase(r *c02Repo, unpacked bool) {
	name := r.names[h.Intn(len(r.names))]
	ts, idHex := c02SplitKey(name)
	if unpacked && ts == "data" && h.Intn(8) != 0 {
		return
	}
	t := c02FileTypes[ts]
	var id restic.ID
	if ts != "config" {
		id, _ = restic.ParseID(idHex)
	}
	reqID := id
	switch h.Intn(12) {
	case 0: // ask for an ID nobody stored: the backend's answers can never match
		if ts != "config" {
			reqID = restic.Hash(h.Bytes(8))
		}
	}
	script := []c02Kind{h.c02GenKind(false), h.c02GenKind(false), h.c02GenKind(false)}
	if h.Intn(3) == 0 {
		script[0].kind = "ok"
	}
	if unpacked {
		h.Case("loadunpacked")
	} else {
		h.Case("loadraw")
	}
	h.Rec("req", c02ModelType[ts], Hex(reqID[:]))
	h.Rec("cfg", Itoa(int(r.version)))
	// the wrapper answers reads of the *stored* name even when another ID is requested
	ctx := context.Background()
	var buf []byte
	var err error
	r.faulty.arm(script)
	redirect := reqID != id
	var saved []byte
	if redirect {
		// make the requested name exist so that the wrapper has truth to start from
		saved = r.state[name]
		_ = r.inner.Save(ctx, backend.Handle{Type: backend.FileType(t), Name: reqID.String()}, backend.NewByteReader(saved, r.inner.Hasher()))
	}
	panicked, pmsg := Protect(func() {
		if unpacked {
			buf, err = r.repo.LoadUnpacked(ctx, t, reqID)
		} else {
			buf, err = r.repo.LoadRaw(ctx, t, reqID)
		}
	})
	log, used, overrun := r.faulty.disarm()
	if redirect {
		_ = r.inner.Remove(ctx, backend.Handle{Type: backend.FileType(t), Name: reqID.String()})
	}
	seen := map[string]bool{}
	for _, l := range log {
		if l.beKind == "data" {
			r.oracles(h, seen, l.data, unpacked, 0, false)
		}
	}
	r.emitReplies(h, log, script, used)
	if overrun > 0 {
		h.Rec("overrun", Itoa(overrun))
	}
	switch {
	case panicked:
		h.Rec("res", "panic", HexS(pmsg))
	case err == nil:
		r.oracles(h, seen, buf, false, 0, false)
		h.Rec("res", "ok", Hex(buf), c02Sha(buf))
	case !unpacked && errors.Is(err, restic.ErrInvalidData):
		r.oracles(h, seen, buf, false, 0, false)
		h.Rec("res", "invalid", Hex(buf))
	case !unpacked:
		h.Rec("res", "err")
	case errors.Is(err, restic.ErrInvalidData):
		h.Rec("res", "err", "invalidData")
	case strings.Contains(err.Error(), "too short"):
		h.Rec("res", "err", "tooShort")
	case errors.Is(err, crypto.ErrUnauthenticated) || strings.Contains(err.Error(), "nonce is invalid"):
		h.Rec("res", "err", "decryptErr")
	case errors.Is(err, errC02Injected):
		h.Rec("res", "err", "loadErr")
	default:
		h.Rec("res", "err", "decodeErr")
	}
	h.End()
}

func (h *H) c02LoadBlobCase(r *c02Repo, healthy bool) {
	b := r.blobs[h.Intn(len(r.blobs))]
	bh := restic.BlobHandle{ID: b.id, Type: b.tpe}
	if !healthy && h.Intn(15) == 0 {
		bh.ID = restic.Hash(h.Bytes(5)) // not in the index
	}
	cands := repository.VerifC02Lookup(r.repo, bh)
	var script []c02Kind
	for i := 0; i < 2*len(cands)+1; i++ {
		k := h.c02GenKind(true)
		if healthy || h.Intn(3) == 0 {
			k.kind = "ok"
		}
		script = append(script, k)
	}
	h.c02LoadBlobWith(r, b, bh, script)
}

// zero-run blobs: every read of one of them is misdirected to an authentic blob of the same stored
// length (another run of zeros), or answered correctly
func (h *H) c02ZeroCases(r *c02Repo) {
	for i, b := range r.zero {
		bh := restic.BlobHandle{ID: b.id, Type: b.tpe}
		n := 2*len(repository.VerifC02Lookup(r.repo, bh)) + 1
		for _, kind := range []string{"swap", "ok"} {
			if kind == "ok" && i > 1 {
				continue
			}
			var script []c02Kind
			for j := 0; j < n; j++ {
				script = append(script, c02Kind{kind: kind, a: h.Intn(1 << 20), b: h.Intn(64), rnd: h.Bytes(4)})
			}
			h.c02LoadBlobWith(r, b, bh, script)
		}
	}
}

func (h *H) c02LoadBlobWith(r *c02Repo, b c02Blob, bh restic.BlobHandle, script []c02Kind) {
	cands := repository.VerifC02Lookup(r.repo, bh)
	h.Case("loadblob")
	tn := "d"
	if bh.Type == restic.TreeBlob {
		tn = "t"
	}
	h.Rec("req", tn, Hex(bh.ID[:]))
	for _, c := range cands {
		pid := c.PackID()
		h.Rec("cand", Hex(pid[:]), U64(uint64(c.Blob.Offset)), U64(uint64(c.Blob.Length)), U64(uint64(c.Blob.UncompressedLength)), Hex(c.Blob.ID[:]))
	}
	var buf []byte
	var err error
	r.faulty.arm(script)
	panicked, pmsg := Protect(func() { buf, err = r.repo.LoadBlob(context.Background(), bh, nil) })
	log, used, overrun := r.faulty.disarm()
	seen := map[string]bool{}
	for i, l := range log {
		if l.beKind != "data" || len(cands) == 0 {
			continue
		}
		c := cands[i%len(cands)]
		if len(l.data) >= int(c.Blob.Length) {
			r.oracles(h, seen, l.data[:c.Blob.Length], false, int(c.Blob.UncompressedLength), true)
		}
	}
	r.emitReplies(h, log, script, used)
	if overrun > 0 {
		h.Rec("overrun", Itoa(overrun))
	}
	switch {
	case panicked:
		h.Rec("res", "panic", HexS(pmsg))
	case err == nil:
		h.Rec("res", "ok", Hex(buf), c02Sha(buf), B(bytes.Equal(buf, b.data)))
	case strings.Contains(err.Error(), "not found in repository"):
		h.Rec("res", "notfound")
	default:
		h.Rec("res", "err")
	}
	h.End()
}

// openCached opens a NEW Repository object on the same (faulty) backend with a local cache in dir,
// and puts an observer above the cache layer.
func (r *c02Repo) openCached(dir string) (*repository.Repository, *c02Observer) {
	repo := OpenRepoOn(r.faulty, "geheim")
	c, err := cache.New(repo.Config().ID, dir)
	if err != nil {
		panic(err)
	}
	repo.UseCache(c, func(string, ...any) {})
	obs := &c02Observer{}
	repository.VerifC02WrapBackend(repo, func(be backend.Backend) backend.Backend {
		obs.Backend = be
		return obs
	})
	return repo, obs
}

// cached LoadRaw: one snapshot / index file is damaged at the backend (persistently, or for the
// first reads only); it is loaded twice by one repository instance and once more by a second
// instance that shares the persistent cache directory. Every load is one `loadraw` case whose
// replies are what LoadRaw received from the cache layer.
func (h *H) c02CachedCases(r *c02Repo) {
	var names []string
	for _, n := range r.names {
		if strings.HasPrefix(n, "snapshot/") || strings.HasPrefix(n, "index/") {
			names = append(names, n)
		}
	}
	if len(names) == 0 {
		return
	}
	name := names[h.Intn(len(names))]
	ts, idHex := splitKey(name)
	t := c02FileTypes[ts]
	id, _ := restic.ParseID(idHex)
	dir := MkTemp("c02cache-")
	defer os.RemoveAll(dir)
	k := c02Kind{kind: h.Pick([]string{"other", "other", "flip", "trunc", "extend", "empty", "fail", "errafter", "ok"}),
		a: h.Intn(1 << 20), b: h.Intn(64), rnd: h.Bytes(1 + h.Intn(24))}
	nbad := 64 // persistent damage
	plan := "persistent"
	if h.Intn(3) == 0 {
		nbad = 1 + h.Intn(2) // transient: the backend recovers
		plan = "transient"
	}
	var script []c02Kind
	for i := 0; i < 64; i++ {
		if i < nbad {
			script = append(script, k)
		} else {
			script = append(script, c02Kind{kind: "ok"})
		}
	}
	hd := backend.Handle{Type: backend.FileType(t), Name: id.String()}
	r.faulty.mu.Lock()
	r.faulty.only = &hd
	r.faulty.mu.Unlock()
	r.faulty.arm(script)
	defer func() {
		r.faulty.disarm()
		r.faulty.mu.Lock()
		r.faulty.only = nil
		r.faulty.mu.Unlock()
	}()
	ctx := context.Background()
	repo, obs := r.openCached(dir)
	for step := 0; step < 3; step++ {
		if step == 2 { // a later run: new Repository object, same cache directory
			repo, obs = r.openCached(dir)
		}
		obs.mu.Lock()
		obs.on, obs.log = true, nil
		obs.mu.Unlock()
		var buf []byte
		var err error
		panicked, pmsg := Protect(func() { buf, err = repo.LoadRaw(ctx, t, id) })
		obs.mu.Lock()
		obs.on = false
		log := obs.log
		obs.mu.Unlock()
		h.Case("loadraw")
		h.Rec("req", c02ModelType[ts], Hex(id[:]))
		h.Rec("cfg", Itoa(int(r.version)))
		h.Rec("cache", plan, k.kind, Itoa(step))
		seen := map[string]bool{}
		for _, l := range log {
			if l.beKind == "data" {
				r.oracles(h, seen, l.data, false, 0, false)
			}
		}
		r.emitReplies(h, log, nil, len(log))
		switch {
		case panicked:
			h.Rec("res", "panic", HexS(pmsg))
		case err == nil:
			r.oracles(h, seen, buf, false, 0, false)
			h.Rec("res", "ok", Hex(buf), c02Sha(buf))
		case errors.Is(err, restic.ErrInvalidData):
			r.oracles(h, seen, buf, false, 0, false)
			h.Rec("res", "invalid", Hex(buf))
		default:
			h.Rec("res", "err")
		}
		h.End()
	}
}

// saveblob: the ID returned by SaveBlob against sha256 of the buffer, including the all-zero
// MinSize special case and its neighbours
func (h *H) c02SaveBlobCases(r *c02Repo) {
	min := chunker.MinSize
	type shape struct {
		zeros int
		tail  []byte
	}
	shapes := []shape{
		{min, nil},           // the special case
		{min - 1, nil},       // one short
		{min + 1, nil},       // one long
		{min, []byte{1}},     // an all-zero prefix of MinSize bytes, but one byte more
		{min - 1, []byte{1}}, // MinSize bytes, last one non-zero
		{0, append([]byte{7}, make([]byte, min-1)...)},       // MinSize bytes, first one non-zero
		{1024, append([]byte{9}, make([]byte, min-1025)...)}, // non-zero right after the first 1 KiB block
		{min - 1024, h.Bytes(1024)},                          // zeros then random last block
		{0, nil},
		{0, h.Bytes(1 + h.Intn(100))},
		{h.Intn(3000), h.Bytes(h.Intn(50))},
	}
	zsha := c02Sha(make([]byte, min))
	ctx := context.Background()
	for _, s := range shapes {
		buf := append(make([]byte, s.zeros), s.tail...)
		for _, given := range []bool{false, true} {
			if given && h.Intn(3) != 0 {
				continue
			}
			h.Case("saveblob")
			h.Rec("buf", Itoa(s.zeros), Hex(s.tail))
			h.Rec("oh", c02Sha(buf))
			h.Rec("ozero", zsha)
			id := restic.ID{}
			if given {
				id = restic.Hash(buf)
				if h.Intn(2) == 0 {
					id = restic.Hash(h.Bytes(7)) // a WRONG caller-supplied ID: must be refused by the verification
				}
				h.Rec("given", Hex(id[:]))
			}
			var newID restic.ID
			var known bool
			var err error
			panicked, _ := Protect(func() {
				err = r.repo.WithBlobUploader(ctx, func(ctx context.Context, up restic.BlobSaverWithAsync) error {
					var e error
					newID, known, _, e = up.SaveBlob(ctx, restic.DataBlob, buf, id, true)
					return e
				})
			})
			switch {
			case panicked:
				h.Rec("res", "panic")
			case err != nil:
				h.Rec("res", "err")
				// a failed upload session leaves the Repository object unusable ("uploader already
				// started" on the next session): continue with a freshly opened one
				r.reopen()
			default:
				h.Rec("res", "ok", Hex(newID[:]), B(known))
				// and it must be readable back under that ID
				got, lerr := r.repo.LoadBlob(ctx, restic.BlobHandle{ID: newID, Type: restic.DataBlob}, nil)
				if lerr != nil {
					h.Rec("back", "err")
				} else {
					h.Rec("back", "ok", c02Sha(got))
				}
			}
			h.End()
		}
	}
}

// stored: every file in the backend is named by the sha256 of its bytes
func (h *H) c02StoredCase(r *c02Repo) {
	st := DumpBackend(r.inner)
	h.Case("stored")
	keys := st.Names("")
	sort.Strings(keys)
	for _, k := range keys {
		ts, name := c02SplitKey(k)
		if name == "" {
			name = "-"
		}
		h.Rec("file", c02ModelType[ts], name, c02Sha(st[k]), Itoa(len(st[k])))
	}
	h.End()
}

func streamC02(h *H) {
	nrepos := h.N(4, 160)
	for i := 0; i < nrepos; i++ {
		r := h.c02NewRepo(uint(2-i%2), i == 0)
		h.c02StoredCase(r)
		for j := 0; j < 45; j++ {
			h.c02LoadRawCase(r, false)
		}
		for j := 0; j < 35; j++ {
			h.c02LoadRawCase(r, true)
		}
		for j := 0; j < 6; j++ {
			h.c02LoadBlobCase(r, true)
		}
		for j := 0; j < 50; j++ {
			h.c02LoadBlobCase(r, false)
		}
		h.c02ZeroCases(r)
		for j := 0; j < 8; j++ {
			h.c02CachedCases(r)
		}
		if i%4 == 0 {
			h.c02SaveBlobCases(r)
			h.c02StoredCase(r)
		}
		TB.RunCleanups()
	}
}
