//go:build verif

package main

// C37: the real sema.NewBackend wrapper over a mock backend whose Save/Load/Stat/Remove block on
// harness-controlled channels. A generated schedule of commands (start a call, release a call that
// is inside the mock, Freeze, Unfreeze) is executed; after every command the harness waits until all
// its goroutines are blocked (goroutine states from runtime.Stack, bounded by a timeout) and records
// which calls are inside the wrapped backend, which reached it, which returned.

import (
	"context"
	"errors"
	"io"
	"regexp"
	"runtime"
	"strconv"
	"strings"
	"sync"
	"time"

	"github.com/cenkalti/backoff/v4"
	"github.com/restic/restic/internal/backend"
	"github.com/restic/restic/internal/backend/mem"
	"github.com/restic/restic/internal/backend/sema"
)

var _ = verifRegister("C37", streamC37)
var _ = verifRegisterFacts(sema.VerifFactsC37)

type c37Call struct {
	id        int
	op        string // save load stat remove
	typ       backend.FileType
	valid     bool
	invalidBy string // name | type | offset | length
	cancelled bool
	gate      chan struct{}
	ctx       context.Context
	cancel    context.CancelFunc
	cancelCmd bool // the harness issued a cancel command for this call
	// observed (under mock.mu)
	inner    bool
	called   bool
	returned bool
	err      error
}

type c37Mock struct {
	backend.Backend
	n     uint
	mu    sync.Mutex
	calls []*c37Call
}

func (m *c37Mock) Properties() backend.Properties {
	return backend.Properties{Connections: m.n, HasAtomicReplace: true}
}

func (m *c37Mock) block(name string) {
	i, err := strconv.Atoi(strings.TrimPrefix(name, "c"))
	if err != nil {
		panic("c37: unexpected handle name " + name)
	}
	m.mu.Lock()
	c := m.calls[i]
	c.inner, c.called = true, true
	m.mu.Unlock()
	<-c.gate
	m.mu.Lock()
	c.inner = false
	m.mu.Unlock()
}

func (m *c37Mock) Save(_ context.Context, h backend.Handle, _ backend.RewindReader) error {
	m.block(h.Name)
	return nil
}
func (m *c37Mock) Load(_ context.Context, h backend.Handle, _ int, _ int64, _ func(rd io.Reader) error) error {
	m.block(h.Name)
	return nil
}
func (m *c37Mock) Stat(_ context.Context, h backend.Handle) (backend.FileInfo, error) {
	m.block(h.Name)
	return backend.FileInfo{Name: h.Name}, nil
}
func (m *c37Mock) Remove(_ context.Context, h backend.Handle) error {
	m.block(h.Name)
	return nil
}

// c37Worker performs one call on the wrapper (its name is what c37Settled looks for).
func c37Worker(be backend.Backend, m *c37Mock, c *c37Call) {
	ctx := c.ctx
	h := backend.Handle{Type: c.typ, Name: "c" + strconv.Itoa(c.id)}
	length, offset := 0, int64(0)
	switch c.invalidBy {
	case "name":
		h.Name = ""
	case "type":
		h.Type = backend.FileType(0)
	case "offset":
		offset = -1
	case "length":
		length = -1
	}
	var err error
	switch c.op {
	case "save":
		err = be.Save(ctx, h, backend.NewByteReader([]byte("x"), nil))
	case "load":
		err = be.Load(ctx, h, length, offset, func(io.Reader) error { return nil })
	case "stat":
		_, err = be.Stat(ctx, h)
	case "remove":
		err = be.Remove(ctx, h)
	}
	m.mu.Lock()
	c.returned, c.err = true, err
	m.mu.Unlock()
}

// c37Freezer calls Freeze (may block; the harness waits with a timeout).
func c37Freezer(fb backend.FreezeBackend, done *bool, mu *sync.Mutex) {
	fb.Freeze()
	mu.Lock()
	*done = true
	mu.Unlock()
}

var c37Header = regexp.MustCompile(`^goroutine \d+ \[([^\],]+)`)

// c37Settled reports whether every harness goroutine (worker or freezer) is blocked.
func c37Settled(buf []byte) bool {
	n := runtime.Stack(buf, true)
	for _, g := range strings.Split(string(buf[:n]), "\n\n") {
		if strings.Contains(g, "main.c37Settled") {
			continue // the observing goroutine itself
		}
		// workers and freezers, including goroutines that were created but have not run yet (their
		// stack only shows the go-statement wrapper of streamC37)
		if !strings.Contains(g, "main.c37") && !strings.Contains(g, "main.streamC37") {
			continue
		}
		m := c37Header.FindStringSubmatch(g)
		if m == nil {
			return false
		}
		switch m[1] {
		case "chan receive", "chan send", "sync.Mutex.Lock", "semacquire", "select", "sync.Cond.Wait", "sync.WaitGroup.Wait":
		default:
			return false
		}
	}
	return true
}

func c37Settle(buf []byte) bool {
	deadline := time.Now().Add(20 * time.Second)
	for {
		if c37Settled(buf) {
			// twice in a row, with a scheduling point in between
			runtime.Gosched()
			if c37Settled(buf) {
				return true
			}
		}
		if time.Now().After(deadline) {
			return false
		}
		time.Sleep(50 * time.Microsecond)
	}
}

func c37ErrClass(err error) string {
	var perm *backoff.PermanentError
	switch {
	case err == nil:
		return "nil"
	case errors.Is(err, context.Canceled):
		return "ctx"
	case errors.As(err, &perm):
		return "perm"
	default:
		return "other"
	}
}

func streamC37(h *H) {
	buf := make([]byte, 1<<20)
	ops := []string{"save", "load", "stat", "remove"}
	types := []backend.FileType{backend.PackFile, backend.KeyFile, backend.LockFile, backend.SnapshotFile, backend.IndexFile, backend.ConfigFile}
	ncases := h.N(150, 10000)
	for ci := 0; ci < ncases; ci++ {
		n := []uint{1, 1, 2, 2, 3, 5}[h.Intn(6)]
		mock := &c37Mock{Backend: mem.New(), n: n}
		be := sema.NewBackend(mock)
		fb := backend.AsBackend[backend.FreezeBackend](be)
		frozen := false
		h.Case("sched")
		h.Rec("n", Itoa(int(n)))
		if fb == nil {
			h.Rec("nofreeze")
			h.End()
			continue
		}
		lockBias := h.Intn(3) // 0: few lock ops, 2: many
		obs := func(fz string) bool {
			settled := c37Settle(buf)
			var inner, called, returned []string
			mock.mu.Lock()
			for _, c := range mock.calls {
				if c.inner {
					inner = append(inner, Itoa(c.id))
				}
				if c.called {
					called = append(called, Itoa(c.id))
				}
				if c.returned {
					returned = append(returned, Itoa(c.id))
				}
			}
			mock.mu.Unlock()
			j := func(l []string) string {
				if len(l) == 0 {
					return "-"
				}
				return strings.Join(l, ",")
			}
			h.Rec("obs", B(settled), fz, j(inner), j(called), j(returned))
			return settled
		}
		start := func() {
			c := &c37Call{id: len(mock.calls), op: h.Pick(ops), valid: true, gate: make(chan struct{}, 1)}
			if h.Intn(6) < 1+lockBias {
				c.typ = backend.LockFile
			} else {
				c.typ = types[h.Intn(len(types))]
			}
			if h.Intn(10) == 0 {
				c.valid = false
				kinds := []string{"type"}
				if c.typ != backend.ConfigFile {
					kinds = append(kinds, "name")
				}
				if c.op == "load" {
					kinds = append(kinds, "offset", "length")
				}
				c.invalidBy = h.Pick(kinds)
			}
			c.cancelled = h.Intn(7) == 0
			c.ctx, c.cancel = context.WithCancel(context.Background())
			if c.cancelled {
				c.cancel()
			}
			mock.mu.Lock()
			mock.calls = append(mock.calls, c)
			mock.mu.Unlock()
			// the file type the wrapper sees decides lock/non-lock (an invalid type 0 is never a lock file,
			// but the call is rejected before that matters)
			h.Rec("cmd", "start", Itoa(c.id), c.op, c.typ.String(), B(c.typ == backend.LockFile), B(c.valid), B(c.cancelled), func() string {
				if c.invalidBy == "" {
					return "-"
				}
				return c.invalidBy
			}())
			go c37Worker(be, mock, c)
		}
		release := func(c *c37Call) {
			h.Rec("cmd", "release", Itoa(c.id))
			c.gate <- struct{}{}
		}
		innerCalls := func() []*c37Call {
			var l []*c37Call
			mock.mu.Lock()
			for _, c := range mock.calls {
				if c.inner {
					l = append(l, c)
				}
			}
			mock.mu.Unlock()
			return l
		}
		freeze := func() bool {
			h.Rec("cmd", "freeze")
			var done bool
			var mu sync.Mutex
			go c37Freezer(fb, &done, &mu)
			ok := obsFreeze(obs, &done, &mu)
			return ok
		}
		// calls whose context can still be cancelled: started, not returned, not cancelled yet
		cancellable := func() []*c37Call {
			var l []*c37Call
			mock.mu.Lock()
			for _, c := range mock.calls {
				if !c.returned && !c.cancelled && !c.cancelCmd {
					l = append(l, c)
				}
			}
			mock.mu.Unlock()
			return l
		}
		steps := 6 + h.Intn(30)
		ok := true
		for s := 0; s < steps && ok; s++ {
			r := h.Intn(100)
			in := innerCalls()
			switch {
			case r < 50 && len(mock.calls) < 24:
				start()
				ok = obs("-")
			case r < 74 && len(in) > 0:
				release(in[h.Intn(len(in))])
				ok = obs("-")
			case r < 84 && len(cancellable()) > 0:
				// the caller gives up: prefer calls that are still waiting (for a token or at the freeze gate)
				l := cancellable()
				var waiting []*c37Call
				mock.mu.Lock()
				for _, c := range l {
					if !c.called {
						waiting = append(waiting, c)
					}
				}
				mock.mu.Unlock()
				if len(waiting) > 0 && h.Intn(4) != 0 {
					l = waiting
				}
				c := l[h.Intn(len(l))]
				c.cancelCmd = true
				h.Rec("cmd", "cancel", Itoa(c.id))
				c.cancel()
				ok = obs("-")
			case r < 93 && !frozen:
				ok = freeze()
				frozen = ok
				if !ok {
					// Freeze did not return: nothing more can be said about this run
					break
				}
			case frozen:
				h.Rec("cmd", "unfreeze")
				fb.Unfreeze()
				frozen = false
				ok = obs("-")
			}
		}
		// drain: unfreeze and release everything so that no goroutine is leaked
		if ok {
			if frozen {
				h.Rec("cmd", "unfreeze")
				fb.Unfreeze()
				frozen = false
				ok = obs("-")
			}
			for guard := 0; ok && guard < 100; guard++ {
				in := innerCalls()
				if len(in) == 0 {
					break
				}
				release(in[0])
				ok = obs("-")
			}
		}
		mock.mu.Lock()
		for _, c := range mock.calls {
			if c.returned {
				h.Rec("ret", Itoa(c.id), c37ErrClass(c.err))
			}
		}
		mock.mu.Unlock()
		h.End()
		// after an unsettled observation (a harness goroutine stayed runnable for 20 s: CPU starvation of
		// the machine, never a blocked call) the case is discarded by the driver; its remaining goroutines
		// stay blocked on their gates and do not disturb later cases
	}
}

// obsFreeze observes after a Freeze command; the observation carries whether Freeze() returned.
func obsFreeze(obs func(string) bool, done *bool, mu *sync.Mutex) bool {
	// settle first (the freezer goroutine either finished or is blocked on the mutex)
	buf := make([]byte, 1<<20)
	c37Settle(buf)
	mu.Lock()
	d := *done
	mu.Unlock()
	return obs(B(d)) && d
}
