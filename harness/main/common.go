//go:build verif

// Verification harness, injected into package main of cmd/restic at build time with
// `go build -tags verif -overlay …` (nothing of this lives in /repo). When the environment
// variable RESTIC_VERIF_HARNESS names a registered stream, the binary runs that stream
// (real restic code, in-process) and writes line-protocol records to stdout instead of
// behaving as restic.
package main

import (
	"bufio"
	"bytes"
	"context"
	"encoding/hex"
	"fmt"
	"math/rand"
	"os"
	"runtime/debug"
	"sort"
	"strconv"
	"strings"
	"testing"

	"github.com/restic/restic/internal/backend"
	"github.com/restic/restic/internal/backend/layout"
	"github.com/restic/restic/internal/backend/location"
	"github.com/restic/restic/internal/backend/mem"
	"github.com/restic/restic/internal/backend/retry"
	"github.com/restic/restic/internal/global"
	"github.com/restic/restic/internal/options"
	"github.com/restic/restic/internal/repository"
	"github.com/restic/restic/internal/restic"
	"github.com/restic/restic/internal/ui/termstatus"
)

// H is the handle every stream gets: PRNG (all random choices derive from it), tier, writer.
type H struct {
	W     *bufio.Writer
	Rng   *rand.Rand
	Tier  string // quick | thorough
	Seed  int64
	Shard int // 0-based shard index
	NSh   int // number of shards
	caseN int
	open  bool
	Args  []string // extra arguments (RESTIC_VERIF_ARGS, space separated), e.g. replay file
}

type verifStream func(h *H)

var verifStreams = map[string]verifStream{}

// verifRegister is called from package-level var initialisers of the per-property files, which
// run before every init(), so the table is complete when the hijack init below runs.
func verifRegister(name string, f verifStream) bool {
	verifStreams[name] = f
	return true
}

var verifFactFns []func() map[string]int64

// verifRegisterFacts registers a function returning named integer constants of the current
// source; the `facts` stream prints them and vcheck regenerates lean/Restic/Gen/Consts.lean.
func verifRegisterFacts(f func() map[string]int64) bool {
	verifFactFns = append(verifFactFns, f)
	return true
}

func (h *H) Thorough() bool { return h.Tier == "thorough" }

// N picks the case count for the tier.
func (h *H) N(quick, thorough int) int {
	n := quick
	if h.Thorough() {
		n = thorough
	}
	if h.NSh > 1 {
		n = (n + h.NSh - 1) / h.NSh
	}
	return n
}

// Case opens a case; the id is unique across shards.
func (h *H) Case(stream string) string {
	if h.open {
		h.End()
	}
	h.caseN++
	id := fmt.Sprintf("s%d.%d.%d", h.Seed, h.Shard, h.caseN)
	fmt.Fprintf(h.W, "case %s %s\n", id, stream)
	h.open = true
	return id
}

// Rec writes one record; tokens must not contain spaces or newlines (use Hex for byte strings).
func (h *H) Rec(key string, toks ...string) {
	h.W.WriteString(key)
	for _, t := range toks {
		if t == "" {
			t = "-"
		}
		if strings.ContainsAny(t, " \n\r\t") {
			panic("harness: token with whitespace: " + strconv.Quote(t))
		}
		h.W.WriteByte(' ')
		h.W.WriteString(t)
	}
	h.W.WriteByte('\n')
}

func (h *H) End() {
	if h.open {
		h.W.WriteString("end\n")
		h.open = false
		h.W.Flush()
	}
}

// Hex encodes a byte string as one token ("-" for empty).
func Hex(b []byte) string {
	if len(b) == 0 {
		return "-"
	}
	return hex.EncodeToString(b)
}
func HexS(s string) string { return Hex([]byte(s)) }
func HexList(l []string) []string {
	r := make([]string, len(l))
	for i, s := range l {
		r[i] = HexS(s)
	}
	return r
}
func Itoa(n int) string     { return strconv.Itoa(n) }
func I64(n int64) string    { return strconv.FormatInt(n, 10) }
func U64(n uint64) string   { return strconv.FormatUint(n, 10) }
func B(b bool) string {
	if b {
		return "1"
	}
	return "0"
}
func SortedCopy(l []string) []string {
	r := append([]string(nil), l...)
	sort.Strings(r)
	return r
}

// Protect runs f and maps a panic to ("panic", message) so that a crashing case is reported as
// an outcome instead of killing the stream.
func Protect(f func()) (panicked bool, msg string) {
	defer func() {
		if r := recover(); r != nil {
			panicked = true
			msg = fmt.Sprint(r)
			if os.Getenv("RESTIC_VERIF_DEBUG") != "" {
				fmt.Fprintf(os.Stderr, "panic: %v\n%s\n", r, debug.Stack())
			}
		}
	}()
	f()
	return
}

// --- a testing.TB the repository's test helpers accept -----------------------------------

type harnessFatal struct{ msg string }

type hTB struct {
	testing.TB // nil; only provides the unexported method
	cleanups   []func()
}

func (t *hTB) Helper()                           {}
func (t *hTB) Name() string                      { return "verif-harness" }
func (t *hTB) Log(args ...any)                   {}
func (t *hTB) Logf(format string, args ...any)   {}
func (t *hTB) Error(args ...any)                 { panic(harnessFatal{fmt.Sprint(args...)}) }
func (t *hTB) Errorf(format string, args ...any) { panic(harnessFatal{fmt.Sprintf(format, args...)}) }
func (t *hTB) Fatal(args ...any)                 { panic(harnessFatal{fmt.Sprint(args...)}) }
func (t *hTB) Fatalf(format string, args ...any) { panic(harnessFatal{fmt.Sprintf(format, args...)}) }
func (t *hTB) FailNow()                          { panic(harnessFatal{"FailNow"}) }
func (t *hTB) Fail()                             { panic(harnessFatal{"Fail"}) }
func (t *hTB) Failed() bool                      { return false }
func (t *hTB) Skip(args ...any)                  { panic(harnessFatal{"skip"}) }
func (t *hTB) Skipf(f string, args ...any)       { panic(harnessFatal{"skip"}) }
func (t *hTB) SkipNow()                          { panic(harnessFatal{"skip"}) }
func (t *hTB) Skipped() bool                     { return false }
func (t *hTB) Cleanup(f func())                  { t.cleanups = append(t.cleanups, f) }
func (t *hTB) Setenv(k, v string)                { os.Setenv(k, v) }
func (t *hTB) Context() context.Context          { return context.Background() }
func (t *hTB) TempDir() string {
	d, err := os.MkdirTemp(verifTmpRoot(), "tb-")
	if err != nil {
		panic(err)
	}
	t.cleanups = append(t.cleanups, func() { os.RemoveAll(d) })
	return d
}
func (t *hTB) RunCleanups() {
	for i := len(t.cleanups) - 1; i >= 0; i-- {
		t.cleanups[i]()
	}
	t.cleanups = nil
}

var TB = &hTB{}

// verifTmpRoot is the per-run scratch directory (created by vcheck outside /repo and /verif and
// removed by it afterwards).
func verifTmpRoot() string {
	d := os.Getenv("RESTIC_VERIF_TMP")
	if d == "" {
		d = os.TempDir()
	}
	return d
}

func MkTemp(prefix string) string {
	d, err := os.MkdirTemp(verifTmpRoot(), prefix)
	if err != nil {
		panic(err)
	}
	return d
}

// --- repositories -------------------------------------------------------------------------

// Env is an isolated restic environment: one in-memory backend reachable as "mem:r" through
// its own registry, plus global options like the integration tests use.
type Env struct {
	Gopts global.Options
	Be    *mem.MemoryBackend
}

type memFactoryShim struct {
	location.Factory
}

// NewMemEnv builds gopts for a fresh in-memory repository location (not initialised yet).
// hook (optional) wraps the backend (recording, fault injection, scheduling).
func NewMemEnv(hook global.BackendWrapper) *Env {
	reg := location.NewRegistry()
	f := mem.NewFactory()
	reg.Register(f)
	be, err := f.Open(context.Background(), mustCfg(f), nil, nil, nil)
	if err != nil {
		panic(err)
	}
	env := &Env{Be: be.(*mem.MemoryBackend)}
	env.Gopts = global.Options{
		Repo:            "mem:r",
		Quiet:           true,
		NoCache:         true,
		Password:        "geheim",
		Extended:        make(options.Options),
		Compression:     repository.CompressionFastest,
		BackendTestHook: hook,
		Backends:        reg,
	}
	return env
}

func mustCfg(f location.Factory) any {
	c, err := f.ParseConfig("mem:r")
	if err != nil {
		panic(err)
	}
	return c
}

// WithTerm runs f with a terminal whose stdout/stderr are captured.
func WithTerm(gopts global.Options, f func(ctx context.Context, gopts global.Options) error) (stdout, stderr *bytes.Buffer, err error) {
	stdout, stderr = &bytes.Buffer{}, &bytes.Buffer{}
	term, cancel := termstatus.Setup(os.Stdin, stdout, stderr, gopts.Quiet)
	gopts.Term = term
	ctx, cancelCtx := context.WithCancel(context.Background())
	err = f(ctx, gopts)
	cancelCtx()
	cancel()
	return
}

// NewRepo returns an initialised in-memory repository of the given version (0 = stable).
func NewRepo(version uint, opts repository.Options) (*repository.Repository, backend.Backend) {
	return repository.TestRepositoryWithBackend(TB, nil, version, opts)
}

func verifGlobalTestSetup() {
	repository.TestUseLowSecurityKDFParameters(TB)
	restic.TestDisableCheckPolynomial(TB)
	retry.TestFastRetries(TB)
	layout.TestDisablePackSubdirs(TB)
	repository.TestSetLockTimeout(TB, 0)
}

// --- random helpers ------------------------------------------------------------------------

func (h *H) Intn(n int) int { return h.Rng.Intn(n) }
func (h *H) Bool() bool     { return h.Rng.Intn(2) == 0 }
func (h *H) Pick(l []string) string {
	return l[h.Rng.Intn(len(l))]
}
func (h *H) Bytes(n int) []byte {
	b := make([]byte, n)
	h.Rng.Read(b)
	return b
}

// --- hijack --------------------------------------------------------------------------------

func init() {
	name := os.Getenv("RESTIC_VERIF_HARNESS")
	if name == "" {
		return
	}
	if name == "list" {
		var l []string
		for k := range verifStreams {
			l = append(l, k)
		}
		sort.Strings(l)
		fmt.Println(strings.Join(l, "\n"))
		os.Exit(0)
	}
	f, ok := verifStreams[name]
	if !ok {
		fmt.Fprintf(os.Stderr, "verif harness: unknown stream %q\n", name)
		os.Exit(2)
	}
	seed, _ := strconv.ParseInt(os.Getenv("VERIF_SEED"), 10, 64)
	shard, _ := strconv.Atoi(os.Getenv("RESTIC_VERIF_SHARD"))
	nsh, _ := strconv.Atoi(os.Getenv("RESTIC_VERIF_NSHARDS"))
	if nsh < 1 {
		nsh = 1
	}
	tier := os.Getenv("VERIF_TIER")
	if tier != "thorough" {
		tier = "quick"
	}
	h := &H{
		W:     bufio.NewWriterSize(os.Stdout, 1<<16),
		Rng:   rand.New(rand.NewSource(seed*1000003 + int64(shard)*7919 + 17)),
		Tier:  tier,
		Seed:  seed,
		Shard: shard,
		NSh:   nsh,
		Args:  strings.Fields(os.Getenv("RESTIC_VERIF_ARGS")),
	}
	verifGlobalTestSetup()
	f(h)
	h.End()
	h.W.Flush()
	TB.RunCleanups()
	os.Exit(0)
}

// backendHandle maps a restic file type + id to the backend handle.
func backendHandle(t restic.FileType, id restic.ID) backend.Handle {
	var bt backend.FileType
	switch t {
	case restic.PackFile:
		bt = backend.PackFile
	case restic.KeyFile:
		bt = backend.KeyFile
	case restic.LockFile:
		bt = backend.LockFile
	case restic.SnapshotFile:
		bt = backend.SnapshotFile
	case restic.IndexFile:
		bt = backend.IndexFile
	case restic.ConfigFile:
		bt = backend.ConfigFile
	}
	return backend.Handle{Type: bt, Name: id.String()}
}
