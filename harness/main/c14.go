//go:build verif

package main

// C14 — readers never see a snapshot whose data is not yet indexed.
//
// Two or three real `restic backup` processes (goroutines, CLI in-process) write to ONE in-memory
// backend concurrently while real reader commands (ls, restore, dump, find, diff, stats,
// check --no-lock, snapshots-based cat) run against it. All backend operations go through a
// scheduling wrapper that serialises them (so there is one global order), delays reader
// operations until a writer has made progress (to put writer mutations between a reader's
// snapshot listing and its index loading), and records the global trace.

import (
	"bytes"
	"context"
	"fmt"
	"io"
	"math/rand"
	"os"
	"path/filepath"
	"runtime"
	"strings"
	"sync"
	"time"

	"github.com/restic/restic/internal/backend"
	"github.com/restic/restic/internal/backend/limiter"
	"github.com/restic/restic/internal/backend/location"
	"github.com/restic/restic/internal/backend/mem"
	"github.com/restic/restic/internal/global"
	"github.com/restic/restic/internal/ui/termstatus"
)

var _ = verifRegister("C14", streamC14)

type c14Sched struct {
	mu        sync.Mutex // serialises backend operations: one global order
	rng       *rand.Rand
	events    []Event  // mutating operations of the writers (with data), global order
	procs     []string // proc of each event
	writers   int      // active writers
	rops      map[string][]string
	rpos      map[string][]int // global position (number of writer events so far) of each reader op
	mutations int
	// probe, if set, is called (outside the lock, before Save returns to the writer) right after a
	// writer's snapshot file became visible: the scheduler runs a complete reader at exactly that
	// point of the global order — a legal schedule, and the worst one for a writer that publishes a
	// snapshot before its data is indexed.
	probe func(snapshot string)
}

func (s *c14Sched) mutationCount() int {
	s.mu.Lock()
	defer s.mu.Unlock()
	return s.mutations
}

func (s *c14Sched) activeWriters() int {
	s.mu.Lock()
	defer s.mu.Unlock()
	return s.writers
}

type c14Backend struct {
	backend.Backend
	s      *c14Sched
	proc   string
	reader bool
	nogate bool // probe readers run at once
	seen   int
}

// gate: writers yield randomly; readers wait (bounded) until some writer has made progress since
// the reader's previous operation.
func (b *c14Backend) gate(interesting bool) {
	if b.reader {
		if !interesting || b.nogate {
			return
		}
		deadline := time.Now().Add(40 * time.Millisecond)
		for b.s.activeWriters() > 0 && b.s.mutationCount() <= b.seen && time.Now().Before(deadline) {
			time.Sleep(200 * time.Microsecond)
		}
		b.seen = b.s.mutationCount()
		return
	}
	b.s.mu.Lock()
	d := b.s.rng.Intn(4)
	us := b.s.rng.Intn(1500)
	b.s.mu.Unlock()
	if d == 0 {
		time.Sleep(time.Duration(us) * time.Microsecond)
	}
}

func (b *c14Backend) note(kind string) {
	// caller holds s.mu
	if b.reader {
		b.s.rops[b.proc] = append(b.s.rops[b.proc], kind)
		b.s.rpos[b.proc] = append(b.s.rpos[b.proc], len(b.s.events))
	}
}

func (b *c14Backend) Save(ctx context.Context, h backend.Handle, rd backend.RewindReader) error {
	b.gate(false)
	data, _ := io.ReadAll(rd)
	_ = rd.Rewind()
	b.s.mu.Lock()
	err := b.Backend.Save(ctx, h, rd)
	if h.Type == backend.PackFile || h.Type == backend.IndexFile || h.Type == backend.SnapshotFile {
		b.s.events = append(b.s.events, Event{N: len(b.s.events), Op: "save", Type: h.Type.String(), Name: h.Name, Err: err != nil, Data: data})
		b.s.procs = append(b.s.procs, b.proc)
		if err == nil {
			b.s.mutations++
		}
	}
	probe := b.s.probe
	b.s.mu.Unlock()
	if err == nil && h.Type == backend.SnapshotFile && probe != nil && !b.reader {
		probe(h.Name)
	}
	return err
}

func (b *c14Backend) Remove(ctx context.Context, h backend.Handle) error {
	b.gate(false)
	b.s.mu.Lock()
	defer b.s.mu.Unlock()
	err := b.Backend.Remove(ctx, h)
	if h.Type == backend.PackFile || h.Type == backend.IndexFile || h.Type == backend.SnapshotFile {
		b.s.events = append(b.s.events, Event{N: len(b.s.events), Op: "remove", Type: h.Type.String(), Name: h.Name, Err: err != nil})
		b.s.procs = append(b.s.procs, b.proc)
	}
	return err
}

func (b *c14Backend) Load(ctx context.Context, h backend.Handle, length int, offset int64, fn func(rd io.Reader) error) error {
	b.gate(h.Type == backend.SnapshotFile || h.Type == backend.IndexFile)
	b.s.mu.Lock()
	defer b.s.mu.Unlock()
	switch h.Type {
	case backend.SnapshotFile:
		b.note("s")
	case backend.IndexFile:
		b.note("i")
	}
	return b.Backend.Load(ctx, h, length, offset, fn)
}

func (b *c14Backend) Stat(ctx context.Context, h backend.Handle) (backend.FileInfo, error) {
	b.s.mu.Lock()
	defer b.s.mu.Unlock()
	return b.Backend.Stat(ctx, h)
}

// List: the listing itself is one atomic step of the global order; the callback (which may call
// the backend again) runs afterwards.
func (b *c14Backend) List(ctx context.Context, t backend.FileType, fn func(backend.FileInfo) error) error {
	b.gate(t == backend.SnapshotFile || t == backend.IndexFile)
	var fis []backend.FileInfo
	b.s.mu.Lock()
	switch t {
	case backend.SnapshotFile:
		b.note("S")
	case backend.IndexFile:
		b.note("I")
	}
	err := b.Backend.List(ctx, t, func(fi backend.FileInfo) error { fis = append(fis, fi); return nil })
	b.s.mu.Unlock()
	if err != nil {
		return err
	}
	for _, fi := range fis {
		if ctx.Err() != nil {
			return ctx.Err()
		}
		if err := fn(fi); err != nil {
			return err
		}
	}
	return ctx.Err()
}

func (b *c14Backend) Unwrap() backend.Backend { return b.Backend }

// c14Loc / c14MultiRun: the real CLI with several in-memory repositories ("mem:<name>"), needed
// for `copy --from-repo`.
type c14Loc struct{ name string }

func c14MultiRun(ctx context.Context, bes map[string]backend.Backend, args ...string) (res CmdResult) {
	return c14MultiRunIn(ctx, bes, nil, args...)
}

func c14MultiRunIn(ctx context.Context, bes map[string]backend.Backend, stdin []byte, args ...string) (res CmdResult) {
	cliMu.Lock()
	os.Setenv("RESTIC_PASSWORD", "geheim")
	os.Setenv("RESTIC_FROM_PASSWORD", "geheim")
	open := func(_ context.Context, c c14Loc, _ limiter.Limiter, _ func(string, ...any)) (backend.Backend, error) {
		be, ok := bes[c.name]
		if !ok {
			return nil, fmt.Errorf("no such in-memory repository %q", c.name)
		}
		return be, nil
	}
	reg := location.NewRegistry()
	reg.Register(location.NewLimitedBackendFactory[c14Loc, backend.Backend]("mem",
		func(s string) (*c14Loc, error) { return &c14Loc{name: strings.TrimPrefix(s, "mem:")}, nil },
		location.NoPassword, open, open))
	gopts := global.Options{Backends: reg}
	var stdout, stderr bytes.Buffer
	term, cancelTerm := termstatus.Setup(io.NopCloser(bytes.NewReader(stdin)), &stdout, &stderr, false)
	gopts.Term = term
	cctx, cancel := context.WithCancel(ctx)
	root := newRootCommand(&gopts)
	root.SetArgs(append([]string{"--no-cache"}, args...))
	root.SetOut(&stdout)
	root.SetErr(&stderr)
	cliMu.Unlock()
	panicked, msg := Protect(func() {
		err := root.ExecuteContext(cctx)
		switch err {
		case nil:
			err = cctx.Err()
		case ErrOK:
			err = nil
		}
		res.Err = err
	})
	cancel()
	cancelTerm()
	res.Stdout, res.Stderr = stdout.String(), stderr.String()
	if panicked {
		res.Panic, res.Exit, res.Err = msg, 2, fmt.Errorf("panic: %s", msg)
		return
	}
	res.Exit = exitCodeOf(res.Err)
	return
}

type c14Reader struct {
	name string
	args func(olds []string, src string, tmp string) []string
}

func streamC14(h *H) {
	runtime.GOMAXPROCS(4) // the machine is shared; the streams are not CPU hungry
	c11InstallIndexFull()
	root := MkTemp("c14-")
	defer os.RemoveAll(root)
	// sub-stream `fuse`: the long-running reader (mount), driven in-process
	nf := h.N(30, 300)
	for i := 0; i < nf; i++ {
		c14FuseScenario(h, root, i)
	}
	n := h.N(24, 96)
	for i := 0; i < n; i++ {
		c14Scenario(h, root, i)
	}
}

func c14Scenario(h *H, root string, si int) {
	dir := filepath.Join(root, fmt.Sprintf("s%d", si))
	defer os.RemoveAll(dir)
	cliExtra := []string{"--pack-size", "4"}
	c11FullEvery.Store(int64(h.Intn(3)))
	be := mem.New()
	// base repository: one snapshot of a small tree
	baseTree := &c11Tree{dir: filepath.Join(dir, "base"), hashes: map[string][32]byte{}}
	c11Grow(h, baseTree, 0, 1)
	cli0 := NewCLI(be)
	cli0.Extra = cliExtra
	cli0.MustRun("init")
	cli0.MustRun("backup", baseTree.dir)
	olds := c26SnapshotIDs(be)
	a12RemoveLocks(be)
	base := DumpBackend(be)
	dec := newA12Dec(a12Key(LoadBackend(base)))

	nw := 2 + h.Intn(2)
	var wtrees []*c11Tree
	for w := 0; w < nw; w++ {
		t := &c11Tree{dir: filepath.Join(dir, fmt.Sprintf("w%d", w)), hashes: map[string][32]byte{}}
		c11Grow(h, t, w, 4+h.Intn(3))
		if w > 0 && h.Bool() { // content shared between concurrent writers
			for rel := range wtrees[0].hashes {
				if h.Intn(4) == 0 {
					b, _ := os.ReadFile(filepath.Join(wtrees[0].dir, rel))
					t.put(h, filepath.Join("shared", rel), b)
				}
			}
		}
		wtrees = append(wtrees, t)
	}
	sched := &c14Sched{rng: rand.New(rand.NewSource(h.Rng.Int63())), rops: map[string][]string{}, rpos: map[string][]int{}, writers: nw}
	ctx, cancel := context.WithTimeout(context.Background(), 300*time.Second)
	defer cancel()
	var wg sync.WaitGroup
	type rrun struct {
		proc, name string
		res        CmdResult
	}
	var rruns []rrun
	var rmu sync.Mutex
	var probeN int
	sched.probe = func(snapshot string) {
		rmu.Lock()
		probeN++
		proc := fmt.Sprintf("p%d", probeN)
		rmu.Unlock()
		cli := NewCLI(&c14Backend{Backend: be, s: sched, proc: proc, reader: true, nogate: true})
		res := cli.RunCtx(ctx, "ls", snapshot)
		res.Stdout = ""
		if res.Err != nil {
			res.Stderr = res.Err.Error() + " | " + firstLine(res.Stderr)
		}
		rmu.Lock()
		rruns = append(rruns, rrun{proc, "probe-ls", res})
		rmu.Unlock()
	}
	// sometimes `copy` is one of the writers: a source repository with three snapshots, the second
	// one of an unchanged tree (shares all its data with the first)
	withCopy := h.Intn(2) == 0
	var srcBe backend.Backend
	if withCopy {
		srcBe = mem.New()
		bes := map[string]backend.Backend{"src": srcBe}
		// identical trees need identical metadata of everything in the tree, ancestors of the
		// backup target included — so the source snapshots are made from stdin with a fixed time
		blobA, blobB := h.Bytes(600000+h.Intn(900000)), h.Bytes(300000+h.Intn(600000))
		if r := c14MultiRun(ctx, bes, "-r", "mem:src", "init"); r.Err != nil {
			panic(fmt.Sprintf("c14: preparing the copy source failed: %v\n%s", r.Err, r.Stderr))
		}
		for i, blob := range [][]byte{blobA, blobA, blobB} {
			r := c14MultiRunIn(ctx, bes, blob, "-r", "mem:src", "backup", "--stdin", "--stdin-filename", "blob.bin",
				"--time", "2020-02-03 04:05:06", "--host", fmt.Sprintf("c%d", i))
			if r.Err != nil {
				panic(fmt.Sprintf("c14: preparing the copy source failed: %v\n%s", r.Err, r.Stderr))
			}
		}
		a12RemoveLocks(srcBe)
	}
	nproc := nw
	if withCopy {
		nproc++
		sched.writers = nproc
	}
	wres := make([]CmdResult, nproc)
	wname := make([]string, nproc)
	delays := make([]int, nproc)
	for w := range delays {
		delays[w] = h.Intn(60)
	}
	for w := 0; w < nproc; w++ {
		wg.Add(1)
		go func(w int) {
			defer wg.Done()
			time.Sleep(time.Duration(delays[w]) * time.Millisecond)
			if w < nw {
				wname[w] = fmt.Sprintf("w%d", w)
				cli := NewCLI(&c14Backend{Backend: be, s: sched, proc: wname[w]})
				cli.Extra = cliExtra
				wres[w] = cli.RunCtx(ctx, "backup", wtrees[w].dir, "--host", wname[w])
			} else {
				wname[w] = "wc"
				bes := map[string]backend.Backend{"src": srcBe, "r": &c14Backend{Backend: be, s: sched, proc: "wc"}}
				wres[w] = c14MultiRun(ctx, bes, "-r", "mem:r", "--pack-size", "4", "copy", "--from-repo", "mem:src")
				if wres[w].Err != nil {
					wres[w].Stderr = wres[w].Err.Error() + " | " + firstLine(wres[w].Stderr)
				}
			}
			sched.mu.Lock()
			sched.writers--
			sched.mu.Unlock()
		}(w)
	}
	readers := []c14Reader{
		{"ls", func(_ []string, _ string, _ string) []string { return []string{"ls", "latest"} }},
		{"restore", func(_ []string, _ string, tmp string) []string { return []string{"restore", "latest", "--target", tmp} }},
		{"dump", func(_ []string, _ string, _ string) []string { return []string{"dump", "latest", "/"} }},
		{"find", func(_ []string, _ string, _ string) []string { return []string{"find", "g0-f0"} }},
		{"diff", func(olds []string, newest string, _ string) []string { return []string{"diff", olds[0], newest} }},
		{"stats", func(_ []string, _ string, _ string) []string { return []string{"stats"} }},
		{"check", func(_ []string, _ string, _ string) []string { return []string{"check", "--no-lock"} }},
		{"cat", func(_ []string, newest string, _ string) []string { return []string{"cat", "tree", newest} }},
	}
	order := h.Rng.Perm(len(readers))
	startDelay := []int{h.Intn(40), 20 + h.Intn(80)}
	var rwg sync.WaitGroup
	for li := 0; li < 2; li++ { // two reader loops side by side
		rwg.Add(1)
		go func(li int) {
			defer rwg.Done()
			time.Sleep(time.Duration(startDelay[li]) * time.Millisecond)
			for i := 0; ; i++ {
				last := sched.activeWriters() == 0
				rd := readers[order[(i*2+li)%len(order)]]
				proc := fmt.Sprintf("r%c%d", 'a'+li, i)
				tmp, _ := os.MkdirTemp(dir, "rst-")
				cli := NewCLI(&c14Backend{Backend: be, s: sched, proc: proc, reader: true})
				// `diff` and `cat tree` take explicit ids: the newest snapshot file there is right now
				newest := olds[0]
				for _, id := range c26SnapshotIDs(be) {
					if !has(olds, id) {
						newest = id
					}
				}
				res := cli.RunCtx(ctx, rd.args(olds, newest, tmp)...)
				res.Stdout = ""
				if res.Err != nil {
					res.Stderr = res.Err.Error() + " | " + firstLine(res.Stderr)
				}
				os.RemoveAll(tmp)
				rmu.Lock()
				rruns = append(rruns, rrun{proc, rd.name, res})
				rmu.Unlock()
				if last || ctx.Err() != nil || i > 30 {
					return
				}
			}
		}(li)
	}
	wg.Wait()
	rwg.Wait()

	timedOut := ctx.Err() != nil
	in := newA12Intern()
	h.Case("concurrent")
	if timedOut {
		// the scenario did not finish within its time limit (overloaded machine): reported as a
		// hang in the evidence, never as a property violation
		h.Rec("timeout", "1")
	}
	a12EmitState(h, dec, in, base, "r0")
	// global trace: decode all packs first so closures can be expanded, then emit in order
	final := DumpBackend(be)
	a12DecodePacks(dec, sched.events, final)
	for i, e := range sched.events {
		a12EmitEvents(h, dec, in, sched.procs[i], []Event{e}, final)
	}
	for w := 0; w < nproc; w++ {
		h.Rec("wres", wname[w], Itoa(wres[w].Exit), HexS(firstLine(wres[w].Stderr)))
	}
	// position bookkeeping: events with Err are not emitted, so translate positions
	emitted := make([]int, len(sched.events)+1)
	for i, e := range sched.events {
		emitted[i+1] = emitted[i]
		if a12Happened(e, final) {
			emitted[i+1]++
		}
	}
	for _, rr := range rruns {
		ops := sched.rops[rr.proc]
		pos := sched.rpos[rr.proc]
		toks := []string{rr.proc, rr.name, Itoa(rr.res.Exit), HexS(firstLine(rr.res.Stderr))}
		for i, o := range ops {
			if o == "S" || o == "I" {
				toks = append(toks, fmt.Sprintf("%s%d", o, emitted[pos[i]]))
			}
		}
		h.Rec("rd", toks...)
	}
	// after everything: the repository passes a real check
	a12RemoveLocks(be)
	chk := NewCLI(be).Run("check")
	h.Rec("state", "check", B(chk.Err == nil), HexS(firstLine(chk.Stderr)))
	h.Rec("labels", fmt.Sprintf("writers:%d", nw), fmt.Sprintf("readers:%d", c11MinInt(len(rruns), 9)))
	h.End()
}

var _ = strings.Join
