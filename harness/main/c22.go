//go:build verif

package main

// C22: retention policy. Runs the real data.ApplyPolicy (direct calls) and `restic forget
// --dry-run --json` (flag path) on generated snapshot lists × policies.
//
// Records (see lean/Driver/C22.lean); <X> is "" for the (first) policy, "2" for the raised policy
// of a `mono` case:
//   now <sec> <nsec>
//   ps <idx> <sec> <nsec> <year> <month> <day> <hour> <isoYear> <isoWeek>      pst <idx> <tag>*
//   pol<X> <last> <hourly> <daily> <weekly> <monthly> <yearly>
//   dur<X> <i> <hours> <days> <months> <years>      i = 0 within, 1..5 within-hourly..yearly
//   ptag<X> <tag>*                                  one per keep-tag list
//   latest <sec> <nsec>                             real findLatestTimestamp
//   win<X> <i> <sec> <nsec>                         window start latest − duration (oracle: Go's time package)
//   winraw<X> <i> <sec> <nsec>                      hours > 2562047 only: the overflowed value (to name the failure)
//   keep<X> <idx>*   remove<X> <idx>*   reason<X> <idx> <hex reason>*   ctr<X> <idx> <6 counters>
//   res panic|refuse|error <msg>

import (
	"context"
	"encoding/json"
	"fmt"
	"strings"
	"time"

	"github.com/restic/restic/internal/data"
	"github.com/restic/restic/internal/repository"
	"github.com/restic/restic/internal/restic"
)

var _ = verifRegister("C22", streamC22)

type c22Snap struct {
	idx  int
	t    time.Time
	tags []string
	id   restic.ID
}

var c22Zones = []*time.Location{
	time.UTC, time.FixedZone("", 2*3600), time.FixedZone("", -8*3600),
	time.FixedZone("", 5*3600+45*60), time.FixedZone("", 13*3600),
}

var c22Anchors = []time.Time{
	time.Date(2024, 12, 30, 0, 0, 0, 0, time.UTC), // Monday, first day of ISO week 1 of 2025
	time.Date(2025, 1, 1, 0, 0, 0, 0, time.UTC),
	time.Date(2024, 2, 29, 23, 0, 0, 0, time.UTC),
	time.Date(2024, 3, 1, 0, 0, 0, 0, time.UTC),
	time.Date(2021, 1, 3, 23, 30, 0, 0, time.UTC), // Sunday, last day of ISO week 53 of 2020
	time.Date(2023, 10, 31, 23, 59, 59, 0, time.UTC),
	time.Date(2016, 1, 1, 0, 0, 0, 0, time.UTC),
}

var c22Offsets = []int64{0, 1, -1, 1800, -1800, 3600, -3600, 86400, -86400, 7 * 86400, -7 * 86400,
	30 * 86400, -31 * 86400, 365 * 86400, -366 * 86400}

var c22Steps = []time.Duration{10 * time.Minute, time.Hour, 6 * time.Hour, 24 * time.Hour, 3 * 24 * time.Hour,
	10 * 24 * time.Hour, 40 * 24 * time.Hour, 200 * 24 * time.Hour}

var c22Durs = []data.Duration{
	{Hours: 1}, {Hours: 24}, {Hours: 100}, {Days: 2}, {Days: 7}, {Months: 1}, {Months: 3}, {Years: 1},
	{Years: 1, Months: 1, Days: 1, Hours: 1}, {Days: 36500}, {Years: 100}, {Days: 1}, {Hours: 48},
}

// durations around the largest number of hours a time.Duration can hold (2562047 h ≈ 292 years)
var c22BigDurs = []data.Duration{{Hours: 2562047}, {Hours: 2562048}, {Hours: 4000000}, {Hours: 2562047, Days: 1}, {Hours: 5124096}}

var c22TagLists = []data.TagList{{"a"}, {"b"}, {"a", "b"}, {""}, {"", "a"}, {"c"}, {"a", ""}}

func (h *H) c22Count() int {
	switch h.Intn(10) {
	case 0, 1, 2, 3:
		return 0
	case 4:
		return 1
	case 5:
		return 2
	case 6:
		return 3
	case 7:
		return h.Intn(8)
	case 8:
		return -1
	default:
		return 100
	}
}

func (h *H) c22Dur(big bool) data.Duration {
	if h.Intn(10) < 6 {
		return data.Duration{}
	}
	if big && h.Intn(4) == 0 {
		return c22BigDurs[h.Intn(len(c22BigDurs))]
	}
	return c22Durs[h.Intn(len(c22Durs))]
}

func (h *H) c22Policy(big bool) data.ExpirePolicy {
	p := data.ExpirePolicy{}
	if h.Intn(12) == 0 {
		return p
	}
	// most policies use a few rules only
	sel := func() bool { return h.Intn(3) == 0 }
	if sel() {
		p.Last = h.c22Count()
	}
	if sel() {
		p.Hourly = h.c22Count()
	}
	if sel() {
		p.Daily = h.c22Count()
	}
	if sel() {
		p.Weekly = h.c22Count()
	}
	if sel() {
		p.Monthly = h.c22Count()
	}
	if sel() {
		p.Yearly = h.c22Count()
	}
	if h.Intn(3) == 0 {
		p.Within = h.c22Dur(big)
	}
	if h.Intn(4) == 0 {
		p.WithinHourly = h.c22Dur(big)
	}
	if h.Intn(4) == 0 {
		p.WithinDaily = h.c22Dur(big)
	}
	if h.Intn(5) == 0 {
		p.WithinWeekly = h.c22Dur(big)
	}
	if h.Intn(5) == 0 {
		p.WithinMonthly = h.c22Dur(big)
	}
	if h.Intn(5) == 0 {
		p.WithinYearly = h.c22Dur(big)
	}
	if h.Intn(4) == 0 {
		n := 1 + h.Intn(2)
		for i := 0; i < n; i++ {
			p.Tags = append(p.Tags, c22TagLists[h.Intn(len(c22TagLists))])
		}
	}
	return p
}

func c22Durs6(p data.ExpirePolicy) [6]data.Duration {
	return [6]data.Duration{p.Within, p.WithinHourly, p.WithinDaily, p.WithinWeekly, p.WithinMonthly, p.WithinYearly}
}

// c22Raise returns a policy that is pointwise at least p: counts raised (or unlimited),
// durations lengthened, a tag list added.
func (h *H) c22Raise(p data.ExpirePolicy, big bool) data.ExpirePolicy {
	q := p
	q.Tags = append(data.TagLists(nil), p.Tags...)
	rc := func(c int) int {
		if c == -1 || h.Intn(2) == 0 {
			return c
		}
		if h.Intn(4) == 0 {
			return -1
		}
		return c + 1 + h.Intn(3)
	}
	rd := func(d data.Duration) data.Duration {
		if h.Intn(2) == 0 {
			return d
		}
		switch h.Intn(5) {
		case 0:
			d.Hours += 1 + h.Intn(30)
		case 1:
			d.Days += 1 + h.Intn(40)
		case 2:
			d.Months += 1 + h.Intn(14)
		case 3:
			d.Years += 1 + h.Intn(3)
		default:
			if big {
				d.Hours += []int{2562047, 2562048, 1500000, 3000000}[h.Intn(4)]
			} else {
				d.Hours += 1000
			}
		}
		return d
	}
	q.Last, q.Hourly, q.Daily, q.Weekly, q.Monthly, q.Yearly = rc(p.Last), rc(p.Hourly), rc(p.Daily), rc(p.Weekly), rc(p.Monthly), rc(p.Yearly)
	q.Within, q.WithinHourly, q.WithinDaily = rd(p.Within), rd(p.WithinHourly), rd(p.WithinDaily)
	q.WithinWeekly, q.WithinMonthly, q.WithinYearly = rd(p.WithinWeekly), rd(p.WithinMonthly), rd(p.WithinYearly)
	if h.Intn(3) == 0 {
		q.Tags = append(q.Tags, c22TagLists[h.Intn(len(c22TagLists))])
	}
	return q
}

// c22GenList generates a snapshot history. extreme: allow years outside what JSON can carry.
func (h *H) c22GenList(maxN int, now time.Time, extreme bool, distinct bool) []*c22Snap {
	n := h.Intn(maxN + 1)
	sameZone := h.Intn(10) < 7
	zone0 := c22Zones[h.Intn(len(c22Zones))]
	profile := h.Intn(20)
	anchor := c22Anchors[h.Intn(len(c22Anchors))]
	step := c22Steps[h.Intn(len(c22Steps))]
	var l []*c22Snap
	seen := map[int64]bool{}
	for i := 0; i < n; i++ {
		zone := zone0
		if !sameZone {
			zone = c22Zones[h.Intn(len(c22Zones))]
		}
		var t time.Time
		r := h.Intn(100)
		switch {
		case r < 8: // in the future
			t = now.Add(2*time.Hour + time.Duration(h.Intn(400*24))*time.Hour)
		case r < 20 && i > 0 && !distinct: // same instant as an earlier snapshot
			t = l[h.Intn(i)].t
		case r < 23 && extreme:
			t = []time.Time{
				time.Date(1, 1, 1, 0, 0, 1, 0, time.UTC), {}, time.Date(9999, 12, 31, 23, 59, 59, 999999999, time.UTC),
				time.Date(0, 6, 1, 12, 0, 0, 0, time.UTC), time.Date(-1, 3, 1, 0, 0, 0, 0, time.UTC), time.Date(-1, 7, 1, 0, 0, 0, 0, time.UTC),
				time.Date(1970, 1, 1, 0, 0, 0, 0, time.UTC), time.Date(1969, 12, 31, 23, 59, 59, 0, time.UTC),
			}[h.Intn(8)]
		case profile < 10: // a regular backup history with jitter
			t = anchor.Add(-time.Duration(i)*step + time.Duration(h.Intn(7)-3)*step/8)
		case profile < 17: // around calendar boundaries
			t = c22Anchors[h.Intn(len(c22Anchors))].Add(time.Duration(c22Offsets[h.Intn(len(c22Offsets))]) * time.Second)
			if h.Intn(3) == 0 {
				t = t.Add(time.Duration(h.Intn(7200)-3600) * time.Second)
			}
		default:
			t = time.Unix(1546300800+int64(h.Intn(7*365*86400)), int64(h.Intn(2))*int64(h.Intn(1000000000)))
		}
		t = t.In(zone)
		if distinct {
			for seen[t.UnixNano()] {
				t = t.Add(-time.Second)
			}
			seen[t.UnixNano()] = true
		}
		s := &c22Snap{idx: i, t: t}
		if h.Intn(3) == 0 {
			s.tags = h.c24Subset([]string{"a", "b", "c"}, 2, false)
		}
		l = append(l, s)
	}
	return l
}

func (h *H) c22RecList(l []*c22Snap) {
	for _, s := range l {
		y, w := s.t.ISOWeek()
		h.Rec("ps", Itoa(s.idx), I64(s.t.Unix()), Itoa(s.t.Nanosecond()), Itoa(s.t.Year()), Itoa(int(s.t.Month())),
			Itoa(s.t.Day()), Itoa(s.t.Hour()), Itoa(y), Itoa(w))
		h.Rec("pst", append([]string{Itoa(s.idx)}, HexList(s.tags)...)...)
	}
}

func (h *H) c22RecPolicy(p data.ExpirePolicy, latest time.Time, haveLatest bool, x string) {
	h.Rec("pol"+x, Itoa(p.Last), Itoa(p.Hourly), Itoa(p.Daily), Itoa(p.Weekly), Itoa(p.Monthly), Itoa(p.Yearly))
	for i, d := range c22Durs6(p) {
		h.Rec("dur"+x, Itoa(i), Itoa(d.Hours), Itoa(d.Days), Itoa(d.Months), Itoa(d.Years))
		if haveLatest && !d.Zero() {
			// oracle (Go's time package): latest minus the duration, the hours subtracted in
			// steps that a time.Duration can hold
			t := latest.AddDate(-d.Years, -d.Months, -d.Days)
			const maxHours = int(^uint64(0)>>1) / int(time.Hour)
			hours := d.Hours
			for hours > maxHours {
				t = t.Add(-time.Duration(maxHours) * time.Hour)
				hours -= maxHours
			}
			t = t.Add(-time.Duration(hours) * time.Hour)
			h.Rec("win"+x, Itoa(i), I64(t.Unix()), Itoa(t.Nanosecond()))
			if d.Hours > maxHours {
				// only used to NAME a failure: what `time.Hour * time.Duration(-hours)` (the expression
				// of the unfixed source) gives when it overflows
				raw := latest.AddDate(-d.Years, -d.Months, -d.Days).Add(time.Hour * time.Duration(-d.Hours))
				h.Rec("winraw"+x, Itoa(i), I64(raw.Unix()), Itoa(raw.Nanosecond()))
			}
		}
	}
	for _, l := range p.Tags {
		h.Rec("ptag"+x, HexList(l)...)
	}
}

func c22ReasonToks(idx int, matches []string) []string {
	return append([]string{Itoa(idx)}, HexList(matches)...)
}

// c22Apply runs the real ApplyPolicy on a fresh copy of the list and records the outcome.
func (h *H) c22Apply(l []*c22Snap, p data.ExpirePolicy, x string) {
	var list data.Snapshots
	idxOf := map[*data.Snapshot]int{}
	for _, s := range l {
		sn := &data.Snapshot{Time: s.t}
		if len(s.tags) > 0 {
			sn.Tags = append([]string(nil), s.tags...)
		}
		idxOf[sn] = s.idx
		list = append(list, sn)
	}
	var keep, remove data.Snapshots
	var reasons []data.KeepReason
	panicked, msg := Protect(func() { keep, remove, reasons = data.ApplyPolicy(list, p) })
	if panicked {
		h.Rec("res", "panic", HexS(msg))
		return
	}
	var k, r []int
	for _, sn := range keep {
		k = append(k, idxOf[sn])
	}
	for _, sn := range remove {
		r = append(r, idxOf[sn])
	}
	h.Rec("keep"+x, c24IdxList(k)...)
	h.Rec("remove"+x, c24IdxList(r)...)
	for _, kr := range reasons {
		h.Rec("reason"+x, c22ReasonToks(idxOf[kr.Snapshot], kr.Matches)...)
		c := kr.Counters
		h.Rec("ctr"+x, Itoa(idxOf[kr.Snapshot]), Itoa(c.Last), Itoa(c.Hourly), Itoa(c.Daily), Itoa(c.Weekly), Itoa(c.Monthly), Itoa(c.Yearly))
	}
}

func c22Latest(l []*c22Snap) (time.Time, bool) {
	if len(l) == 0 {
		return time.Time{}, false
	}
	var list data.Snapshots
	for _, s := range l {
		list = append(list, &data.Snapshot{Time: s.t})
	}
	return data.VerifC22FindLatest(list), true
}

func c22CountFlag(name string, c int) []string {
	if c == 0 {
		return nil
	}
	if c == -1 {
		return []string{name, "unlimited"}
	}
	return []string{name, Itoa(c)}
}

func streamC22(h *H) {
	ctx := context.Background()
	n := h.N(500, 40000)
	maxN := 12
	if h.Thorough() {
		maxN = 24
	}
	var repo *repository.Repository
	var cli *CLI
	fresh := func() {
		r, be := NewRepo(0, repository.Options{})
		repo = r
		cli = NewCLI(be)
	}
	fresh()
	for i := 0; i < n; i++ {
		kind := []string{"apply", "apply", "apply", "apply", "mono", "mono", "ext", "cli"}[h.Intn(8)]
		now := time.Now()
		switch kind {
		case "apply", "ext", "mono":
			l := h.c22GenList(maxN, now, kind == "ext", false)
			p := h.c22Policy(kind != "apply")
			latest, have := c22Latest(l)
			h.Case(kind)
			h.Rec("now", I64(now.Unix()), Itoa(now.Nanosecond()))
			h.c22RecList(l)
			if have {
				h.Rec("latest", I64(latest.Unix()), Itoa(latest.Nanosecond()))
			}
			h.c22RecPolicy(p, latest, have, "")
			h.c22Apply(l, p, "")
			if kind == "mono" {
				q := h.c22Raise(p, true)
				h.c22RecPolicy(q, latest, have, "2")
				h.c22Apply(l, q, "2")
			}
			h.End()

		case "cli":
			if i%150 == 149 {
				fresh()
			}
			var ids []restic.ID
			_ = repo.List(ctx, restic.SnapshotFile, func(id restic.ID, _ int64) error { ids = append(ids, id); return nil })
			for _, id := range ids {
				if err := cli.Be.Remove(ctx, backendHandle(restic.SnapshotFile, id)); err != nil {
					panic(err)
				}
			}
			l := h.c22GenList(8, now, false, true)
			if len(l) == 0 {
				l = []*c22Snap{{idx: 0, t: c22Anchors[0]}}
			}
			byID := map[string]int{}
			for _, s := range l {
				tree := restic.Hash([]byte(fmt.Sprintf("c22-tree-%d", s.idx)))
				sn := &data.Snapshot{Time: s.t, Hostname: "h", Paths: []string{"/p"}, Tree: &tree}
				if len(s.tags) > 0 {
					sn.Tags = append([]string(nil), s.tags...)
				}
				id, err := data.SaveSnapshot(ctx, repo, sn)
				if err != nil {
					panic(err)
				}
				s.id = id
				byID[id.String()] = s.idx
			}
			p := h.c22Policy(false)
			for p.Empty() {
				p = h.c22Policy(false)
			}
			args := []string{"forget", "--dry-run", "--json", "--group-by", ""}
			args = append(args, c22CountFlag("--keep-last", p.Last)...)
			args = append(args, c22CountFlag("--keep-hourly", p.Hourly)...)
			args = append(args, c22CountFlag("--keep-daily", p.Daily)...)
			args = append(args, c22CountFlag("--keep-weekly", p.Weekly)...)
			args = append(args, c22CountFlag("--keep-monthly", p.Monthly)...)
			args = append(args, c22CountFlag("--keep-yearly", p.Yearly)...)
			for j, d := range c22Durs6(p) {
				if !d.Zero() {
					args = append(args, []string{"--keep-within", "--keep-within-hourly", "--keep-within-daily",
						"--keep-within-weekly", "--keep-within-monthly", "--keep-within-yearly"}[j], d.String())
				}
			}
			for _, tl := range p.Tags {
				args = append(args, "--keep-tag", strings.Join(tl, ","))
			}
			latest, have := c22Latest(l)
			h.Case("cli")
			h.Rec("now", I64(now.Unix()), Itoa(now.Nanosecond()))
			h.c22RecList(l)
			h.Rec("latest", I64(latest.Unix()), Itoa(latest.Nanosecond()))
			h.c22RecPolicy(p, latest, have, "")
			h.Rec("cmd", HexS(strings.Join(args, "\x00")))
			res := cli.Run(args...)
			switch {
			case res.Panic != "":
				h.Rec("res", "panic", HexS(res.Panic))
			case res.Err != nil && strings.Contains(res.Err.Error(), "refusing to delete last snapshot"):
				h.Rec("res", "refuse")
			case res.Err != nil:
				h.Rec("res", "error", HexS(res.Err.Error()))
			default:
				var out []struct {
					Keep    []struct{ ID string } `json:"keep"`
					Remove  []struct{ ID string } `json:"remove"`
					Reasons []struct {
						Snapshot struct{ ID string } `json:"snapshot"`
						Matches  []string            `json:"matches"`
					} `json:"reasons"`
				}
				if err := json.Unmarshal([]byte(res.Stdout), &out); err != nil || len(out) != 1 {
					h.Rec("res", "error", HexS(fmt.Sprintf("json: %v groups=%d", err, len(out))))
					break
				}
				var k, r []int
				for _, s := range out[0].Keep {
					k = append(k, byID[s.ID])
				}
				for _, s := range out[0].Remove {
					r = append(r, byID[s.ID])
				}
				h.Rec("keep", c24IdxList(k)...)
				h.Rec("remove", c24IdxList(r)...)
				for _, kr := range out[0].Reasons {
					h.Rec("reason", c22ReasonToks(byID[kr.Snapshot.ID], kr.Matches)...)
				}
			}
			h.End()
		}
	}
}
