//go:build verif

package main

// C04 — repository contents leak no plaintext and never reuse a nonce. LABELLED AS A TEST: real CLI
// operations on repositories whose source trees carry distinctive markers in contents, file and
// directory names, symlink targets, tags, host names and passwords; every file EVER handed to the
// backend (recorded, including files later removed by forget/prune) is scanned for the markers
// (raw, hex, base64) and the 16-byte nonce of every encrypted object is collected.

import (
	"bytes"
	"encoding/base64"
	"encoding/binary"
	"encoding/hex"
	"encoding/json"
	"fmt"
	"os"
	"path/filepath"

	"github.com/restic/restic/internal/backend/mem"
	"github.com/restic/restic/internal/repository/pack"
)

var _ = verifRegister("C04", streamC04)

type c04Marker struct {
	kind string // content | name | dir | link | tag | host | password | keyinfo
	val  string
}

func (h *H) c04Marker(kind string) c04Marker {
	return c04Marker{kind, fmt.Sprintf("MRK-%s-%x-KRM", kind, h.Bytes(6))}
}

func c04Forms(m string) map[string][]byte {
	return map[string][]byte{
		"raw":    []byte(m),
		"hex":    []byte(hex.EncodeToString([]byte(m))),
		"base64": []byte(base64.StdEncoding.EncodeToString([]byte(m))),
	}
}

func streamC04(h *H) {
	n := h.N(6, 200)
	for i := 0; i < n; i++ {
		h.c04Repo(i*h.NSh + h.Shard)
	}
}

func (h *H) c04Repo(variant int) {
	work := MkTemp("c04-")
	defer os.RemoveAll(work)
	src := filepath.Join(work, "src")
	rec := NewRecBackend(mem.New())
	rec.KeepData = true
	cli := NewCLI(rec)
	version := 2 - variant%2
	comp := []string{"auto", "off", "max"}[(variant/2)%3]
	cli.MustRun("init", "--repository-version", Itoa(version))

	var secret, info []c04Marker
	mk := func(kind string) string {
		m := h.c04Marker(kind)
		secret = append(secret, m)
		return m.val
	}
	must := func(err error) {
		if err != nil {
			panic(err)
		}
	}
	writeTree := func(round int) {
		d := filepath.Join(src, mk("dir"))
		must(os.MkdirAll(d, 0o755))
		// marker at the start, in the middle of random data, and in highly compressible data
		must(os.WriteFile(filepath.Join(d, mk("name")), []byte(mk("content")+string(h.Bytes(300))), 0o644))
		must(os.WriteFile(filepath.Join(d, "mid"), append(append(h.Bytes(500), []byte(mk("content"))...), h.Bytes(400)...), 0o644))
		must(os.WriteFile(filepath.Join(d, "rep"), bytes.Repeat([]byte(mk("content")), 40), 0o644))
		must(os.WriteFile(filepath.Join(src, fmt.Sprintf("plain-%d", round)), h.Bytes(100+h.Intn(2000)), 0o644))
		_ = os.Symlink(mk("link"), filepath.Join(d, "l"))
	}
	backup := func(round int) {
		writeTree(round)
		args := []string{"backup", src, "--host", mk("host"), "--tag", mk("tag")}
		if version == 2 {
			args = append(args, "--compression", comp)
		}
		cli.MustRun(args...)
	}
	backup(0)
	cli.MustRun("tag", "--add", mk("tag"))
	backup(1)
	// second key: the password is secret, host and user are informational fields of the key file
	pwFile := filepath.Join(work, "pw")
	pw := mk("password")
	must(os.WriteFile(pwFile, []byte(pw), 0o600))
	kh, ku := h.c04Marker("keyinfo"), h.c04Marker("keyinfo")
	info = append(info, kh, ku)
	cli.MustRun("key", "add", "--new-password-file", pwFile, "--host", kh.val, "--user", ku.val)
	secret = append(secret, c04Marker{"password", cli.Password})
	if variant%3 != 0 {
		cli.MustRun("forget", "--keep-last", "1", "--prune")
	}
	if r := cli.Run("check", "--read-data"); r.Err != nil {
		panic("harness: repository not healthy after the operations: " + r.Stderr)
	}

	h.Case("repo")
	h.Rec("cfg", "v"+Itoa(version), "comp-"+comp, B(variant%3 != 0))
	h.Rec("markers", Itoa(len(secret)), Itoa(len(info)))
	repo := cli.OpenRepo()
	leaks, infoFound := 0, 0
	nobj := 0
	for _, ev := range rec.Events {
		if ev.Op != "save" || ev.Err {
			continue
		}
		b := ev.Data
		// --- markers
		for _, m := range secret {
			for form, pat := range c04Forms(m.val) {
				if bytes.Contains(b, pat) {
					leaks++
					h.Rec("leak", m.kind, form, ev.Type, Itoa(len(b)))
				}
			}
		}
		for _, m := range info {
			if bytes.Contains(b, []byte(m.val)) {
				if ev.Type == "key" {
					infoFound++
				} else {
					leaks++
					h.Rec("leak", m.kind, "raw", ev.Type, Itoa(len(b)))
				}
			}
		}
		// --- the model's operation(s) behind this Save and the nonces of its encrypted objects
		switch ev.Type {
		case "data":
			blobs, _, err := pack.List(repo.Key(), bytes.NewReader(b), int64(len(b)))
			if err != nil {
				panic(err)
			}
			h.Rec("save", "pack", Itoa(len(blobs)))
			for _, bl := range blobs {
				h.Rec("n", Hex(b[bl.Offset:bl.Offset+16]), "blob")
				nobj++
			}
			hl := int(binary.LittleEndian.Uint32(b[len(b)-4:]))
			hs := len(b) - 4 - hl
			h.Rec("n", Hex(b[hs:hs+16]), "header")
			nobj++
		case "key":
			var k struct {
				Data []byte `json:"data"`
			}
			must(json.Unmarshal(b, &k))
			h.Rec("save", "key", "1")
			h.Rec("n", Hex(k.Data[:16]), "key")
			nobj++
		case "lock":
			// lock files carry host name / user name / pid of the *running process*, none of the
			// generated markers; they are sealed like every unpacked file
			h.Rec("save", "unpacked", ev.Type)
			h.Rec("n", Hex(b[:16]), ev.Type)
			nobj++
		default: // index, snapshot, config
			h.Rec("save", "unpacked", ev.Type)
			h.Rec("n", Hex(b[:16]), ev.Type)
			nobj++
		}
	}
	h.Rec("found", Itoa(leaks), Itoa(infoFound), Itoa(nobj))
	h.End()
}
