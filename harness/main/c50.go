//go:build verif

package main

// C50 — repository passwords embedded in locations are never displayed.
//
// Substreams:
//   fn   location.StripPassword (full registry of the real binary) / the REST factory's
//        StripPassword on generated locations; REST cases come as pairs that differ only in the
//        password. The url.Parse structure of the prepared URL is sent as ORACLE record.
//   cli  the real root command with `-r <location>` against an in-process REST server (working,
//        refusing, missing repository, closed port): everything printed is searched for the secret.

import (
	"bytes"
	"context"
	"encoding/json"
	"fmt"
	"io"
	"net"
	"net/http"
	"net/http/httptest"
	"net/url"
	"os"
	"sort"
	"strings"
	"sync"
	"time"

	"github.com/restic/restic/internal/backend/all"
	"github.com/restic/restic/internal/backend/location"
	"github.com/restic/restic/internal/backend/rest"
	"github.com/restic/restic/internal/global"
	"github.com/restic/restic/internal/ui/termstatus"
)

var _ = verifRegister("C50", streamC50)

const c50Alnum = "abcdefghijklmnopqrstuvwxyzABCDEFGHIJKLMNOPQRSTUVWXYZ0123456789"

func c50Token(h *H) string {
	b := make([]byte, 8)
	for i := range b {
		b[i] = c50Alnum[h.Intn(len(c50Alnum))]
	}
	return "Zq" + string(b)
}

// c50Oracle writes the url.Parse structure of the prepared URL of a "rest:" location.
func c50Oracle(h *H, sfx, s string) {
	if !strings.HasPrefix(s, "rest:") {
		h.Rec("prep"+sfx, "none")
		return
	}
	prep := s[5:]
	if !strings.HasSuffix(prep, "/") {
		prep += "/"
	}
	h.Rec("prep"+sfx, "some", HexS(prep))
	u, err := url.Parse(prep)
	if err != nil {
		h.Rec("parse"+sfx, "err")
		return
	}
	us := u.String()
	if u.User == nil {
		h.Rec("parse"+sfx, "ok", HexS(us), "0", "-", "-", "0", "-", "-", "1")
		return
	}
	ui := u.User.String()
	username := u.User.Username()
	_, set := u.User.Password()
	escUser := url.User(username).String()
	i := strings.Index(us, "//")
	ok := i >= 0 && strings.HasPrefix(us[min(i+2, len(us)):], ui+"@") && strings.HasPrefix(ui, escUser)
	pre, post, escPass := "", "", ""
	if ok {
		pre = us[:i+2]
		post = us[i+2+len(ui)+1:]
		if set {
			ok = strings.HasPrefix(ui[len(escUser):], ":")
			if ok {
				escPass = ui[len(escUser)+1:]
			}
		} else {
			ok = ui == escUser
		}
	}
	h.Rec("parse"+sfx, "ok", HexS(pre), "1", HexS(username), HexS(escUser), B(set), HexS(escPass), HexS(post), B(ok))
}

// c50Accepted reports whether restic accepts the location, and for REST locations the password
// restic will use.
func c50Accepted(reg *location.Registry, s string) (accepted bool, pw string, pwSet bool) {
	var loc location.Location
	var err error
	if p, _ := Protect(func() { loc, err = location.Parse(reg, s) }); p || err != nil {
		return false, "", false
	}
	if cfg, ok := loc.Config.(*rest.Config); ok && cfg.URL != nil && cfg.URL.User != nil {
		pw, pwSet = cfg.URL.User.Password()
	}
	return true, pw, pwSet
}

func c50Observe(h *H, sfx string, reg *location.Registry, via, s string, tokens []string) {
	h.Rec("loc"+sfx, HexS(s))
	c50Oracle(h, sfx, s)
	acc, pw, pwSet := c50Accepted(reg, s)
	h.Rec("accepted"+sfx, B(acc), B(pwSet))
	// a token is a secret only when it is part of what restic uses as the password
	var secrets []string
	for _, t := range tokens {
		if acc && pwSet && strings.Contains(pw, t) {
			secrets = append(secrets, HexS(t))
		}
	}
	if acc && pwSet && len(pw) >= 6 {
		// the whole password too, decoded and as typed (escaped by net/url)
		secrets = append(secrets, HexS(pw))
	}
	h.Rec("secret"+sfx, secrets...)
	var out string
	panicked, msg := Protect(func() {
		if via == "rest" {
			out = rest.NewFactory().StripPassword(s)
		} else {
			out = location.StripPassword(reg, s)
		}
	})
	if panicked {
		h.Rec("out"+sfx, "panic", HexS(msg))
	} else {
		h.Rec("out"+sfx, "ok", HexS(out))
	}
}

type c50Gen struct{ h *H }

func (g c50Gen) pick(l ...string) string { return l[g.h.Intn(len(l))] }

func (g c50Gen) user() string {
	switch g.h.Intn(16) {
	case 0, 4:
		return ""
	case 1, 5:
		return g.pick("us%40er", "a%3Ab", "j%c3%b6rg", "u%2Fx", "%zz", "%41", "a%20b")
	case 2, 6:
		return g.pick("user.name", "u-s_e~r", "u+s", "u;v=1", "u$&,")
	case 3:
		return g.pick("a@b", "jörg", "u r", "u\"q", "u<>")
	default:
		return g.pick("user", "admin", "backup", "u", "restic")
	}
}

// password built around a distinctive token; class is returned as label
func (g c50Gen) password(tok string) (string, string) {
	r := g.h.Intn(24)
	if r >= 12 { // two thirds: classes net/url accepts in the user info
		r = []int{0, 1, 1, 2, 2, 3, 3, 8, 9, 10, 1, 11}[r-12]
	}
	switch r {
	case 0:
		return tok, "plain"
	case 1:
		return g.pick("p%40", "%3A", "%2F%2f", "%25", "%c3%a4", "%20") + tok + g.pick("", "%40", "%3a%2F"), "escaped"
	case 2:
		return g.pick("@", "p@ss", "@@", "x@y.z") + tok + g.pick("", "@", "@h"), "raw-at"
	case 3:
		return g.pick(":", "a:b", "::") + tok + g.pick("", ":", ":x"), "raw-colon"
	case 4:
		return g.pick("/", "a/b", "1/") + tok + g.pick("", "/x"), "raw-slash"
	case 5:
		return g.pick("?", "#", "a?b=", "1#") + tok, "raw-query"
	case 6:
		return g.pick("%", "%zz", "%4", " ", "\t", "\x00", "\x7f") + tok, "malformed"
	case 7:
		return g.pick("ä", "пароль", "\xff\xfe", "密") + tok, "nonascii"
	case 8:
		return tok + strings.Repeat(g.pick("x", "%40", "ab"), 1+g.h.Intn(200)), "long"
	case 9:
		return g.pick("!$&'()*+,;=", "-._~", "!$&'()*+,;=", "-._~", "[]", "{}|\\^`", "<>\"") + tok, "punct"
	case 10:
		return g.pick("***", ":***@", "***@") + tok, "stars"
	default:
		return tok + g.pick("1", "pw", "S3cret!", ""), "plain"
	}
}

func (g c50Gen) host() string {
	h := g.pick("localhost", "127.0.0.1", "example.com", "[::1]", "host.name", "h", "HOST", "xn--bcher-kva.example", "[fe80::1%25eth0]")
	if g.h.Intn(10) == 0 {
		h = g.pick("", "a@b", "h h", "[::1", "%zz", "a:b:c")
	}
	switch g.h.Intn(6) {
	case 0:
		h += ":" + g.pick("8000", "1", "65535", "", "8000", "443", "8443", "80", "port", "99999999")
	case 1, 2:
		h += ":8000"
	}
	return h
}

func (g c50Gen) tail() string {
	p := g.pick("", "/", "/repo", "/a/b/", "/path/with@at/", "/x:y/", "/%2F/", "/ü", "//", "/a b", "/r?x=1", "/r?tok=@1", "/r#frag", "?q", "#f")
	if g.h.Intn(15) == 0 {
		p = g.pick("/%zz", "/%", "/\x7f", "/\x00")
	}
	return p
}

// restTemplate returns a function that builds the location for a given userinfo part
func (g c50Gen) restTemplate() (func(userinfo string) string, string) {
	scheme := g.pick("http", "http", "https", "https", "http+unix", "HTTP", "h2c", "http", "https", "")
	sep := "://"
	lbl := "authority"
	switch g.h.Intn(12) {
	case 0:
		sep = ":" // opaque form
		lbl = "opaque"
	case 1:
		sep = ":/"
		lbl = "single-slash"
	case 2:
		if scheme == "" {
			sep = "//"
		}
	}
	if scheme == "" && sep == "://" {
		lbl = "empty-scheme"
	}
	host, tail := g.host(), g.tail()
	return func(userinfo string) string {
		at := "@"
		if userinfo == "\x00none" {
			userinfo, at = "", ""
		}
		return "rest:" + scheme + sep + userinfo + at + host + tail
	}, lbl
}

func c50OtherLocations(g c50Gen, tok string) []string {
	return []string{
		"s3:https://AKIA" + tok + ":" + tok + "@s3.amazonaws.com/bucket",
		"s3:s3.amazonaws.com/bucket/prefix", "s3:http://localhost:9000/b", "s3:",
		"sftp://user:" + tok + "@host/dir", "sftp://user@host:2222//abs", "sftp:user@host:/dir", "sftp:host:dir", "sftp:",
		"b2:bucket:path", "b2:bucket", "b2:",
		"local:/tmp/repo", "local:rel", "/tmp/repo", "rel/path", "../up", "C:\\repo", "c:/repo", "..\\x", "\\\\share\\x",
		"rclone:remote:path", "rclone:" + tok + ":", "rclone:",
		"swift:container:/path", "swift:c:", "azure:container:/", "azure:c:/p", "gs:bucket:/", "gs:b:/p/",
		"mem:x", "unknown:foo", "http://user:" + tok + "@host/", "https://h/",
		"", ":", "::", "a:b", "foo", tok,
	}
}

func c50Malformed(g c50Gen, tok string) []string {
	return []string{
		"rest", "res", "re", "r", "", "rest:", "rest:/", "rest://", "rest:x", "rest::", "rest:::" + tok,
		"REST:http://u:" + tok + "@h/", "Rest:http://h/", "rest :http://h/", " rest:http://h/", "restx:http://u:" + tok + "@h/",
		"rest\x00:http://h", "rest:\x00", "rest:%", "rest:%zz", "rest:http://%zz/", "rest:http://[::1", "rest:http://[::1]:namedport/",
		"rest:http://u:" + tok + "@[::1/", "rest:http://u:" + tok + " @h/", "rest:http://u :" + tok + "@h/", "rest:http://u:" + tok + "@h:x/",
		"rest:http://u:" + tok + "@h/\x7f", "rest:ht tp://u:" + tok + "@h/", "rest:1http://u:" + tok + "@h/", "rest::http://u:" + tok + "@h/",
		"rest:http://" + tok, "rest:" + tok + "@h", "rest:u:" + tok + "@h", "rest://u:" + tok + "@h", "rest:///u:" + tok + "@h",
		"rest:http:u:" + tok + "@h/", "rest:http:/u:" + tok + "@h/", "rest:http:///u:" + tok + "@h/",
		"rest:http://u:" + tok + "@", "rest:http://:" + tok + "@", "rest:http://:@", "rest:http://@", "rest:http://:" + tok + "@h",
		"rest:http://u:" + tok + "@h/?u:" + tok + "@h", "rest:http://h/u:" + tok + "@h",
	}
}

func streamC50(h *H) {
	g := c50Gen{h}
	reg := all.Backends()
	kinds := location.VerifC50Registry(reg)
	var regToks []string
	var names []string
	for n := range kinds {
		names = append(names, n)
	}
	sort.Strings(names)
	for _, n := range names {
		k := kinds[n]
		if k == "custom" && n == "rest" {
			k = "rest"
		}
		regToks = append(regToks, HexS(n)+":"+k)
	}
	emit := func(kind, via, a, b string, toksA, toksB []string, lbl string) {
		h.Case("fn")
		h.Rec("reg", regToks...)
		h.Rec("via", via)
		h.Rec("kind", kind, lbl)
		c50Observe(h, "", reg, via, a, toksA)
		if b != "" {
			c50Observe(h, "2", reg, via, b, toksB)
		}
		h.End()
	}

	n := h.N(2000, 200000)
	for i := 0; i < n; i++ {
		t1, t2 := c50Token(h), c50Token(h)
		via := "loc"
		if h.Intn(5) == 0 {
			via = "rest"
		}
		switch r := h.Intn(20); {
		case r < 12: // REST URL with password, as a pair differing only in the password
			tmpl, tl := g.restTemplate()
			user := g.user()
			p1, cls := g.password(t1)
			p2 := strings.Replace(p1, t1, t2, 1)
			if h.Intn(6) == 0 { // sometimes a password of another class / length
				p2, _ = g.password(t2)
				cls += "+mixed"
			}
			if h.Intn(25) == 0 {
				p1, p2, cls = "", t2, "empty"
			}
			a, b := tmpl(user+":"+p1), tmpl(user+":"+p2)
			if strings.Contains(tmpl("\x00none"), t1) || strings.Contains(tmpl("\x00none"), t2) {
				continue
			}
			emit("rest-pw", via, a, b, []string{t1}, []string{t2}, tl+","+cls)
		case r < 14: // REST URL without password / without user info
			tmpl, tl := g.restTemplate()
			ui := "\x00none"
			if h.Bool() {
				ui = g.user()
			}
			emit("rest-nopw", via, tmpl(ui), "", nil, nil, tl)
		case r < 17:
			l := c50OtherLocations(g, t1)
			emit("other", "loc", l[h.Intn(len(l))], "", []string{t1}, nil, "-")
		default:
			l := c50Malformed(g, t1)
			s := l[h.Intn(len(l))]
			if via == "rest" && !(strings.HasPrefix(s, "rest:") || len(s) < 5) {
				via = "loc"
			}
			emit("malformed", via, s, "", []string{t1}, nil, "-")
		}
	}

	c50CLI(h, g)
}

// --- a minimal in-memory REST server (restic REST protocol v2) -------------------------------

type c50Server struct {
	mu    sync.Mutex
	files map[string][]byte
	mode  string // ok | 403 | 500 | 404
}

func (s *c50Server) ServeHTTP(w http.ResponseWriter, r *http.Request) {
	s.mu.Lock()
	defer s.mu.Unlock()
	switch s.mode {
	case "403":
		http.Error(w, "forbidden", http.StatusForbidden)
		return
	case "500":
		http.Error(w, "boom", http.StatusInternalServerError)
		return
	case "404":
		http.Error(w, "not found", http.StatusNotFound)
		return
	}
	p := r.URL.Path
	if i := strings.Index(p[1:], "/"); i >= 0 { // strip the repository prefix "/repo"
		p = p[1+i:]
	} else {
		p = "/"
	}
	switch {
	case r.Method == http.MethodPost && r.URL.Query().Get("create") == "true":
		w.WriteHeader(200)
	case strings.HasSuffix(p, "/") && r.Method == http.MethodGet:
		type ent struct {
			Name string `json:"name"`
			Size int    `json:"size"`
		}
		l := []ent{}
		for k, v := range s.files {
			if strings.HasPrefix(k, p) && !strings.Contains(k[len(p):], "/") {
				l = append(l, ent{k[len(p):], len(v)})
			}
		}
		w.Header().Set("Content-Type", rest.ContentTypeV2)
		_ = json.NewEncoder(w).Encode(l)
	case r.Method == http.MethodPost:
		b, _ := io.ReadAll(r.Body)
		s.files[p] = b
		w.WriteHeader(200)
	case r.Method == http.MethodDelete:
		delete(s.files, p)
		w.WriteHeader(200)
	case r.Method == http.MethodHead || r.Method == http.MethodGet:
		b, ok := s.files[p]
		if !ok {
			http.Error(w, "not found", http.StatusNotFound)
			return
		}
		http.ServeContent(w, r, "", time.Time{}, bytes.NewReader(b))
	default:
		http.Error(w, "bad", http.StatusBadRequest)
	}
}

// c50RunCLI runs the real root command with an arbitrary -r and the real backend registry.
func c50RunCLI(repo string, args ...string) (res CmdResult) {
	cliMu.Lock()
	os.Setenv("RESTIC_PASSWORD", "geheim")
	gopts := global.Options{Backends: all.Backends()}
	var stdout, stderr bytes.Buffer
	term, cancelTerm := termstatus.Setup(io.NopCloser(bytes.NewReader(nil)), &stdout, &stderr, false)
	gopts.Term = term
	ctx, cancel := context.WithCancel(context.Background())
	root := newRootCommand(&gopts)
	root.SetArgs(append([]string{"-r", repo, "--no-cache"}, args...))
	root.SetOut(&stdout)
	root.SetErr(&stderr)
	cliMu.Unlock()
	panicked, msg := Protect(func() {
		err := root.ExecuteContext(ctx)
		if err == ErrOK {
			err = nil
		}
		res.Err = err
	})
	cancel()
	cancelTerm()
	res.Stdout, res.Stderr = stdout.String(), stderr.String()
	if panicked {
		res.Panic = msg
		res.Exit = 2
		return
	}
	res.Exit = exitCodeOf(res.Err)
	return
}

func c50CLI(h *H, g c50Gen) {
	srv := &c50Server{files: map[string][]byte{}, mode: "ok"}
	ts := httptest.NewServer(srv)
	defer ts.Close()
	addr := strings.TrimPrefix(ts.URL, "http://")
	// a port nothing listens on
	l, _ := net.Listen("tcp", "127.0.0.1:0")
	dead := l.Addr().String()
	_ = l.Close()

	reg := all.Backends()
	n := h.N(40, 1500)
	for i := 0; i < n; i++ {
		tok := c50Token(h)
		user := g.pick("user", "u%40x", "", "backup")
		pw, cls := g.password(tok)
		if h.Intn(3) > 0 {
			pw, cls = g.pick("", "p%40", "%3A")+tok, "valid"
		}
		mode := g.pick("ok", "ok", "403", "500", "404", "down")
		host := addr
		if mode == "down" {
			host = dead
		} else {
			srv.mu.Lock()
			srv.mode = mode
			srv.files = map[string][]byte{}
			srv.mu.Unlock()
		}
		repo := fmt.Sprintf("rest:http://%s:%s@%s/repo%d/", user, pw, host, i)
		if h.Intn(12) == 0 {
			repo = g.pick("rest", "rest:", "rest:x", "res", "rest:http://u:"+tok+"@"+dead)
			cls = "odd"
		}
		cmd := g.pick("init", "init", "init-json", "snapshots", "snapshots-json", "cat-config", "init-then-snapshots", "check")
		var text strings.Builder
		exit, panicMsg := 0, ""
		run := func(args ...string) {
			r := c50RunCLI(repo, args...)
			text.WriteString(r.Stdout)
			text.WriteString(r.Stderr)
			if r.Err != nil {
				text.WriteString(r.Err.Error())
			}
			exit = r.Exit
			if r.Panic != "" {
				panicMsg = r.Panic
			}
		}
		switch cmd {
		case "init":
			run("init")
		case "init-json":
			run("init", "--json")
		case "snapshots":
			run("snapshots")
		case "snapshots-json":
			run("snapshots", "--json")
		case "cat-config":
			run("cat", "config")
		case "check":
			run("check")
		case "init-then-snapshots":
			run("init")
			run("snapshots")
			run("init") // second init: repository exists
		}
		h.Case("cli")
		h.Rec("reg", "-")
		h.Rec("kind", "cli", cmd+","+mode+","+cls)
		h.Rec("loc", HexS(repo))
		c50Oracle(h, "", repo)
		acc, pwv, pwSet := c50Accepted(reg, repo)
		h.Rec("accepted", B(acc), B(pwSet))
		var secrets []string
		if acc && pwSet && strings.Contains(pwv, tok) {
			secrets = append(secrets, HexS(tok))
		}
		h.Rec("secret", secrets...)
		if panicMsg != "" {
			h.Rec("cliout", "panic", HexS(panicMsg))
		} else {
			h.Rec("cliout", "ok", Itoa(exit), HexS(text.String()))
		}
		h.End()
	}
}
