//go:build verif

package main

// C16 — identical content is stored once per repository.
//
// Substreams:
//   dedup    whole upload sessions on a real repository with heavy duplication: few distinct
//            contents, many SaveBlobAsync submissions from several goroutines (or plain SaveBlob
//            calls one after the other), some contents already in the (loaded) index, a few
//            storeDuplicate calls; afterwards packs and index are inspected (c44_session.go).
//   backup2  the real CLI: `backup` of a generated tree with many duplicate files and
//            directories, then a second `backup` of the unchanged tree (plain, --force, or of an
//            identical copy at another path); data blobs and index entries per blob are counted.

import (
	"bytes"
	"context"
	"encoding/binary"
	"fmt"
	"os"
	"path/filepath"
	"runtime"
	"sort"
	"sync"
	"sync/atomic"

	"github.com/restic/restic/internal/backend/mem"
	"github.com/restic/restic/internal/repository"
	"github.com/restic/restic/internal/repository/pack"
	"github.com/restic/restic/internal/restic"
)

var _ = verifRegister("C16", streamC16)

type c16Counts struct {
	data, tree int            // distinct blobs
	entries    map[string]int // index entries per data blob (short id)
	maxEntries int
}

func c16Count(cli *CLI) c16Counts {
	repo := cli.OpenRepo()
	ctx := context.Background()
	if err := repo.LoadIndex(ctx, restic.NoopTerminalCounterFactory); err != nil {
		panic(err)
	}
	res := c16Counts{entries: map[string]int{}}
	trees := map[restic.ID]bool{}
	err := repo.ListBlobs(ctx, func(pb restic.PackBlob) {
		bh := pb.Handle()
		if bh.Type == restic.DataBlob {
			res.entries[bh.ID.String()[:12]]++
		} else {
			trees[bh.ID] = true
		}
	})
	if err != nil {
		panic(err)
	}
	res.data, res.tree = len(res.entries), len(trees)
	for _, n := range res.entries {
		if n > res.maxEntries {
			res.maxEntries = n
		}
	}
	return res
}

// c16Tree writes a tree with many duplicate files / directories below root and returns the number
// of distinct non-empty file contents (all files are far smaller than the minimum chunk size, so
// one file = one chunk).
func c16Tree(h *H, root string) (files int, distinct int) {
	ncont := 1 + h.Intn(6)
	conts := make([][]byte, ncont)
	seen := map[string]bool{}
	for i := range conts {
		l := h.Intn(3000)
		if h.Intn(6) == 0 {
			l = 0
		}
		conts[i] = h.Bytes(l)
		if l > 0 {
			seen[string(conts[i])] = false
		}
	}
	var mk func(dir string, depth int)
	mk = func(dir string, depth int) {
		if err := os.MkdirAll(dir, 0o755); err != nil {
			panic(err)
		}
		nf := h.Intn(6)
		for i := 0; i < nf; i++ {
			c := conts[h.Intn(ncont)]
			if err := os.WriteFile(filepath.Join(dir, fmt.Sprintf("f%d", i)), c, 0o644); err != nil {
				panic(err)
			}
			files++
			if len(c) > 0 {
				seen[string(c)] = true
			}
		}
		if depth < 3 {
			nd := h.Intn(3)
			for i := 0; i < nd; i++ {
				mk(filepath.Join(dir, fmt.Sprintf("d%d", i)), depth+1)
			}
		}
	}
	mk(root, 0)
	// a duplicated subdirectory: same names, same contents
	if h.Bool() {
		src := filepath.Join(root, "dupA")
		mk(src, 2)
		c16CopyTree(src, filepath.Join(root, "dupB"))
	}
	for _, used := range seen {
		if used {
			distinct++
		}
	}
	return
}

func c16CopyTree(src, dst string) {
	err := filepath.Walk(src, func(p string, fi os.FileInfo, err error) error {
		if err != nil {
			return err
		}
		rel, _ := filepath.Rel(src, p)
		t := filepath.Join(dst, rel)
		if fi.IsDir() {
			return os.MkdirAll(t, 0o755)
		}
		b, err := os.ReadFile(p)
		if err != nil {
			return err
		}
		if err := os.WriteFile(t, b, 0o644); err != nil {
			return err
		}
		return os.Chtimes(t, fi.ModTime(), fi.ModTime())
	})
	if err != nil {
		panic(err)
	}
}

// c16Burst: in ONE upload session, `rounds` rounds of `savers` goroutines released together by a
// spinning barrier, all calling SaveBlob with the same fresh blob. Exactly one call per round may
// be told known=false; afterwards every blob must occur once in the uploaded packs and have one
// index entry. Only anomalies are listed (the normal outcome is summarised by the counters).
func c16Burst(h *H, rounds, savers int) {
	ctx := context.Background()
	mb := mem.New()
	rec := NewRecBackend(mb)
	rec.KeepData = true
	repo, _ := repository.TestRepositoryWithBackend(TB, rec, 0, repository.Options{Compression: repository.CompressionOff})
	salt := h.Rng.Uint64()
	ids := make([]restic.ID, rounds)
	claims := make([]int32, rounds)
	var sessErr error
	panicked, pmsg := Protect(func() {
		sessErr = repo.WithBlobUploader(ctx, func(ctx context.Context, up restic.BlobSaverWithAsync) error {
			for r := 0; r < rounds; r++ {
				data := make([]byte, 48)
				binary.LittleEndian.PutUint64(data, uint64(r))
				binary.LittleEndian.PutUint64(data[8:], salt)
				ids[r] = restic.Hash(data)
				var ready, start atomic.Int32
				var accepted atomic.Int32
				var firstErr atomic.Value
				var wg sync.WaitGroup
				for s := 0; s < savers; s++ {
					wg.Add(1)
					go func() {
						defer wg.Done()
						ready.Add(1)
						for start.Load() == 0 {
							runtime.Gosched()
						}
						_, known, _, err := up.SaveBlob(ctx, restic.DataBlob, data, restic.ID{}, false)
						if err != nil {
							firstErr.CompareAndSwap(nil, err)
							return
						}
						if !known {
							accepted.Add(1)
						}
					}()
				}
				for int(ready.Load()) != savers {
					runtime.Gosched()
				}
				start.Store(1)
				wg.Wait()
				if err, ok := firstErr.Load().(error); ok && err != nil {
					return err
				}
				claims[r] = accepted.Load()
			}
			return nil
		})
	})
	h.Case("burst")
	h.Rec("cfg", Itoa(rounds), Itoa(savers))
	if panicked {
		h.Rec("sess", "panic", HexS(pmsg))
		h.End()
		return
	}
	if sessErr != nil {
		h.Rec("sess", "1", HexS(sessErr.Error()))
		h.End()
		return
	}
	h.Rec("sess", "0")
	stored := map[restic.ID]int{}
	npacks := 0
	rec.mu.Lock()
	events := append([]Event(nil), rec.Events...)
	rec.mu.Unlock()
	unreadable := 0
	for _, ev := range events {
		if ev.Op != "save" || ev.Err || ev.Type != "data" {
			continue
		}
		npacks++
		blobs, _, err := pack.List(repo.Key(), bytes.NewReader(ev.Data), int64(len(ev.Data)))
		if err != nil {
			unreadable++
			continue
		}
		for _, b := range blobs {
			stored[b.ID]++
		}
	}
	okRounds := 0
	for r := 0; r < rounds; r++ {
		ent := len(repo.LookupBlob(restic.BlobHandle{Type: restic.DataBlob, ID: ids[r]}))
		if claims[r] == 1 && stored[ids[r]] == 1 && ent == 1 {
			okRounds++
			continue
		}
		h.Rec("anom", Itoa(r), Itoa(int(claims[r])), Itoa(stored[ids[r]]), Itoa(ent))
	}
	h.Rec("sum", Itoa(okRounds), Itoa(npacks), Itoa(unreadable))
	h.End()
}

func streamC16(h *H) {
	// simultaneous submissions of the same new blob (many rounds; the racy window is tiny)
	for i, nb := 0, h.N(4, 36); i < nb; i++ {
		c16Burst(h, 15000, 4+h.Intn(5))
	}
	n := h.N(100, 3000)
	for i := 0; i < n; i++ {
		c44RepoCase(h, "dedup", true)
	}
	n = h.N(20, 300)
	for i := 0; i < n; i++ {
		base := MkTemp("c16-")
		src := filepath.Join(base, "src")
		files, distinct := c16Tree(h, src)
		cli := NewCLI(mem.New())
		variant := []string{"plain", "force", "copy", "no-parent"}[h.Intn(4)]
		h.Case("backup2")
		h.Rec("cfg", variant, Itoa(files), Itoa(distinct))
		r0 := cli.Run("init")
		r1 := cli.Run("backup", src)
		c1 := c16Count(cli)
		var r2 CmdResult
		switch variant {
		case "plain":
			r2 = cli.Run("backup", src)
		case "force":
			r2 = cli.Run("backup", "--force", src)
		case "no-parent": // different host: no parent snapshot is found, every file is read again
			r2 = cli.Run("backup", "--host", "other", src)
		case "copy":
			dst := filepath.Join(base, "copy")
			c16CopyTree(src, dst)
			r2 = cli.Run("backup", dst)
		}
		c2 := c16Count(cli)
		h.Rec("run1", Itoa(r0.Exit), Itoa(r1.Exit), Itoa(c1.data), Itoa(c1.tree), Itoa(c1.maxEntries))
		h.Rec("run2", Itoa(r2.Exit), Itoa(c2.data), Itoa(c2.tree), Itoa(c2.maxEntries))
		// per blob: entries after the second run, and whether the blob existed after the first
		var ids []string
		for id := range c2.entries {
			ids = append(ids, id)
		}
		sort.Strings(ids)
		for _, id := range ids {
			_, old := c1.entries[id]
			h.Rec("blob", id, Itoa(c2.entries[id]), B(old))
		}
		h.End()
		os.RemoveAll(base)
	}
}
