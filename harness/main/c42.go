//go:build verif

package main

// C42 — traversals visit exactly the reachable trees and blobs.
//
// Streams (all sub-streams of "C42"):
//   fub    real data.FindUsedBlobs / StreamTrees / LoadTree on generated tree DAGs served by an
//          in-memory restic.Loader that counts loads, delays them and reports some trees as
//          "huge" (> 50 MiB, the hugeTreeChan path); a second call re-uses the blob set
//          (as `restic stats` does).
//   check  real repositories (in-memory backend) holding the generated tree blobs, real
//          `restic check` through the root command; every case runs in a child process because
//          a panic inside a StreamTrees worker goroutine cannot be recovered in-process.
//          Healthy repositories are also counted with `restic stats --mode raw-data`.
//
// Records:
//   root <phase 1|2> <id>                roots of the FindUsedBlobs call(s) / snapshot trees
//   tree <id> ok|bad|init <huge 0/1>     a tree blob present in the store (absent = load error);
//                                        bad = decoding fails after the listed nodes,
//                                        init = the iterator cannot be initialised
//   node <tree> <kind> <subtree|nil> <contentNil> <nameEmpty> <content id>*
//   idx <id>*                            data blobs present in the index (check only)
//   sched <n>*                           numbers that drive the model's scheduler
//   res ok|err|panic                     result of the traversal
//   trees <id>* / data <id>*             content of the blob set afterwards (sorted)
//   loads <id>*                          one entry per LoadBlob call for a tree
//   prog <count> <roots>                 progress counter after the call
//   reported <id8>*                      trees `check` printed an error for (check only)
//   exit <code>                          exit code of `check`
//   stats <blobcount>|-                  total_blob_count of `stats --mode raw-data` (healthy only)

import (
	"bytes"
	"context"
	"encoding/json"
	"fmt"
	"math/rand"
	"os"
	"os/exec"
	"regexp"
	"sort"
	"strings"
	"sync"
	"time"

	"github.com/restic/restic/internal/data"
	"github.com/restic/restic/internal/repository"
	"github.com/restic/restic/internal/restic"
)

var _ = verifRegister("C42", streamC42)
var _ = verifRegister("C42child", streamC42Child)

type c42Node struct {
	kind       string // file dir other invalid
	subtree    *restic.ID
	content    restic.IDs
	contentNil bool
	nameEmpty  bool
}

type c42Tree struct {
	id    restic.ID
	buf   []byte
	state string // ok bad init
	nodes []c42Node
	huge  bool
	delay time.Duration // > 0: explicit load delay, < 0: no delay at all, 0: hash-derived small delay
}

type c42Case struct {
	trees  []*c42Tree
	byID   map[restic.ID]*c42Tree
	roots1 []restic.ID
	roots2 []restic.ID
	index  []restic.ID // data blobs stored in the repository (check stream)
	blobs  map[restic.ID][]byte
	label  string
}

func c42id(id restic.ID) string { return id.String()[:16] }

type c42Params struct {
	forCheck bool
	maxTrees int
}

// c42Gen builds a DAG bottom-up: tree i only references trees j < i (or ids that are not stored,
// or the null id), so every id is the hash of the stored bytes like in a real repository.
func c42Gen(rng *rand.Rand, p c42Params) *c42Case {
	c := &c42Case{byID: map[restic.ID]*c42Tree{}, blobs: map[restic.ID][]byte{}}
	// pool of data blob ids (small, so files share blobs)
	npool := 1 + rng.Intn(12)
	pool := make([]restic.ID, npool)
	for i := range pool {
		content := []byte(fmt.Sprintf("data-%d-%d", rng.Int63(), i))
		pool[i] = restic.Hash(content)
		c.blobs[pool[i]] = content
	}
	if p.forCheck {
		// most of the pool is in the index
		for _, id := range pool {
			if rng.Intn(10) != 0 {
				c.index = append(c.index, id)
			}
		}
	}
	// damage profile of this case
	profile := rng.Intn(10) // 0..5 healthy, 6 missing, 7 bad, 8 init, 9 mixed
	pMissing, pBad, pInit, pOdd := 0, 0, 0, 0
	switch profile {
	case 6:
		pMissing = 8
		c.label = "missing"
	case 7:
		pBad = 8
		c.label = "bad"
	case 8:
		pInit = 10
		c.label = "init"
	case 9:
		pMissing, pBad, pInit, pOdd = 15, 15, 25, 6
		c.label = "mixed"
	default:
		c.label = "healthy"
	}
	if p.forCheck && profile < 6 && rng.Intn(3) == 0 {
		pOdd = 8
		c.label = "odd-nodes"
	}
	// otherwise healthy trees with dir nodes whose subtree is nil or the null id (both skipped
	// by the traversal, not errors for FindUsedBlobs)
	pNull := 0
	if !p.forCheck && profile < 6 && rng.Intn(4) == 0 {
		pNull = 5
		c.label = "healthy-null-subtrees"
	}
	n := 1 + rng.Intn(p.maxTrees)
	if rng.Intn(8) == 0 {
		n = 1 + rng.Intn(3)
	}
	var ids []restic.ID
	missingID := func() restic.ID { return restic.Hash([]byte(fmt.Sprintf("missing-%d", rng.Int63()))) }
	for i := 0; i < n; i++ {
		t := &c42Tree{state: "ok"}
		k := rng.Intn(7)
		if rng.Intn(10) == 0 {
			k = 0
		}
		if rng.Intn(25) == 0 {
			k = 20 + rng.Intn(60)
		}
		var parts [][]byte
		for j := 0; j < k; j++ {
			var nd c42Node
			node := &data.Node{Name: fmt.Sprintf("n%04d", j), Mode: 0644}
			switch r := rng.Intn(10); {
			case r < 4: // file
				nd.kind = "file"
				node.Type = data.NodeTypeFile
				nb := rng.Intn(4)
				node.Content = restic.IDs{}
				for b := 0; b < nb; b++ {
					node.Content = append(node.Content, pool[rng.Intn(npool)])
				}
				if pOdd > 0 && rng.Intn(pOdd) == 0 {
					switch rng.Intn(3) {
					case 0:
						node.Content = nil
						nd.contentNil = true
					case 1:
						node.Content = append(node.Content, restic.ID{})
					case 2:
						node.Content = append(node.Content, missingID())
					}
				}
				nd.content = node.Content
			case r < 9: // dir
				nd.kind = "dir"
				node.Type = data.NodeTypeDir
				var sub restic.ID
				switch {
				case pMissing > 0 && rng.Intn(pMissing) == 0:
					sub = missingID()
				case len(ids) == 0:
					sub = missingID()
					if pMissing == 0 { // keep healthy cases healthy: an empty file instead
						nd.kind = "file"
						node.Type = data.NodeTypeFile
						node.Content = restic.IDs{}
						nd.content = node.Content
					}
				case rng.Intn(3) == 0: // recent tree (deep chains)
					sub = ids[len(ids)-1-rng.Intn(c42MinInt(3, len(ids)))]
				default:
					sub = ids[rng.Intn(len(ids))]
				}
				if nd.kind == "dir" {
					node.Subtree = &sub
					nd.subtree = &sub
					if (pOdd > 0 && rng.Intn(pOdd) == 0) || (pNull > 0 && rng.Intn(pNull) == 0) {
						if rng.Intn(2) == 0 {
							node.Subtree, nd.subtree = nil, nil
						} else {
							z := restic.ID{}
							node.Subtree, nd.subtree = &z, &z
						}
					}
					// content on a dir node is ignored by FindUsedBlobs
					if rng.Intn(6) == 0 {
						node.Content = restic.IDs{pool[rng.Intn(npool)]}
						nd.content = node.Content
					}
				}
			default:
				nd.kind = "other"
				node.Type = data.NodeTypeSymlink
				node.LinkTarget = "x"
				// a symlink carrying a subtree id / content: must not be followed or counted
				if rng.Intn(3) == 0 && len(ids) > 0 {
					s := missingID()
					node.Subtree = &s
					nd.subtree = &s
				}
				if rng.Intn(4) == 0 {
					node.Content = restic.IDs{missingID()}
					nd.content = node.Content
				}
				if pOdd > 0 && rng.Intn(pOdd) == 0 {
					nd.kind = "invalid"
					node.Type = data.NodeType("bogus")
				}
			}
			if pOdd > 0 && rng.Intn(pOdd*3) == 0 {
				node.Name = ""
				nd.nameEmpty = true
			}
			js, err := json.Marshal(node)
			if err != nil {
				panic(err)
			}
			parts = append(parts, js)
			t.nodes = append(t.nodes, nd)
		}
		buf := append([]byte(`{"nodes":[`), bytes.Join(parts, []byte(","))...)
		buf = append(buf, []byte("]}\n")...)
		switch {
		case pBad > 0 && rng.Intn(pBad) == 0:
			// decoding fails after `cut` nodes
			t.state = "bad"
			cut := rng.Intn(k + 1)
			var bparts [][]byte
			bparts = append(bparts, parts[:cut]...)
			salt := fmt.Sprintf("%d", rng.Int63())
			switch v := rng.Intn(4); {
			case v == 0 || (v == 3 && cut == 0):
				bparts = append(bparts, []byte(`{"name":"zz`+salt+`","type":"file","mode":"x"}`))
				bparts = append(bparts, parts[cut:]...)
				buf = append([]byte(`{"nodes":[`), bytes.Join(bparts, []byte(","))...)
				buf = append(buf, []byte("]}\n")...)
			case v == 1:
				bparts = append(bparts, []byte(`{"name":"zz`+salt+`","type":"dir","subtree":"1234"}`))
				bparts = append(bparts, parts[cut:]...)
				buf = append([]byte(`{"nodes":[`), bytes.Join(bparts, []byte(","))...)
				buf = append(buf, []byte("]}\n")...)
			case v == 2:
				// truncated in the middle of a token of the next element
				bparts = append(bparts, []byte(`{"name":"zz`+salt+`","ty`))
				buf = append([]byte(`{"nodes":[`), bytes.Join(bparts, []byte(","))...)
			default:
				// garbage instead of the separator after `cut` >= 1 nodes
				buf = append([]byte(`{"nodes":[`), bytes.Join(bparts, []byte(","))...)
				buf = append(buf, []byte(` !`+salt+`]}`)...)
			}
			t.nodes = t.nodes[:cut]
		case pInit > 0 && rng.Intn(pInit) == 0:
			t.state = "init"
			salt := fmt.Sprintf("%d", rng.Int63())
			switch rng.Intn(5) {
			case 0:
				buf = []byte(`[` + salt + `]`)
			case 1:
				buf = []byte(`{"foo":` + salt + `}`)
			case 2:
				buf = []byte(`{"nodes":{"a":` + salt + `}}`)
			case 3:
				buf = []byte(`{"x` + salt)
			case 4:
				buf = []byte(`{` + salt + `:1}`)
			}
			t.nodes = nil
		default:
			// unknown keys around "nodes" must be skipped
			if rng.Intn(8) == 0 {
				buf = append([]byte(`{"future":{"a":[1,2,{"nodes":[]}]},"nodes":[`), bytes.Join(parts, []byte(","))...)
				buf = append(buf, []byte(`],"later":"x]}"}`)...)
			}
		}
		t.id = restic.Hash(buf)
		t.buf = buf
		if _, dup := c.byID[t.id]; dup {
			continue // identical content: same tree
		}
		t.huge = rng.Intn(12) == 0
		c.byID[t.id] = t
		c.trees = append(c.trees, t)
		ids = append(ids, t.id)
	}
	pickRoots := func() []restic.ID {
		var r []restic.ID
		nr := 1 + rng.Intn(3)
		for i := 0; i < nr; i++ {
			switch {
			case pMissing > 0 && rng.Intn(12) == 0:
				r = append(r, missingID())
			case rng.Intn(2) == 0:
				r = append(r, ids[len(ids)-1-rng.Intn(c42MinInt(2, len(ids)))])
			default:
				r = append(r, ids[rng.Intn(len(ids))])
			}
		}
		if rng.Intn(6) == 0 { // duplicate root
			r = append(r, r[0])
		}
		return r
	}
	c.roots1 = pickRoots()
	if rng.Intn(3) == 0 {
		c.roots2 = pickRoots()
	}
	return c
}

// c42GenHuge: trees that the index reports as > 50 MiB (served through the buffered
// hugeTreeChan by the single huge-tree worker).
//   kind 0: a directory with many huge subdirectories that load slowly, next to ordinary ones, so
//           that more huge trees are pending than the channel holds;
//   kind 1: two or more huge trees back to back, the first one very wide (thousands of subtrees,
//           only the first few of them not reachable otherwise), the following ones small and
//           loaded without any delay, so that the huge-tree worker is already decoding the next
//           tree while filterTrees still walks the subtree list of the previous one.
func c42GenHuge(rng *rand.Rand, kind int) *c42Case {
	c := &c42Case{byID: map[restic.ID]*c42Tree{}, blobs: map[restic.ID][]byte{}}
	uniq := 0
	add := func(huge bool, delay time.Duration, nodes []c42Node) restic.ID {
		var parts [][]byte
		for j, nd := range nodes {
			node := &data.Node{Name: fmt.Sprintf("n%05d", j), Mode: 0644}
			switch nd.kind {
			case "file":
				node.Type = data.NodeTypeFile
				node.Content = nd.content
			case "dir":
				node.Type = data.NodeTypeDir
				node.Subtree = nd.subtree
			}
			js, err := json.Marshal(node)
			if err != nil {
				panic(err)
			}
			parts = append(parts, js)
		}
		buf := append([]byte(`{"nodes":[`), bytes.Join(parts, []byte(","))...)
		buf = append(buf, []byte("]}\n")...)
		t := &c42Tree{state: "ok", buf: buf, id: restic.Hash(buf), nodes: nodes, huge: huge, delay: delay}
		if _, dup := c.byID[t.id]; !dup {
			c.byID[t.id] = t
			c.trees = append(c.trees, t)
		}
		return t.id
	}
	file := func() c42Node {
		uniq++
		return c42Node{kind: "file", content: restic.IDs{restic.Hash([]byte(fmt.Sprintf("blob-%d-%d", rng.Int63(), uniq)))}}
	}
	dir := func(id restic.ID) c42Node { i := id; return c42Node{kind: "dir", subtree: &i} }
	leaf := func() restic.ID { return add(false, 0, []c42Node{file()}) }
	var rootNodes []c42Node
	switch kind {
	case 0:
		c.label = "many-huge-trees"
		nh := 13 + rng.Intn(18)
		for i := 0; i < nh; i++ {
			sub := leaf()
			id := add(true, time.Duration(1500+rng.Intn(1500))*time.Microsecond, []c42Node{file(), dir(sub)})
			rootNodes = append(rootNodes, dir(id))
		}
		for i := 0; i < 2+rng.Intn(5); i++ {
			rootNodes = append(rootNodes, dir(leaf()))
		}
		rng.Shuffle(len(rootNodes), func(i, j int) { rootNodes[i], rootNodes[j] = rootNodes[j], rootNodes[i] })
	default:
		c.label = "wide-huge-trees"
		shared := leaf()
		rounds := 2 + rng.Intn(3)
		for r := 0; r < rounds; r++ {
			width := 2500 + rng.Intn(3500)
			if r > 0 && rng.Intn(2) == 0 {
				width = 3 + rng.Intn(20)
			}
			var nodes []c42Node
			k := 1 + rng.Intn(6) // subtrees only this tree refers to, at the front of the list
			for i := 0; i < width; i++ {
				if i < k {
					nodes = append(nodes, dir(leaf()))
				} else {
					nodes = append(nodes, dir(shared))
				}
			}
			rootNodes = append(rootNodes, dir(add(true, -1, nodes)))
		}
	}
	root := add(false, 0, rootNodes)
	c.roots1 = []restic.ID{root}
	return c
}

func c42MinInt(a, b int) int {
	if a < b {
		return a
	}
	return b
}

func (c *c42Case) emit(h *H, forCheck bool) {
	for _, r := range c.roots1 {
		h.Rec("root", "1", c42id(r))
	}
	for _, r := range c.roots2 {
		h.Rec("root", "2", c42id(r))
	}
	for _, t := range c.trees {
		h.Rec("tree", c42id(t.id), t.state, B(t.huge))
		for _, n := range t.nodes {
			sub := "nil"
			if n.subtree != nil {
				sub = c42id(*n.subtree)
			}
			toks := []string{c42id(t.id), n.kind, sub, B(n.contentNil), B(n.nameEmpty)}
			for _, b := range n.content {
				toks = append(toks, c42id(b))
			}
			h.Rec("node", toks...)
		}
	}
	if forCheck {
		var l []string
		for _, id := range c.index {
			l = append(l, c42id(id))
		}
		h.Rec("idx", l...)
	}
}

// --- the in-memory loader --------------------------------------------------------------------

type c42Loader struct {
	c     *c42Case
	mu    sync.Mutex
	loads []restic.ID
	salt  byte
	conns uint
}

func (l *c42Loader) LoadBlob(_ context.Context, h restic.BlobHandle, _ []byte) ([]byte, error) {
	l.mu.Lock()
	l.loads = append(l.loads, h.ID)
	l.mu.Unlock()
	t, ok := l.c.byID[h.ID]
	// deterministic per-tree delay so that completion order differs from request order
	if ok && t.delay != 0 {
		if t.delay > 0 {
			time.Sleep(t.delay)
		}
	} else if d := (h.ID[0] ^ l.salt) % 8; d >= 5 {
		time.Sleep(time.Duration(d-4) * 40 * time.Microsecond)
	}
	if !ok || h.Type != restic.TreeBlob {
		return nil, fmt.Errorf("blob %v not found", h)
	}
	return t.buf, nil
}

func (l *c42Loader) LookupBlobSize(h restic.BlobHandle) (uint, bool) {
	t, ok := l.c.byID[h.ID]
	if !ok {
		return 0, false
	}
	if t.huge {
		return 60 * 1024 * 1024, true
	}
	return uint(len(t.buf)), true
}

func (l *c42Loader) Connections() uint { return l.conns }

type c42Counter struct {
	mu sync.Mutex
	n  uint64
}

func (c *c42Counter) Add(v uint64) { c.mu.Lock(); c.n += v; c.mu.Unlock() }
func (c *c42Counter) SetMax(uint64) {}
func (c *c42Counter) Get() (uint64, uint64) {
	c.mu.Lock()
	defer c.mu.Unlock()
	return c.n, 0
}
func (c *c42Counter) Done() {}

func c42SetRecs(h *H, set restic.BlobSet) {
	var trees, dat []string
	for bh := range set {
		if bh.Type == restic.TreeBlob {
			trees = append(trees, c42id(bh.ID))
		} else {
			dat = append(dat, c42id(bh.ID))
		}
	}
	sort.Strings(trees)
	sort.Strings(dat)
	h.Rec("trees", trees...)
	h.Rec("data", dat...)
}

func c42Sched(h *H, rng *rand.Rand) {
	var s []string
	mode := rng.Intn(3) // 0: always first enabled (sequential), 1: random, 2: mostly last
	for i := 0; i < 60; i++ {
		switch mode {
		case 0:
			s = append(s, "0")
		case 1:
			s = append(s, Itoa(rng.Intn(1000)))
		default:
			s = append(s, Itoa(999-rng.Intn(2)))
		}
	}
	h.Rec("sched", s...)
}

func streamC42(h *H) {
	// --- fub ---
	n := h.N(300, 16000)
	nSpecial := h.N(12, 240)
	for i := 0; i < n+nSpecial; i++ {
		var c *c42Case
		if i < nSpecial {
			// first, so that a defect that crashes or hangs the stream later does not hide them
			c = c42GenHuge(h.Rng, i%2)
		} else {
			c = c42Gen(h.Rng, c42Params{maxTrees: 14})
		}
		h.Case("fub")
		h.Rec("label", c.label)
		c.emit(h, false)
		c42Sched(h, h.Rng)
		ld := &c42Loader{c: c, salt: byte(h.Intn(256)), conns: uint(1 + h.Intn(4))}
		set := restic.NewBlobSet()
		ctr := &c42Counter{}
		phase := func(roots []restic.ID) string {
			var err error
			done := make(chan struct{})
			var pmsg string
			var panicked bool
			go func() {
				defer close(done)
				panicked, pmsg = Protect(func() {
					ctx, cancel := context.WithTimeout(context.Background(), 60*time.Second)
					defer cancel()
					err = data.FindUsedBlobs(ctx, ld, roots, set, ctr)
				})
			}()
			select {
			case <-done:
			case <-time.After(90 * time.Second):
				return "hang"
			}
			_ = pmsg
			if panicked {
				return "panic"
			}
			if err != nil {
				return "err"
			}
			return "ok"
		}
		res := phase(c.roots1)
		nroots := len(c.roots1)
		if res == "ok" && len(c.roots2) > 0 {
			res = phase(c.roots2)
			nroots += len(c.roots2)
		}
		h.Rec("res", res)
		c42SetRecs(h, set)
		var l []string
		ld.mu.Lock()
		for _, id := range ld.loads {
			l = append(l, c42id(id))
		}
		ld.mu.Unlock()
		sort.Strings(l)
		h.Rec("loads", l...)
		p, _ := ctr.Get()
		h.Rec("prog", U64(p), Itoa(nroots))
		h.End()
	}
	// --- check (child processes; a child handles cases until it finishes or crashes) ---
	m := h.N(40, 1600)
	self, err := os.Executable()
	if err != nil {
		panic(err)
	}
	seeds := make([]int64, m)
	for i := range seeds {
		seeds[i] = h.Rng.Int63()
	}
	results := make([][][]string, m) // per case: records
	for i := 0; i < m; {
		var args []string
		for _, sd := range seeds[i:] {
			args = append(args, fmt.Sprint(sd))
		}
		cmd := exec.Command(self)
		cmd.Env = append(os.Environ(), "RESTIC_VERIF_HARNESS=C42child", "RESTIC_VERIF_ARGS="+strings.Join(args, " "))
		var out, errb bytes.Buffer
		cmd.Stdout, cmd.Stderr = &out, &errb
		done := make(chan error, 1)
		if err := cmd.Start(); err != nil {
			panic(err)
		}
		go func() { done <- cmd.Wait() }()
		var werr error
		hung := false
		select {
		case werr = <-done:
		case <-time.After(time.Duration(60+10*(m-i)) * time.Second):
			_ = cmd.Process.Kill()
			<-done
			hung = true
		}
		// complete case blocks the child printed
		k := i
		var cur [][]string
		open := false
		for _, line := range strings.Split(out.String(), "\n") {
			f := strings.Fields(line)
			if len(f) == 0 {
				continue
			}
			switch f[0] {
			case "case":
				cur, open = nil, true
			case "end":
				if open && k < m {
					results[k] = cur
					k++
				}
				open = false
			default:
				cur = append(cur, f)
			}
		}
		if k >= m {
			break
		}
		if !hung && werr == nil {
			panic(fmt.Sprintf("C42 child ended early without error after %d cases", k-i))
		}
		// the child died (or hung) while working on case k
		switch {
		case hung:
			results[k] = [][]string{{"res", "hang"}}
		case strings.Contains(errb.String(), "panic: "):
			msg := errb.String()
			msg = msg[strings.Index(msg, "panic: "):]
			if j := strings.IndexByte(msg, '\n'); j > 0 {
				msg = msg[:j]
			}
			results[k] = [][]string{{"res", "panic", HexS(msg)}}
		default:
			results[k] = [][]string{{"res", "childfail", HexS(errb.String())}}
			fmt.Fprintf(os.Stderr, "C42 child failed: %v\n%s\n", werr, errb.String())
		}
		i = k + 1
	}
	for i := 0; i < m; i++ {
		rng := rand.New(rand.NewSource(seeds[i]))
		c := c42Gen(rng, c42Params{forCheck: true, maxTrees: 10})
		h.Case("check")
		h.Rec("label", c.label)
		c.emit(h, true)
		c42Sched(h, rng)
		for _, f := range results[i] {
			h.Rec(f[0], f[1:]...)
		}
		h.End()
	}
}

var c42TreeErrRe = regexp.MustCompile(`(?m)^error for tree ([0-9a-f]{8}):`)
var c42BlobCountRe = regexp.MustCompile(`"total_blob_count":\s*(\d+)`)

// streamC42Child: build the repository of one `check` case and run the real command(s).
func streamC42Child(h *H) {
	for _, a := range h.Args {
		var seed int64
		fmt.Sscan(a, &seed)
		rng := rand.New(rand.NewSource(seed))
		c := c42Gen(rng, c42Params{forCheck: true, maxTrees: 10})
		h.Case("child")
		var cli *CLI
		if failed, msg := Protect(func() { cli = c42BuildRepo(c) }); failed {
			h.Rec("res", "childfail", HexS(msg))
			h.End()
			continue
		}
		c42RunCheck(h, cli)
		h.End()
	}
}

func c42BuildRepo(c *c42Case) *CLI {
	repo, be := NewRepo(0, repository.Options{})
	ctx := context.Background()
	err := repo.WithBlobUploader(ctx, func(ctx context.Context, up restic.BlobSaverWithAsync) error {
		for _, t := range c.trees {
			id, _, _, err := up.SaveBlob(ctx, restic.TreeBlob, t.buf, restic.ID{}, false)
			if err != nil {
				return err
			}
			if id != t.id {
				panic("tree id mismatch")
			}
		}
		for _, id := range c.index {
			if _, _, _, err := up.SaveBlob(ctx, restic.DataBlob, c.blobs[id], id, false); err != nil {
				return err
			}
		}
		return nil
	})
	if err != nil {
		panic(err)
	}
	roots := append(append([]restic.ID{}, c.roots1...), c.roots2...)
	for i, r := range roots {
		sn, err := data.NewSnapshot([]string{fmt.Sprintf("/r%d", i)}, nil, "h", time.Unix(1700000000+int64(i), 0))
		if err != nil {
			panic(err)
		}
		r := r
		sn.Tree = &r
		if _, err := data.SaveSnapshot(ctx, repo, sn); err != nil {
			panic(err)
		}
	}
	return NewCLI(be)
}

func c42RunCheck(h *H, cli *CLI) {
	res := cli.Run("check")
	if res.Panic != "" {
		h.Rec("res", "panic", HexS("panic: "+res.Panic))
		h.End()
		return
	}
	if res.Err != nil {
		h.Rec("res", "err")
	} else {
		h.Rec("res", "ok")
	}
	h.Rec("exit", Itoa(res.Exit))
	seen := map[string]bool{}
	var rep []string
	for _, m := range c42TreeErrRe.FindAllStringSubmatch(res.Stderr, -1) {
		if !seen[m[1]] {
			seen[m[1]] = true
			rep = append(rep, m[1])
		}
	}
	sort.Strings(rep)
	h.Rec("reported", rep...)
	// other error lines (snapshot errors, load errors outside trees) for diagnosis
	if res.Err == nil {
		st := cli.Run("stats", "--mode", "raw-data", "--json")
		if st.Err == nil {
			if m := c42BlobCountRe.FindStringSubmatch(st.Stdout); m != nil {
				h.Rec("stats", m[1])
			} else {
				h.Rec("stats", "-")
			}
		} else {
			h.Rec("stats", "err")
		}
	}
	h.End()
}
