//go:build verif

package main

import (
	"errors"
	"sort"
	"strconv"
	"strings"

	"github.com/restic/restic/internal/backend"
	"github.com/restic/restic/internal/backend/mem"
	"github.com/restic/restic/internal/data"
	"github.com/restic/restic/internal/options"
	"github.com/restic/restic/internal/ui"
)

// C49: command-line value parsers.
//
// Sub-streams (case header) and records (strings hex encoded):
//   dur    in <s>                res ok <hours> <days> <months> <years> <String()> | err <kind> | panic <msg>
//                                rt ok <h> <d> <m> <y> | rt err | rt panic      ParseDuration(String()) when ok
//   bytes  in <s>                res ok <v> | err <kind> | panic
//   count  in <s>                res ok <v> | err <kind> | panic
//   opts   in <s>…               res ok <key>=<value>… (sorted) | err emptykey|dup|other | panic
//   shell  in <s>                res ok <field>… | err single|double|empty|other | panic
//   flags  in <s> readdata 0|1 pct <class>     res accept|invalid|badrange|toolarge|pctrange|sizerange|together|other|panic
//   cli    what dur|count|opts|flags  in <s>…   res accept | flagerr <kind…> | panic
// Error kinds: nonumber nounit invalidunit range syntax negative other.
var _ = verifRegister("C49", streamC49)
var _ = verifRegisterFacts(ui.VerifFactsC49)

func c49ErrKind(err error) string {
	msg := err.Error()
	switch {
	case errors.Is(err, ErrNegativePolicyCount):
		return "negative"
	case errors.Is(err, strconv.ErrRange):
		return "range"
	case errors.Is(err, strconv.ErrSyntax):
		return "syntax"
	case strings.Contains(msg, "no number found"):
		return "nonumber"
	case strings.Contains(msg, "no unit found"):
		return "nounit"
	case strings.Contains(msg, "invalid unit"):
		return "invalidunit"
	case strings.Contains(msg, "expected size, got empty string"):
		return "emptystring"
	}
	return "other:" + HexS(msg)
}

// all strings over alphabet with length <= maxLen, sharded
func c49Enum(h *H, alphabet string, maxLen int, f func(s string)) {
	var rec func(prefix []byte, depth int)
	cnt := 0
	rec = func(prefix []byte, depth int) {
		if cnt%h.NSh == h.Shard {
			f(string(prefix))
		}
		cnt++
		if depth == maxLen {
			return
		}
		for i := 0; i < len(alphabet); i++ {
			rec(append(prefix, alphabet[i]), depth+1)
		}
	}
	rec(nil, 0)
}

var c49Big = []string{
	"2147483647", "2147483648", "4294967295", "4294967296",
	"9223372036854775806", "9223372036854775807", "9223372036854775808", "9223372036854775809",
	"18446744073709551614", "18446744073709551615", "18446744073709551616", "18446744073709551617",
	"10000000000000000000", "99999999999999999999", "100000000000000000000", "340282366920938463463374607431768211456",
	"00000000000000000000009", "0000000000000000000009223372036854775807", "0000000000000000000009223372036854775808",
	"999999999999999999", "1000000000000000000", "0", "00", "7",
}

func (h *H) c49Num() string {
	switch h.Intn(4) {
	case 0:
		return h.Pick(c49Big)
	case 1:
		return Itoa(h.Intn(1000))
	case 2:
		// random digit string of length 17..22 (around the int64 / uint64 boundary)
		l := 17 + h.Intn(6)
		b := make([]byte, l)
		for i := range b {
			b[i] = byte('0' + h.Intn(10))
		}
		return string(b)
	default:
		return Itoa(h.Intn(100))
	}
}

func c49Dur(h *H, s string) {
	h.Case("dur")
	h.Rec("in", HexS(s))
	var d data.Duration
	var err error
	panicked, msg := Protect(func() { d, err = data.ParseDuration(s) })
	switch {
	case panicked:
		h.Rec("res", "panic", HexS(msg))
	case err != nil:
		h.Rec("res", "err", c49ErrKind(err))
	default:
		str := d.String()
		h.Rec("res", "ok", Itoa(d.Hours), Itoa(d.Days), Itoa(d.Months), Itoa(d.Years), HexS(str))
		var d2 data.Duration
		p2, _ := Protect(func() { d2, err = data.ParseDuration(str) })
		switch {
		case p2:
			h.Rec("rt", "panic")
		case err != nil:
			h.Rec("rt", "err")
		default:
			h.Rec("rt", "ok", Itoa(d2.Hours), Itoa(d2.Days), Itoa(d2.Months), Itoa(d2.Years))
		}
	}
	h.End()
}

func c49Bytes(h *H, s string) {
	h.Case("bytes")
	h.Rec("in", HexS(s))
	var v int64
	var err error
	panicked, msg := Protect(func() { v, err = ui.ParseBytes(s) })
	switch {
	case panicked:
		h.Rec("res", "panic", HexS(msg))
	case err != nil:
		h.Rec("res", "err", c49ErrKind(err))
	default:
		h.Rec("res", "ok", I64(v))
	}
	h.End()
}

func c49Count(h *H, s string) {
	h.Case("count")
	h.Rec("in", HexS(s))
	var c ForgetPolicyCount = 12345
	var err error
	panicked, msg := Protect(func() { err = c.Set(s) })
	switch {
	case panicked:
		h.Rec("res", "panic", HexS(msg))
	case err != nil:
		h.Rec("res", "err", c49ErrKind(err))
	default:
		h.Rec("res", "ok", Itoa(int(c)))
	}
	h.End()
}

func c49Opts(h *H, in []string) {
	h.Case("opts")
	h.Rec("in", HexList(in)...)
	var o options.Options
	var err error
	panicked, msg := Protect(func() { o, err = options.Parse(in) })
	switch {
	case panicked:
		h.Rec("res", "panic", HexS(msg))
	case err != nil:
		switch {
		case strings.Contains(err.Error(), "empty key"):
			h.Rec("res", "err", "emptykey")
		case strings.Contains(err.Error(), "present more than once"):
			h.Rec("res", "err", "dup")
		default:
			h.Rec("res", "err", "other:"+HexS(err.Error()))
		}
	default:
		var kv []string
		for k, v := range o {
			kv = append(kv, HexS(k)+"="+HexS(v))
		}
		sort.Strings(kv)
		h.Rec("res", append([]string{"ok"}, kv...)...)
	}
	h.End()
}

func c49Shell(h *H, s string) {
	h.Case("shell")
	h.Rec("in", HexS(s))
	var strs []string
	var err error
	panicked, msg := Protect(func() { strs, err = backend.SplitShellStrings(s) })
	switch {
	case panicked:
		h.Rec("res", "panic", HexS(msg))
	case err != nil:
		switch {
		case strings.Contains(err.Error(), "single-quoted string not terminated"):
			h.Rec("res", "err", "single")
		case strings.Contains(err.Error(), "double-quoted string not terminated"):
			h.Rec("res", "err", "double")
		case strings.Contains(err.Error(), "command string is empty"):
			h.Rec("res", "err", "empty")
		default:
			h.Rec("res", "err", "other:"+HexS(err.Error()))
		}
	default:
		h.Rec("res", append([]string{"ok"}, HexList(strs)...)...)
	}
	h.End()
}

// classification of the float the percentage branch sees (oracle for the model)
func c49Pct(s string) string {
	if !strings.HasSuffix(s, "%") {
		return "none"
	}
	p, err := strconv.ParseFloat(s[:len(s)-1], 64)
	switch {
	case err != nil:
		return "parseerr"
	case p != p:
		return "nan"
	case p <= 0.0:
		return "le0"
	case p > 100.0:
		return "gt100"
	}
	return "inrange"
}

func c49Flags(h *H, s string, readData bool) {
	h.Case("flags")
	h.Rec("in", HexS(s), "readdata", B(readData), "pct", c49Pct(s))
	var err error
	panicked, msg := Protect(func() { err = checkFlags(CheckOptions{ReadData: readData, ReadDataSubset: s}) })
	switch {
	case panicked:
		h.Rec("res", "panic", HexS(msg))
	case err != nil && strings.Contains(err.Error(), "cannot be used together"):
		h.Rec("res", "together")
	default:
		h.Rec("res", c52Classify(err)...)
	}
	h.End()
}

func streamC49(h *H) {
	thorough := h.Thorough()
	ml := func(q, t int) int {
		if thorough {
			return t
		}
		return q
	}
	// ------------------------------------------------------------ exhaustive short strings
	c49Enum(h, "019-ymdhx ", ml(4, 5), func(s string) { c49Dur(h, s) })
	c49Enum(h, "019-+kKbTx ", ml(4, 5), func(s string) { c49Bytes(h, s) })
	c49Enum(h, "019-+u x", ml(4, 5), func(s string) { c49Count(h, s) })
	c49Enum(h, "a\\ '\"\t", ml(5, 6), func(s string) { c49Shell(h, s) })
	c49Enum(h, "0129/%.-Kn", ml(4, 5), func(s string) { c49Flags(h, s, false) })

	// ------------------------------------------------------------ generated: long digit strings, structure
	n := h.N(4000, 60000)
	units := []string{"y", "m", "d", "h", "y", "m", "d", "h", "x", "", "s", "D", " "}
	for i := 0; i < n; i++ {
		// durations: 0..5 items, mostly valid
		var sb strings.Builder
		for k := h.Intn(6); k > 0; k-- {
			if h.Intn(6) == 0 {
				sb.WriteString("-")
			}
			sb.WriteString(h.c49Num())
			sb.WriteString(h.Pick(units))
		}
		s := sb.String()
		switch h.Intn(12) {
		case 0:
			s = " " + s + "\t"
		case 1:
			s = s + "-"
		case 2:
			s = "\n" + s
		}
		c49Dur(h, s)
	}
	for i := 0; i < n; i++ {
		s := h.c49Num()
		switch h.Intn(8) {
		case 0:
			s = "-" + s
		case 1:
			s = "+" + s
		}
		s += h.Pick([]string{"", "", "b", "B", "k", "K", "m", "M", "g", "G", "t", "T", "x", "kb", " ", "KiB"})
		if h.Intn(30) == 0 {
			s = h.Pick([]string{"8388607T", "8388608T", "9007199254740991K", "9007199254740992K", "8589934591G", "8589934592G",
				"8796093022207M", "8796093022208M", "18014398509481984K", "-1K", "-0", "-0T", "+0", "", "K", "T", "-", "+", "-K",
				"-9223372036854775808", "-9223372036854775808K", "9223372036854775807b", "9223372036854775808b", "17179869184G", "16777216T"})
		}
		c49Bytes(h, s)
	}
	for i := 0; i < n/2; i++ {
		s := h.c49Num()
		switch h.Intn(8) {
		case 0:
			s = "-" + s
		case 1:
			s = "+" + s
		case 2:
			s = h.Pick([]string{"unlimited", "Unlimited", "unlimited ", "", "-1", "-0", "+0", "1_000", "0x10", "1e3", " 5", "5 ", "unlimite", "unlimitedd"})
		}
		c49Count(h, s)
	}
	// options
	keys := []string{"a", "b", "s3.x", "A", " a", "a ", "", "a.b", "B"}
	vals := []string{"1", "2", "", " 1", "1 ", "x=y", "=", "X"}
	for i := 0; i < n/2; i++ {
		var in []string
		for k := h.Intn(5); k > 0; k-- {
			switch h.Intn(10) {
			case 0:
				in = append(in, h.Pick(keys)) // no '='
			case 1:
				in = append(in, "="+h.Pick(vals))
			default:
				in = append(in, h.Pick(keys)+h.Pick([]string{"=", "=", " = ", "= ", " ="})+h.Pick(vals))
			}
		}
		c49Opts(h, in)
	}
	// shell strings
	words := []string{"ssh", "-o", "a b", "x", "\\", "\"", "'", " ", "\t", "a\\ b", "\\\"", "\\'", "é", "\"q w\"", "'s t'", "--opt=v", "\\\\"}
	for i := 0; i < n/2; i++ {
		var sb strings.Builder
		for k := h.Intn(7); k > 0; k-- {
			sb.WriteString(h.Pick(words))
			if h.Intn(2) == 0 {
				sb.WriteString(" ")
			}
		}
		c49Shell(h, sb.String())
	}
	// check flags
	for i := 0; i < n/2; i++ {
		s := c52GenFlag(h)
		if h.Intn(6) == 0 {
			s = h.c49Num() + h.Pick([]string{"%", "K", "/" + h.c49Num(), ".5%", "e2%"})
		}
		if h.Intn(25) == 0 {
			s = ""
		}
		c49Flags(h, s, h.Intn(10) == 0)
	}

	// ------------------------------------------------------------ through the CLI (cobra/pflag glue)
	if h.Shard == 0 {
		be := mem.New()
		cli := NewCLI(be)
		cli.MustRun("init")
		flagErr := func(res CmdResult) []string {
			switch {
			case res.Panic != "":
				return []string{"panic", HexS(res.Panic)}
			case res.Err == nil:
				return []string{"accept"}
			case strings.Contains(res.Err.Error(), "invalid argument"):
				return []string{"flagerr"}
			}
			return []string{"othererr", HexS(res.Err.Error())}
		}
		nc := 12 * h.NSh
		if h.Thorough() {
			nc = 150
		}
		for i := 0; i < nc; i++ {
			s := h.c49Num() + h.Pick(units)
			if h.Intn(3) == 0 {
				s = h.c49Num() + "d" + h.c49Num() + "h"
			}
			if strings.HasPrefix(s, "-") {
				continue
			}
			h.Case("cli")
			h.Rec("what", "dur")
			h.Rec("in", HexS(s))
			h.Rec("res", flagErr(cli.Run("forget", "--dry-run", "--keep-within", s))...)
			h.End()

			c := h.c49Num()
			if h.Intn(4) == 0 {
				c = h.Pick([]string{"unlimited", "x", "1.5", "+3"})
			}
			h.Case("cli")
			h.Rec("what", "count")
			h.Rec("in", HexS(c))
			h.Rec("res", flagErr(cli.Run("forget", "--dry-run", "--keep-last", c))...)
			h.End()
		}
		for i := 0; i < nc/2; i++ {
			var in, args []string
			for k := 1 + h.Intn(3); k > 0; k-- {
				o := h.Pick([]string{"a", "b", "A"}) + "=" + h.Pick([]string{"1", "2", ""})
				if h.Intn(8) == 0 {
					o = "=" + h.Pick(vals)
				}
				in = append(in, o)
				args = append(args, "-o", o)
			}
			h.Case("cli")
			h.Rec("what", "opts")
			h.Rec("in", HexList(in)...)
			res := cli.Run(append(args, "snapshots")...)
			switch {
			case res.Panic != "":
				h.Rec("res", "panic", HexS(res.Panic))
			case res.Err == nil:
				h.Rec("res", "accept")
			case strings.Contains(res.Err.Error(), "empty key"), strings.Contains(res.Err.Error(), "present more than once"):
				h.Rec("res", "flagerr")
			default:
				h.Rec("res", "othererr", HexS(res.Err.Error()))
			}
			h.End()
		}
	}
}
