//go:build verif

package main

import (
	"errors"
	"reflect"
	"sort"
	"strconv"
	"strings"
	"time"

	"github.com/restic/restic/internal/backend/azure"
	"github.com/restic/restic/internal/backend/b2"
	"github.com/restic/restic/internal/backend/gs"
	"github.com/restic/restic/internal/backend/local"
	"github.com/restic/restic/internal/backend/rclone"
	"github.com/restic/restic/internal/backend/rest"
	"github.com/restic/restic/internal/backend/s3"
	"github.com/restic/restic/internal/backend/sftp"
	"github.com/restic/restic/internal/backend/swift"

	"github.com/restic/restic/internal/backend"
	"github.com/restic/restic/internal/backend/mem"
	"github.com/restic/restic/internal/data"
	"github.com/restic/restic/internal/options"
	"github.com/restic/restic/internal/ui"
)

// C49: command-line value parsers.
//
// Sub-streams (case header) and records (strings hex encoded):
//   dur    in <s>                res ok <hours> <days> <months> <years> <String()> | err <kind> | panic <msg>
//                                rt ok <h> <d> <m> <y> | rt err | rt panic      ParseDuration(String()) when ok
//   bytes  in <s>                res ok <v> | err <kind> | panic
//   count  in <s>                res ok <v> | err <kind> | panic
//   opts   in <s>…               res ok <key>=<value>… (sorted) | err emptykey|dup|other | panic
//   shell  in <s>                res ok <field>… | err single|double|empty|other | panic
//   flags  in <s> readdata 0|1 pct <class>     res accept|invalid|badrange|toolarge|pctrange|sizerange|together|other|panic
//   apply  struct <name>; field <tag> <Type.Name()>…; opt <key> <value> dur ok <ns>|err …
//          res ok <key>=<stored value>… | err unknown|range|syntax|badduration|other:… | panic <msg>
//          (Options.Apply on a harness struct with a field of every supported type and on the real
//          backend config structs, after Options.Extract(ns) like global.parseConfig does)
//   cli    what dur|count|opts|flags  in <s>…   res accept | flagerr <kind…> | panic
// Error kinds: nonumber nounit invalidunit range syntax negative other.
var _ = verifRegister("C49", streamC49)
var _ = verifRegisterFacts(ui.VerifFactsC49)

func c49ErrKind(err error) string {
	msg := err.Error()
	switch {
	case errors.Is(err, ErrNegativePolicyCount):
		return "negative"
	case errors.Is(err, strconv.ErrRange):
		return "range"
	case errors.Is(err, strconv.ErrSyntax):
		return "syntax"
	case strings.Contains(msg, "no number found"):
		return "nonumber"
	case strings.Contains(msg, "no unit found"):
		return "nounit"
	case strings.Contains(msg, "invalid unit"):
		return "invalidunit"
	case strings.Contains(msg, "expected size, got empty string"):
		return "emptystring"
	}
	return "other:" + HexS(msg)
}

// all strings over alphabet with length <= maxLen, sharded
func c49Enum(h *H, alphabet string, maxLen int, f func(s string)) {
	var rec func(prefix []byte, depth int)
	cnt := 0
	rec = func(prefix []byte, depth int) {
		if cnt%h.NSh == h.Shard {
			f(string(prefix))
		}
		cnt++
		if depth == maxLen {
			return
		}
		for i := 0; i < len(alphabet); i++ {
			rec(append(prefix, alphabet[i]), depth+1)
		}
	}
	rec(nil, 0)
}

var c49Big = []string{
	"2147483647", "2147483648", "4294967295", "4294967296",
	"9223372036854775806", "9223372036854775807", "9223372036854775808", "9223372036854775809",
	"18446744073709551614", "18446744073709551615", "18446744073709551616", "18446744073709551617",
	"10000000000000000000", "99999999999999999999", "100000000000000000000", "340282366920938463463374607431768211456",
	"00000000000000000000009", "0000000000000000000009223372036854775807", "0000000000000000000009223372036854775808",
	"999999999999999999", "1000000000000000000", "0", "00", "7",
}

func (h *H) c49Num() string {
	switch h.Intn(4) {
	case 0:
		return h.Pick(c49Big)
	case 1:
		return Itoa(h.Intn(1000))
	case 2:
		// random digit string of length 17..22 (around the int64 / uint64 boundary)
		l := 17 + h.Intn(6)
		b := make([]byte, l)
		for i := range b {
			b[i] = byte('0' + h.Intn(10))
		}
		return string(b)
	default:
		return Itoa(h.Intn(100))
	}
}

func c49Dur(h *H, s string) {
	h.Case("dur")
	h.Rec("in", HexS(s))
	var d data.Duration
	var err error
	panicked, msg := Protect(func() { d, err = data.ParseDuration(s) })
	switch {
	case panicked:
		h.Rec("res", "panic", HexS(msg))
	case err != nil:
		h.Rec("res", "err", c49ErrKind(err))
	default:
		str := d.String()
		h.Rec("res", "ok", Itoa(d.Hours), Itoa(d.Days), Itoa(d.Months), Itoa(d.Years), HexS(str))
		var d2 data.Duration
		p2, _ := Protect(func() { d2, err = data.ParseDuration(str) })
		switch {
		case p2:
			h.Rec("rt", "panic")
		case err != nil:
			h.Rec("rt", "err")
		default:
			h.Rec("rt", "ok", Itoa(d2.Hours), Itoa(d2.Days), Itoa(d2.Months), Itoa(d2.Years))
		}
	}
	h.End()
}

func c49Bytes(h *H, s string) {
	h.Case("bytes")
	h.Rec("in", HexS(s))
	var v int64
	var err error
	panicked, msg := Protect(func() { v, err = ui.ParseBytes(s) })
	switch {
	case panicked:
		h.Rec("res", "panic", HexS(msg))
	case err != nil:
		h.Rec("res", "err", c49ErrKind(err))
	default:
		h.Rec("res", "ok", I64(v))
	}
	h.End()
}

func c49Count(h *H, s string) {
	h.Case("count")
	h.Rec("in", HexS(s))
	var c ForgetPolicyCount = 12345
	var err error
	panicked, msg := Protect(func() { err = c.Set(s) })
	switch {
	case panicked:
		h.Rec("res", "panic", HexS(msg))
	case err != nil:
		h.Rec("res", "err", c49ErrKind(err))
	default:
		h.Rec("res", "ok", Itoa(int(c)))
	}
	h.End()
}

func c49Opts(h *H, in []string) {
	h.Case("opts")
	h.Rec("in", HexList(in)...)
	var o options.Options
	var err error
	panicked, msg := Protect(func() { o, err = options.Parse(in) })
	switch {
	case panicked:
		h.Rec("res", "panic", HexS(msg))
	case err != nil:
		switch {
		case strings.Contains(err.Error(), "empty key"):
			h.Rec("res", "err", "emptykey")
		case strings.Contains(err.Error(), "present more than once"):
			h.Rec("res", "err", "dup")
		default:
			h.Rec("res", "err", "other:"+HexS(err.Error()))
		}
	default:
		var kv []string
		for k, v := range o {
			kv = append(kv, HexS(k)+"="+HexS(v))
		}
		sort.Strings(kv)
		h.Rec("res", append([]string{"ok"}, kv...)...)
	}
	h.End()
}

func c49Shell(h *H, s string) {
	h.Case("shell")
	h.Rec("in", HexS(s))
	var strs []string
	var err error
	panicked, msg := Protect(func() { strs, err = backend.SplitShellStrings(s) })
	switch {
	case panicked:
		h.Rec("res", "panic", HexS(msg))
	case err != nil:
		switch {
		case strings.Contains(err.Error(), "single-quoted string not terminated"):
			h.Rec("res", "err", "single")
		case strings.Contains(err.Error(), "double-quoted string not terminated"):
			h.Rec("res", "err", "double")
		case strings.Contains(err.Error(), "command string is empty"):
			h.Rec("res", "err", "empty")
		default:
			h.Rec("res", "err", "other:"+HexS(err.Error()))
		}
	default:
		h.Rec("res", append([]string{"ok"}, HexList(strs)...)...)
	}
	h.End()
}

// classification of the float the percentage branch sees (oracle for the model)
func c49Pct(s string) string {
	if !strings.HasSuffix(s, "%") {
		return "none"
	}
	p, err := strconv.ParseFloat(s[:len(s)-1], 64)
	switch {
	case err != nil:
		return "parseerr"
	case p != p:
		return "nan"
	case p <= 0.0:
		return "le0"
	case p > 100.0:
		return "gt100"
	}
	return "inrange"
}

func c49Flags(h *H, s string, readData bool) {
	h.Case("flags")
	h.Rec("in", HexS(s), "readdata", B(readData), "pct", c49Pct(s))
	var err error
	panicked, msg := Protect(func() { err = checkFlags(CheckOptions{ReadData: readData, ReadDataSubset: s}) })
	switch {
	case panicked:
		h.Rec("res", "panic", HexS(msg))
	case err != nil && strings.Contains(err.Error(), "cannot be used together"):
		h.Rec("res", "together")
	default:
		h.Rec("res", c52Classify(err)...)
	}
	h.End()
}

// ---------------------------------------------------------------- Options.Apply

type c49Named int

// harness target: one field of every type Apply supports, an untagged field, and two fields of
// types Apply does not handle (it panics when such an option is given)
type c49Target struct {
	S     string        `option:"s"`
	I     int           `option:"i"`
	U     uint          `option:"u"`
	B     bool          `option:"b"`
	D     time.Duration `option:"d"`
	NoTag int
	F     float64  `option:"f"`
	N     c49Named `option:"n"`
}

type c49Struct struct {
	name string
	ns   string
	mk   func() any
}

var c49Structs = []c49Struct{
	{"harness", "t", func() any { return &c49Target{} }},
	{"local", "local", func() any { return &local.Config{} }},
	{"sftp", "sftp", func() any { return &sftp.Config{} }},
	{"rest", "rest", func() any { return &rest.Config{} }},
	{"s3", "s3", func() any { return &s3.Config{} }},
	{"rclone", "rclone", func() any { return &rclone.Config{} }},
	{"b2", "b2", func() any { return &b2.Config{} }},
	{"azure", "azure", func() any { return &azure.Config{} }},
	{"gs", "gs", func() any { return &gs.Config{} }},
	{"swift", "swift", func() any { return &swift.Config{} }},
}

func c49Fields(dst any) (tags []string, kinds map[string]string, idx map[string]int) {
	v := reflect.ValueOf(dst).Elem()
	kinds, idx = map[string]string{}, map[string]int{}
	for i := 0; i < v.NumField(); i++ {
		f := v.Type().Field(i)
		tag := f.Tag.Get("option")
		if tag == "" {
			continue
		}
		tags = append(tags, tag)
		kinds[tag] = f.Type.Name()
		idx[tag] = i
	}
	sort.Strings(tags)
	return
}

var c49IntVals = []string{
	"0", "1", "5", "-0", "+0", "-1", "+1", "-2", "-5", "2147483647", "2147483648", "-2147483648", "-2147483649",
	"4294967295", "4294967296", "-4294967295", "18446744073709551615", "18446744073709551616", "-18446744073709551615",
	"9223372036854775807", "9223372036854775808", "-9223372036854775808",
	"0x10", "0X1f", "-0x10", "0x7fffffff", "0x80000000", "-0x80000000", "-0x80000001", "0xffffffff", "0x100000000",
	"0xFFFFFFFFFFFFFFFF", "0x10000000000000000", "0b101", "0B11", "0b2", "0o17", "0O7", "0o8", "017", "08", "00", "-017",
	"0x", "0b", "0o", "0_7", "1_000", "1__0", "_1", "1_", "0x_1", "0_x1", "0x1_", "1_0_0", "-1_0", "+0x_f",
	"abc", "", " 1", "1 ", "1e3", "1.5", "-", "+", "--1", "0x-1", "１",
}

func (h *H) c49ApplyValue(kind string) string {
	switch kind {
	case "int", "uint", "c49Named", "float64":
		switch h.Intn(5) {
		case 0:
			s := h.c49Num()
			if h.Intn(3) == 0 {
				s = "-" + s
			}
			return s
		case 1:
			return Itoa(h.Intn(64))
		default:
			return h.Pick(c49IntVals)
		}
	case "bool":
		return h.Pick([]string{"true", "True", "TRUE", "t", "T", "1", "false", "False", "FALSE", "f", "F", "0", "yes", "tRUE", "", "2", "on"})
	case "Duration":
		return h.Pick([]string{"1m", "90s", "1h30m", "1.5h", "-5s", "5", "", "1d", "9999999h", "1ns", "0", "2562047h", "2562048h", "1m ", "h"})
	}
	return h.Pick([]string{"", "x", "a b", "-1", "ssh -p 22", "STANDARD", "é"})
}

func c49Apply(h *H, st c49Struct, opts map[string]string) {
	dst := st.mk()
	tags, kinds, idx := c49Fields(dst)
	h.Case("apply")
	h.Rec("struct", st.name)
	for _, t := range tags {
		h.Rec("field", HexS(t), kinds[t])
	}
	var keys []string
	for k := range opts {
		keys = append(keys, k)
	}
	sort.Strings(keys)
	// like global.parseConfig: the namespace is stripped by the real Extract
	full := options.Options{}
	for _, k := range keys {
		full[st.ns+"."+k] = opts[k]
		d, err := time.ParseDuration(opts[k])
		if err != nil {
			h.Rec("opt", HexS(k), HexS(opts[k]), "dur", "err")
		} else {
			h.Rec("opt", HexS(k), HexS(opts[k]), "dur", "ok", I64(int64(d)))
		}
	}
	full["other.ns.key"] = "ignored"
	var err error
	panicked, msg := Protect(func() { err = full.Extract(st.ns).Apply(st.ns, dst) })
	switch {
	case panicked:
		h.Rec("res", "panic", HexS(msg))
	case err != nil:
		switch {
		case strings.Contains(err.Error(), "is not known"):
			h.Rec("res", "err", "unknown")
		case errors.Is(err, strconv.ErrRange):
			h.Rec("res", "err", "range")
		case errors.Is(err, strconv.ErrSyntax):
			h.Rec("res", "err", "syntax")
		case strings.HasPrefix(err.Error(), "time: "):
			h.Rec("res", "err", "badduration")
		default:
			h.Rec("res", "err", "other:"+HexS(err.Error()))
		}
	default:
		v := reflect.ValueOf(dst).Elem()
		toks := []string{"ok"}
		for _, k := range keys {
			f := v.Field(idx[k])
			var val string
			switch f.Kind() {
			case reflect.String:
				val = HexS(f.String())
			case reflect.Bool:
				val = B(f.Bool())
			case reflect.Int, reflect.Int8, reflect.Int16, reflect.Int32, reflect.Int64:
				val = I64(f.Int())
			case reflect.Uint, reflect.Uint8, reflect.Uint16, reflect.Uint32, reflect.Uint64:
				val = U64(f.Uint())
			default:
				val = "?"
			}
			toks = append(toks, HexS(k)+"="+val)
		}
		h.Rec("res", toks...)
	}
	h.End()
}

func c49ApplyStream(h *H) {
	harness := c49Structs[0]
	// exhaustive short values for the integer kinds
	c49Enum(h, "019-+x_a", 4, func(s string) {
		c49Apply(h, harness, map[string]string{"i": s})
		c49Apply(h, harness, map[string]string{"u": s})
	})
	// every curated value on every integer / bool / duration field of every struct
	if h.Shard == 0 {
		for _, st := range c49Structs {
			tags, kinds, _ := c49Fields(st.mk())
			for _, t := range tags {
				switch kinds[t] {
				case "int", "uint":
					for _, v := range c49IntVals {
						c49Apply(h, st, map[string]string{t: v})
					}
				}
			}
		}
	}
	n := h.N(3000, 40000)
	for i := 0; i < n; i++ {
		st := c49Structs[h.Intn(len(c49Structs))]
		if h.Intn(3) == 0 {
			st = harness
		}
		tags, kinds, _ := c49Fields(st.mk())
		opts := map[string]string{}
		for k := 1 + h.Intn(3)/2; k > 0; k-- {
			t := tags[h.Intn(len(tags))]
			if kinds[t] == "float64" || kinds[t] == "c49Named" {
				if h.Intn(4) == 0 {
					// unsupported field type: Apply panics; keep it the only option so that the
					// outcome does not depend on the map iteration order
					opts = map[string]string{t: h.c49ApplyValue(kinds[t])}
					break
				}
				continue
			}
			if h.Intn(25) == 0 {
				opts["nosuchoption"] = "1"
				continue
			}
			opts[t] = h.c49ApplyValue(kinds[t])
		}
		c49Apply(h, st, opts)
	}
}

func streamC49(h *H) {
	c49ApplyStream(h)

	thorough := h.Thorough()
	ml := func(q, t int) int {
		if thorough {
			return t
		}
		return q
	}
	// ------------------------------------------------------------ exhaustive short strings
	c49Enum(h, "019-ymdhx ", ml(4, 5), func(s string) { c49Dur(h, s) })
	c49Enum(h, "019-+kKbTx ", ml(4, 5), func(s string) { c49Bytes(h, s) })
	c49Enum(h, "019-+u x", ml(4, 5), func(s string) { c49Count(h, s) })
	c49Enum(h, "a\\ '\"\t", ml(5, 6), func(s string) { c49Shell(h, s) })
	c49Enum(h, "0129/%.-Kn", ml(4, 5), func(s string) { c49Flags(h, s, false) })

	// ------------------------------------------------------------ generated: long digit strings, structure
	n := h.N(4000, 60000)
	units := []string{"y", "m", "d", "h", "y", "m", "d", "h", "x", "", "s", "D", " "}
	for i := 0; i < n; i++ {
		// durations: 0..5 items, mostly valid
		var sb strings.Builder
		for k := h.Intn(6); k > 0; k-- {
			if h.Intn(6) == 0 {
				sb.WriteString("-")
			}
			sb.WriteString(h.c49Num())
			sb.WriteString(h.Pick(units))
		}
		s := sb.String()
		switch h.Intn(12) {
		case 0:
			s = " " + s + "\t"
		case 1:
			s = s + "-"
		case 2:
			s = "\n" + s
		}
		c49Dur(h, s)
	}
	for i := 0; i < n; i++ {
		s := h.c49Num()
		switch h.Intn(8) {
		case 0:
			s = "-" + s
		case 1:
			s = "+" + s
		}
		s += h.Pick([]string{"", "", "b", "B", "k", "K", "m", "M", "g", "G", "t", "T", "x", "kb", " ", "KiB"})
		if h.Intn(30) == 0 {
			s = h.Pick([]string{"8388607T", "8388608T", "9007199254740991K", "9007199254740992K", "8589934591G", "8589934592G",
				"8796093022207M", "8796093022208M", "18014398509481984K", "-1K", "-0", "-0T", "+0", "", "K", "T", "-", "+", "-K",
				"-9223372036854775808", "-9223372036854775808K", "9223372036854775807b", "9223372036854775808b", "17179869184G", "16777216T"})
		}
		c49Bytes(h, s)
	}
	for i := 0; i < n/2; i++ {
		s := h.c49Num()
		switch h.Intn(8) {
		case 0:
			s = "-" + s
		case 1:
			s = "+" + s
		case 2:
			s = h.Pick([]string{"unlimited", "Unlimited", "unlimited ", "", "-1", "-0", "+0", "1_000", "0x10", "1e3", " 5", "5 ", "unlimite", "unlimitedd"})
		}
		c49Count(h, s)
	}
	// options
	keys := []string{"a", "b", "s3.x", "A", " a", "a ", "", "a.b", "B"}
	vals := []string{"1", "2", "", " 1", "1 ", "x=y", "=", "X"}
	for i := 0; i < n/2; i++ {
		var in []string
		for k := h.Intn(5); k > 0; k-- {
			switch h.Intn(10) {
			case 0:
				in = append(in, h.Pick(keys)) // no '='
			case 1:
				in = append(in, "="+h.Pick(vals))
			default:
				in = append(in, h.Pick(keys)+h.Pick([]string{"=", "=", " = ", "= ", " ="})+h.Pick(vals))
			}
		}
		c49Opts(h, in)
	}
	// shell strings
	words := []string{"ssh", "-o", "a b", "x", "\\", "\"", "'", " ", "\t", "a\\ b", "\\\"", "\\'", "é", "\"q w\"", "'s t'", "--opt=v", "\\\\"}
	for i := 0; i < n/2; i++ {
		var sb strings.Builder
		for k := h.Intn(7); k > 0; k-- {
			sb.WriteString(h.Pick(words))
			if h.Intn(2) == 0 {
				sb.WriteString(" ")
			}
		}
		c49Shell(h, sb.String())
	}
	// check flags
	for i := 0; i < n/2; i++ {
		s := c52GenFlag(h)
		if h.Intn(6) == 0 {
			s = h.c49Num() + h.Pick([]string{"%", "K", "/" + h.c49Num(), ".5%", "e2%"})
		}
		if h.Intn(25) == 0 {
			s = ""
		}
		c49Flags(h, s, h.Intn(10) == 0)
	}

	// ------------------------------------------------------------ through the CLI (cobra/pflag glue)
	if h.Shard == 0 {
		be := mem.New()
		cli := NewCLI(be)
		cli.MustRun("init")
		flagErr := func(res CmdResult) []string {
			switch {
			case res.Panic != "":
				return []string{"panic", HexS(res.Panic)}
			case res.Err == nil:
				return []string{"accept"}
			case strings.Contains(res.Err.Error(), "invalid argument"):
				return []string{"flagerr"}
			}
			return []string{"othererr", HexS(res.Err.Error())}
		}
		nc := 12 * h.NSh
		if h.Thorough() {
			nc = 150
		}
		for i := 0; i < nc; i++ {
			s := h.c49Num() + h.Pick(units)
			if h.Intn(3) == 0 {
				s = h.c49Num() + "d" + h.c49Num() + "h"
			}
			if strings.HasPrefix(s, "-") {
				continue
			}
			h.Case("cli")
			h.Rec("what", "dur")
			h.Rec("in", HexS(s))
			h.Rec("res", flagErr(cli.Run("forget", "--dry-run", "--keep-within", s))...)
			h.End()

			c := h.c49Num()
			if h.Intn(4) == 0 {
				c = h.Pick([]string{"unlimited", "x", "1.5", "+3"})
			}
			h.Case("cli")
			h.Rec("what", "count")
			h.Rec("in", HexS(c))
			h.Rec("res", flagErr(cli.Run("forget", "--dry-run", "--keep-last", c))...)
			h.End()
		}
		for i := 0; i < nc/2; i++ {
			var in, args []string
			for k := 1 + h.Intn(3); k > 0; k-- {
				o := h.Pick([]string{"a", "b", "A"}) + "=" + h.Pick([]string{"1", "2", ""})
				if h.Intn(8) == 0 {
					o = "=" + h.Pick(vals)
				}
				in = append(in, o)
				args = append(args, "-o", o)
			}
			h.Case("cli")
			h.Rec("what", "opts")
			h.Rec("in", HexList(in)...)
			res := cli.Run(append(args, "snapshots")...)
			switch {
			case res.Panic != "":
				h.Rec("res", "panic", HexS(res.Panic))
			case res.Err == nil:
				h.Rec("res", "accept")
			case strings.Contains(res.Err.Error(), "empty key"), strings.Contains(res.Err.Error(), "present more than once"):
				h.Rec("res", "flagerr")
			default:
				h.Rec("res", "othererr", HexS(res.Err.Error()))
			}
			h.End()
		}
	}
}
