//go:build verif

package main

import (
	"bytes"
	"encoding/json"
	"os"
	"sort"
	"strings"

	"github.com/restic/restic/internal/data"
	"github.com/restic/restic/internal/restic"
)

var _ = verifRegister("C53", streamC53)

// c53Mutate derives the second snapshot's level from the first: most nodes stay, some are
// removed, retyped (including directory <-> non-directory), get new content or new metadata,
// and a few new ones appear. Untouched directories keep their subtree id.
func c53Mutate(g *a7Gen, nodes []*a7Node, depth int, rate int) []*a7Node {
	h := g.h
	var out []*a7Node
	used := map[string]bool{}
	for _, n := range nodes {
		used[n.Name] = true
		c := *n
		c.Content, c.Subtree = nil, nil
		switch r := h.Intn(rate); r {
		case 0: // removed
			continue
		case 1: // type change
			var nn *a7Node
			switch {
			case n.Type == data.NodeTypeDir && h.Bool():
				nn = g.file(n.Name)
			case n.Type == data.NodeTypeDir:
				nn = g.special(n.Name)
			case h.Intn(3) != 0 && depth < g.MaxDepth:
				nn = g.dir(n.Name, depth)
			case n.Type == data.NodeTypeFile:
				nn = g.special(n.Name)
			default:
				nn = g.file(n.Name)
			}
			g.fillCommon(nn)
			if h.Bool() { // keep the rest of the metadata where it makes sense
				nn.ModTime, nn.AccessTime, nn.ChangeTime, nn.UID, nn.GID, nn.User = n.ModTime, n.AccessTime, n.ChangeTime, n.UID, n.GID, n.User
			}
			out = append(out, nn)
			continue
		case 2: // new content (and size)
			if n.Type == data.NodeTypeFile {
				c.Parts = g.parts()
				c.Size = 0
				for _, p := range c.Parts {
					c.Size += uint64(len(p))
				}
				if h.Bool() {
					c.ModTime = a7Time(h)
				}
			}
		case 3: // same metadata, different bytes ("bitrot")
			if n.Type == data.NodeTypeFile && len(n.Parts) > 0 {
				i := h.Intn(len(n.Parts))
				if len(n.Parts[i]) > 0 {
					c.Parts = append([][]byte(nil), n.Parts...)
					c.Parts[i] = h.Bytes(len(n.Parts[i]))
				}
			}
		case 5: // same set of blobs, different list: a blob repeated once more, or the order reversed
			if n.Type == data.NodeTypeFile && len(n.Parts) > 0 {
				c.Parts = append([][]byte(nil), n.Parts...)
				if len(c.Parts) >= 2 && !bytes.Equal(c.Parts[0], c.Parts[len(c.Parts)-1]) && h.Bool() {
					for a, b := 0, len(c.Parts)-1; a < b; a, b = a+1, b-1 {
						c.Parts[a], c.Parts[b] = c.Parts[b], c.Parts[a]
					}
				} else {
					c.Parts = append(c.Parts, c.Parts[h.Intn(len(c.Parts))])
				}
				c.Size = 0
				for _, p := range c.Parts {
					c.Size += uint64(len(p))
				}
			}
		case 4: // metadata only
			switch h.Intn(4) {
			case 0:
				c.ModTime = c.ModTime.Add(3600e9)
			case 1:
				c.Mode ^= 0o040
			case 2:
				c.UID += 5
			case 3:
				c.Inode += 100000
			}
		}
		if n.Type == data.NodeTypeDir {
			if h.Intn(3) == 0 {
				c.Kids = a7Copy(n.Kids)
			} else {
				c.Kids = c53Mutate(g, n.Kids, depth+1, rate)
			}
		}
		out = append(out, &c)
	}
	for k := h.Intn(3); k > 0; k-- {
		name := h.Pick(g.Names)
		if used[name] {
			continue
		}
		used[name] = true
		var n *a7Node
		switch r := h.Intn(10); {
		case r < 4 && depth < g.MaxDepth:
			n = g.dir(name, depth)
		case r < 6:
			n = g.special(name)
		default:
			n = g.file(name)
		}
		g.fillCommon(n)
		out = append(out, n)
	}
	sort.Slice(out, func(i, j int) bool { return out[i].Name < out[j].Name })
	return out
}

type c53Line struct {
	MessageType string `json:"message_type"`
	Path        string `json:"path"`
	Modifier    string `json:"modifier"`
	ChangedFiles int   `json:"changed_files"`
	Added       c53Stat `json:"added"`
	Removed     c53Stat `json:"removed"`
}
type c53Stat struct {
	Files, Dirs, Others  int
	DataBlobs            int    `json:"data_blobs"`
	TreeBlobs            int    `json:"tree_blobs"`
	Bytes                uint64 `json:"bytes"`
}

func (s c53Stat) toks() []string {
	return []string{Itoa(s.Files), Itoa(s.Dirs), Itoa(s.Others), Itoa(s.DataBlobs), Itoa(s.TreeBlobs), U64(s.Bytes)}
}

// streamC53: pairs of snapshots (second derived from the first by removals, additions, type,
// content and metadata changes at all depths, or independent, or identical), written directly
// into an in-memory repository; the real `restic diff --json [--metadata] a b` runs through the CLI.
func streamC53(h *H) {
	n := h.N(200, 8000)
	var r *a7Repo
	for i := 0; i < n; i++ {
		if i%40 == 0 {
			r = newA7Repo()
		}
		g := newA7Gen(h)
		g.Specials = true
		g.Hardlinks = h.Intn(4) == 0
		g.MaxDepth = 1 + h.Intn(3)
		g.MaxKids = 2 + h.Intn(5)
		g.Clones = h.Intn(3) != 0
		t1 := g.Tree()
		var t2 []*a7Node
		sub := "derived"
		switch h.Intn(12) {
		case 0:
			t2 = g.Tree()
			sub = "independent"
		case 1:
			t2 = a7Copy(t1)
			sub = "identical"
		default:
			t2 = c53Mutate(g, t1, 0, 6+h.Intn(14))
		}
		id1, tree1 := r.Snapshot(t1)
		id2, tree2 := r.Snapshot(t2)
		a1, a2 := id1.String(), id2.String()
		e1, e2 := t1, t2
		// sometimes compare a subfolder present as directory on both sides
		subfolder := ""
		if h.Intn(8) == 0 {
			for _, x := range t1 {
				for _, y := range t2 {
					if x.Name == y.Name && x.Type == data.NodeTypeDir && y.Type == data.NodeTypeDir && subfolder == "" {
						subfolder = x.Name
						e1, e2, tree1, tree2 = x.Kids, y.Kids, *x.Subtree, *y.Subtree
					}
				}
			}
			if subfolder != "" {
				a1, a2 = a1+":/"+subfolder, a2+":"+subfolder
			}
		}
		metadata := h.Intn(3) == 0

		h.Case(sub)
		h.Rec("opt", B(metadata))
		if subfolder != "" {
			h.Rec("subfolder", HexS(subfolder))
		}
		num := newA7Num()
		h.Rec("root", "1", Itoa(num.ID(tree1)))
		h.Rec("root", "2", Itoa(num.ID(tree2)))
		num.Emit(h, "1", e1, 0)
		num.Emit(h, "2", e2, 0)
		for id, k := range c53SortedIDs(num) {
			_ = id
			for _, t := range []restic.BlobType{restic.DataBlob, restic.TreeBlob} {
				if sz, ok := r.Repo.LookupBlobSize(restic.BlobHandle{Type: t, ID: k.id}); ok {
					h.Rec("bsize", B(t == restic.TreeBlob), Itoa(k.n), Itoa(int(sz)))
				}
			}
		}
		args := []string{"diff", "--json"}
		if metadata {
			args = append(args, "--metadata")
		}
		res := r.CLI.Run(append(args, a1, a2)...)
		switch {
		case res.Panic != "":
			h.Rec("res", "panic", HexS(res.Panic))
		case res.Err != nil:
			h.Rec("res", "err", HexS(res.Err.Error()))
		default:
			h.Rec("res", "ok")
			for _, line := range strings.Split(res.Stdout, "\n") {
				if strings.TrimSpace(line) == "" {
					continue
				}
				var l c53Line
				if err := json.Unmarshal([]byte(line), &l); err != nil {
					h.Rec("garbage", HexS(line))
					continue
				}
				switch l.MessageType {
				case "change":
					h.Rec("ln", HexS(l.Path), HexS(l.Modifier))
				case "statistics":
					h.Rec("st", append(append([]string{Itoa(l.ChangedFiles)}, l.Added.toks()...), l.Removed.toks()...)...)
				}
			}
			if res.Stderr != "" && os.Getenv("RESTIC_VERIF_DEBUG") != "" {
				os.Stderr.WriteString(res.Stderr)
			}
		}
		h.End()
	}
}

type c53ID struct {
	id restic.ID
	n  int
}

func c53SortedIDs(num *a7Num) []c53ID {
	var l []c53ID
	for id, n := range num.ids {
		l = append(l, c53ID{id, n})
	}
	sort.Slice(l, func(i, j int) bool { return l[i].n < l[j].n })
	return l
}
