//go:build verif

package main

import (
	"os"
	"path/filepath"
	"sort"
	"strings"
	"syscall"

	"github.com/restic/restic/internal/backend/mem"
)

var _ = verifRegister("C20", streamC20)

// a5Walk lists everything below dir (relative paths with "/", type f|d|o), sorted.
func a5Walk(dir string) (paths []string, kinds map[string]string) {
	kinds = map[string]string{}
	_ = filepath.Walk(dir, func(p string, fi os.FileInfo, err error) error {
		if err != nil || p == dir {
			return nil
		}
		rel, _ := filepath.Rel(dir, p)
		rel = filepath.ToSlash(rel)
		k := "o"
		if fi.IsDir() {
			k = "d"
		} else if fi.Mode().IsRegular() {
			k = "f"
		}
		paths = append(paths, rel)
		kinds[rel] = k
		return nil
	})
	sort.Strings(paths)
	return
}

// streamC20: real `restic restore` with include / exclude flags (and --delete into pre-populated
// targets) on small generated snapshots; the set of paths in the target afterwards is recorded.
func streamC20(h *H) {
	ntrees := h.N(40, 240)
	perTree := 5
	stale := []string{"xold", "a", "b", "c", "y.txt", "Ab", "stale", "X.TXT"}
	for t := 0; t < ntrees; t++ {
		tree := a5GenTree(h, 0, 5)
		if len(tree) == 0 {
			continue
		}
		cli := NewCLI(mem.New())
		snap := a5Backup(cli, tree)
		if h.Intn(2) == 0 { // snapshots that contain socket nodes
			snap, _ = a5GraftSockets(h, cli, snap)
		}
		orig := a5Ls(cli, snap)
		kindOf := map[string]string{}
		var snapDirs = []string{""}
		for _, e := range orig {
			rel := strings.TrimPrefix(e.Path, "/")
			kindOf[rel] = e.Type
			if e.Type == "d" {
				snapDirs = append(snapDirs, rel)
			}
		}
		var paths []string
		a5Paths("", tree, &paths)
		for k := 0; k < perTree; k++ {
			var fl a5Flags
			switch r := h.Intn(20); {
			case r == 0: // no filter
			case r == 1: // both kinds: must be refused
				fl = a5GenFlags(h, paths, true)
				o := a5GenFlags(h, paths, false)
				fl.Ex, fl.IEx = o.Ex, o.IEx
			case r == 2 || r == 3: // a case-insensitive pattern file only: a snapshot path with swapped case
				p := "/" + h.Pick(paths)
				if up := strings.ToUpper(p); up != p {
					p = up
				} else {
					p = strings.ToLower(p)
				}
				if h.Intn(3) == 0 {
					p = p[1:] // relative
				}
				if r == 2 {
					fl.IInFile = [][]string{{"# insensitive includes", p}}
				} else {
					fl.IExFile = [][]string{{p, ""}}
				}
			case r < 11:
				fl = a5GenFlags(h, paths, true)
			default:
				fl = a5GenFlags(h, paths, false)
			}
			if h.Intn(3) == 0 { // part of the patterns through --exclude-file / --iinclude-file …
				fl = fl.ToFiles(h)
			}
			del := h.Intn(2) == 0
			// patterns aimed at stale (non-snapshot) entries of the target
			if del && h.Intn(3) == 0 {
				sp := h.Pick(stale)
				if h.Intn(2) == 0 {
					if d := h.Pick(snapDirs); d != "" {
						sp = "/" + d + "/" + sp
					}
				}
				switch {
				case len(fl.In) > 0:
					fl.In[h.Intn(len(fl.In))] = sp
				case len(fl.Ex) > 0:
					fl.Ex[h.Intn(len(fl.Ex))] = sp
				}
			}
			target := MkTemp("a5tgt-")
			// pre-populate the target (only with --delete; otherwise the target starts empty)
			if del {
				for i, n := 0, h.Intn(5); i < n; i++ {
					d := h.Pick(snapDirs)
					name := h.Pick(stale)
					rel := name
					if d != "" {
						rel = d + "/" + name
					}
					if _, inSnap := kindOf[rel]; inSnap {
						continue
					}
					_ = os.MkdirAll(filepath.Join(target, filepath.FromSlash(d)), 0o755)
					full := filepath.Join(target, filepath.FromSlash(rel))
					if _, err := os.Lstat(full); err == nil {
						continue
					}
					if h.Intn(3) == 0 {
						_ = os.Mkdir(full, 0o755)
						_ = os.WriteFile(filepath.Join(full, h.Pick(stale)), []byte("old"), 0o644)
					} else {
						_ = os.WriteFile(full, []byte("old"), 0o644)
					}
				}
				// sometimes older copies of snapshot items of the same kind
				for _, e := range orig {
					rel := strings.TrimPrefix(e.Path, "/")
					if e.Type == "s" {
						// in-place restore: the socket (or whatever bears its name) is already there
						if h.Intn(3) == 0 {
							continue
						}
					} else if h.Intn(6) != 0 || e.Type == "o" {
						continue
					}
					full := filepath.Join(target, filepath.FromSlash(rel))
					parent := filepath.Dir(full)
					if fi, err := os.Lstat(parent); err != nil || !fi.IsDir() {
						if os.MkdirAll(parent, 0o755) != nil {
							continue
						}
					}
					if _, err := os.Lstat(full); err == nil {
						continue
					}
					if e.Type == "d" {
						_ = os.Mkdir(full, 0o755)
					} else if e.Type == "s" && h.Intn(2) == 0 {
						_ = syscall.Mknod(full, syscall.S_IFSOCK|0o644, 0)
					} else {
						_ = os.WriteFile(full, []byte("previous content"), 0o644)
					}
				}
			}
			pre, preKinds := a5Walk(target)

			h.Case("restore")
			for _, e := range orig {
				h.Rec("node", HexS(e.Path), e.Type, U64(e.Size))
			}
			fl.Rec(h)
			h.Rec("delete", B(del))
			var comps []string
			for _, e := range orig {
				for _, c := range strings.Split(e.Path, "/") {
					comps = append(comps, c, strings.ToLower(c))
				}
			}
			for _, p := range pre {
				h.Rec("pre", HexS("/"+p), preKinds[p])
				for _, c := range strings.Split(p, "/") {
					comps = append(comps, c, strings.ToLower(c))
				}
			}
			a5Oracle(h, fl.Raw(), comps)
			pdir := MkTemp("a5pat-")
			args := []string{"restore", snap, "--target", target}
			if del {
				args = append(args, "--delete")
			}
			args = append(args, fl.Args(pdir)...)
			r := cli.Run(args...)
			switch {
			case r.Panic != "":
				h.Rec("res", "panic")
			case r.Err != nil:
				h.Rec("res", "fatal", HexS(r.Err.Error()))
			default:
				h.Rec("res", "ok")
				after, kinds := a5Walk(target)
				for _, p := range after {
					h.Rec("tgt", HexS("/"+p), kinds[p])
				}
			}
			h.End()
			_ = os.RemoveAll(target)
			_ = os.RemoveAll(pdir)
		}
	}
}
