//go:build verif

package main

// Shared kit of the C45 / C53 / C54 streams: snapshot trees are generated as plain Go values
// (data.Node by hand: specials, hard links, multi-blob and repeated-blob files are cheap), written
// straight into an in-memory repository (SaveBlob + TreeWriter + SaveSnapshot) and described on
// the wire as pre-order node records with depth (lean/Driver/TreeWire.lean).

import (
	"context"
	"encoding/json"
	"os"
	"sort"
	"strconv"
	"strings"
	"time"

	"github.com/restic/restic/internal/backend/mem"
	"github.com/restic/restic/internal/data"
	"github.com/restic/restic/internal/repository"
	"github.com/restic/restic/internal/restic"
)

type a7Node struct {
	data.Node
	Kids  []*a7Node
	Parts [][]byte // regular files: the blobs of the content, in order
}

// a7Gen generates trees. All randomness comes from h.
type a7Gen struct {
	h         *H
	Specials  bool // fifo / dev / chardev / socket / irregular nodes
	Hardlinks bool // groups of regular files with links > 1 and a common (inode, device)
	NoInodes  bool // Windows-style snapshot: no node has a link count, an inode or a device id
	Clones    bool // some directories get the same children as an earlier directory of the run (same tree blob, as after `cp -al`)
	Weird     bool // metadata the archiver never writes (sizes on non-files, links=0 with inode, shared keys, unknown / empty type)
	MaxDepth  int
	MaxKids   int
	Names     []string
	pool      [][]byte
	nextIno   uint64
	groups    []*a7Node // templates of hard-link groups of the current tree
	dirPool   []*a7Node // non-empty directories generated so far (for Clones)
}

var a7DefaultNames = []string{"a", "b", "c", "d", "e", "f.txt", "dir", "sub", "x y", "zz", "ü", "A", "-", "a.b", "lnk", "0"}

func newA7Gen(h *H) *a7Gen {
	g := &a7Gen{h: h, MaxDepth: 3, MaxKids: 5, Names: a7DefaultNames, nextIno: 1000}
	for i := 0; i < 6; i++ {
		g.pool = append(g.pool, h.Bytes(1+h.Intn(40)))
	}
	g.pool = append(g.pool, []byte{}) // an empty blob is a legal blob
	return g
}

func (g *a7Gen) ino() uint64 { g.nextIno++; return g.nextIno }

func (g *a7Gen) parts() [][]byte {
	var p [][]byte
	switch g.h.Intn(6) {
	case 0: // empty file
	case 1: // repeated blob
		b := g.pool[g.h.Intn(len(g.pool))]
		p = [][]byte{b, b}
		if g.h.Bool() {
			p = append(p, g.h.Bytes(1+g.h.Intn(20)), b)
		}
	default:
		n := 1 + g.h.Intn(3)
		for i := 0; i < n; i++ {
			if g.h.Intn(3) == 0 {
				p = append(p, g.pool[g.h.Intn(len(g.pool))])
			} else {
				p = append(p, g.h.Bytes(1+g.h.Intn(30)))
			}
		}
	}
	return p
}

func a7Time(h *H) time.Time { return time.Unix(1600000000+int64(h.Intn(4))*86400, 0).UTC() }

func (g *a7Gen) file(name string) *a7Node {
	h := g.h
	n := &a7Node{}
	n.Name, n.Type = name, data.NodeTypeFile
	n.Mode = os.FileMode(0o600 | h.Intn(0o200))
	switch h.Intn(12) {
	case 0:
		n.Mode |= os.ModeSetuid
	case 1:
		n.Mode |= os.ModeSetgid
	case 2:
		n.Mode |= os.ModeSticky
	}
	n.Links, n.Inode = 1, g.ino()
	if g.Hardlinks && h.Intn(3) == 0 {
		if len(g.groups) > 0 && h.Bool() {
			t := g.groups[h.Intn(len(g.groups))]
			n.Parts, n.Links, n.Inode, n.DeviceID, n.Mode = t.Parts, t.Links, t.Inode, t.DeviceID, t.Mode
		} else {
			n.Parts = g.parts()
			n.Links, n.DeviceID = uint64(2+h.Intn(2)), uint64(1+h.Intn(2))
			if h.Intn(4) == 0 { // same inode number on another device: a different file
				n.Inode = 101
			}
			g.groups = append(g.groups, n)
		}
	} else {
		n.Parts = g.parts()
		if h.Intn(10) == 0 { // Windows / stdin style: neither links nor inode
			n.Links, n.Inode = 0, 0
		}
	}
	for _, p := range n.Parts {
		n.Size += uint64(len(p))
	}
	if g.Weird {
		switch h.Intn(8) {
		case 0:
			n.Links, n.Inode = 0, uint64(7+h.Intn(2)) // no link count but an inode
		case 1:
			n.Links, n.Inode, n.DeviceID = 2, 0, uint64(h.Intn(2)) // several links, no inode
		case 2:
			n.Links, n.Inode, n.DeviceID = 2, 9, 1 // key shared with weird specials below
		}
	}
	return n
}

func (g *a7Gen) special(name string) *a7Node {
	h := g.h
	n := &a7Node{}
	n.Name = name
	n.Mode = os.FileMode(0o644)
	n.Inode = g.ino()
	kinds := []data.NodeType{data.NodeTypeSymlink, data.NodeTypeSymlink}
	if g.Specials {
		kinds = append(kinds, data.NodeTypeFifo, data.NodeTypeDev, data.NodeTypeCharDev, data.NodeTypeSocket, data.NodeTypeIrregular)
	}
	n.Type = kinds[h.Intn(len(kinds))]
	switch n.Type {
	case data.NodeTypeSymlink:
		n.LinkTarget = h.Pick([]string{"a", "../x", "/etc/passwd", "dir/sub", "tärget"})
		n.Links = 1
		n.Mode = os.ModeSymlink | 0o777
		if h.Intn(5) == 0 {
			n.Links, n.DeviceID = 2, 1
		}
	case data.NodeTypeDev, data.NodeTypeCharDev:
		n.Device = uint64(h.Intn(1000))
		n.Links = 1
		n.Mode |= os.ModeDevice
		if n.Type == data.NodeTypeCharDev {
			n.Mode |= os.ModeCharDevice
		}
	default:
		// fifo, socket, irregular: the archiver stores no link count and keeps the device id
		n.DeviceID = uint64(1 + h.Intn(2))
		switch n.Type {
		case data.NodeTypeFifo:
			n.Mode |= os.ModeNamedPipe
		case data.NodeTypeSocket:
			n.Mode |= os.ModeSocket
		case data.NodeTypeIrregular:
			n.Mode |= os.ModeIrregular
		}
	}
	if g.Weird {
		switch h.Intn(6) {
		case 0:
			n.Size = uint64(1 + h.Intn(9)) // a size on a non-file
		case 1:
			n.Links, n.Inode, n.DeviceID = 0, 9, 1 // (inode, device) of a weird hard-linked file
		case 2:
			n.Type = "weird-type"
		case 3:
			n.Type = data.NodeTypeInvalid
		}
	}
	return n
}

func (g *a7Gen) dir(name string, depth int) *a7Node {
	n := &a7Node{}
	n.Name, n.Type = name, data.NodeTypeDir
	n.Mode = os.ModeDir | os.FileMode(0o700|g.h.Intn(0o100))
	if g.h.Intn(10) == 0 {
		n.Mode |= os.ModeSticky
	}
	n.Inode = g.ino()
	if g.Clones && len(g.dirPool) > 0 && g.h.Intn(2) == 0 {
		n.Kids = a7Copy(g.dirPool[g.h.Intn(len(g.dirPool))].Kids)
	} else {
		n.Kids = g.level(depth + 1)
	}
	if g.Clones && len(n.Kids) > 0 {
		g.dirPool = append(g.dirPool, n)
	}
	if g.Weird && g.h.Intn(8) == 0 {
		n.Size = 4096
	}
	return n
}

func (g *a7Gen) fillCommon(n *a7Node) {
	h := g.h
	n.ModTime, n.AccessTime, n.ChangeTime = a7Time(h), a7Time(h), a7Time(h)
	n.UID, n.GID = uint32(h.Intn(3)), uint32(h.Intn(2))
	n.User = h.Pick([]string{"", "root", "user"})
}

// level generates the nodes of one directory, sorted by name (as every tree blob is).
func (g *a7Gen) level(depth int) []*a7Node {
	h := g.h
	k := h.Intn(g.MaxKids + 1)
	if depth == 0 && k == 0 && h.Intn(4) != 0 {
		k = 1 + h.Intn(g.MaxKids)
	}
	seen := map[string]bool{}
	var out []*a7Node
	for i := 0; i < k; i++ {
		name := h.Pick(g.Names)
		if seen[name] {
			continue
		}
		seen[name] = true
		var n *a7Node
		switch r := h.Intn(10); {
		case r < 3 && depth < g.MaxDepth:
			n = g.dir(name, depth)
		case r < 5:
			n = g.special(name)
		default:
			n = g.file(name)
		}
		g.fillCommon(n)
		if g.NoInodes {
			n.Links, n.Inode, n.DeviceID = 0, 0, 0
		}
		out = append(out, n)
	}
	sort.Slice(out, func(i, j int) bool { return out[i].Name < out[j].Name })
	return out
}

// Tree generates one snapshot tree (hard-link groups do not span trees).
func (g *a7Gen) Tree() []*a7Node {
	g.groups = nil
	return g.level(0)
}

// --- repository ----------------------------------------------------------------------------

type a7Repo struct {
	Be   *mem.MemoryBackend
	CLI  *CLI
	Repo *repository.Repository
	seq  int
}

func newA7Repo() *a7Repo {
	be := mem.New()
	cli := NewCLI(be)
	cli.MustRun("init")
	r := &a7Repo{Be: be, CLI: cli}
	r.Repo = cli.OpenRepo()
	return r
}

func a7SaveLevel(ctx context.Context, up restic.BlobSaver, nodes []*a7Node) restic.ID {
	tw := data.NewTreeWriter(up)
	for _, n := range nodes {
		if n.Type == data.NodeTypeDir {
			id := a7SaveLevel(ctx, up, n.Kids)
			n.Subtree = &id
		}
		if n.Type == data.NodeTypeFile {
			n.Content = restic.IDs{}
			for _, p := range n.Parts {
				id, _, _, err := up.SaveBlob(ctx, restic.DataBlob, p, restic.ID{}, false)
				if err != nil {
					panic(err)
				}
				n.Content = append(n.Content, id)
			}
		}
		if err := tw.AddNode(&n.Node); err != nil {
			panic(err)
		}
	}
	id, err := tw.Finalize(ctx)
	if err != nil {
		panic(err)
	}
	return id
}

// Snapshot stores the tree and a snapshot pointing to it; returns the snapshot id.
func (r *a7Repo) Snapshot(nodes []*a7Node) (restic.ID, restic.ID) {
	var tree restic.ID
	err := r.Repo.WithBlobUploader(context.Background(), func(ctx context.Context, up restic.BlobSaverWithAsync) error {
		tree = a7SaveLevel(ctx, up, nodes)
		return nil
	})
	if err != nil {
		panic(err)
	}
	r.seq++
	sn, err := data.NewSnapshot([]string{"/data"}, nil, "host"+strconv.Itoa(r.seq), time.Unix(1700000000+int64(r.seq), 0))
	if err != nil {
		panic(err)
	}
	sn.Tree = &tree
	id, err := data.SaveSnapshot(context.Background(), r.Repo, sn)
	if err != nil {
		panic(err)
	}
	return id, tree
}

// --- wire ----------------------------------------------------------------------------------

// a7Num numbers blob / tree ids and metadata classes by first occurrence within a case.
type a7Num struct {
	ids    map[restic.ID]int
	others map[string]int
}

func newA7Num() *a7Num { return &a7Num{ids: map[restic.ID]int{}, others: map[string]int{}} }

func (m *a7Num) ID(id restic.ID) int {
	if v, ok := m.ids[id]; ok {
		return v
	}
	v := len(m.ids) + 1
	m.ids[id] = v
	return v
}

// other: class of the metadata that Node.Equals compares and the model does not carry itself
func (m *a7Num) Other(n *data.Node) int {
	b, _ := json.Marshal([]any{n.ModTime, n.AccessTime, n.ChangeTime, n.UID, n.GID, n.User, n.Group, n.Device, n.ExtendedAttributes, n.GenericAttributes})
	if v, ok := m.others[string(b)]; ok {
		return v
	}
	v := len(m.others) + 1
	m.others[string(b)] = v
	return v
}

func a7TypeTok(t data.NodeType) string {
	switch t {
	case data.NodeTypeFile, data.NodeTypeDir, data.NodeTypeSymlink, data.NodeTypeDev, data.NodeTypeCharDev,
		data.NodeTypeFifo, data.NodeTypeSocket, data.NodeTypeIrregular:
		return string(t)
	case data.NodeTypeInvalid:
		return "invalid"
	}
	return "other"
}

// Emit writes the `n` records of a tree (after it was saved, so that Content / Subtree are set).
func (m *a7Num) Emit(h *H, key string, nodes []*a7Node, depth int) {
	for _, n := range nodes {
		sub := 0
		if n.Subtree != nil {
			sub = m.ID(*n.Subtree)
		}
		var c []string
		for _, id := range n.Content {
			c = append(c, Itoa(m.ID(id)))
		}
		h.Rec("n", key, Itoa(depth), a7TypeTok(n.Type), HexS(n.Name), U64(uint64(n.Mode)), U64(n.Size), U64(n.Links),
			U64(n.Inode), U64(n.DeviceID), Itoa(sub), Itoa(m.Other(&n.Node)), HexS(n.LinkTarget), strings.Join(c, ","))
		if n.Type == data.NodeTypeDir {
			m.Emit(h, key, n.Kids, depth+1)
		}
	}
}

func a7Copy(nodes []*a7Node) []*a7Node {
	var out []*a7Node
	for _, n := range nodes {
		c := *n
		c.Content, c.Subtree = nil, nil
		c.Kids = a7Copy(n.Kids)
		out = append(out, &c)
	}
	return out
}

func a7Count(nodes []*a7Node) int {
	c := 0
	for _, n := range nodes {
		c += 1 + a7Count(n.Kids)
	}
	return c
}
