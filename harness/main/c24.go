//go:build verif

package main

// C24: snapshot filters, grouping and 'latest'. Runs the real FindAll / FindLatest /
// GroupSnapshots (direct calls for volume, `restic snapshots --json` for the flag path) on
// generated snapshot sets saved in an in-memory repository.
//
// Records (see lean/Driver/C24.lean):
//   sn <idx> <sec> <nsec> <host>      snp <idx> <path>*      snt <idx> <tag>*
//   fh <host>*   ft <tag>* (one per tag list)   fp <path>*   fpc <cleaned path>*   lim none|<sec> <nsec>
//   arg latest|latestsub|unknown|id <idx> <sub 0/1>
//   gb <tag 0/1> <host 0/1> <path 0/1>
//   sel <idx>*  |  latest none|<idx>  |  evs <snap:idx|err:kind>*  |  grp <idx>* (one per group)
//   grpset <idx>* (one per group, members sorted)  |  res panic|error <msg>

import (
	"context"
	"encoding/json"
	"errors"
	"fmt"
	"path/filepath"
	"sort"
	"strings"
	"time"

	"github.com/restic/restic/internal/data"
	"github.com/restic/restic/internal/repository"
	"github.com/restic/restic/internal/restic"
)

var _ = verifRegister("C24", streamC24)

type c24Snap struct {
	idx   int
	t     time.Time
	host  string
	paths []string
	tags  []string
	id    restic.ID
}

var (
	c24Hosts     = []string{"h1", "h2", "H1", "h1 ", ""}
	c24Tags      = []string{"a", "b", "c", "a b"}
	c24Paths     = []string{"/a", "/b", "/a/b", "/c d", "/"}
	c24RawPaths  = []string{"/a", "/b", "/a/b", "/a/", "/a/../b", "/a//b", "/b/.", "rel", "/", "/c d/"}
	c24BaseEpoch = int64(1700000000)
)

func (h *H) c24Time(distinct bool, i int) time.Time {
	if distinct {
		return time.Unix(c24BaseEpoch+int64(i)*3600+int64(h.Intn(3000)), int64(h.Intn(1000)))
	}
	nsec := []int64{0, 0, 0, 0, 1, 999999999}[h.Intn(6)]
	return time.Unix(c24BaseEpoch+int64(h.Intn(3))*3600, nsec)
}

func (h *H) c24Subset(alpha []string, max int, dup bool) []string {
	n := h.Intn(max + 1)
	var l []string
	for i := 0; i < n; i++ {
		l = append(l, h.Pick(alpha))
	}
	if !dup {
		seen := map[string]bool{}
		var r []string
		for _, s := range l {
			if !seen[s] {
				seen[s] = true
				r = append(r, s)
			}
		}
		l = r
	}
	return l
}

// c24GenSnaps generates n snapshots; profile: a few "shapes" are reused so that overlapping
// hosts/paths/tags (also in different order) are frequent.
func (h *H) c24GenSnaps(n int, distinctTimes bool) []*c24Snap {
	var l []*c24Snap
	for i := 0; i < n; i++ {
		s := &c24Snap{idx: i, t: h.c24Time(distinctTimes, i)}
		if i > 0 && h.Intn(3) == 0 { // permuted copy of an earlier shape
			o := l[h.Intn(i)]
			s.host = o.host
			s.paths = append([]string(nil), o.paths...)
			s.tags = append([]string(nil), o.tags...)
			h.Rng.Shuffle(len(s.paths), func(a, b int) { s.paths[a], s.paths[b] = s.paths[b], s.paths[a] })
			h.Rng.Shuffle(len(s.tags), func(a, b int) { s.tags[a], s.tags[b] = s.tags[b], s.tags[a] })
			if h.Intn(3) == 0 && len(s.tags) > 0 {
				s.tags = s.tags[1:]
			}
		} else {
			s.host = h.Pick(c24Hosts[:4])
			if h.Intn(12) == 0 {
				s.host = ""
			}
			s.paths = h.c24Subset(c24Paths, 3, false)
			if len(s.paths) == 0 {
				s.paths = []string{h.Pick(c24Paths)}
			}
			s.tags = h.c24Subset(c24Tags, 3, h.Intn(6) == 0)
		}
		l = append(l, s)
	}
	return l
}

// c24Repeat returns l with one or two of its entries repeated at random positions (an option
// given twice on the command line, backup targets that normalise to the same path, …).
func (h *H) c24Repeat(l []string) []string {
	if len(l) == 0 {
		return l
	}
	n := 1 + h.Intn(2)
	for i := 0; i < n; i++ {
		e := l[h.Intn(len(l))]
		p := h.Intn(len(l) + 1)
		l = append(l[:p:p], append([]string{e}, l[p:]...)...)
	}
	return l
}

func (h *H) c24Filter(rawPaths bool) *data.SnapshotFilter {
	f := h.c24FilterNoDup(rawPaths)
	// a fixed share of the filters repeats entries in every list: hosts, paths, whole tag lists
	// and tags inside a tag list
	if h.Intn(4) == 0 {
		f.Hosts = h.c24Repeat(f.Hosts)
		f.Paths = h.c24Repeat(f.Paths)
		if rawPaths && len(f.Paths) > 0 && h.Intn(2) == 0 {
			// the same path in another spelling (equal after filepath.Clean)
			f.Paths = append(f.Paths, f.Paths[h.Intn(len(f.Paths))]+"/.")
		}
		for i := range f.Tags {
			if h.Intn(2) == 0 {
				f.Tags[i] = data.TagList(h.c24Repeat([]string(f.Tags[i])))
			}
		}
		if len(f.Tags) > 0 && h.Intn(2) == 0 {
			f.Tags = append(f.Tags, append(data.TagList(nil), f.Tags[h.Intn(len(f.Tags))]...))
		}
	}
	return f
}

func (h *H) c24FilterNoDup(rawPaths bool) *data.SnapshotFilter {
	f := &data.SnapshotFilter{}
	if h.Intn(3) == 0 {
		f.Hosts = h.c24Subset(c24Hosts, 2, false)
	}
	if h.Intn(5) < 3 {
		n := 1 + h.Intn(2)
		for i := 0; i < n; i++ {
			var tl data.TagList
			switch h.Intn(16) {
			case 0, 3:
				tl = data.TagList{""}
			case 1, 4: // mixed: "" together with other tags, any position
				tl = data.TagList(h.c24Subset(c24Tags, 2, false))
				p := h.Intn(len(tl) + 1)
				tl = append(tl[:p:p], append(data.TagList{""}, tl[p:]...)...)
			case 2:
				tl = data.TagList{}
			default:
				tl = data.TagList(h.c24Subset(c24Tags, 2, h.Intn(8) == 0))
				if len(tl) == 0 {
					tl = data.TagList{h.Pick(c24Tags)}
				}
			}
			f.Tags = append(f.Tags, tl)
		}
	}
	if h.Intn(2) == 0 {
		if rawPaths {
			f.Paths = h.c24Subset(c24RawPaths, 1+h.Intn(2), false)
		} else {
			f.Paths = h.c24Subset(c24Paths, 2, false)
		}
	}
	return f
}

func c24Save(repo *repository.Repository, l []*c24Snap) map[restic.ID]int {
	byID := map[restic.ID]int{}
	for _, s := range l {
		tree := restic.Hash([]byte(fmt.Sprintf("c24-tree-%d", s.idx)))
		sn := &data.Snapshot{Time: s.t, Hostname: s.host, Paths: append([]string(nil), s.paths...), Tree: &tree}
		if len(s.tags) > 0 {
			sn.Tags = append([]string(nil), s.tags...)
		}
		id, err := data.SaveSnapshot(context.Background(), repo, sn)
		if err != nil {
			panic(err)
		}
		s.id = id
		byID[id] = s.idx
	}
	return byID
}

func (h *H) c24RecSnaps(l []*c24Snap) {
	for _, s := range l {
		h.Rec("sn", Itoa(s.idx), I64(s.t.Unix()), Itoa(s.t.Nanosecond()), HexS(s.host))
		h.Rec("snp", append([]string{Itoa(s.idx)}, HexList(s.paths)...)...)
		h.Rec("snt", append([]string{Itoa(s.idx)}, HexList(s.tags)...)...)
	}
}

func (h *H) c24RecFilter(f *data.SnapshotFilter) {
	h.Rec("fh", HexList(f.Hosts)...)
	for _, tl := range f.Tags {
		h.Rec("ft", HexList(tl)...)
	}
	h.Rec("fp", HexList(f.Paths)...)
	if f.TimestampLimit.IsZero() {
		h.Rec("lim", "none")
	} else {
		h.Rec("lim", I64(f.TimestampLimit.Unix()), Itoa(f.TimestampLimit.Nanosecond()))
	}
}

func c24IdxList(l []int) []string {
	r := make([]string, len(l))
	for i, v := range l {
		r[i] = Itoa(v)
	}
	return r
}

func c24ErrKind(err error) string {
	switch {
	case errors.Is(err, data.ErrInvalidSnapshotSyntax):
		return "syntax"
	case strings.HasPrefix(err.Error(), "no snapshot matched given filter"):
		return "nomatch"
	case strings.Contains(err.Error(), "explicit snapshot ids are given"):
		return "filters"
	default:
		return "notfound"
	}
}

func streamC24(h *H) {
	ctx := context.Background()
	n := h.N(420, 24000)
	var repo *repository.Repository
	var cli *CLI
	fresh := func() {
		r, be := NewRepo(0, repository.Options{})
		repo = r
		cli = NewCLI(be)
	}
	fresh()
	wipe := func() {
		var ids []restic.ID
		_ = repo.List(ctx, restic.SnapshotFile, func(id restic.ID, _ int64) error { ids = append(ids, id); return nil })
		for _, id := range ids {
			if err := cli.Be.Remove(ctx, backendHandle(restic.SnapshotFile, id)); err != nil {
				panic(err)
			}
		}
	}
	for i := 0; i < n; i++ {
		if i%300 == 299 {
			fresh()
		}
		kind := []string{"filter", "filter", "latest", "latest", "ids", "group", "group", "cli"}[h.Intn(8)]
		switch kind {
		case "filter":
			wipe()
			snaps := h.c24GenSnaps(1+h.Intn(7), false)
			byID := c24Save(repo, snaps)
			f := h.c24Filter(false)
			h.Case("filter")
			h.c24RecSnaps(snaps)
			h.c24RecFilter(f)
			var sel []int
			var ferr error
			panicked, msg := Protect(func() {
				ferr = f.FindAll(ctx, repo, repo, nil, func(id string, sn *data.Snapshot, err error) error {
					if err != nil {
						return err
					}
					sel = append(sel, byID[*sn.ID()])
					return nil
				})
			})
			if panicked {
				h.Rec("res", "panic", HexS(msg))
			} else if ferr != nil {
				h.Rec("res", "error", HexS(ferr.Error()))
			} else {
				sort.Ints(sel)
				h.Rec("sel", c24IdxList(sel)...)
			}
			h.End()

		case "latest":
			wipe()
			snaps := h.c24GenSnaps(h.Intn(7), false)
			byID := c24Save(repo, snaps)
			f := h.c24Filter(true)
			if h.Intn(2) == 0 {
				f.TimestampLimit = h.c24Time(false, 0)
				if h.Intn(4) == 0 {
					f.TimestampLimit = f.TimestampLimit.Add(-time.Nanosecond)
				}
			}
			h.Case("latest")
			h.c24RecSnaps(snaps)
			h.c24RecFilter(f)
			// oracle: filepath.Abs + Clean of the filter paths (what findLatest does first)
			var cleaned []string
			for _, p := range f.Paths {
				if !filepath.IsAbs(p) {
					p, _ = filepath.Abs(p)
				}
				cleaned = append(cleaned, filepath.Clean(p))
			}
			h.Rec("fpc", HexList(cleaned)...)
			var sn *data.Snapshot
			var ferr error
			panicked, msg := Protect(func() {
				sn, _, ferr = f.FindLatest(ctx, repo, repo, "latest")
			})
			switch {
			case panicked:
				h.Rec("res", "panic", HexS(msg))
			case errors.Is(ferr, data.ErrNoSnapshotFound):
				h.Rec("latest", "none")
			case ferr != nil:
				h.Rec("res", "error", HexS(ferr.Error()))
			default:
				h.Rec("latest", Itoa(byID[*sn.ID()]))
			}
			h.End()

		case "ids":
			wipe()
			snaps := h.c24GenSnaps(1+h.Intn(5), true)
			byID := c24Save(repo, snaps)
			f := h.c24Filter(false)
			if h.Intn(3) == 0 {
				f = &data.SnapshotFilter{}
			}
			var args []string
			h.Case("ids")
			h.c24RecSnaps(snaps)
			h.c24RecFilter(f)
			h.Rec("fpc", HexList(f.Paths)...)
			na := 1 + h.Intn(4)
			for j := 0; j < na; j++ {
				switch h.Intn(9) {
				case 0, 1:
					args = append(args, "latest")
					h.Rec("arg", "latest")
				case 2:
					args = append(args, "latest:sub")
					h.Rec("arg", "latestsub")
				case 3:
					args = append(args, restic.Hash(h.Bytes(8)).String())
					h.Rec("arg", "unknown")
				case 4:
					s := snaps[h.Intn(len(snaps))]
					args = append(args, s.id.String()+":/sub")
					h.Rec("arg", "id", Itoa(s.idx), "1")
				case 5: // unique prefix (ids are 256-bit hashes; 12 hex digits collide with negligible probability)
					s := snaps[h.Intn(len(snaps))]
					args = append(args, s.id.String()[:12])
					h.Rec("arg", "id", Itoa(s.idx), "0")
				default:
					s := snaps[h.Intn(len(snaps))]
					args = append(args, s.id.String())
					h.Rec("arg", "id", Itoa(s.idx), "0")
				}
			}
			var evs []string
			var ferr error
			panicked, msg := Protect(func() {
				ferr = f.FindAll(ctx, repo, repo, args, func(id string, sn *data.Snapshot, err error) error {
					if err != nil {
						evs = append(evs, "err:"+c24ErrKind(err))
					} else {
						evs = append(evs, "snap:"+Itoa(byID[*sn.ID()]))
					}
					return nil
				})
			})
			switch {
			case panicked:
				h.Rec("res", "panic", HexS(msg))
			case ferr != nil:
				h.Rec("res", "error", HexS(ferr.Error()))
			default:
				h.Rec("evs", evs...)
			}
			h.End()

		case "group":
			snaps := h.c24GenSnaps(h.Intn(9), false)
			gb := data.SnapshotGroupByOptions{Tag: h.Bool(), Host: h.Bool(), Path: h.Bool()}
			if h.Intn(10) == 0 {
				gb = data.SnapshotGroupByOptions{}
			}
			var list data.Snapshots
			idxOf := map[*data.Snapshot]int{}
			for _, s := range snaps {
				sn := &data.Snapshot{Time: s.t, Hostname: s.host, Paths: append([]string(nil), s.paths...)}
				if len(s.tags) > 0 {
					sn.Tags = append([]string(nil), s.tags...)
				}
				idxOf[sn] = s.idx
				list = append(list, sn)
			}
			h.Case("group")
			h.c24RecSnaps(snaps)
			h.Rec("gb", B(gb.Tag), B(gb.Host), B(gb.Path))
			var groups map[string]data.Snapshots
			var gerr error
			panicked, msg := Protect(func() { groups, _, gerr = data.GroupSnapshots(list, gb) })
			switch {
			case panicked:
				h.Rec("res", "panic", HexS(msg))
			case gerr != nil:
				h.Rec("res", "error", HexS(gerr.Error()))
			default:
				var gl [][]int
				for _, g := range groups {
					var m []int
					for _, sn := range g {
						m = append(m, idxOf[sn])
					}
					gl = append(gl, m)
				}
				sort.Slice(gl, func(a, b int) bool { return gl[a][0] < gl[b][0] })
				for _, m := range gl {
					h.Rec("grp", c24IdxList(m)...)
				}
				h.Rec("ngrp", Itoa(len(gl)))
			}
			h.End()

		case "cli":
			wipe()
			snaps := h.c24GenSnaps(1+h.Intn(6), false)
			byID := c24Save(repo, snaps)
			f := h.c24Filter(false)
			// the flag parser cannot express an empty tag list, and --host "" alone means "all hosts"
			var tl data.TagLists
			for _, l := range f.Tags {
				if len(l) > 0 {
					tl = append(tl, l)
				}
			}
			f.Tags = tl
			if len(f.Hosts) == 1 && f.Hosts[0] == "" {
				f.Hosts = nil
			}
			args := []string{"snapshots", "--json"}
			for _, x := range f.Hosts {
				args = append(args, "--host", x)
			}
			for _, l := range f.Tags {
				args = append(args, "--tag", strings.Join(l, ","))
			}
			for _, p := range f.Paths {
				args = append(args, "--path", p)
			}
			grouped := h.Intn(2) == 0
			gb := data.SnapshotGroupByOptions{}
			if grouped {
				gb = data.SnapshotGroupByOptions{Tag: h.Bool(), Host: h.Bool(), Path: h.Bool()}
				if !gb.Tag && !gb.Host && !gb.Path {
					gb.Host = true
				}
				args = append(args, "--group-by", gb.String())
			}
			// tags are trimmed by the flag parser: record what it will produce
			for i, l := range f.Tags {
				for j, t := range l {
					f.Tags[i][j] = strings.TrimSpace(t)
				}
			}
			h.Case("cli")
			h.c24RecSnaps(snaps)
			h.c24RecFilter(f)
			h.Rec("gb", B(gb.Tag), B(gb.Host), B(gb.Path))
			h.Rec("cmd", HexS(strings.Join(args, "\x00")))
			res := cli.Run(args...)
			switch {
			case res.Panic != "":
				h.Rec("res", "panic", HexS(res.Panic))
			case res.Err != nil:
				h.Rec("res", "error", HexS(res.Err.Error()))
			case grouped:
				var out []struct {
					Snapshots []struct {
						ID string `json:"id"`
					} `json:"snapshots"`
				}
				if err := json.Unmarshal([]byte(res.Stdout), &out); err != nil {
					h.Rec("res", "error", HexS("json:"+err.Error()))
					break
				}
				var gl [][]int
				var all []int
				for _, g := range out {
					var m []int
					for _, s := range g.Snapshots {
						id, _ := restic.ParseID(s.ID)
						m = append(m, byID[id])
					}
					sort.Ints(m)
					gl = append(gl, m)
					all = append(all, m...)
				}
				sort.Slice(gl, func(a, b int) bool { return gl[a][0] < gl[b][0] })
				sort.Ints(all)
				h.Rec("sel", c24IdxList(all)...)
				for _, m := range gl {
					h.Rec("grpset", c24IdxList(m)...)
				}
				h.Rec("ngrp", Itoa(len(gl)))
			default:
				var out []struct {
					ID string `json:"id"`
				}
				if err := json.Unmarshal([]byte(res.Stdout), &out); err != nil {
					h.Rec("res", "error", HexS("json:"+err.Error()))
					break
				}
				var all []int
				for _, s := range out {
					id, _ := restic.ParseID(s.ID)
					all = append(all, byID[id])
				}
				sort.Ints(all)
				h.Rec("sel", c24IdxList(all)...)
			}
			h.End()
		}
	}
}
