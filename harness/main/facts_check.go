//go:build verif

package main

var _ = verifRegisterFacts(func() map[string]int64 {
	return map[string]int64{"check_totalBucketsMax": int64(totalBucketsMax)}
})
