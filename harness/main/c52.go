//go:build verif

package main

import (
	"context"
	"fmt"
	"math"
	"os"
	"path/filepath"
	"regexp"
	"sort"
	"strconv"
	"strings"

	"github.com/restic/restic/internal/backend"
	"github.com/restic/restic/internal/backend/mem"
	"github.com/restic/restic/internal/restic"
	"github.com/restic/restic/internal/ui"
)

// C52: check --read-data-subset (cmd/restic/cmd_check.go).
//
// Sub-streams (case header):
//   bucket  selectPacksByBucket for ALL 1 <= n <= t <= 256 on one generated pack-ID distribution,
//           plus some pairs outside the accepted range (t = 0, n = 0, n > t, t > 256)
//   pct     selectRandomPacksByPercentage for percentages inside and outside the accepted range
//   size    buildPacksFilter with a size subset ("500K") applied to a generated pack map
//   flags   checkFlags on generated --read-data-subset strings; when accepted as n/t the filter
//           built by buildPacksFilter is applied and its selection recorded
//   cli     `restic check --read-data-subset=n/t` through the real root command on a repository
//           with real packs: the counts printed for every n of a t
//
// Records:
//   packs <hexid>:<size> …            packs sorted by ID; indices below refer to this order
//   full <T>                          all pairs 1<=n<=t<=T were evaluated
//   extra <t> <n>                     an additional pair that was evaluated
//   sel <t> <n> <idx>…                non-empty selection (missing record = empty selection)
//   pan <t> <n>                       the call panicked
//   pct <text> k <int> accepted 0|1   percentage, float oracle k = int(float64(n)*(p/100)), checkFlags verdict
//   out sel <idx>… | out panic
//   sub <int64> repo <int64> k <int>  size stream: parsed subset size, repository size, float oracle
//   flag <hex string>                 flags stream
//   res accept|invalid|badrange|toolarge|pctrange|sizerange|other <hex msg>
//   cnt <t> <n> <count> <total>       cli stream: numbers printed by check
var _ = verifRegister("C52", streamC52)

type c52Pack struct {
	id   restic.ID
	size int64
}

// c52GenPacks: pack-ID distributions with skewed first bytes.
func c52GenPacks(h *H, max int) []c52Pack {
	n := h.Intn(max + 1)
	if h.Intn(10) == 0 {
		n = 0
	}
	mode := h.Intn(6)
	seen := map[restic.ID]bool{}
	var packs []c52Pack
	for i := 0; i < n; i++ {
		var id restic.ID
		copy(id[:], h.Bytes(32))
		switch mode {
		case 0: // uniform
		case 1: // all in one first byte
			id[0] = 0x7f
		case 2: // few distinct first bytes
			id[0] = []byte{0, 1, 2, 255, 254, 128}[h.Intn(6)]
		case 3: // small first bytes
			id[0] = byte(h.Intn(8))
		case 4: // multiples of 16
			id[0] = byte(h.Intn(16) * 16)
		case 5: // high half
			id[0] = byte(128 + h.Intn(128))
		}
		if seen[id] {
			continue
		}
		seen[id] = true
		size := int64(h.Intn(1 << 22))
		switch h.Intn(8) {
		case 0:
			size = 0
		case 1:
			size = int64(h.Intn(100))
		}
		packs = append(packs, c52Pack{id, size})
	}
	sort.Slice(packs, func(a, b int) bool { return packs[a].id.String() < packs[b].id.String() })
	return packs
}

func c52Map(packs []c52Pack) map[restic.ID]int64 {
	m := make(map[restic.ID]int64, len(packs))
	for _, p := range packs {
		m[p.id] = p.size
	}
	return m
}

func c52RecPacks(h *H, packs []c52Pack) map[restic.ID]int {
	idx := map[restic.ID]int{}
	toks := make([]string, len(packs))
	for i, p := range packs {
		idx[p.id] = i
		toks[i] = p.id.String() + ":" + I64(p.size)
	}
	h.Rec("packs", toks...)
	return idx
}

// selection -> sorted index tokens; ok=false when the selection contains something that is not a
// pack of the input or carries a different size
func c52SelToks(sel map[restic.ID]int64, idx map[restic.ID]int, all map[restic.ID]int64) ([]string, bool) {
	var is []int
	ok := true
	for id, size := range sel {
		i, found := idx[id]
		if !found || all[id] != size {
			ok = false
			continue
		}
		is = append(is, i)
	}
	sort.Ints(is)
	toks := make([]string, len(is))
	for i, v := range is {
		toks[i] = Itoa(v)
	}
	return toks, ok
}

func c52Bucket(h *H, packs []c52Pack, idx map[restic.ID]int, all map[restic.ID]int64, t, n uint) {
	var sel map[restic.ID]int64
	panicked, _ := Protect(func() { sel = selectPacksByBucket(all, n, t) })
	ts, ns := strconv.FormatUint(uint64(t), 10), strconv.FormatUint(uint64(n), 10)
	if panicked {
		h.Rec("pan", ts, ns)
		return
	}
	if len(sel) == 0 {
		return
	}
	toks, ok := c52SelToks(sel, idx, all)
	if !ok {
		toks = append(toks, "foreign")
	}
	h.Rec("sel", append([]string{ts, ns}, toks...)...)
}

func c52Classify(err error) []string {
	if err == nil {
		return []string{"accept"}
	}
	msg := err.Error()
	switch {
	case strings.Contains(msg, "has invalid value"):
		return []string{"invalid"}
	case strings.Contains(msg, "values must be positive integers"):
		return []string{"badrange"}
	case strings.Contains(msg, "t must be at most"):
		return []string{"toolarge"}
	case strings.Contains(msg, "x must be above 0.0%"):
		return []string{"pctrange"}
	case strings.Contains(msg, "n must be above 0"):
		return []string{"sizerange"}
	}
	return []string{"other", HexS(msg)}
}

func c52GenFlag(h *H) string {
	num := func() string {
		switch h.Intn(12) {
		case 0:
			return "0"
		case 1:
			return "256"
		case 2:
			return "257"
		case 3:
			return "18446744073709551615"
		case 4:
			return "18446744073709551616"
		case 5:
			return "00" + Itoa(1+h.Intn(9))
		case 6:
			return Itoa(1 + h.Intn(300))
		default:
			return Itoa(1 + h.Intn(12))
		}
	}
	switch h.Intn(14) {
	case 0, 1, 2, 3, 4, 5:
		a, b := num(), num()
		if h.Intn(3) != 0 { // mostly n <= t
			x, e1 := strconv.ParseUint(a, 10, 64)
			y, e2 := strconv.ParseUint(b, 10, 64)
			if e1 == nil && e2 == nil && x > y {
				a, b = b, a
			}
		}
		return a + "/" + b
	case 6:
		return num() + "/" + num() + "/" + num()
	case 7:
		return num()
	case 8:
		return h.Pick([]string{"/", "1/", "/2", "1//2", "+1/2", "-1/2", "1/ 2", " 1/2", "1/2 ", "1_0/20", "0x1/2", "1/2a", "a/b", "١/٢", "1/2/", "1.0/2"})
	case 9:
		return h.Pick([]string{"5%", "100%", "100.1%", "0%", "0.001%", "-3%", "nan%", "NaN%", "inf%", "1e2%", "1e3%", "%", "5%%", "1/2%", "0x10%", "1_0%"})
	case 10:
		return h.Pick([]string{"500K", "1M", "0", "0K", "1", "-1", "9223372036854775807", "9223372036854775808", "8388608T", "8388607T", "1G", "5X", "K", "1.5M", "10b"})
	case 11:
		return Itoa(1+h.Intn(5)) + "/" + h.Pick([]string{"256", "257", "255", "1000"})
	default:
		alphabet := "0123456789/%KkMm.-+ e"
		l := 1 + h.Intn(5)
		b := make([]byte, l)
		for i := range b {
			b[i] = alphabet[h.Intn(len(alphabet))]
		}
		return string(b)
	}
}

var c52GroupRe = regexp.MustCompile(`read group #(\d+) of (\d+) data packs \(out of total (\d+) packs in (\d+) groups`)

func streamC52(h *H) {
	// ---------------------------------------------------------------- bucket: exhaustive in (t, n)
	nd := h.N(40, 300)
	for d := 0; d < nd; d++ {
		packs := c52GenPacks(h, 48)
		all := c52Map(packs)
		h.Case("bucket")
		idx := c52RecPacks(h, packs)
		h.Rec("full", "256")
		for t := uint(1); t <= 256; t++ {
			for n := uint(1); n <= t; n++ {
				c52Bucket(h, packs, idx, all, t, n)
			}
		}
		// outside the accepted range
		extras := [][2]uint{{0, 1}, {0, 0}, {5, 0}, {5, 6}, {257, 1}, {257, 257}, {300, 256}, {300, 44}, {1000, 999},
			{math.MaxUint64, 1}, {math.MaxUint64, 256}, {7, math.MaxUint64}, {1 << 32, 3}}
		for _, e := range extras {
			h.Rec("extra", strconv.FormatUint(uint64(e[0]), 10), strconv.FormatUint(uint64(e[1]), 10))
			c52Bucket(h, packs, idx, all, e[0], e[1])
		}
		for i := 0; i < 6; i++ {
			t, n := uint(257+h.Intn(600)), uint(h.Intn(900))
			h.Rec("extra", strconv.FormatUint(uint64(t), 10), strconv.FormatUint(uint64(n), 10))
			c52Bucket(h, packs, idx, all, t, n)
		}
		h.End()
	}

	// ---------------------------------------------------------------- pct
	pcts := []string{"100", "99.99999", "50", "33.3", "10", "1", "0.1", "0.0001", "1e-300", "5e-324", "99.5", "100.0",
		"NaN", "100.0000001", "101", "150", "1e9", "+Inf", "0", "-5", "-Inf", "12.5", "66.6667", "75", "25"}
	np := h.N(1500, 20000)
	for i := 0; i < np; i++ {
		packs := c52GenPacks(h, 40)
		all := c52Map(packs)
		ps := h.Pick(pcts)
		if h.Intn(3) == 0 {
			ps = strconv.FormatFloat(h.Rng.Float64()*100, 'f', h.Intn(6), 64)
		}
		p, err := strconv.ParseFloat(ps, 64)
		if err != nil {
			panic(err)
		}
		accepted := checkFlags(CheckOptions{ReadDataSubset: ps + "%"}) == nil
		k := int(float64(len(all)) * (p / 100.0))
		h.Case("pct")
		idx := c52RecPacks(h, packs)
		h.Rec("pct", ps, "k", Itoa(k), "accepted", B(accepted))
		var sel map[restic.ID]int64
		panicked, _ := Protect(func() { sel = selectRandomPacksByPercentage(all, p) })
		if panicked {
			h.Rec("out", "panic")
		} else {
			toks, ok := c52SelToks(sel, idx, all)
			if !ok {
				toks = append(toks, "foreign")
			}
			h.Rec("out", append([]string{"sel"}, toks...)...)
		}
		h.End()
	}

	// ---------------------------------------------------------------- size (through buildPacksFilter)
	// note: a plain digit string is an int slice of length 1 for checkFlags and therefore rejected;
	// sizes need a unit suffix
	sizes := []string{"1b", "100B", "500K", "1M", "3M", "16M", "1G", "1T", "8388607T", "9223372036854775807b", "4096b", "10b", "2k"}
	ns := h.N(800, 8000)
	for i := 0; i < ns; i++ {
		packs := c52GenPacks(h, 40)
		all := c52Map(packs)
		s := h.Pick(sizes)
		if h.Intn(3) == 0 {
			s = Itoa(1+h.Intn(1<<24)) + "b"
		}
		if checkFlags(CheckOptions{ReadDataSubset: s}) != nil {
			panic("c52: size " + s + " not accepted")
		}
		sub, err := ui.ParseBytes(s)
		if err != nil {
			panic(err)
		}
		var repo int64
		for _, p := range packs {
			repo += p.size
		}
		h.Case("size")
		idx := c52RecPacks(h, packs)
		k := 0
		if repo > 0 {
			eff := sub
			if eff > repo {
				eff = repo
			}
			pct := (float64(eff) / float64(repo)) * 100.0
			k = int(float64(len(all)) * (pct / 100.0))
		}
		h.Rec("sub", I64(sub), "repo", I64(repo), "k", Itoa(k))
		var sel map[restic.ID]int64
		panicked, _ := Protect(func() {
			f, err := buildPacksFilter(CheckOptions{ReadDataSubset: s}, restic.NewNoopPrinter(), false)
			if err != nil {
				panic(err)
			}
			sel = f(all)
		})
		if panicked {
			h.Rec("out", "panic")
		} else {
			toks, ok := c52SelToks(sel, idx, all)
			if !ok {
				toks = append(toks, "foreign")
			}
			h.Rec("out", append([]string{"sel"}, toks...)...)
		}
		h.End()
	}

	// ---------------------------------------------------------------- flags
	nf := h.N(2500, 30000)
	for i := 0; i < nf; i++ {
		s := c52GenFlag(h)
		packs := c52GenPacks(h, 24)
		all := c52Map(packs)
		h.Case("flags")
		idx := c52RecPacks(h, packs)
		h.Rec("flag", HexS(s))
		var err error
		panicked, msg := Protect(func() { err = checkFlags(CheckOptions{ReadDataSubset: s}) })
		if panicked {
			h.Rec("res", "panic", HexS(msg))
			h.End()
			continue
		}
		h.Rec("res", c52Classify(err)...)
		if err == nil && strings.Contains(s, "/") {
			var sel map[restic.ID]int64
			panicked, _ := Protect(func() {
				f, err := buildPacksFilter(CheckOptions{ReadDataSubset: s}, restic.NewNoopPrinter(), false)
				if err != nil {
					panic(err)
				}
				sel = f(all)
			})
			if panicked {
				h.Rec("out", "panic")
			} else {
				toks, ok := c52SelToks(sel, idx, all)
				if !ok {
					toks = append(toks, "foreign")
				}
				h.Rec("out", append([]string{"sel"}, toks...)...)
			}
		}
		h.End()
	}

	// ---------------------------------------------------------------- cli
	nrepo := h.N(1, 6)
	for r := 0; r < nrepo; r++ {
		be := mem.New()
		cli := NewCLI(be)
		cli.MustRun("init")
		dir := MkTemp("c52-")
		nb := 3 + h.Intn(4)
		for b := 0; b < nb; b++ {
			f := filepath.Join(dir, fmt.Sprintf("f%d", b))
			if err := os.WriteFile(f, h.Bytes(2000+h.Intn(5000)), 0o600); err != nil {
				panic(err)
			}
			cli.MustRun("backup", f)
		}
		os.RemoveAll(dir)
		var packs []c52Pack
		_ = be.List(context.Background(), backend.PackFile, func(fi backend.FileInfo) error {
			id, err := restic.ParseID(fi.Name)
			if err != nil {
				panic(err)
			}
			packs = append(packs, c52Pack{id, fi.Size})
			return nil
		})
		sort.Slice(packs, func(a, b int) bool { return packs[a].id.String() < packs[b].id.String() })
		ts := []int{1, 2, 3, 1 + h.Intn(16), 256}
		for _, t := range ts {
			h.Case("cli")
			c52RecPacks(h, packs)
			for n := 1; n <= t; n++ {
				if t > 16 && n > 3 && n < t-2 && h.Intn(8) != 0 {
					continue // large t: a sample of n
				}
				res := cli.Run("check", fmt.Sprintf("--read-data-subset=%d/%d", n, t))
				m := c52GroupRe.FindStringSubmatch(res.Stdout)
				if res.Err != nil || m == nil || m[1] != Itoa(n) || m[4] != Itoa(t) {
					h.Rec("cnt", Itoa(t), Itoa(n), "bad", HexS(fmt.Sprintf("%v | %s", res.Err, res.Stdout)))
					continue
				}
				h.Rec("cnt", Itoa(t), Itoa(n), m[2], m[3])
			}
			h.End()
		}
		// rejected values through the CLI (PreRunE glue)
		for _, s := range []string{"0/5", "6/5", "1/257", "1/2/3", "101%", "0%", "0", "x", c52GenFlag(h), c52GenFlag(h)} {
			if strings.HasPrefix(s, "-") {
				continue
			}
			h.Case("flags")
			h.Rec("packs")
			h.Rec("flag", HexS(s))
			res := cli.Run("check", "--read-data-subset="+s)
			if res.Panic != "" {
				h.Rec("res", "panic", HexS(res.Panic))
			} else {
				h.Rec("res", c52Classify(res.Err)...)
			}
			h.Rec("via", "cli")
			h.End()
		}
	}
}
