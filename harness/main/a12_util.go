//go:build verif

package main

// Helpers shared by the trace streams C11, C14, C26: decoding backend content (pack headers,
// index files, snapshot files, tree blobs) into the abstract repository of
// lean/Restic/Model/RepoTrace.lean, interning ids, and writing the records.
//
// Wire format (tokens; ids are small integers interned per case, never raw random ids):
//   blob token    <type>.<id>.<offset>.<length>        type 0 = data, 1 = tree
//   handle token  <type>.<id>
//   r0pack  <p> <blob>*                                 initial state
//   r0index <i> ( | <p> <blob>* )*
//   r0snap  <s> <key> <tree> <orig or -> <handle>*
//   ev <proc> savepack <p> <blob>* | saveindex <i> ( | <p> <blob>* )* | savesnap <s> <key> <tree> <orig> <handle>*
//      | rmpack <p> | rmindex <i> | rmsnap <s>
// <handle>* of a snapshot is the closure of its root tree, computed here by decoding tree blobs
// (own JSON walk, independent of restic's tree code).

import (
	"bytes"
	"context"
	"encoding/json"
	"fmt"
	"sort"
	"strings"
	"sync"

	"github.com/klauspost/compress/zstd"
	"github.com/restic/restic/internal/backend"
	"github.com/restic/restic/internal/data"
	"github.com/restic/restic/internal/repository"
	"github.com/restic/restic/internal/repository/crypto"
	"github.com/restic/restic/internal/repository/index"
	"github.com/restic/restic/internal/repository/pack"
	"github.com/restic/restic/internal/restic"
)

type a12Blob struct {
	Type     int // 0 data 1 tree
	ID       string
	Off, Len uint
}

type a12Snap struct {
	Key   string // lineage marker: the path list
	Tree  string // "" if nil
	Orig  string // "" if nil
	Tags  []string
	Host  string
	Valid bool
}

type a12Tree struct {
	Subtrees []string
	Contents []string
}

// a12Dec decodes and caches repository files by their (content-derived) name.
type a12Dec struct {
	mu      sync.Mutex
	key     *crypto.Key
	zdec    *zstd.Decoder
	packs   map[string][]a12Blob
	indexes map[string]map[string][]a12Blob
	snaps   map[string]a12Snap
	trees   map[string]*a12Tree // decoded tree blobs seen in any pack so far
}

func newA12Dec(key *crypto.Key) *a12Dec {
	d, err := zstd.NewReader(nil)
	if err != nil {
		panic(err)
	}
	return &a12Dec{key: key, zdec: d, packs: map[string][]a12Blob{}, indexes: map[string]map[string][]a12Blob{},
		snaps: map[string]a12Snap{}, trees: map[string]*a12Tree{}}
}

func blobType(t restic.BlobType) int {
	if t == restic.TreeBlob {
		return 1
	}
	return 0
}

// Pack lists the header of a pack file and decodes its tree blobs (cached by name).
func (d *a12Dec) Pack(name string, buf []byte) []a12Blob {
	d.mu.Lock()
	defer d.mu.Unlock()
	if bs, ok := d.packs[name]; ok {
		return bs
	}
	entries, _, err := pack.List(d.key, bytes.NewReader(buf), int64(len(buf)))
	if err != nil {
		panic(fmt.Sprintf("a12: pack.List %s: %v", name, err))
	}
	var bs []a12Blob
	for _, e := range entries {
		bs = append(bs, a12Blob{blobType(e.Type), e.ID.String(), e.Offset, e.Length})
		if e.Type == restic.TreeBlob {
			raw := append([]byte(nil), buf[e.Offset:e.Offset+e.Length]...)
			ns := d.key.NonceSize()
			pt, err := d.key.Open(raw[ns:ns], raw[:ns], raw[ns:], nil)
			if err != nil {
				panic(fmt.Sprintf("a12: decrypt tree blob: %v", err))
			}
			if e.IsCompressed() {
				pt, err = d.zdec.DecodeAll(pt, nil)
				if err != nil {
					panic(fmt.Sprintf("a12: decompress tree blob: %v", err))
				}
			}
			var tj struct {
				Nodes []struct {
					Type    string   `json:"type"`
					Subtree *string  `json:"subtree"`
					Content []string `json:"content"`
				} `json:"nodes"`
			}
			if err := json.Unmarshal(pt, &tj); err != nil {
				panic(fmt.Sprintf("a12: tree json: %v", err))
			}
			t := &a12Tree{}
			for _, n := range tj.Nodes {
				if n.Type == "dir" && n.Subtree != nil {
					t.Subtrees = append(t.Subtrees, *n.Subtree)
				}
				t.Contents = append(t.Contents, n.Content...)
			}
			d.trees[e.ID.String()] = t
		}
	}
	d.packs[name] = bs
	return bs
}

// decryptUnpacked opens an index / snapshot file (nonce | ciphertext | mac; optional zstd with
// version byte 2).
func (d *a12Dec) decryptUnpacked(buf []byte) []byte {
	raw := append([]byte(nil), buf...)
	ns := d.key.NonceSize()
	pt, err := d.key.Open(raw[ns:ns], raw[:ns], raw[ns:], nil)
	if err != nil {
		panic(fmt.Sprintf("a12: decrypt unpacked: %v", err))
	}
	if len(pt) > 0 && pt[0] == 2 {
		pt, err = d.zdec.DecodeAll(pt[1:], nil)
		if err != nil {
			panic(fmt.Sprintf("a12: decompress unpacked: %v", err))
		}
	}
	return pt
}

func (d *a12Dec) Index(name string, buf []byte) map[string][]a12Blob {
	d.mu.Lock()
	defer d.mu.Unlock()
	if ix, ok := d.indexes[name]; ok {
		return ix
	}
	id, _ := restic.ParseID(name)
	idx, err := index.DecodeIndex(d.decryptUnpacked(buf), id)
	if err != nil {
		panic(fmt.Sprintf("a12: DecodeIndex %s: %v", name, err))
	}
	res := map[string][]a12Blob{}
	for pb := range idx.Values() {
		p := pb.PackID().String()
		res[p] = append(res[p], a12Blob{blobType(pb.Blob.Type), pb.Blob.ID.String(), pb.Blob.Offset, pb.Blob.Length})
	}
	for p := range res {
		l := res[p]
		sort.Slice(l, func(i, j int) bool { return l[i].Off < l[j].Off })
	}
	d.indexes[name] = res
	return res
}

func (d *a12Dec) Snap(name string, buf []byte) a12Snap {
	d.mu.Lock()
	defer d.mu.Unlock()
	if s, ok := d.snaps[name]; ok {
		return s
	}
	var sn data.Snapshot
	s := a12Snap{}
	if err := json.Unmarshal(d.decryptUnpacked(buf), &sn); err == nil {
		s.Valid = true
		s.Key = strings.Join(sn.Paths, "\x00")
		if sn.Tree != nil {
			s.Tree = sn.Tree.String()
		}
		if sn.Original != nil {
			s.Orig = sn.Original.String()
		}
		s.Tags = append([]string(nil), sn.Tags...)
		s.Host = sn.Hostname
	}
	d.snaps[name] = s
	return s
}

// Closure returns the handles (type.id) reachable from a root tree; a tree blob whose content was
// never seen in any pack is listed (it is needed) but cannot be expanded.
func (d *a12Dec) Closure(root string) []string {
	d.mu.Lock()
	defer d.mu.Unlock()
	if root == "" {
		return nil
	}
	seen := map[string]bool{}
	var out []string
	var walk func(id string)
	walk = func(id string) {
		h := "1." + id
		if seen[h] {
			return
		}
		seen[h] = true
		out = append(out, h)
		t := d.trees[id]
		if t == nil {
			return
		}
		for _, c := range t.Contents {
			hc := "0." + c
			if !seen[hc] {
				seen[hc] = true
				out = append(out, hc)
			}
		}
		for _, s := range t.Subtrees {
			walk(s)
		}
	}
	walk(root)
	return out
}

// a12Intern maps ids to small integers in order of first appearance (per case).
type a12Intern struct {
	m map[string]int
}

func newA12Intern() *a12Intern { return &a12Intern{m: map[string]int{}} }
func (in *a12Intern) N(s string) string {
	if s == "" {
		return "-"
	}
	n, ok := in.m[s]
	if !ok {
		n = len(in.m) + 1
		in.m[s] = n
	}
	return Itoa(n)
}

func (in *a12Intern) blobTok(b a12Blob) string {
	return fmt.Sprintf("%d.%s.%d.%d", b.Type, in.N(b.ID), b.Off, b.Len)
}

func (in *a12Intern) handleTok(h string) string { // "t.id"
	return h[:2] + in.N(h[2:])
}

func (in *a12Intern) indexToks(ix map[string][]a12Blob) []string {
	var packs []string
	for p := range ix {
		packs = append(packs, p)
	}
	sort.Strings(packs)
	var toks []string
	for _, p := range packs {
		toks = append(toks, "|", in.N(p))
		for _, b := range ix[p] {
			toks = append(toks, in.blobTok(b))
		}
	}
	return toks
}

func (in *a12Intern) snapToks(d *a12Dec, name string, s a12Snap) []string {
	toks := []string{in.N(name), in.N("key:" + s.Key), in.N(s.Tree), in.N(s.Orig)}
	for _, h := range d.Closure(s.Tree) {
		toks = append(toks, in.handleTok(h))
	}
	return toks
}

func splitKey(k string) (typ, name string) {
	i := strings.IndexByte(k, '/')
	return k[:i], k[i+1:]
}

// a12EmitState writes the r0* records for a backend state. Packs are decoded first so that the
// closures of the snapshots can be expanded.
func a12EmitState(h *H, d *a12Dec, in *a12Intern, st BeState, prefix string) {
	for _, k := range st.Names("data") {
		_, n := splitKey(k)
		bs := d.Pack(n, st[k])
		toks := []string{in.N(n)}
		for _, b := range bs {
			toks = append(toks, in.blobTok(b))
		}
		h.Rec(prefix+"pack", toks...)
	}
	for _, k := range st.Names("index") {
		_, n := splitKey(k)
		h.Rec(prefix+"index", append([]string{in.N(n)}, in.indexToks(d.Index(n, st[k]))...)...)
	}
	for _, k := range st.Names("snapshot") {
		_, n := splitKey(k)
		s := d.Snap(n, st[k])
		if !s.Valid {
			continue
		}
		h.Rec(prefix+"snap", in.snapToks(d, n, s)...)
	}
}

// a12DecodePacks feeds every pack saved by a list of events to the decoder (tree blobs become
// known for closures).
func a12DecodePacks(d *a12Dec, evs []Event, after BeState) {
	for _, e := range evs {
		if e.Op == "save" && e.Type == "data" && a12Happened(e, after) {
			d.Pack(e.Name, e.Data)
		}
	}
}

// a12Happened decides whether a recorded operation took effect. An operation that returned an
// error normally did not — except that a backend may store the file and still report an error
// (mem.Save returns ctx.Err() *after* storing when the context was cancelled meanwhile); `after`
// (the backend content when the run was over) settles it.
func a12Happened(e Event, after BeState) bool {
	if !e.Err {
		return true
	}
	if e.Op != "save" || after == nil || len(e.Data) == 0 {
		return false
	}
	b, ok := after[e.Type+"/"+e.Name]
	return ok && bytes.Equal(b, e.Data)
}

// a12FailedAttempts finds save attempts that reported an error and were then cleaned up: the
// retry layer removes the file after a failed Save on backends without atomic replace. Such a
// pair (save reported as failed, later successful remove of the same file before any other save
// of it) is one failed attempt that leaves the repository as it was (Lean:
// `failed_attempt_noop`); both events are dropped from the emitted trace.
func a12FailedAttempts(evs []Event) map[int]bool {
	skip := map[int]bool{}
	for i, e := range evs {
		if e.Op != "save" || !e.Err {
			continue
		}
		for j := i + 1; j < len(evs); j++ {
			f := evs[j]
			if f.Type != e.Type || f.Name != e.Name {
				continue
			}
			if f.Op == "remove" && !f.Err {
				skip[i], skip[j] = true, true
			}
			if f.Op == "save" || f.Op == "remove" {
				break
			}
		}
	}
	return skip
}

// a12EmitEvents writes the mutating events on pack / index / snapshot files that took effect.
// Returns the number of events written.
func a12EmitEvents(h *H, d *a12Dec, in *a12Intern, proc string, evs []Event, after BeState) int {
	n := 0
	skip := a12FailedAttempts(evs)
	for i, e := range evs {
		if skip[i] || !a12Happened(e, after) {
			continue
		}
		if e.Op == "save" && e.Type == "data" {
			d.Pack(e.Name, e.Data)
		}
	}
	for i, e := range evs {
		if skip[i] || !a12Happened(e, after) {
			continue
		}
		switch {
		case e.Op == "save" && e.Type == "data":
			toks := []string{proc, "savepack", in.N(e.Name)}
			for _, b := range d.Pack(e.Name, e.Data) {
				toks = append(toks, in.blobTok(b))
			}
			h.Rec("ev", toks...)
		case e.Op == "save" && e.Type == "index":
			h.Rec("ev", append([]string{proc, "saveindex", in.N(e.Name)}, in.indexToks(d.Index(e.Name, e.Data))...)...)
		case e.Op == "save" && e.Type == "snapshot":
			s := d.Snap(e.Name, e.Data)
			h.Rec("ev", append([]string{proc, "savesnap"}, in.snapToks(d, e.Name, s)...)...)
		case e.Op == "remove" && e.Type == "data":
			h.Rec("ev", proc, "rmpack", in.N(e.Name))
		case e.Op == "remove" && e.Type == "index":
			h.Rec("ev", proc, "rmindex", in.N(e.Name))
		case e.Op == "remove" && e.Type == "snapshot":
			h.Rec("ev", proc, "rmsnap", in.N(e.Name))
		default:
			continue
		}
		n++
	}
	return n
}

// a12RemoveLocks deletes all lock files (a crashed process leaves its lock behind).
func a12RemoveLocks(be backend.Backend) {
	ctx := context.Background()
	var names []string
	_ = be.List(ctx, backend.LockFile, func(fi backend.FileInfo) error { names = append(names, fi.Name); return nil })
	for _, n := range names {
		_ = be.Remove(ctx, backend.Handle{Type: backend.LockFile, Name: n})
	}
}

// a12Key opens the repository on a backend and returns its master key.
func a12Key(be backend.Backend) *crypto.Key {
	return OpenRepoOn(be, "geheim").Key()
}

var _ = repository.New
