//go:build verif

package main

import (
	"bytes"
	"encoding/binary"
	"errors"
	"fmt"
	"math/rand"
	"runtime"
	"sort"
	"strconv"
	"strings"
	"sync"
	"sync/atomic"
	"time"

	"github.com/restic/restic/internal/bloblru"
	"github.com/restic/restic/internal/restic"
)

var _ = verifRegister("C47", streamC47)

// C47: the real bloblru.Cache.
//
// substream seq — harness-controlled schedules. Every call runs in its own goroutine; the
// harness controls when a call starts and when (and how) each compute() finishes, and after
// every operation waits until all goroutines are parked at a stable point (returned / inside
// compute() / blocked on the in-progress channel inside GetOrCompute, seen in the goroutine
// dump), so the outcome is deterministic and can be compared with the model step by step.
//   new <size>
//   op call <t> <key> | op finish <t> ok <val> <cap> | op finish <t> fail
//   ret <t> ok <key-in-blob> <val> | ret <t> err      calls that returned during the op
//   st <free> <size> <key:cap,...|-> <inprogress keys|-> <computing calls|->
//   stuck <what>                                     a wait timed out
// substream storm — free-running goroutines, no schedule control (property predicate only).
//   new <size> / prod <key> <val> <cap> / ret <g> <key> ok <key-in-blob> <val> | err <ownfailed> / snap …
// substream new — bloblru.New for sizes around the overhead: `new <size> ok|panic`

var c47Stuck atomic.Int32

const c47Patience = 60 * time.Second

const c47Overhead = 96 // only used to pick interesting sizes; the checked constant is Gen.bloblru_overhead

func c47ID(k int) restic.ID { return restic.Hash([]byte("c47-key-" + strconv.Itoa(k))) }

// blob content: key (4 bytes) + value tag (4 bytes), length 8 (or empty when cap < 8)
func c47Blob(key, val, capacity int) []byte {
	if capacity < 8 {
		return make([]byte, 0, capacity)
	}
	b := make([]byte, 8, capacity)
	binary.BigEndian.PutUint32(b[0:], uint32(key))
	binary.BigEndian.PutUint32(b[4:], uint32(val))
	return b
}

func c47Decode(b []byte) (key, val int) {
	if len(b) < 8 {
		return -1, 0
	}
	return int(binary.BigEndian.Uint32(b[0:])), int(binary.BigEndian.Uint32(b[4:]))
}

func c47GoID() int64 {
	var buf [64]byte
	n := runtime.Stack(buf[:], false)
	f := strings.Fields(string(buf[:n]))
	id, _ := strconv.ParseInt(f[1], 10, 64)
	return id
}

// c47Parked reports, from a dump of all goroutines, which of the given goroutine ids are blocked
// in a channel receive whose innermost frame is GetOrCompute (= waiting for another caller's
// computation).
func c47Parked(ids map[int64]bool) map[int64]bool {
	buf := make([]byte, 1<<20)
	n := runtime.Stack(buf, true)
	res := map[int64]bool{}
	for _, blk := range bytes.Split(buf[:n], []byte("\n\n")) {
		lines := strings.SplitN(string(blk), "\n", 3)
		if len(lines) < 2 || !strings.HasPrefix(lines[0], "goroutine ") {
			continue
		}
		f := strings.Fields(lines[0])
		id, _ := strconv.ParseInt(f[1], 10, 64)
		if !ids[id] {
			continue
		}
		if strings.Contains(lines[0], "[chan receive") && strings.Contains(lines[1], "bloblru.(*Cache).GetOrCompute") {
			res[id] = true
		}
	}
	return res
}

type c47Result struct {
	blob []byte
	err  error
}

type c47Call struct {
	key       int
	gid       atomic.Int64
	inCompute atomic.Bool
	released  bool
	returned  atomic.Bool
	reported  bool
	release   chan c47Result
	res       c47Result
}

func c47KeyName(ids map[restic.ID]int, id restic.ID) string {
	if k, ok := ids[id]; ok {
		return Itoa(k)
	}
	return "?"
}

func c47SnapToks(c *bloblru.Cache, ids map[restic.ID]int) []string {
	s := bloblru.VerifC47Snapshot(c)
	var ents, inp []string
	for i, k := range s.Keys {
		ents = append(ents, c47KeyName(ids, k)+":"+Itoa(s.Caps[i]))
	}
	for _, k := range s.InProgress {
		inp = append(inp, c47KeyName(ids, k))
	}
	sort.Strings(inp)
	j := func(l []string) string {
		if len(l) == 0 {
			return "-"
		}
		return strings.Join(l, ",")
	}
	return []string{Itoa(s.Free), Itoa(s.Size), j(ents), j(inp)}
}

func c47Seq(h *H) {
	nKeys := 2 + h.Intn(3)
	ids := map[restic.ID]int{}
	for k := 0; k < nKeys; k++ {
		ids[c47ID(k)] = k
	}
	size := c47Overhead*(1+h.Intn(4)) + h.Intn(120)
	caps := []int{0, 8, 8, 9, 20, 40, 100, size - c47Overhead, size - c47Overhead + 1, size/2 - c47Overhead, size}
	h.Case("seq")
	h.Rec("new", Itoa(size))
	cache := bloblru.New(size)
	var calls []*c47Call
	var errFail = errors.New("c47: compute failed")

	stable := func(only int) bool {
		// wait until call `only` (or every call when only < 0) is parked at a stable point
		// generous: on an overloaded machine a goroutine may not get to run for seconds; a real
		// deadlock costs this much once or twice and then the stream stops
		deadline := time.Now().Add(c47Patience)
		pause := 20 * time.Microsecond
		for {
			want := map[int64]bool{}
			for i, c := range calls {
				if only >= 0 && i != only {
					continue
				}
				if c.returned.Load() || (c.inCompute.Load() && !c.released) {
					continue
				}
				want[c.gid.Load()] = true
			}
			if len(want) == 0 {
				return true
			}
			ok := true
			if _, unknown := want[0]; unknown {
				ok = false // goroutine has not published its id yet
			} else {
				parked := c47Parked(want)
				for id := range want {
					if !parked[id] {
						ok = false
					}
				}
			}
			if ok {
				// re-check the cheap conditions: a goroutine seen parked may have been woken since
				again := c47Parked(want)
				same := true
				for id := range want {
					if !again[id] {
						same = false
					}
				}
				if same {
					return true
				}
			}
			if time.Now().After(deadline) {
				return false
			}
			runtime.Gosched()
			time.Sleep(pause)
			if pause < 2*time.Millisecond {
				pause *= 2
			}
		}
	}
	report := func() {
		for i, c := range calls {
			if c.returned.Load() && !c.reported {
				c.reported = true
				if c.res.err != nil {
					h.Rec("ret", Itoa(i), "err")
				} else {
					k, v := c47Decode(c.res.blob)
					h.Rec("ret", Itoa(i), "ok", Itoa(k), Itoa(v))
				}
			}
		}
		var comp []string
		for i, c := range calls {
			if c.inCompute.Load() && !c.released {
				comp = append(comp, Itoa(i))
			}
		}
		cs := "-"
		if len(comp) > 0 {
			cs = strings.Join(comp, ",")
		}
		h.Rec("st", append(c47SnapToks(cache, ids), cs)...)
	}
	computing := func() []int {
		var l []int
		for i, c := range calls {
			if c.inCompute.Load() && !c.released {
				l = append(l, i)
			}
		}
		return l
	}
	finish := func(t int) bool {
		c := calls[t]
		var r c47Result
		if h.Intn(4) == 0 {
			r.err = errFail
			h.Rec("op", "finish", Itoa(t), "fail")
		} else {
			cp := caps[h.Intn(len(caps))]
			if cp < 0 {
				cp = 0
			}
			val := t + 1
			if cp < 8 {
				val = 0
			}
			r.blob = c47Blob(c.key, val, cp)
			h.Rec("op", "finish", Itoa(t), "ok", Itoa(val), Itoa(cp))
		}
		c.released = true
		c.release <- r
		// the finished call must return, then everybody it woke must settle
		deadline := time.Now().Add(c47Patience)
		for !c.returned.Load() {
			if time.Now().After(deadline) {
				c47Stuck.Add(1)
				h.Rec("stuck", "finished-call-does-not-return", Itoa(t))
				return false
			}
			runtime.Gosched()
		}
		if !stable(-1) {
			c47Stuck.Add(1)
			h.Rec("stuck", "after-finish", Itoa(t))
			return false
		}
		report()
		return true
	}

	maxCalls := 4 + h.Intn(10)
	nOps := 0
	for len(calls) < maxCalls && nOps < 60 {
		nOps++
		comp := computing()
		if len(comp) > 0 && h.Intn(5) < 2 {
			if !finish(comp[h.Intn(len(comp))]) {
				h.End()
				return
			}
			continue
		}
		t := len(calls)
		c := &c47Call{key: h.Intn(nKeys), release: make(chan c47Result, 1)}
		calls = append(calls, c)
		h.Rec("op", "call", Itoa(t), Itoa(c.key))
		go func() {
			c.gid.Store(c47GoID())
			blob, err := cache.GetOrCompute(c47ID(c.key), func() ([]byte, error) {
				c.inCompute.Store(true)
				r := <-c.release
				return r.blob, r.err
			})
			c.res = c47Result{blob, err}
			c.returned.Store(true)
		}()
		if !stable(t) {
			c47Stuck.Add(1)
			h.Rec("stuck", "after-call", Itoa(t))
			h.End()
			return
		}
		report()
	}
	// drain: finish every running computation until all calls have returned
	for {
		comp := computing()
		if len(comp) == 0 {
			break
		}
		if !finish(comp[h.Intn(len(comp))]) {
			h.End()
			return
		}
	}
	for i, c := range calls {
		if !c.returned.Load() {
			h.Rec("stuck", "call-never-returned", Itoa(i))
		}
	}
	h.End()
}

func c47Storm(h *H) {
	nKeys := 2 + h.Intn(6)
	ids := map[restic.ID]int{}
	for k := 0; k < nKeys; k++ {
		ids[c47ID(k)] = k
	}
	size := c47Overhead*(1+h.Intn(5)) + h.Intn(200)
	caps := []int{8, 8, 16, 30, 64, 100, size - c47Overhead, size - c47Overhead + 1, 0}
	G := 2 + h.Intn(7)
	M := 5 + h.Intn(30)
	failPct := h.Intn(40)
	h.Case("storm")
	h.Rec("new", Itoa(size))
	cache := bloblru.New(size)
	var mu sync.Mutex
	var prods, rets, snaps [][]string
	var tag atomic.Int64
	seeds := make([]int64, G)
	for g := range seeds {
		seeds[g] = h.Rng.Int63()
	}
	stop := make(chan struct{})
	var mon sync.WaitGroup
	mon.Add(1)
	go func() {
		defer mon.Done()
		for n := 0; n < 60; n++ {
			select {
			case <-stop:
				return
			default:
			}
			s := c47SnapToks(cache, ids)
			mu.Lock()
			snaps = append(snaps, s)
			mu.Unlock()
			runtime.Gosched()
			time.Sleep(5 * time.Microsecond)
		}
	}()
	var wg sync.WaitGroup
	for g := 0; g < G; g++ {
		wg.Add(1)
		go func(g int) {
			defer wg.Done()
			rng := rand.New(rand.NewSource(seeds[g]))
			for m := 0; m < M; m++ {
				key := rng.Intn(nKeys)
				ownFailed := false
				blob, err := cache.GetOrCompute(c47ID(key), func() ([]byte, error) {
					for i := rng.Intn(4); i > 0; i-- {
						runtime.Gosched()
					}
					if rng.Intn(100) < failPct {
						ownFailed = true
						return nil, fmt.Errorf("c47: storm compute failed")
					}
					cp := caps[rng.Intn(len(caps))]
					if cp < 0 {
						cp = 0
					}
					val := 0
					if cp >= 8 {
						val = int(tag.Add(1))
					}
					mu.Lock()
					prods = append(prods, []string{Itoa(key), Itoa(val), Itoa(cp)})
					mu.Unlock()
					return c47Blob(key, val, cp), nil
				})
				var rec []string
				if err != nil {
					rec = []string{Itoa(g), Itoa(key), "err", B(ownFailed)}
				} else {
					k, v := c47Decode(blob)
					rec = []string{Itoa(g), Itoa(key), "ok", Itoa(k), Itoa(v)}
				}
				mu.Lock()
				rets = append(rets, rec)
				mu.Unlock()
			}
		}(g)
	}
	done := make(chan struct{})
	go func() { wg.Wait(); close(done) }()
	select {
	case <-done:
	case <-time.After(c47Patience):
		c47Stuck.Add(1)
		h.Rec("stuck", "storm-timeout")
		h.End()
		return
	}
	close(stop)
	mon.Wait()
	mu.Lock()
	defer mu.Unlock()
	for _, p := range prods {
		h.Rec("prod", p...)
	}
	for _, r := range rets {
		h.Rec("ret", r...)
	}
	for _, s := range snaps {
		h.Rec("snap", s...)
	}
	h.Rec("snap", c47SnapToks(cache, ids)...)
	h.End()
}

func c47New(h *H) {
	h.Case("new")
	for _, size := range []int{-5, 0, 1, c47Overhead - 1, c47Overhead, c47Overhead + 1, 2*c47Overhead - 1, 2 * c47Overhead, 1000, 64 << 20} {
		panicked, _ := Protect(func() { bloblru.New(size) })
		if panicked {
			h.Rec("new", Itoa(size), "panic")
		} else {
			h.Rec("new", Itoa(size), "ok")
		}
	}
	h.End()
}

// set by c47_fusepath.go on platforms where the fuse package builds
var c47FusePath func(h *H)

func streamC47(h *H) {
	if h.Shard == 0 {
		c47New(h)
		if c47FusePath != nil {
			c47FusePath(h)
		}
	}
	n := h.N(600, 12000)
	for i := 0; i < n; i++ {
		if c47Stuck.Load() >= 2 {
			// a call that never returns costs a long timeout (and may leave a spinning goroutine
			// behind): enough evidence, stop the stream
			break
		}
		if i%5 == 4 {
			c47Storm(h)
		} else {
			c47Seq(h)
		}
	}
}
