//go:build verif

package main

import (
	"github.com/restic/restic/internal/repository/index"
	"github.com/restic/restic/internal/restic"
)

var _ = verifRegister("C56", streamC56)

// c56ID builds a 32-byte id from a short prefix (rest zero) or fully random bytes.
func c56ID(prefix []byte) restic.ID {
	var id restic.ID
	copy(id[:], prefix)
	return id
}

// c56IDTok is the wire form of an id: hex with trailing zero bytes trimmed (at least one byte).
func c56IDTok(id restic.ID) string {
	n := len(id)
	for n > 1 && id[n-1] == 0 {
		n--
	}
	return Hex(id[:n])
}

func c56EntryTok(e index.VerifC56Entry) string {
	return c56IDTok(e.ID) + ":" + U64(uint64(e.PackIndex)) + ":" + U64(uint64(e.Offset)) + ":" + U64(uint64(e.Length)) + ":" + U64(uint64(e.ULength))
}

func c56EntryToks(l []index.VerifC56Entry) []string {
	r := make([]string, len(l))
	for i, e := range l {
		r[i] = c56EntryTok(e)
	}
	return r
}

func (h *H) c56U32() uint32 {
	switch h.Intn(8) {
	case 0:
		return 0
	case 1:
		return 1
	case 2:
		return 0xffffffff
	case 3:
		return 0xfffffffe
	case 4:
		return uint32(h.Intn(4))
	default:
		return h.Rng.Uint32()
	}
}

type c56Profile struct {
	name    string
	pool    []restic.ID
	absent  []restic.ID
	nops    int
	pPre    int // percent of preallocate ops
	qEvery  int // observe after every qEvery-th op
	vEvery  int // full values() every vEvery-th op
	dupVals bool
}

// c56Collide searches ids whose 64-bit hash agrees with the first one in the low `bits` bits, so
// that they share a bucket through all table sizes up to 2^bits.
func c56Collide(h *H, m *index.VerifC56Map, count, bits int, firstByte int) []restic.ID {
	var res []restic.ID
	mask := uint64(1)<<uint(bits) - 1
	var want uint64
	for tries := 0; len(res) < count && tries < 4_000_000; tries++ {
		id := c56ID(h.Bytes(6))
		if firstByte >= 0 {
			id[0] = byte(firstByte)
		}
		hv := m.Hash64(id) & mask
		if len(res) == 0 {
			want = hv
			res = append(res, id)
		} else if hv == want {
			res = append(res, id)
		}
	}
	return res
}

func c56MakeProfile(h *H, m *index.VerifC56Map, big bool) c56Profile {
	p := c56Profile{pPre: 10, qEvery: 1, vEvery: 8}
	fresh := func(first int) restic.ID {
		var id restic.ID
		if h.Intn(3) == 0 {
			copy(id[:], h.Bytes(32))
		} else {
			id = c56ID(h.Bytes(2 + h.Intn(4)))
		}
		if first >= 0 {
			id[0] = byte(first)
		}
		return id
	}
	kind := h.Intn(6)
	if big {
		kind = 6
	}
	switch kind {
	case 0: // many equal keys
		p.name = "dupkeys"
		k := 1 + h.Intn(5)
		for i := 0; i < k; i++ {
			p.pool = append(p.pool, fresh(-1))
		}
		p.nops = 10 + h.Intn(300)
		p.dupVals = true
	case 1: // all ids share one bloom bit (first byte congruent mod 64-bloomShift = 28)
		p.name = "bloomcoll"
		r := h.Intn(28)
		k := 5 + h.Intn(60)
		for i := 0; i < k; i++ {
			p.pool = append(p.pool, fresh(r+28*h.Intn(9)))
		}
		for i := 0; i < 6; i++ {
			p.absent = append(p.absent, fresh(r+28*h.Intn(9)))
		}
		p.nops = 20 + h.Intn(400)
	case 2: // bucket collisions through every table size used here
		p.name = "bucketcoll"
		fb := -1
		if h.Bool() {
			fb = h.Intn(256)
			p.name = "bucketcoll+bloomcoll"
		}
		ids := c56Collide(h, m, 8+h.Intn(24), 10, fb)
		k := len(ids) - 3
		p.pool, p.absent = ids[:k], ids[k:]
		for i := 0; i < 20; i++ {
			p.pool = append(p.pool, fresh(-1))
		}
		p.nops = 40 + h.Intn(500)
	case 3: // tiny histories, everything observed
		p.name = "tiny"
		k := 1 + h.Intn(4)
		for i := 0; i < k; i++ {
			p.pool = append(p.pool, fresh(h.Intn(3)))
		}
		p.nops = h.Intn(12)
		p.pPre = 30
		p.vEvery = 1
		p.dupVals = true
	case 4: // growth across several doublings with mostly distinct ids
		p.name = "growth"
		k := 300 + h.Intn(1500)
		for i := 0; i < k; i++ {
			p.pool = append(p.pool, fresh(-1))
		}
		p.nops = k + h.Intn(k)
		p.qEvery = 7
		p.vEvery = 400
		p.pPre = 3
	case 5:
		p.name = "mixed"
		k := 10 + h.Intn(200)
		for i := 0; i < k; i++ {
			p.pool = append(p.pool, fresh(h.Intn(64)))
		}
		p.nops = 50 + h.Intn(600)
		p.qEvery = 2
		p.vEvery = 50
		p.dupVals = h.Bool()
	case 6:
		p.name = "big"
		n := 5000
		if h.Thorough() {
			n = 100000
		}
		k := n / (1 + h.Intn(4))
		for i := 0; i < k; i++ {
			p.pool = append(p.pool, fresh(-1))
		}
		p.nops = n
		p.qEvery = 23
		if h.Thorough() {
			p.qEvery = 211
		}
		p.vEvery = n / 2
		p.pPre = 1
	}
	for i := 0; i < 4; i++ {
		// absent ids sharing the first byte (= bloom bit) with pool members
		a := fresh(int(p.pool[h.Intn(len(p.pool))][0]))
		p.absent = append(p.absent, a)
	}
	return p
}

func streamC56(h *H) {
	n := h.N(70, 800)
	for i := 0; i < n; i++ {
		c56Case(h, i == 0 && h.Shard < 2)
	}
}

func c56Case(h *H, big bool) {
	m := &index.VerifC56Map{}
	p := c56MakeProfile(h, m, big)
	// drop absent ids that happen to be pool members
	inPool := map[restic.ID]bool{}
	for _, id := range p.pool {
		inPool[id] = true
	}
	var absent []restic.ID
	for _, id := range p.absent {
		if !inPool[id] {
			absent = append(absent, id)
		}
	}
	h.Case("hist")
	h.Rec("profile", p.name)
	seen := map[restic.ID]bool{}
	hashRec := func(id restic.ID) {
		if !seen[id] {
			seen[id] = true
			h.Rec("hash", c56IDTok(id), U64(m.Hash64(id)))
		}
	}
	var prevVals []index.VerifC56Entry
	added := 0
	observe := func(ids []restic.ID) {
		for _, id := range ids {
			hashRec(id)
			var vs []index.VerifC56Entry
			var g index.VerifC56Entry
			var ok bool
			var fi int
			if pn, msg := Protect(func() {
				vs = m.ValuesWithID(id)
				g, ok = m.Get(id)
				fi = m.FirstIndex(id)
			}); pn {
				h.Rec("panic", HexS(msg))
				return
			}
			gt := "-"
			if ok {
				gt = c56EntryTok(g)
			}
			h.Rec("q", append([]string{c56IDTok(id), Itoa(fi), gt}, c56EntryToks(vs)...)...)
		}
	}
	for op := 0; op < p.nops; op++ {
		var qids []restic.ID
		if h.Intn(100) < p.pPre {
			var n int
			switch h.Intn(6) {
			case 0:
				n = 0
			case 1:
				n = added + 1
			case 2:
				n = added*2 + h.Intn(9)
			case 3:
				n = h.Intn(600)
			case 4:
				n = (added/4+1)*4*4 + h.Intn(3) - 1 // around a growth boundary
			default:
				n = added + h.Intn(4*added+2)
			}
			if n > 400000 {
				n = 400000
			}
			if pn, msg := Protect(func() { m.Preallocate(n) }); pn {
				h.Rec("panic", HexS(msg))
				break
			}
			h.Rec("prealloc", Itoa(n))
		} else {
			var e index.VerifC56Entry
			if p.dupVals && len(prevVals) > 0 && h.Intn(4) == 0 {
				e = prevVals[h.Intn(len(prevVals))] // exact duplicate of an earlier entry
			} else {
				e = index.VerifC56Entry{ID: p.pool[h.Intn(len(p.pool))], PackIndex: h.c56U32(), Offset: h.c56U32(), Length: h.c56U32(), ULength: h.c56U32()}
			}
			hashRec(e.ID)
			if pn, msg := Protect(func() { m.Add(e) }); pn {
				h.Rec("panic", HexS(msg))
				break
			}
			added++
			if len(prevVals) < 64 {
				prevVals = append(prevVals, e)
			} else {
				prevVals[h.Intn(64)] = e
			}
			h.Rec("add", c56EntryTok(e))
			// the harness' Hash64 must be the hash the table really uses
			if uint64(m.Bucket(e.ID)) != m.Hash64(e.ID)&uint64(m.NumBuckets()-1) {
				h.Rec("hashmismatch", c56IDTok(e.ID))
			}
			qids = append(qids, e.ID)
		}
		h.Rec("len", U64(uint64(m.Len())), Itoa(m.NumBuckets()))
		if op%p.qEvery == 0 || op == p.nops-1 {
			qids = append(qids, p.pool[h.Intn(len(p.pool))])
			if len(absent) > 0 {
				qids = append(qids, absent[h.Intn(len(absent))])
			}
			observe(qids)
		}
		if op%p.vEvery == p.vEvery-1 || op == p.nops-1 {
			var vs []index.VerifC56Entry
			if pn, msg := Protect(func() { vs = m.Values() }); pn {
				h.Rec("panic", HexS(msg))
				break
			}
			h.Rec("values", c56EntryToks(vs)...)
		}
	}
	if p.nops == 0 {
		observe(p.pool[:1])
		h.Rec("values", c56EntryToks(m.Values())...)
		h.Rec("len", U64(uint64(m.Len())), Itoa(m.NumBuckets()))
	}
	h.End()
}
