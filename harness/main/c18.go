//go:build verif

package main

import (
	"context"
	"fmt"
	"os"
	"path/filepath"
	"sort"
	"strings"
	"time"

	"github.com/restic/restic/internal/data"
	"github.com/restic/restic/internal/filter"
)

var _ = verifRegister("C18", streamC18)

// ---- generated inputs ---------------------------------------------------------------------

type c18Pre struct {
	path   string // relative to the sandbox root, e.g. "target/a/b"
	kind   string // dir file symlink
	target string // symlink target as written
	data   []byte
}

type c18Case struct {
	tree    []*vNode
	pre     []c18Pre
	filter  string // none include exclude
	pats    []string
	del     bool
	ow      string
	labels  map[string]bool
	dstDeep bool
	child   bool   // run the restore as an unprivileged child process
	roDir   string // directory (relative to the sandbox root) made read-only (0555) before the run
}

var c18Names = []string{"a", "b", "c", "x"}
var c18BadNames = []string{"..", ".", "a/b", "", "/", "../outside", "../../outside/x", "a/../..", "b/"}

func (c *c18Case) lbl(s string) { c.labels[s] = true }

// c18GenTree builds an adversarial tree: small alphabet (duplicates arise by themselves), any
// order, invalid names, symlinks pointing outside, hard link groups, special nodes.
func c18GenTree(h *H, c *c18Case, depth int, up string) []*vNode {
	n := 1 + h.Intn(4)
	if depth == 0 {
		n = 1 + h.Intn(5)
	}
	var nodes []*vNode
	for i := 0; i < n; i++ {
		name := h.Pick(c18Names)
		if h.Intn(16) == 0 {
			name = h.Pick(c18BadNames)
			c.lbl("invalid-name")
		}
		nd := &vNode{Name: name}
		switch k := h.Intn(20); {
		case k < 7 && depth < 3:
			nd.Type = data.NodeTypeDir
			nd.Mode = []os.FileMode{0755, 0700, 0777, 0500}[h.Intn(4)]
			if h.Intn(40) == 0 {
				nd.NoSubtree = true
				c.lbl("dir-without-subtree")
			} else if h.Intn(5) > 0 {
				nd.Children = c18GenTree(h, c, depth+1, up+"../")
			}
		case k < 13:
			nd.Type = data.NodeTypeFile
			nd.Mode = []os.FileMode{0644, 0600, 0777, 0400}[h.Intn(4)]
			if h.Intn(4) > 0 {
				nd.Parts = [][]byte{[]byte("content-" + name + Itoa(h.Intn(3)))}
			}
			if h.Intn(5) == 0 { // member of a hard link group
				nd.Links = 2
				nd.Inode = uint64(7 + h.Intn(2))
				nd.Parts = [][]byte{[]byte("hardlinked-" + Itoa(int(nd.Inode)))}
				c.lbl("hardlink")
			}
		case k < 18:
			nd.Type = data.NodeTypeSymlink
			nd.Target = []string{up + "../outside", up + "../outside/secret", "$ABS/outside", "$ABS/outside/sub", "x", ".", up + "../outside/sub"}[h.Intn(7)]
			c.lbl("symlink-node")
		case k == 18:
			nd.Type = data.NodeTypeFifo
			nd.Mode = 0644
			c.lbl("fifo-node")
		default:
			if h.Bool() {
				nd.Type = data.NodeTypeSocket
			} else {
				nd.Type = data.NodeType("weird")
			}
			c.lbl("odd-node-type")
		}
		nodes = append(nodes, nd)
	}
	return nodes
}

// all snapshot locations ("/a/b") with their node, pre-order
func c18Locations(nodes []*vNode, loc string, f func(loc string, n *vNode)) {
	for _, n := range nodes {
		l := filepath.Join(loc, n.Name)
		f(l, n)
		if n.Type == data.NodeTypeDir {
			c18Locations(n.Children, l, f)
		}
	}
}

func c18HasDup(nodes []*vNode) bool {
	seen := map[string]bool{}
	for _, n := range nodes {
		if seen[n.Name] {
			return true
		}
		seen[n.Name] = true
		if n.Type == data.NodeTypeDir && c18HasDup(n.Children) {
			return true
		}
	}
	return false
}

// c18GenChain builds a single deep path a/b/c/… with one leaf, restores it with an include
// filter for the leaf (or without filter) and puts ONE symlink to an outside directory at a
// random position of that path: every ancestor position is hit over the run.
func c18GenChain(h *H) *c18Case {
	c := &c18Case{labels: map[string]bool{}}
	c.lbl("chain-case")
	depth := 1 + h.Intn(4)
	var comps []string
	for i := 0; i < depth; i++ {
		comps = append(comps, h.Pick(c18Names))
	}
	leafName := h.Pick(c18Names)
	leaf := &vNode{Name: leafName}
	switch h.Intn(5) {
	case 0:
		leaf.Type = data.NodeTypeSymlink
		leaf.Target = "x"
		c.lbl("symlink-node")
	case 1:
		leaf.Type = data.NodeTypeFifo
		leaf.Mode = 0644
		c.lbl("fifo-node")
	case 2:
		leaf.Type = data.NodeTypeDir
		leaf.Mode = 0700
	default:
		leaf.Type = data.NodeTypeFile
		leaf.Mode = 0640
		if h.Bool() {
			leaf.Parts = [][]byte{[]byte("leaf")}
		}
	}
	node := &vNode{}
	k := 1 + h.Intn(depth+1) // position of the symlink: an ancestor or the leaf itself
	all := append(append([]string{}, comps...), leafName)
	p := c18Pre{path: filepath.Join(append([]string{"target"}, all[:k]...)...), kind: "symlink"}
	if h.Intn(4) == 0 {
		p.target = "$ABS/outside/sub"
	} else {
		p.target = strings.Repeat("../", k) + "outside"
	}
	c.pre = []c18Pre{p}
	c.lbl("pre-symlink-to-outside-dir")
	stale := false
	switch h.Intn(6) {
	case 0:
		c.filter = "none"
	case 1, 2:
		// select only a stale entry (a name that exists in the outside directory) of one of the
		// directories on the path: nothing is restored, the directories are traversed, and with
		// --delete the skippedDir callback has to clean up there (but never through a symlink)
		j := h.Intn(depth + 1)
		staleName := h.Pick([]string{"x", "c", "secret", "sub", "emptydir"})
		if depth >= 2 && k < depth && strings.HasSuffix(p.target, "outside") && h.Bool() {
			// aligned with the sandbox: the symlink at position k points to outside, the next
			// component is "b" (outside/b exists and contains "x"), and outside/b/x is selected
			comps[k] = "b"
			all = append(append([]string{}, comps...), leafName)
			j = k + 1
			staleName = "x"
			c.lbl("chain-stale-behind-symlink")
		}
		c.filter = "include"
		c.pats = []string{"/" + strings.Join(append(append([]string{}, all[:j]...), staleName), "/")}
		c.lbl("filter-include")
		c.lbl("chain-stale-entry-selected")
		stale = true
	default:
		c.filter = "include"
		c.pats = []string{"/" + strings.Join(all, "/")}
		c.lbl("filter-include")
	}
	node = leaf
	for i := depth - 1; i >= 0; i-- {
		node = &vNode{Name: comps[i], Type: data.NodeTypeDir, Mode: 0750, Children: []*vNode{node}}
	}
	c.tree = []*vNode{node}
	c.del = stale || h.Intn(3) == 0
	if c.del {
		c.lbl("delete")
	}
	c.ow = []string{"always", "always", "never"}[h.Intn(3)]
	c.lbl("ow-" + c.ow)
	return c
}

// c18GenHardlinkFamily: an ordinary snapshot with a hard link group f1, f2 (optionally inside a
// directory), restored into a target in which the FIRST member already exists as a symlink to a
// file outside. With --overwrite never f1 is kept, f2 becomes a hard link to the symlink, and
// f2's metadata must not be applied through it. Also generated with the other overwrite modes,
// with the symlink at the second member, and with a directory as link target (controls).
func c18GenHardlinkFamily(h *H) *c18Case {
	c := &c18Case{labels: map[string]bool{}}
	c.lbl("family-hardlink-over-symlink")
	c.lbl("hardlink")
	names := []string{"a", "b", "c", "x"}
	i := h.Intn(4)
	n1, n2 := names[i], names[(i+1+h.Intn(3))%4]
	mode := []os.FileMode{0666, 0777, 0600, 0400}[h.Intn(4)] // never the mode of outside/secret (0640)
	mk := func(name string) *vNode {
		return &vNode{Name: name, Type: data.NodeTypeFile, Mode: mode, Links: 2, Inode: 7,
			Parts: [][]byte{[]byte("hardlinked-7")}}
	}
	nodes := []*vNode{mk(n1), mk(n2)}
	if h.Intn(3) == 0 { // a third member
		nodes = append(nodes, mk(names[(i+2)%4]+"3"))
	}
	dir := ""
	up := ""
	if h.Bool() {
		dir = h.Pick(c18Names)
		up = "../"
		c.tree = []*vNode{{Name: dir, Type: data.NodeTypeDir, Mode: 0755, Children: nodes}}
	} else {
		c.tree = nodes
	}
	victim := n1
	if h.Intn(5) == 0 {
		victim = n2
	}
	p := c18Pre{path: filepath.Join("target", dir, victim), kind: "symlink", target: up + "../outside/secret"}
	c.lbl("pre-symlink-to-outside-file")
	switch h.Intn(6) {
	case 0:
		p.target = "$ABS/outside/secret"
	case 1:
		p.target = up + "../outside/sub"
		c.lbl("pre-symlink-to-outside-dir")
	}
	c.pre = []c18Pre{p}
	c.filter = "none"
	c.del = h.Intn(4) == 0
	if c.del {
		c.lbl("delete")
	}
	c.ow = []string{"never", "never", "never", "always", "if-changed"}[h.Intn(5)]
	c.lbl("ow-" + c.ow)
	return c
}

// c18GenDupLinkFamily: raw tree with a duplicate name: a symlink `d -> outside` and a directory
// `d` whose only content are items that are created in the SECOND pass (the second name of a
// hard linked file, symlinks, fifos). The first pass leaves `d` empty, the second pass replaces
// it by the symlink and then has to re-check the parent before creating anything "in" it.
func c18GenDupLinkFamily(h *H) *c18Case {
	c := &c18Case{labels: map[string]bool{}}
	c.lbl("family-dup-symlink-dir-secondpass-items")
	c.lbl("duplicate-names")
	c.lbl("symlink-node")
	d := h.Pick(c18Names)
	first := &vNode{Name: "h1", Type: data.NodeTypeFile, Mode: 0644, Links: 2, Inode: 7,
		Parts: [][]byte{[]byte("hardlinked-7")}}
	var inner []*vNode
	switch h.Intn(4) {
	case 0:
		inner = append(inner, &vNode{Name: h.Pick(c18Names), Type: data.NodeTypeSymlink, Target: "x"})
	case 1:
		inner = append(inner, &vNode{Name: h.Pick(c18Names), Type: data.NodeTypeFifo, Mode: 0644})
		c.lbl("fifo-node")
	default:
		inner = append(inner, &vNode{Name: h.Pick([]string{"h2", "x", "c", "secret"}), Type: data.NodeTypeFile,
			Mode: 0666, Links: 2, Inode: 7, Parts: [][]byte{[]byte("hardlinked-7")}})
		c.lbl("hardlink")
	}
	if h.Intn(4) == 0 {
		inner = append(inner, &vNode{Name: "l2", Type: data.NodeTypeSymlink, Target: "."})
	}
	link := &vNode{Name: d, Type: data.NodeTypeSymlink,
		Target: []string{"../outside", "$ABS/outside/sub", "../outside/b"}[h.Intn(3)]}
	dir := &vNode{Name: d, Type: data.NodeTypeDir, Mode: 0755, Children: inner}
	if h.Intn(5) == 0 {
		c.tree = []*vNode{first, dir, link} // control: directory first
	} else if h.Bool() {
		c.tree = []*vNode{first, link, dir}
	} else {
		c.tree = []*vNode{link, first, dir}
	}
	c.filter = "none"
	c.del = h.Intn(4) == 0
	if c.del {
		c.lbl("delete")
	}
	// (with --overwrite never the symlink is not restored over the directory: useless here)
	c.ow = []string{"always", "always", "if-changed"}[h.Intn(3)]
	c.lbl("ow-" + c.ow)
	return c
}

// c18GenUnremovable: the snapshot has a directory where the target holds a symlink to an outside
// directory, and that symlink CANNOT be removed (its parent directory is 0555, the restore runs
// as an unprivileged user). Nothing may then be created or changed behind the symlink.
func c18GenUnremovable(h *H) *c18Case {
	c := &c18Case{labels: map[string]bool{}, child: true}
	c.lbl("family-unremovable-symlink")
	c.lbl("nonroot")
	c.lbl("pre-symlink-to-outside-dir")
	a := h.Pick(c18Names)
	leafs := []*vNode{{Name: h.Pick([]string{"f", "x", "c"}), Type: data.NodeTypeFile, Mode: 0644, Parts: [][]byte{[]byte("new-content")}}}
	if h.Bool() {
		leafs = append(leafs, &vNode{Name: "sub2", Type: data.NodeTypeDir, Mode: 0755,
			Children: []*vNode{{Name: "g", Type: data.NodeTypeFile, Mode: 0600}}})
	}
	if h.Intn(3) == 0 {
		leafs = append(leafs, &vNode{Name: "lnk", Type: data.NodeTypeSymlink, Target: "f"})
	}
	dirA := &vNode{Name: a, Type: data.NodeTypeDir, Mode: 0755, Children: leafs}
	target := "../outside"
	if h.Bool() {
		// read-only parent one level down
		pn := h.Pick([]string{"p", "q"})
		c.tree = []*vNode{{Name: pn, Type: data.NodeTypeDir, Mode: 0755, Children: []*vNode{dirA}}}
		c.pre = []c18Pre{{path: filepath.Join("target", pn, a), kind: "symlink", target: "../" + target}}
		c.roDir = filepath.Join("target", pn)
	} else {
		// the target directory itself is read-only
		c.tree = []*vNode{dirA}
		c.pre = []c18Pre{{path: filepath.Join("target", a), kind: "symlink", target: target}}
		c.roDir = "target"
	}
	if h.Intn(3) == 0 {
		c.pre[0].target = "$ABS/outside/sub"
	}
	c.filter = "none"
	c.del = h.Intn(3) == 0
	if c.del {
		c.lbl("delete")
	}
	c.ow = []string{"always", "if-changed", "never"}[h.Intn(3)]
	c.lbl("ow-" + c.ow)
	return c
}

func c18GenCase(h *H) *c18Case {
	if vCanSetpriv() && h.Intn(15) == 0 {
		return c18GenUnremovable(h)
	}
	switch h.Intn(14) {
	case 0, 1:
		return c18GenChain(h)
	case 2:
		return c18GenHardlinkFamily(h)
	case 3:
		return c18GenDupLinkFamily(h)
	}
	c := &c18Case{labels: map[string]bool{}}
	c.tree = c18GenTree(h, c, 0, "")
	if c18HasDup(c.tree) {
		c.lbl("duplicate-names")
	}
	var locs []string
	c18Locations(c.tree, "/", func(l string, n *vNode) { locs = append(locs, l) })

	// pre-existing target content: symlinks to outside at any path position, files, directories
	np := h.Intn(4)
	for i := 0; i < np; i++ {
		depth := 1 + h.Intn(3)
		var comps []string
		if len(locs) > 0 && h.Intn(3) > 0 { // a prefix of a snapshot path
			l := strings.Split(strings.Trim(locs[h.Intn(len(locs))], "/"), "/")
			comps = l[:1+h.Intn(len(l))]
		} else {
			for j := 0; j < depth; j++ {
				comps = append(comps, h.Pick(c18Names))
			}
		}
		ok := true
		for _, x := range comps {
			if x == "" || x == "." || x == ".." || strings.Contains(x, "/") {
				ok = false
			}
		}
		if !ok {
			continue
		}
		p := c18Pre{path: filepath.Join(append([]string{"target"}, comps...)...)}
		switch h.Intn(8) {
		case 0, 1, 2:
			p.kind = "symlink"
			p.target = strings.Repeat("../", len(comps)) + "outside"
			c.lbl("pre-symlink-to-outside-dir")
		case 3:
			p.kind = "symlink"
			p.target = "$ABS/outside/sub"
			c.lbl("pre-symlink-to-outside-dir")
		case 4:
			p.kind = "symlink"
			p.target = strings.Repeat("../", len(comps)) + "outside/secret"
			c.lbl("pre-symlink-to-outside-file")
		case 5:
			p.kind = "dir"
		default:
			p.kind = "file"
			p.data = []byte("old-" + Itoa(h.Intn(3)))
		}
		c.pre = append(c.pre, p)
	}

	switch h.Intn(10) {
	case 0, 1, 2, 3:
		c.filter = "include"
	case 4, 5:
		c.filter = "exclude"
	default:
		c.filter = "none"
	}
	if c.filter != "none" {
		np := 1 + h.Intn(2)
		for i := 0; i < np; i++ {
			var pat string
			if len(locs) > 0 && h.Intn(5) > 0 {
				pat = locs[h.Intn(len(locs))]
			} else {
				pat = "/" + h.Pick(c18Names) + "/" + h.Pick(c18Names)
			}
			switch h.Intn(6) {
			case 0:
				pat = filepath.Base(pat) // relative pattern: matches at any depth
			case 1:
				pat = filepath.Join(filepath.Dir(pat), "*")
			}
			if pat == "" || pat == "/" || pat == "." {
				pat = "/a"
			}
			c.pats = append(c.pats, pat)
		}
		c.lbl("filter-" + c.filter)
	}
	c.del = h.Intn(3) == 0
	if c.del {
		c.lbl("delete")
	}
	c.ow = []string{"always", "always", "always", "if-changed", "never", "never"}[h.Intn(6)] // if-newer depends on mtimes, which the name-space model does not track (C19 covers it)
	c.lbl("ow-" + c.ow)
	return c
}

// c18Select mirrors the two closures of runRestore (selectIncludeFilter / selectExcludeFilter)
// on top of the real pattern functions; used only to print the oracle table for the model.
func c18Select(c *c18Case) func(item string, isDir bool) (bool, bool) {
	warn := func(string, ...any) {}
	switch c.filter {
	case "include":
		fn := filter.IncludeByPattern(c.pats, warn)
		return func(item string, isDir bool) (bool, bool) {
			m, cm := fn(item)
			return m, cm && isDir
		}
	case "exclude":
		fn := filter.RejectByPattern(c.pats, warn)
		return func(item string, isDir bool) (bool, bool) {
			sel := !fn(item)
			return sel, sel && isDir
		}
	}
	return func(string, bool) (bool, bool) { return true, true }
}

// ---- the stream ---------------------------------------------------------------------------

func c18Type(t data.NodeType) string {
	switch t {
	case data.NodeTypeDir:
		return "d"
	case data.NodeTypeFile:
		return "f"
	case data.NodeTypeSymlink:
		return "l"
	case data.NodeTypeFifo:
		return "p"
	case data.NodeTypeSocket:
		return "s"
	}
	return "o"
}

func c18EmitTree(h *H, nodes []*vNode, depth int, abs string) {
	for _, n := range nodes {
		extra := "-"
		switch n.Type {
		case data.NodeTypeFile:
			extra = fmt.Sprintf("%d:%d:%s", n.Links, n.Inode, Hex(c19Concat(n.Parts)))
		case data.NodeTypeSymlink:
			extra = HexS(strings.ReplaceAll(n.Target, "$ABS", abs))
		case data.NodeTypeDir:
			if n.NoSubtree {
				extra = "nosubtree"
			}
		}
		h.Rec("n", Itoa(depth), c18Type(n.Type), HexS(n.Name), extra, fmt.Sprintf("%o", n.Mode.Perm()))
		if n.Type == data.NodeTypeDir {
			c18EmitTree(h, n.Children, depth+1, abs)
		}
	}
}

func c18FixTargets(nodes []*vNode, abs string) {
	for _, n := range nodes {
		n.Target = strings.ReplaceAll(n.Target, "$ABS", abs)
		c18FixTargets(n.Children, abs)
	}
}

func streamC18(h *H) {
	if vCanSetpriv() && os.Getenv("RESTIC_VERIF_TMP") != "" {
		_ = os.Chmod(verifTmpRoot(), 0711) // user nobody must be able to reach the sandboxes
	}
	n := h.N(150, 3000)
	repo, be := vNewRepo()
	cli := NewCLI(be)
	for i := 0; i < n; i++ {
		if i%100 == 99 {
			repo, be = vNewRepo()
			cli = NewCLI(be)
		}
		c := c18GenCase(h)
		root := MkTemp("c18-")
		// canonical absolute path (no symlinks in it)
		if r, err := filepath.EvalSymlinks(root); err == nil {
			root = r
		}
		c18FixTargets(c.tree, root)
		_, snapID := vSaveSnapshot(repo, c.tree)

		target := filepath.Join(root, "target")
		outside := filepath.Join(root, "outside")
		_ = os.MkdirAll(target, 0755)
		_ = os.MkdirAll(filepath.Join(outside, "sub"), 0755)
		_ = os.MkdirAll(filepath.Join(outside, "a", "b"), 0755)
		_ = os.MkdirAll(filepath.Join(outside, "b"), 0755)
		_ = os.MkdirAll(filepath.Join(outside, "emptydir"), 0755)
		_ = os.WriteFile(filepath.Join(outside, "secret"), []byte("SECRET"), 0640)
		_ = os.WriteFile(filepath.Join(outside, "a", "b", "c"), []byte("outside-abc"), 0640)
		_ = os.WriteFile(filepath.Join(outside, "sub", "x"), []byte("outside-sub-x"), 0640)
		_ = os.WriteFile(filepath.Join(outside, "x"), []byte("outside-x"), 0640)
		_ = os.WriteFile(filepath.Join(outside, "c"), []byte("outside-c"), 0640)
		_ = os.Symlink("secret", filepath.Join(outside, "b", "x"))
		var pres []c18Pre
		for _, p := range c.pre {
			full := filepath.Join(root, p.path)
			// only create it if the parent chain consists of real directories inside target
			if err := os.MkdirAll(filepath.Dir(full), 0755); err != nil {
				continue
			}
			if rp, err := filepath.EvalSymlinks(filepath.Dir(full)); err != nil || rp != filepath.Dir(full) {
				continue
			}
			if _, err := os.Lstat(full); err == nil {
				continue
			}
			p.target = strings.ReplaceAll(p.target, "$ABS", root)
			var err error
			switch p.kind {
			case "symlink":
				err = os.Symlink(p.target, full)
			case "dir":
				err = os.Mkdir(full, 0755)
			case "file":
				err = os.WriteFile(full, p.data, 0644)
			}
			if err == nil {
				pres = append(pres, p)
			}
		}
		// old times everywhere, so that a touched directory is visible
		old := vBaseTime.Add(-1000 * time.Hour)
		_ = filepath.Walk(root, func(p string, _ os.FileInfo, err error) error {
			if err == nil {
				vLutimes(p, old)
			}
			return nil
		})
		beforeOut := vDump(outside)
		beforeRoot, _ := readDirNames(root)
		beforeTarget := vDump(target)

		args := []string{"restore", snapID.String(), "--target", target, "--overwrite", c.ow}
		if c.del {
			args = append(args, "--delete")
		}
		for _, p := range c.pats {
			args = append(args, "--"+c.filter, p)
		}
		var r CmdResult
		var fin bool
		if c.child {
			// unprivileged run of the real binary on a copy of the repository
			vChownR(root)
			if c.roDir != "" {
				_ = os.Chmod(filepath.Join(root, c.roDir), 0555)
			}
			repoDir := MkTemp("c18repo-")
			_ = os.Chmod(repoDir, 0755)
			vExportLocal(be, repoDir)
			exit, out, hang := vChildRestic(repoDir, root, 240*time.Second, args...)
			_ = os.RemoveAll(repoDir)
			fin = !hang
			r = CmdResult{Exit: exit, Stderr: out}
		} else {
			fin = vWithTimeout(60*time.Second, func(ctx context.Context) { r = cli.RunCtx(ctx, args...) })
		}

		afterOut := vDump(outside)
		afterRoot, _ := readDirNames(root)
		changed := vDiff(beforeOut, afterOut, true)
		sort.Strings(beforeRoot)
		sort.Strings(afterRoot)
		if strings.Join(beforeRoot, "/") != strings.Join(afterRoot, "/") {
			changed = append(changed, "<sandbox-root-entries>")
		}

		// ---- records
		h.Case("restore")
		var lbls []string
		for l := range c.labels {
			lbls = append(lbls, l)
		}
		sort.Strings(lbls)
		h.Rec("lbl", strings.Join(lbls, ","))
		runMode := "inproc"
		if c.child {
			runMode = "child"
		}
		h.Rec("opt", c.ow, B(c.del), c.filter, runMode)
		for _, p := range c.pats {
			h.Rec("pat", HexS(p))
		}
		h.Rec("root", HexS(root))
		c18EmitTree(h, c.tree, 0, root)
		for _, e := range beforeTarget {
			if e.Path == "" {
				continue
			}
			switch e.Kind {
			case "symlink":
				h.Rec("pre", "l", HexS(e.Path), Hex(e.Data))
			case "dir":
				h.Rec("pre", "d", HexS(e.Path), "-")
			default:
				h.Rec("pre", "f", HexS(e.Path), Hex(e.Data))
			}
		}
		for _, e := range beforeOut {
			k := "f"
			if e.Kind == "dir" {
				k = "d"
			} else if e.Kind == "symlink" {
				k = "l"
			}
			h.Rec("out0", k, HexS(e.Path), Hex(e.Data), fmt.Sprintf("%o", e.Mode))
		}
		// select filter oracle for every snapshot location and every pre-existing entry
		sel := c18Select(c)
		seen := map[string]bool{}
		emitSel := func(loc string) {
			if seen[loc] {
				return
			}
			seen[loc] = true
			s1, c1 := sel(loc, true)
			s0, c0 := sel(loc, false)
			h.Rec("sel", HexS(loc), B(s1), B(c1), B(s0), B(c0))
		}
		c18Locations(c.tree, "/", func(l string, _ *vNode) { emitSel(l) })
		for _, e := range beforeTarget {
			if e.Path != "" {
				emitSel("/" + e.Path)
			}
		}
		if !fin {
			h.Rec("res", "hang")
		} else {
			h.Rec("res", Itoa(r.Exit))
		}
		for _, p := range changed {
			h.Rec("chg", HexS(p))
		}
		for _, e := range vDump(target) {
			if e.Path == "" {
				continue
			}
			k := e.Kind
			d := "-"
			if k == "symlink" {
				d = Hex(e.Data)
			}
			h.Rec("tgt", k, HexS(e.Path), d)
		}
		if os.Getenv("RESTIC_VERIF_DEBUG") != "" && len(changed) > 0 {
			fmt.Fprintf(os.Stderr, "ESCAPE %v args=%v\n%s\n", changed, args, r.Stderr)
		}
		h.End()
		_ = filepath.Walk(root, func(p string, fi os.FileInfo, err error) error {
			if err == nil && fi.Mode()&os.ModeSymlink == 0 {
				_ = os.Chmod(p, 0700)
			}
			return nil
		})
		_ = os.RemoveAll(root)
	}
}
