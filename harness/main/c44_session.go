//go:build verif

package main

// Whole upload sessions on a real repository (shared by C44 `repo` and C16 `dedup`):
// Repository.WithBlobUploader + SaveBlobAsync from several goroutines on a recording in-memory
// backend whose Save is randomly delayed; afterwards the packs and index files are decoded from
// the bytes that reached the backend, and the index is inspected (in memory and freshly loaded).

import (
	"bytes"
	"context"
	"fmt"
	"math/rand"
	"sort"
	"sync"
	"time"

	"github.com/restic/restic/internal/backend"
	"github.com/restic/restic/internal/backend/mem"
	"github.com/restic/restic/internal/repository"
	"github.com/restic/restic/internal/repository/index"
	"github.com/restic/restic/internal/repository/pack"
	"github.com/restic/restic/internal/restic"
)

// delayBackend delays Save by a small random time so that uploads, StorePack and further
// SaveBlob calls interleave differently from run to run.
type delayBackend struct {
	backend.Backend
	mu  sync.Mutex
	rng *rand.Rand
	max int // microseconds
	// pre, if set, runs before a pack file is handed to the wrapped backend
	pre func(h backend.Handle)
}

func (d *delayBackend) Save(ctx context.Context, h backend.Handle, rd backend.RewindReader) error {
	d.mu.Lock()
	us := 0
	if d.max > 0 && h.Type == backend.PackFile {
		us = d.rng.Intn(d.max)
	}
	d.mu.Unlock()
	if us > 0 {
		time.Sleep(time.Duration(us) * time.Microsecond)
	}
	if d.pre != nil && h.Type == backend.PackFile {
		d.pre(h)
	}
	return d.Backend.Save(ctx, h, rd)
}

func (d *delayBackend) Unwrap() backend.Backend { return d.Backend }

type c44Content struct {
	t    restic.BlobType
	data []byte
	id   restic.ID
}

type c44Call struct {
	c     int // content number
	dup   bool
	known bool
	err   error
	done  bool
}

func c44Handle(c c44Content, n int) string { return c44T(c.t) + Itoa(n) }

func c44Pid(id restic.ID) string { return id.String()[:10] }

// c44RepoCase runs one session case. heavyDup: few distinct contents, many calls (C16).
func c44RepoCase(h *H, sub string, heavyDup bool) {
	ctx := context.Background()
	packSize := []int{512, 2048, 8192}[h.Intn(3)]
	packerCount := 1 + h.Intn(3)
	if h.Bool() {
		packerCount = 2
	}
	nthreads := 1 + h.Intn(8)
	version := uint(2)
	if h.Intn(5) == 0 {
		version = 1
	}
	opts := repository.Options{}
	// (CompressionMax is avoided: initialising the "best" zstd encoders costs ~1 s per repository)
	if h.Intn(3) == 0 {
		opts.Compression = repository.CompressionOff
	}
	ncont := 1 + h.Intn(40)
	ncalls := ncont + h.Intn(2*ncont+1)
	if heavyDup {
		ncont = 1 + h.Intn(8)
		ncalls = ncont + h.Intn(60)
	}
	// distinct contents
	conts := make([]c44Content, 0, ncont)
	seen := map[restic.ID]int{}
	for len(conts) < ncont {
		l := c44Size(h, packSize)
		var data []byte
		if h.Bool() {
			data = h.Bytes(l)
		} else { // compressible
			data = bytes.Repeat([]byte{byte(h.Intn(256))}, l)
			if l > 4 {
				copy(data, h.Bytes(4))
			}
		}
		t := restic.DataBlob
		if h.Intn(4) == 0 {
			t = restic.TreeBlob
		}
		id := restic.Hash(data)
		if _, ok := seen[id]; ok {
			// same bytes again: make it differ (also as other type the handle differs, keep simple)
			data = append(data, byte(len(conts)), 0xfe, byte(h.Intn(256)))
			id = restic.Hash(data)
			if _, ok := seen[id]; ok {
				continue
			}
		}
		seen[id] = len(conts)
		conts = append(conts, c44Content{t, data, id})
	}
	mb := mem.New()
	db := &delayBackend{Backend: mb, rng: rand.New(rand.NewSource(h.Rng.Int63())), max: []int{0, 50, 500}[h.Intn(3)]}
	rec := NewRecBackend(db)
	rec.KeepData = true
	var repo *repository.Repository
	var fatal string
	if p, msg := Protect(func() { repo, _ = repository.TestRepositoryWithBackend(TB, rec, version, opts) }); p {
		fatal = msg
	}
	h.Case(sub)
	if fatal != "" {
		h.Rec("harness-error", HexS(fatal))
		h.End()
		return
	}
	repository.VerifC44SetPacking(repo, uint(packSize), packerCount)
	reopen := false
	// phase 0: some contents are stored (and indexed) before the observed session
	var pre []int
	if h.Intn(3) != 0 {
		for i := range conts {
			if h.Intn(3) == 0 {
				pre = append(pre, i)
			}
		}
	}
	if len(pre) > 0 {
		err := repo.WithBlobUploader(ctx, func(ctx context.Context, up restic.BlobSaverWithAsync) error {
			for _, i := range pre {
				if _, _, _, err := up.SaveBlob(ctx, conts[i].t, conts[i].data, restic.ID{}, false); err != nil {
					return err
				}
			}
			return nil
		})
		if err != nil {
			h.Rec("harness-error", HexS("pre-session: "+err.Error()))
			h.End()
			return
		}
		if h.Bool() { // the "loaded index" case: a new Repository object reads the index files
			reopen = true
			repo = OpenRepoOn(rec, "geheim")
			if err := repo.LoadIndex(ctx, restic.NoopTerminalCounterFactory); err != nil {
				h.Rec("harness-error", HexS("load index: "+err.Error()))
				h.End()
				return
			}
			repository.VerifC44SetPacking(repo, uint(packSize), packerCount)
		}
	}
	phase1From := len(rec.Events)
	syncMode := heavyDup && h.Intn(4) == 0 // plain SaveBlob calls one after the other: the schedule is the call order
	h.Rec("cfg", Itoa(packSize), Itoa(packerCount), Itoa(nthreads), B(reopen), Itoa(int(version)), B(syncMode))
	{
		toks := make([]string, 0, len(pre))
		for _, i := range pre {
			toks = append(toks, c44Handle(conts[i], i))
		}
		h.Rec("pre", toks...)
	}
	// the observed session
	calls := make([]*c44Call, ncalls)
	withDup := h.Bool() // half of the cases contain no storeDuplicate call at all
	for i := range calls {
		c := h.Intn(ncont)
		if i < ncont && !heavyDup {
			c = i
		}
		calls[i] = &c44Call{c: c, dup: withDup && h.Intn(12) == 0}
	}
	var mu sync.Mutex
	var sessErr error
	// "uploaded, then indexed": when a pack is about to be written to the backend the master index
	// must not list it yet
	var early []string
	db.pre = func(bh backend.Handle) {
		for _, c := range conts {
			for _, pb := range repo.LookupBlob(restic.BlobHandle{ID: c.id, Type: c.t}) {
				if pb.PackID().String() == bh.Name {
					mu.Lock()
					early = append(early, bh.Name[:10])
					mu.Unlock()
					return
				}
			}
		}
	}
	panicked, pmsg := Protect(func() {
		sessErr = repo.WithBlobUploader(ctx, func(ctx context.Context, up restic.BlobSaverWithAsync) error {
			if syncMode {
				for _, c := range calls {
					newID, known, _, err := up.SaveBlob(ctx, conts[c.c].t, conts[c.c].data, restic.ID{}, c.dup)
					c.known, c.err, c.done = known, err, true
					if err == nil && newID != conts[c.c].id {
						c.err = fmt.Errorf("wrong id returned")
					}
				}
				return nil
			}
			var wg sync.WaitGroup   // submitters
			var cbs sync.WaitGroup // callbacks
			for t := 0; t < nthreads; t++ {
				wg.Add(1)
				go func(t int) {
					defer wg.Done()
					for i := t; i < len(calls); i += nthreads {
						c := calls[i]
						cbs.Add(1)
						up.SaveBlobAsync(ctx, conts[c.c].t, conts[c.c].data, restic.ID{}, c.dup, func(newID restic.ID, known bool, size int, err error) {
							mu.Lock()
							c.known, c.err, c.done = known, err, true
							if err == nil && newID != conts[c.c].id {
								c.err = fmt.Errorf("wrong id returned")
							}
							mu.Unlock()
							cbs.Done()
						})
					}
				}(t)
			}
			wg.Wait()
			cbs.Wait()
			return nil
		})
	})
	if panicked {
		h.Rec("sess", "panic", HexS(pmsg))
		h.End()
		return
	}
	for i, c := range calls {
		h.Rec("call", Itoa(i), c44Handle(conts[c.c], c.c), Itoa(len(conts[c.c].data)), B(c.dup), B(c.known), c44ErrTok(c.err), B(c.done))
	}
	db.pre = nil
	sort.Strings(early)
	h.Rec("early", early...)
	if sessErr != nil {
		h.Rec("sess", "1", HexS(sessErr.Error()))
	} else {
		h.Rec("sess", "0")
	}
	// what reached the backend
	rec.mu.Lock()
	events := append([]Event(nil), rec.Events...)
	rec.mu.Unlock()
	for _, ev := range events {
		if ev.Op != "save" || ev.Err {
			continue
		}
		phase := "0"
		if ev.N >= phase1From {
			phase = "1"
		}
		switch ev.Type {
		case "data":
			blobs, hdr, err := pack.List(repo.Key(), bytes.NewReader(ev.Data), int64(len(ev.Data)))
			toks := []string{ev.Name[:10], phase, Itoa(ev.N), Itoa(int(hdr)), c44ErrTok(err)}
			for _, b := range blobs {
				num := "?"
				if n, ok := seen[b.ID]; ok {
					num = Itoa(n)
				}
				toks = append(toks, fmt.Sprintf("%s:%s:%d:%d", c44T(b.Type), num, b.Length, b.UncompressedLength))
			}
			h.Rec("pack", toks...)
		case "index":
			id, err := restic.ParseID(ev.Name)
			toks := []string{ev.Name[:10], phase, Itoa(ev.N)}
			if err == nil {
				var buf []byte
				buf, err = repo.LoadUnpacked(ctx, restic.IndexFile, id)
				if err == nil {
					var idx *index.Index
					idx, err = index.DecodeIndex(buf, id)
					if err == nil {
						var ps []string
						for p := range idx.Packs() {
							ps = append(ps, c44Pid(p))
						}
						sort.Strings(ps)
						toks = append(toks, ps...)
					}
				}
			}
			if err != nil {
				toks = append(toks, "undecodable")
			}
			h.Rec("idx", toks...)
		}
	}
	// index entries per handle: in memory, and loaded afresh from the backend
	fresh := OpenRepoOn(rec, "geheim")
	freshErr := fresh.LoadIndex(ctx, restic.NoopTerminalCounterFactory)
	for i, c := range conts {
		bh := restic.BlobHandle{ID: c.id, Type: c.t}
		lk := func(r *repository.Repository) []string {
			var ps []string
			for _, pb := range r.LookupBlob(bh) {
				ps = append(ps, c44Pid(pb.PackID()))
			}
			sort.Strings(ps)
			return ps
		}
		h.Rec("ent", append([]string{c44Handle(c, i)}, lk(repo)...)...)
		if freshErr == nil {
			h.Rec("ent2", append([]string{c44Handle(c, i)}, lk(fresh)...)...)
		}
	}
	if freshErr != nil {
		h.Rec("ent2err", HexS(freshErr.Error()))
	}
	h.End()
}
