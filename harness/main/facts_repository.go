//go:build verif

package main

import "github.com/restic/restic/internal/repository"

var _ = verifRegisterFacts(repository.VerifFacts)
