//go:build verif

package main

import "github.com/restic/restic/internal/bloblru"

var _ = verifRegisterFacts(bloblru.VerifFacts)
