//go:build verif

package main

import (
	"context"
	"encoding/json"
	"io"
	"strings"
	"time"

	"github.com/restic/restic/internal/data"
	"github.com/restic/restic/internal/global"
	"github.com/restic/restic/internal/repository"
	"github.com/restic/restic/internal/restic"
)

var _ = verifRegister("C25", streamC25)

// OpenRepo opens the environment's repository directly (no locks), for harness-side setup and
// inspection.
func (e *Env) OpenRepo() *repository.Repository {
	repo, err := repository.New(e.Be, repository.Options{})
	if err != nil {
		panic(err)
	}
	if err := repo.SearchKey(context.Background(), e.Gopts.Password, 20, ""); err != nil {
		panic(err)
	}
	return repo
}

func (e *Env) Init() {
	_, _, err := WithTerm(e.Gopts, func(ctx context.Context, gopts global.Options) error {
		return runInit(ctx, InitOptions{}, gopts, nil, gopts.Term)
	})
	if err != nil {
		panic(err)
	}
}

func c25Snapshots(repo *repository.Repository) map[restic.ID]*data.Snapshot {
	res := map[restic.ID]*data.Snapshot{}
	err := data.ForAllSnapshots(context.Background(), repo, repo, nil, func(id restic.ID, sn *data.Snapshot, err error) error {
		if err != nil {
			return err
		}
		res[id] = sn
		return nil
	})
	if err != nil {
		panic(err)
	}
	return res
}

// canonical JSON of a snapshot without tags / original (the fields a tag edit may change)
func c25Rest(sn *data.Snapshot) string {
	c := *sn
	c.Tags = nil
	c.Original = nil
	b, _ := json.Marshal(&c)
	return string(b)
}

func streamC25(h *H) {
	alphabet := []string{"a", "b", "c"}
	// raw flag values: comma lists with spaces, empty elements, the empty string
	rawVals := []string{"a", "b", "c", "a,b", "b,a", "a,a", "", " a ", "a,,b", ",", "c, a", "b,c,b"}
	genTags := func(max int) []string {
		n := h.Intn(max + 1)
		var l []string
		for i := 0; i < n; i++ {
			l = append(l, h.Pick(alphabet))
		}
		return l
	}
	genVals := func(max int) []string {
		n := h.Intn(max + 1)
		var l []string
		for i := 0; i < n; i++ {
			l = append(l, h.Pick(rawVals))
		}
		return l
	}
	env := NewMemEnv(nil)
	env.Init()
	n := h.N(400, 20000)
	for i := 0; i < n; i++ {
		if i%200 == 199 { // fresh repository now and then
			env = NewMemEnv(nil)
			env.Init()
		}
		repo := env.OpenRepo()
		// wipe snapshots from earlier cases
		for id := range c25Snapshots(repo) {
			_ = env.Be.Remove(context.Background(), backendHandle(restic.SnapshotFile, id))
		}
		old := genTags(4)
		other := genTags(3)
		mk := func(tags []string, host string, orig bool) restic.ID {
			sn, err := data.NewSnapshot([]string{"/data/" + host}, append([]string(nil), tags...), host, time.Unix(1700000000+int64(h.Intn(100000)), 0))
			if err != nil {
				panic(err)
			}
			tree := restic.Hash([]byte("tree-" + host))
			sn.Tree = &tree
			if orig {
				o := restic.Hash([]byte("orig-" + host))
				sn.Original = &o
			}
			id, err := data.SaveSnapshot(context.Background(), repo, sn)
			if err != nil {
				panic(err)
			}
			return id
		}
		hadOrig := h.Intn(4) == 0
		selID := mk(old, "sel", hadOrig)
		otherID := mk(other, "other", false)
		before := c25Snapshots(repo)

		var setV, addV, remV []string
		switch h.Intn(10) {
		case 0: // sometimes invalid combinations / nothing
			setV, addV, remV = genVals(1), genVals(1), genVals(1)
		case 1, 2, 3:
			setV = genVals(2)
		default:
			addV, remV = genVals(2), genVals(2)
		}
		var args []string
		for _, v := range setV {
			args = append(args, "--set", v)
		}
		for _, v := range addV {
			args = append(args, "--add="+v)
		}
		for _, v := range remV {
			args = append(args, "--remove", v)
		}
		selectAll := h.Intn(5) == 0
		if selectAll {
			args = append(args, "--host", "sel")
		} else {
			args = append(args, selID.String())
		}

		h.Case("cli")
		h.Rec("old", HexList(old)...)
		for _, v := range setV {
			h.Rec("set", HexS(v))
		}
		for _, v := range addV {
			h.Rec("add", HexS(v))
		}
		for _, v := range remV {
			h.Rec("rem", HexS(v))
		}
		h.Rec("cmd", HexS(strings.Join(args, "\x00")))

		var runErr error
		panicked, _ := Protect(func() {
			_, _, runErr = WithTerm(env.Gopts, func(ctx context.Context, gopts global.Options) error {
				cmd := newTagCommand(&gopts)
				cmd.SetArgs(args)
				cmd.SetOut(io.Discard)
				cmd.SetErr(io.Discard)
				cmd.SilenceErrors = true
				cmd.SilenceUsage = true
				return cmd.ExecuteContext(ctx)
			})
		})
		if panicked {
			h.Rec("res", "panic")
			h.End()
			continue
		}
		if runErr != nil {
			h.Rec("res", "fatal", HexS(runErr.Error()))
			after := c25Snapshots(env.OpenRepo())
			h.Rec("side", Itoa(len(before)), Itoa(len(after)), B(true), B(sameSnap(before[otherID], after[otherID]) && sameSnap(before[selID], after[selID])), B(true))
			h.End()
			continue
		}
		after := c25Snapshots(env.OpenRepo())
		// locate the (possibly rewritten) selected snapshot
		var newSn *data.Snapshot
		changed := false
		if sn, ok := after[selID]; ok {
			newSn = sn
		} else {
			changed = true
			want := selID
			if hadOrig {
				want = *before[selID].Original
			}
			for _, sn := range after {
				if sn.Original != nil && *sn.Original == want && sn.Hostname == "sel" {
					newSn = sn
				}
			}
		}
		if newSn == nil {
			h.Rec("res", "ok", B(changed))
			h.Rec("side", Itoa(len(before)), Itoa(len(after)), B(false), B(false), B(false))
			h.End()
			continue
		}
		h.Rec("res", append([]string{"ok", B(changed)}, HexList(newSn.Tags)...)...)
		origOK := true
		if changed {
			want := selID
			if hadOrig {
				want = *before[selID].Original
			}
			origOK = newSn.Original != nil && *newSn.Original == want
		}
		h.Rec("side", Itoa(len(before)), Itoa(len(after)),
			B(c25Rest(newSn) == c25Rest(before[selID])),
			B(sameSnap(before[otherID], after[otherID])),
			B(origOK))
		h.End()
	}
}

func sameSnap(a, b *data.Snapshot) bool {
	if a == nil || b == nil {
		return false
	}
	ja, _ := json.Marshal(a)
	jb, _ := json.Marshal(b)
	return string(ja) == string(jb)
}
