//go:build verif

package main

// C31 — upgrading a repository to format v2 preserves all data.
//
// Repositories of format version 1 are built with the real CLI (init --repository-version 1, two
// backups). Sub-streams:
//
//	api   `repository.UpgradeRepo` on a repository opened directly over a fault/crash wrapper
//	      (no retry layer): every fault schedule over the (at most four) backend operations on
//	      the config file x every interruption point, on the in-memory backend (no atomic
//	      replace) and on the local backend (atomic replace). The config file actually present
//	      afterwards is classified by reading it back.
//	cli   `restic migrate upgrade_repo_v2` through the real command line over the recording
//	      backend, interrupted after every number of completed save/remove operations, and once to
//	      completion followed by check, restore and a byte comparison of all other files.
//
// Records:
//
//	be mem|local     atomic 0/1
//	sched <bits>     fault schedule: bit i = i-th config operation fails   (api)
//	stop <k|-1>      interruption: everything fails once k config operations were attempted (api)
//	                 / after k completed save/remove operations of any type (cli)
//	step <remove|save> <ok 0/1>          config operations attempted before the interruption, in order
//	cfg old|new|none|other               the config file afterwards
//	outcome upgraded|restored|notrestored|error|crashed
//	touched <n>      save/remove operations on files other than config and lock
//	same <0/1>       all files other than config and lock byte-identical
//	after-upgrade <version> <id-same 0/1> <pol-same 0/1> <check exit> <restore-same 0/1>   (cli, complete)

import (
	"context"
	"crypto/sha256"
	"encoding/hex"
	"encoding/json"
	"errors"
	"io"
	"io/fs"
	"os"
	"path/filepath"
	"sort"
	"strings"
	"sync"

	"github.com/restic/restic/internal/backend"
	"github.com/restic/restic/internal/backend/mem"
	"github.com/restic/restic/internal/repository"
	"github.com/restic/restic/internal/restic"
)

var _ = verifRegister("C31", streamC31)

var errC31Fault = errors.New("verif-fault: injected config operation failure")

// c31Be injects failures into / cuts the run at operations on the config file.
type c31Be struct {
	backend.Backend
	mu    sync.Mutex
	sched []bool
	stop  int // -1: never
	n     int // config operations attempted so far
	down  bool
	steps [][2]string // op, ok
	other int         // mutating operations on non-config, non-lock files
}

func (b *c31Be) gate(op string, h backend.Handle) (error, int) {
	b.mu.Lock()
	defer b.mu.Unlock()
	if b.down {
		return errCrashed, -1
	}
	if h.Type != backend.ConfigFile {
		if h.Type != backend.LockFile {
			b.other++
		}
		return nil, -1
	}
	if b.stop >= 0 && b.n >= b.stop {
		b.down = true
		return errCrashed, -1
	}
	i := b.n
	b.n++
	b.steps = append(b.steps, [2]string{op, "1"})
	if i < len(b.sched) && b.sched[i] {
		b.steps[len(b.steps)-1][1] = "0"
		return errC31Fault, len(b.steps) - 1
	}
	return nil, len(b.steps) - 1
}

func (b *c31Be) result(idx int, err error) {
	if idx >= 0 && err != nil {
		b.mu.Lock()
		b.steps[idx][1] = "0"
		b.mu.Unlock()
	}
}

func (b *c31Be) Save(ctx context.Context, h backend.Handle, rd backend.RewindReader) error {
	err, idx := b.gate("save", h)
	if err != nil {
		return err
	}
	err = b.Backend.Save(ctx, h, rd)
	b.result(idx, err)
	return err
}

func (b *c31Be) Remove(ctx context.Context, h backend.Handle) error {
	err, idx := b.gate("remove", h)
	if err != nil {
		return err
	}
	err = b.Backend.Remove(ctx, h)
	b.result(idx, err)
	return err
}

func (b *c31Be) Load(ctx context.Context, h backend.Handle, length int, offset int64, fn func(rd io.Reader) error) error {
	b.mu.Lock()
	down := b.down
	b.mu.Unlock()
	if down {
		return errCrashed
	}
	return b.Backend.Load(ctx, h, length, offset, fn)
}

func (b *c31Be) Unwrap() backend.Backend { return b.Backend }

type c31Repo struct {
	st       BeState
	rawCfg   []byte
	cfg      restic.Config
	restored string // digest of the restored latest snapshot
}

func c31TreeDigest(dir string) string {
	hs := sha256.New()
	var paths []string
	filepath.WalkDir(dir, func(p string, d fs.DirEntry, err error) error {
		if err == nil {
			paths = append(paths, p)
		}
		return nil
	})
	sort.Strings(paths)
	for _, p := range paths {
		rel, _ := filepath.Rel(dir, p)
		fi, err := os.Lstat(p)
		if err != nil {
			continue
		}
		io.WriteString(hs, rel+"\x00"+fi.Mode().String()+"\x00")
		if fi.Mode().IsRegular() {
			b, _ := os.ReadFile(p)
			hs.Write(b)
		}
	}
	return hex.EncodeToString(hs.Sum(nil)[:8])
}

func c31Restore(be backend.Backend) string {
	dir := MkTemp("c31-restore-")
	defer os.RemoveAll(dir)
	r := NewCLI(be).Run("restore", "latest", "--target", dir, "--no-lock")
	if r.Err != nil {
		return "restore-failed"
	}
	return c31TreeDigest(dir)
}

func c31ReadCfg(be backend.Backend) (restic.Config, bool) {
	r := NewCLI(be).Run("cat", "config", "--no-lock")
	var cfg restic.Config
	if r.Err != nil || json.Unmarshal([]byte(r.Stdout), &cfg) != nil {
		return cfg, false
	}
	return cfg, true
}

func c31Build(h *H) *c31Repo {
	be := mem.New()
	cli := NewCLI(be)
	cli.MustRun("init", "--repository-version", "1")
	src := MkTemp("c31-src-")
	defer os.RemoveAll(src)
	c39Write(filepath.Join(src, "a.txt"), []byte("hello\n"))
	c39Write(filepath.Join(src, "d", "b.bin"), h.Bytes(10000+h.Intn(20000)))
	c39Write(filepath.Join(src, "d", "e", "c.txt"), []byte(strings.Repeat("x", 100+h.Intn(500))))
	cli.MustRun("backup", src)
	c39Write(filepath.Join(src, "d", "new.bin"), h.Bytes(3000))
	cli.MustRun("backup", src)
	rp := &c31Repo{st: DumpBackend(be)}
	rp.rawCfg = rp.st["config/"]
	cfg, ok := c31ReadCfg(be)
	if !ok || cfg.Version != 1 {
		panic("harness: v1 repository expected")
	}
	rp.cfg = cfg
	rp.restored = c31Restore(be)
	return rp
}

// c31Instantiate copies the repository state into a fresh backend of the given kind.
func c31Instantiate(rp *c31Repo, kind string) (backend.Backend, func()) {
	if kind == "mem" {
		return LoadBackend(rp.st), func() {}
	}
	dir := MkTemp("c31-local-")
	be := a15NewLocal(dir)
	var keys []string
	for k := range rp.st {
		keys = append(keys, k)
	}
	sort.Strings(keys)
	for _, k := range keys {
		i := strings.IndexByte(k, '/')
		a15Put(be, ftByName(k[:i]), k[i+1:], rp.st[k])
	}
	return be, func() { os.RemoveAll(dir) }
}

func c31CfgClass(rp *c31Repo, be backend.Backend) string {
	st := DumpBackend(be)
	raw, ok := st["config/"]
	if !ok {
		return "none"
	}
	if string(raw) == string(rp.rawCfg) {
		return "old"
	}
	cfg, ok := c31ReadCfg(be)
	if ok && cfg.Version == 2 && cfg.ID == rp.cfg.ID && cfg.ChunkerPolynomial == rp.cfg.ChunkerPolynomial {
		return "new"
	}
	return "other"
}

func c31SameData(rp *c31Repo, be backend.Backend) bool {
	st := DumpBackend(be)
	strip := func(s BeState) BeState {
		r := BeState{}
		for k, v := range s {
			if !strings.HasPrefix(k, "config/") && !strings.HasPrefix(k, "lock/") {
				r[k] = v
			}
		}
		return r
	}
	return strip(st).Equal(strip(rp.st))
}

func streamC31(h *H) {
	// UpgradeRepo keeps a backup copy of the config in os.TempDir(); use a private directory so that
	// cleaning up after failed runs cannot interfere with other shards running in parallel
	private := MkTemp("c31-tmp-")
	defer os.RemoveAll(private)
	os.Setenv("TMPDIR", private)
	nrepo := h.N(2, 12)
	for ri := 0; ri < nrepo; ri++ {
		rp := c31Build(h)
		for _, kind := range []string{"mem", "local"} {
			atomic := kind == "local"
			// ---- api: fault schedules x interruption points
			for sched := 0; sched < 16; sched++ {
				bits := []bool{sched&1 != 0, sched&2 != 0, sched&4 != 0, sched&8 != 0}
				for stop := -1; stop <= 4; stop++ {
					// thin the matrix for all but the first repository of a run
					if ri > 0 && h.Intn(4) != 0 {
						continue
					}
					inner, cleanup := c31Instantiate(rp, kind)
					fb := &c31Be{Backend: inner, sched: bits, stop: stop}
					var err error
					panicked, pmsg := Protect(func() {
						repo := OpenRepoOn(fb, "geheim")
						err = repository.UpgradeRepo(context.Background(), repo)
					})
					h.Case("api")
					h.Rec("be", kind, B(atomic))
					sb := ""
					for _, b := range bits {
						sb += B(b)
					}
					h.Rec("sched", sb)
					h.Rec("stop", Itoa(stop))
					for _, s := range fb.steps {
						h.Rec("step", s[0], s[1])
					}
					h.Rec("cfg", c31CfgClass(rp, inner))
					switch {
					case panicked:
						h.Rec("outcome", "panic", HexS(pmsg))
					case err == nil:
						h.Rec("outcome", "upgraded")
					case fb.down:
						h.Rec("outcome", "crashed")
					case strings.Contains(err.Error(), "re-uploaded old config was successful"):
						h.Rec("outcome", "restored")
					case strings.Contains(err.Error(), "re-uploading old config filed failed as well"):
						h.Rec("outcome", "notrestored")
					default:
						h.Rec("outcome", "error", HexS(err.Error()))
					}
					h.Rec("touched", Itoa(fb.other))
					h.Rec("same", B(c31SameData(rp, inner)))
					h.End()
					cleanup()
					// the backup copy UpgradeRepo leaves in the temp dir on failure
					if m, _ := filepath.Glob(filepath.Join(os.TempDir(), "restic-migrate-upgrade-repo-v2-*")); len(m) > 0 {
						for _, d := range m {
							os.RemoveAll(d)
						}
					}
				}
			}
			// ---- cli: migrate, interrupted after k completed save/remove operations
			total := -1
			for crash := -1; total < 0 || crash < total; crash++ {
				inner, cleanup := c31Instantiate(rp, kind)
				rec := NewRecBackend(inner)
				rec.CrashAfter = crash
				cli := NewCLI(a15Crashy{rec})
				r := cli.Run("migrate", "upgrade_repo_v2")
				if crash == -1 {
					total = rec.Mutations()
				}
				h.Case("cli")
				h.Rec("be", kind, B(atomic))
				h.Rec("stop", Itoa(crash))
				touched := 0
				for _, e := range rec.Events {
					if e.Type == "config" && (e.Op == "save" || e.Op == "remove") {
						h.Rec("step", e.Op, B(!e.Err))
					}
					if (e.Op == "save" || e.Op == "remove") && e.Type != "config" && e.Type != "lock" {
						touched++
					}
				}
				cls := c31CfgClass(rp, inner)
				h.Rec("cfg", cls)
				switch {
				case r.Panic != "":
					h.Rec("outcome", "panic", HexS(r.Panic))
				case r.Err == nil:
					h.Rec("outcome", "upgraded")
				case rec.Crashed:
					h.Rec("outcome", "crashed")
				default:
					h.Rec("outcome", "error", HexS(r.Err.Error()))
				}
				h.Rec("touched", Itoa(touched))
				h.Rec("same", B(c31SameData(rp, inner)))
				if crash == -1 && r.Err == nil {
					cfg, ok := c31ReadCfg(inner)
					chk := NewCLI(inner).Run("check", "--no-lock", "--read-data")
					h.Rec("after-upgrade", U64(uint64(cfg.Version)), B(ok && cfg.ID == rp.cfg.ID),
						B(ok && cfg.ChunkerPolynomial == rp.cfg.ChunkerPolynomial), Itoa(chk.Exit), B(c31Restore(inner) == rp.restored))
				}
				h.End()
				cleanup()
			}
		}
		// an already upgraded repository is left alone
		{
			inner := LoadBackend(rp.st)
			NewCLI(inner).MustRun("migrate", "upgrade_repo_v2")
			before := DumpBackend(inner)
			rec := NewRecBackend(inner)
			args := []string{"migrate", "upgrade_repo_v2"}
			if h.Bool() {
				args = append(args, "--force")
			}
			r := NewCLI(rec).Run(args...)
			h.Case("again")
			h.Rec("be", "mem", "0")
			h.Rec("stop", "-1")
			for _, e := range rec.Events {
				if e.Type == "config" && (e.Op == "save" || e.Op == "remove") {
					h.Rec("step", e.Op, B(!e.Err))
				}
			}
			h.Rec("cfg", map[bool]string{true: "new", false: "other"}[string(DumpBackend(inner)["config/"]) == string(before["config/"])])
			h.Rec("outcome", map[bool]string{true: "upgraded", false: "error"}[r.Err == nil])
			h.Rec("touched", "0")
			h.Rec("same", B(c31SameData(rp, inner)))
			h.End()
		}
	}
}
