//go:build verif

package main

import (
	"archive/tar"
	"archive/zip"
	"bytes"
	"context"
	"io"
	"os"
	"sort"
	"strings"
	"sync"
	"time"

	"github.com/restic/restic/internal/data"
	"github.com/restic/restic/internal/dump"
	"github.com/restic/restic/internal/restic"
)

var _ = verifRegister("C45", streamC45)

// c45SlowRepo delays every blob load by a per-blob amount, so that the loader goroutines of
// writeNode finish in an order unrelated to the order of the content list.
type c45SlowRepo struct {
	restic.Loader
	delays map[restic.ID]time.Duration
}

func (r *c45SlowRepo) LoadBlob(ctx context.Context, h restic.BlobHandle, buf []byte) ([]byte, error) {
	if d := r.delays[h.ID]; d > 0 {
		time.Sleep(d)
	}
	return r.Loader.LoadBlob(ctx, h, buf)
}

// c45AdvRepo is the adversarial loader: for one file with many distinct blobs it holds back the
// download of every (limit+2)-th blob until the download of the blob limit+1 positions later has
// completed (bounded by a timeout, so nothing can hang), i.e. a download is overtaken by as many
// later ones as the goroutine and channel limits of writeNode admit. Connections() is chosen by
// the case (2 or 5).
type c45AdvRepo struct {
	restic.Loader
	conns uint
	pos   map[restic.ID]int // position in the content list of the big file
	done  []chan struct{}
	once  []sync.Once
}

func newC45AdvRepo(inner restic.Loader, conns uint, content restic.IDs) *c45AdvRepo {
	r := &c45AdvRepo{Loader: inner, conns: conns, pos: map[restic.ID]int{}}
	for i, id := range content {
		r.pos[id] = i
	}
	r.done = make([]chan struct{}, len(content))
	r.once = make([]sync.Once, len(content))
	for i := range r.done {
		r.done[i] = make(chan struct{})
	}
	return r
}

func (r *c45AdvRepo) Connections() uint { return r.conns }

func (r *c45AdvRepo) LoadBlob(ctx context.Context, h restic.BlobHandle, buf []byte) ([]byte, error) {
	i, ok := r.pos[h.ID]
	if !ok {
		return r.Loader.LoadBlob(ctx, h, buf)
	}
	b, err := r.Loader.LoadBlob(ctx, h, buf)
	step := int(r.conns) + 2
	if later := i + int(r.conns) + 1; i%step == 0 && later < len(r.done) {
		select {
		case <-r.done[later]:
			time.Sleep(3 * time.Millisecond) // let the later loader hand its blob over first
		case <-time.After(400 * time.Millisecond):
		case <-ctx.Done():
		}
	}
	r.once[i].Do(func() { close(r.done[i]) })
	return b, err
}

func c45TarMode(m os.FileMode) int64 {
	v := int64(m.Perm())
	if m&os.ModeSetuid != 0 {
		v |= 0o4000
	}
	if m&os.ModeSetgid != 0 {
		v |= 0o2000
	}
	if m&os.ModeSticky != 0 {
		v |= 0o1000
	}
	return v
}

// c45EmitTar reads the archive back with archive/tar.
func c45EmitTar(h *H, b []byte) {
	tr := tar.NewReader(bytes.NewReader(b))
	for {
		hdr, err := tr.Next()
		if err == io.EOF {
			break
		}
		if err != nil {
			h.Rec("archive-error", HexS(err.Error()))
			return
		}
		content, err := io.ReadAll(tr)
		if err != nil {
			h.Rec("archive-error", HexS(err.Error()))
			return
		}
		kind := "other"
		switch hdr.Typeflag {
		case tar.TypeReg:
			kind = "reg"
		case tar.TypeDir:
			kind = "dir"
		case tar.TypeSymlink:
			kind = "symlink"
		}
		h.Rec("ent", HexS(hdr.Name), kind, I64(hdr.Mode), HexS(hdr.Linkname), I64(hdr.Size), Hex(content))
	}
}

// c45EmitZip reads the archive back with archive/zip.
func c45EmitZip(h *H, b []byte) {
	zr, err := zip.NewReader(bytes.NewReader(b), int64(len(b)))
	if err != nil {
		h.Rec("archive-error", HexS(err.Error()))
		return
	}
	for _, f := range zr.File {
		rc, err := f.Open()
		if err != nil {
			h.Rec("archive-error", HexS(err.Error()))
			return
		}
		content, err := io.ReadAll(rc)
		_ = rc.Close()
		if err != nil {
			h.Rec("archive-error", HexS(err.Error()))
			return
		}
		m := f.Mode()
		switch {
		case m.IsDir():
			h.Rec("ent", HexS(f.Name), "dir", I64(c45TarMode(m)), "-", "0", Hex(content))
		case m&os.ModeSymlink != 0:
			h.Rec("ent", HexS(f.Name), "symlink", I64(c45TarMode(m)), Hex(content), "0", "-")
		case m.IsRegular():
			h.Rec("ent", HexS(f.Name), "reg", I64(c45TarMode(m)), "-", U64(f.UncompressedSize64), Hex(content))
		default:
			h.Rec("ent", HexS(f.Name), "other", I64(c45TarMode(m)), "-", U64(f.UncompressedSize64), Hex(content))
		}
	}
}

type c45Target struct {
	comps []string
	node  *a7Node // nil for "/"
}

// c45Targets lists every path of the tree (depth <= 3).
func c45Targets(nodes []*a7Node, pre []string, out *[]c45Target) {
	for _, n := range nodes {
		p := append(append([]string(nil), pre...), n.Name)
		*out = append(*out, c45Target{p, n})
		c45Targets(n.Kids, p, out)
	}
}

// streamC45: generated trees (multi-blob and repeated-blob files, symlinks, setuid/setgid/sticky
// bits, special files at the top level of the dumped directory and nested) written directly into
// an in-memory repository. Sub-streams:
//
//	cli     the real `restic dump [-a tar|zip] <snapshot> <path>` through the CLI (stdout captured)
//	direct  dump.New(...).DumpTree / WriteNode on a loader with per-blob delays (loader schedules)
//	adversarial  (every fifth case) a file with >= 3*connections+2 distinct blobs dumped (alone or
//	        with its directory) through c45AdvRepo: connections 2 or 5, every (connections+2)-th
//	        download is held until the download connections+1 positions later has completed
func streamC45(h *H) {
	n := h.N(120, 4000)
	var r *a7Repo
	for i := 0; i < n; i++ {
		if i%40 == 0 {
			r = newA7Repo()
		}
		g := newA7Gen(h)
		g.Specials = true
		g.Hardlinks = h.Intn(5) == 0
		g.MaxDepth = 1 + h.Intn(3)
		g.MaxKids = 2 + h.Intn(5)
		t := g.Tree()
		// a fixed share of the cases is adversarial: a file with >= 3*connections+2 distinct blobs,
		// dumped through a loader that lets later downloads overtake earlier ones
		adversarial := i%5 == 2
		advConns := uint(2)
		var big *a7Node
		if adversarial {
			if h.Bool() {
				advConns = 5
			}
			big = g.file("big")
			big.Links, big.DeviceID, big.Mode = 1, 0, 0o644
			big.Parts = nil
			big.Size = 0
			for k, nb := 0, 3*int(advConns)+2+h.Intn(6); k < nb; k++ {
				p := append([]byte{byte(k), byte(k >> 8)}, h.Bytes(2+h.Intn(12))...) // distinct blobs
				big.Parts = append(big.Parts, p)
				big.Size += uint64(len(p))
			}
			g.fillCommon(big)
			var dirs []*a7Node
			for _, x := range t {
				if x.Type == data.NodeTypeDir {
					dirs = append(dirs, x)
				}
			}
			dst := &t
			if len(dirs) > 0 && h.Bool() {
				dst = &dirs[h.Intn(len(dirs))].Kids
			}
			var keep []*a7Node
			for _, x := range *dst {
				if x.Name != "big" {
					keep = append(keep, x)
				}
			}
			keep = append(keep, big)
			sort.Slice(keep, func(a, b int) bool { return keep[a].Name < keep[b].Name })
			*dst = keep
		}
		id, treeID := r.Snapshot(t)

		var all []c45Target
		c45Targets(t, nil, &all)
		var pick func(f func(c45Target) bool) *c45Target
		pick = func(f func(c45Target) bool) *c45Target {
			var c []c45Target
			for _, x := range all {
				if f(x) {
					c = append(c, x)
				}
			}
			if len(c) == 0 {
				return nil
			}
			return &c[h.Intn(len(c))]
		}
		tgt := &c45Target{}
		switch r := h.Intn(20); {
		case r < 6: // "/"
		case r < 13:
			tgt = pick(func(x c45Target) bool { return x.node.Type == data.NodeTypeDir })
		case r < 17:
			tgt = pick(func(x c45Target) bool { return x.node.Type == data.NodeTypeFile })
		case r < 19:
			tgt = pick(func(x c45Target) bool { return x.node.Type != data.NodeTypeFile && x.node.Type != data.NodeTypeDir })
		default:
			tgt = &c45Target{comps: []string{"nonexistent"}}
		}
		if tgt == nil {
			tgt = &c45Target{}
		}
		if adversarial { // dump the big file itself or the directory that holds it
			for k := range all {
				if all[k].node == big {
					tgt = &all[k]
					if h.Bool() {
						if len(tgt.comps) == 1 {
							tgt = &c45Target{}
						} else {
							for j := range all {
								if len(all[j].comps) == len(tgt.comps)-1 && strings.Join(all[j].comps, "/") == strings.Join(tgt.comps[:len(tgt.comps)-1], "/") {
									tgt = &all[j]
								}
							}
						}
					}
					break
				}
			}
		}
		format := "tar"
		if h.Intn(3) == 0 {
			format = "zip"
		}
		sub := "cli"
		if h.Intn(3) == 0 {
			sub = "direct"
		}
		if adversarial {
			sub = "adversarial"
		}
		pathArg := "/" + strings.Join(tgt.comps, "/")
		if sub == "cli" && len(tgt.comps) > 0 && !strings.HasPrefix(tgt.comps[0], "-") && h.Intn(4) == 0 {
			pathArg = strings.Join(tgt.comps, "/") + "/" // relative form / trailing slash: cleaned by the command
		}

		h.Case(sub)
		h.Rec("fmt", format)
		h.Rec("target", HexList(tgt.comps)...)
		num := newA7Num()
		num.Emit(h, "0", t, 0)
		seen := map[int]bool{}
		var emitBlobs func(nodes []*a7Node)
		emitBlobs = func(nodes []*a7Node) {
			for _, x := range nodes {
				for j, bid := range x.Content {
					if k := num.ID(bid); !seen[k] {
						seen[k] = true
						h.Rec("blob", Itoa(k), Hex(x.Parts[j]))
					}
				}
				emitBlobs(x.Kids)
			}
		}
		emitBlobs(t)

		var out []byte
		var runErr error
		panicked := ""
		if sub == "cli" {
			args := []string{"dump"}
			if format == "zip" || h.Bool() {
				args = append(args, "-a", format)
			}
			res := r.CLI.Run(append(args, id.String(), pathArg)...)
			out, runErr, panicked = []byte(res.Stdout), res.Err, res.Panic
		} else {
			// only meaningful for "/" , directories and files: call the dump package like printFromTree does
			var loader restic.Loader
			if adversarial {
				loader = newC45AdvRepo(r.Repo, advConns, big.Content)
				h.Rec("adv", Itoa(int(advConns)), Itoa(len(big.Content)))
			} else {
				slow := &c45SlowRepo{Loader: r.Repo, delays: map[restic.ID]time.Duration{}}
				for bid := range num.ids {
					slow.delays[bid] = time.Duration(h.Intn(4)) * 300 * time.Microsecond
				}
				loader = slow
			}
			var buf bytes.Buffer
			d := dump.New(format, loader, &buf)
			ctx := context.Background()
			p, msg := Protect(func() {
				switch {
				case tgt.node == nil && len(tgt.comps) == 0:
					tree, err := data.LoadTree(ctx, r.Repo, treeID)
					if err != nil {
						panic(err)
					}
					runErr = d.DumpTree(ctx, tree, "/")
				case tgt.node != nil && tgt.node.Type == data.NodeTypeDir:
					tree, err := data.LoadTree(ctx, r.Repo, *tgt.node.Subtree)
					if err != nil {
						panic(err)
					}
					runErr = d.DumpTree(ctx, tree, "/"+strings.Join(tgt.comps, "/"))
				case tgt.node != nil && tgt.node.Type == data.NodeTypeFile:
					runErr = d.WriteNode(ctx, &tgt.node.Node)
				default:
					runErr = os.ErrNotExist
				}
			})
			if p {
				panicked = msg
			}
			out = buf.Bytes()
		}
		switch {
		case panicked != "":
			h.Rec("res", "panic", HexS(panicked))
		case runErr != nil:
			h.Rec("res", "err", HexS(runErr.Error()))
		case tgt.node != nil && tgt.node.Type == data.NodeTypeFile:
			h.Rec("res", "file", Hex(out))
		default:
			h.Rec("res", "archive")
			if format == "tar" {
				c45EmitTar(h, out)
			} else {
				c45EmitZip(h, out)
			}
		}
		h.End()
	}
}
