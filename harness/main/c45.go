//go:build verif

package main

import (
	"archive/tar"
	"archive/zip"
	"bytes"
	"context"
	"io"
	"os"
	"strings"
	"time"

	"github.com/restic/restic/internal/data"
	"github.com/restic/restic/internal/dump"
	"github.com/restic/restic/internal/restic"
)

var _ = verifRegister("C45", streamC45)

// c45SlowRepo delays every blob load by a per-blob amount, so that the loader goroutines of
// writeNode finish in an order unrelated to the order of the content list.
type c45SlowRepo struct {
	restic.Loader
	delays map[restic.ID]time.Duration
}

func (r *c45SlowRepo) LoadBlob(ctx context.Context, h restic.BlobHandle, buf []byte) ([]byte, error) {
	if d := r.delays[h.ID]; d > 0 {
		time.Sleep(d)
	}
	return r.Loader.LoadBlob(ctx, h, buf)
}

func c45TarMode(m os.FileMode) int64 {
	v := int64(m.Perm())
	if m&os.ModeSetuid != 0 {
		v |= 0o4000
	}
	if m&os.ModeSetgid != 0 {
		v |= 0o2000
	}
	if m&os.ModeSticky != 0 {
		v |= 0o1000
	}
	return v
}

// c45EmitTar reads the archive back with archive/tar.
func c45EmitTar(h *H, b []byte) {
	tr := tar.NewReader(bytes.NewReader(b))
	for {
		hdr, err := tr.Next()
		if err == io.EOF {
			break
		}
		if err != nil {
			h.Rec("archive-error", HexS(err.Error()))
			return
		}
		content, err := io.ReadAll(tr)
		if err != nil {
			h.Rec("archive-error", HexS(err.Error()))
			return
		}
		kind := "other"
		switch hdr.Typeflag {
		case tar.TypeReg:
			kind = "reg"
		case tar.TypeDir:
			kind = "dir"
		case tar.TypeSymlink:
			kind = "symlink"
		}
		h.Rec("ent", HexS(hdr.Name), kind, I64(hdr.Mode), HexS(hdr.Linkname), I64(hdr.Size), Hex(content))
	}
}

// c45EmitZip reads the archive back with archive/zip.
func c45EmitZip(h *H, b []byte) {
	zr, err := zip.NewReader(bytes.NewReader(b), int64(len(b)))
	if err != nil {
		h.Rec("archive-error", HexS(err.Error()))
		return
	}
	for _, f := range zr.File {
		rc, err := f.Open()
		if err != nil {
			h.Rec("archive-error", HexS(err.Error()))
			return
		}
		content, err := io.ReadAll(rc)
		_ = rc.Close()
		if err != nil {
			h.Rec("archive-error", HexS(err.Error()))
			return
		}
		m := f.Mode()
		switch {
		case m.IsDir():
			h.Rec("ent", HexS(f.Name), "dir", I64(c45TarMode(m)), "-", "0", Hex(content))
		case m&os.ModeSymlink != 0:
			h.Rec("ent", HexS(f.Name), "symlink", I64(c45TarMode(m)), Hex(content), "0", "-")
		case m.IsRegular():
			h.Rec("ent", HexS(f.Name), "reg", I64(c45TarMode(m)), "-", U64(f.UncompressedSize64), Hex(content))
		default:
			h.Rec("ent", HexS(f.Name), "other", I64(c45TarMode(m)), "-", U64(f.UncompressedSize64), Hex(content))
		}
	}
}

type c45Target struct {
	comps []string
	node  *a7Node // nil for "/"
}

// c45Targets lists every path of the tree (depth <= 3).
func c45Targets(nodes []*a7Node, pre []string, out *[]c45Target) {
	for _, n := range nodes {
		p := append(append([]string(nil), pre...), n.Name)
		*out = append(*out, c45Target{p, n})
		c45Targets(n.Kids, p, out)
	}
}

// streamC45: generated trees (multi-blob and repeated-blob files, symlinks, setuid/setgid/sticky
// bits, special files at the top level of the dumped directory and nested) written directly into
// an in-memory repository. Sub-streams:
//
//	cli     the real `restic dump [-a tar|zip] <snapshot> <path>` through the CLI (stdout captured)
//	direct  dump.New(...).DumpTree / WriteNode on a loader with per-blob delays (loader schedules)
func streamC45(h *H) {
	n := h.N(120, 4000)
	var r *a7Repo
	for i := 0; i < n; i++ {
		if i%40 == 0 {
			r = newA7Repo()
		}
		g := newA7Gen(h)
		g.Specials = true
		g.Hardlinks = h.Intn(5) == 0
		g.MaxDepth = 1 + h.Intn(3)
		g.MaxKids = 2 + h.Intn(5)
		t := g.Tree()
		id, treeID := r.Snapshot(t)

		var all []c45Target
		c45Targets(t, nil, &all)
		var pick func(f func(c45Target) bool) *c45Target
		pick = func(f func(c45Target) bool) *c45Target {
			var c []c45Target
			for _, x := range all {
				if f(x) {
					c = append(c, x)
				}
			}
			if len(c) == 0 {
				return nil
			}
			return &c[h.Intn(len(c))]
		}
		tgt := &c45Target{}
		switch r := h.Intn(20); {
		case r < 6: // "/"
		case r < 13:
			tgt = pick(func(x c45Target) bool { return x.node.Type == data.NodeTypeDir })
		case r < 17:
			tgt = pick(func(x c45Target) bool { return x.node.Type == data.NodeTypeFile })
		case r < 19:
			tgt = pick(func(x c45Target) bool { return x.node.Type != data.NodeTypeFile && x.node.Type != data.NodeTypeDir })
		default:
			tgt = &c45Target{comps: []string{"nonexistent"}}
		}
		if tgt == nil {
			tgt = &c45Target{}
		}
		format := "tar"
		if h.Intn(3) == 0 {
			format = "zip"
		}
		sub := "cli"
		if h.Intn(3) == 0 {
			sub = "direct"
		}
		pathArg := "/" + strings.Join(tgt.comps, "/")
		if sub == "cli" && len(tgt.comps) > 0 && !strings.HasPrefix(tgt.comps[0], "-") && h.Intn(4) == 0 {
			pathArg = strings.Join(tgt.comps, "/") + "/" // relative form / trailing slash: cleaned by the command
		}

		h.Case(sub)
		h.Rec("fmt", format)
		h.Rec("target", HexList(tgt.comps)...)
		num := newA7Num()
		num.Emit(h, "0", t, 0)
		seen := map[int]bool{}
		var emitBlobs func(nodes []*a7Node)
		emitBlobs = func(nodes []*a7Node) {
			for _, x := range nodes {
				for j, bid := range x.Content {
					if k := num.ID(bid); !seen[k] {
						seen[k] = true
						h.Rec("blob", Itoa(k), Hex(x.Parts[j]))
					}
				}
				emitBlobs(x.Kids)
			}
		}
		emitBlobs(t)

		var out []byte
		var runErr error
		panicked := ""
		if sub == "cli" {
			args := []string{"dump"}
			if format == "zip" || h.Bool() {
				args = append(args, "-a", format)
			}
			res := r.CLI.Run(append(args, id.String(), pathArg)...)
			out, runErr, panicked = []byte(res.Stdout), res.Err, res.Panic
		} else {
			// only meaningful for "/" , directories and files: call the dump package like printFromTree does
			slow := &c45SlowRepo{Loader: r.Repo, delays: map[restic.ID]time.Duration{}}
			for bid := range num.ids {
				slow.delays[bid] = time.Duration(h.Intn(4)) * 300 * time.Microsecond
			}
			var buf bytes.Buffer
			d := dump.New(format, slow, &buf)
			ctx := context.Background()
			p, msg := Protect(func() {
				switch {
				case tgt.node == nil && len(tgt.comps) == 0:
					tree, err := data.LoadTree(ctx, r.Repo, treeID)
					if err != nil {
						panic(err)
					}
					runErr = d.DumpTree(ctx, tree, "/")
				case tgt.node != nil && tgt.node.Type == data.NodeTypeDir:
					tree, err := data.LoadTree(ctx, r.Repo, *tgt.node.Subtree)
					if err != nil {
						panic(err)
					}
					runErr = d.DumpTree(ctx, tree, "/"+strings.Join(tgt.comps, "/"))
				case tgt.node != nil && tgt.node.Type == data.NodeTypeFile:
					runErr = d.WriteNode(ctx, &tgt.node.Node)
				default:
					runErr = os.ErrNotExist
				}
			})
			if p {
				panicked = msg
			}
			out = buf.Bytes()
		}
		switch {
		case panicked != "":
			h.Rec("res", "panic", HexS(panicked))
		case runErr != nil:
			h.Rec("res", "err", HexS(runErr.Error()))
		case tgt.node != nil && tgt.node.Type == data.NodeTypeFile:
			h.Rec("res", "file", Hex(out))
		default:
			h.Rec("res", "archive")
			if format == "tar" {
				c45EmitTar(h, out)
			} else {
				c45EmitZip(h, out)
			}
		}
		h.End()
	}
}
