//go:build verif

package main

// C06 — pack files list back exactly the blobs written into them.
//
// Sub-streams (see lean/Driver/C06.lean for the record formats):
//   rt     real Packer.Add / Finalize into a buffer, then real pack.List on the bytes written;
//   mut    genuine packs with truncations, extensions, length-field values, byte edits, wrong sizes;
//   craft  headers encoded by the harness itself (own encoder, all type bytes, cut entries,
//          trailing garbage), sealed with the real key, then listed with the real pack.List;
//   fin    Finalize on packer contents that no real Add can produce (shim): wide lengths,
//          inconsistent offsets, invalid types, empty packer;
//   bound  the header-entry limit: MaxHeaderEntries-1 / = / +1 blobs (and the plain-entry limit),
//          HeaderFull around the limit.
//
// Oracle for the Lean model: `opn` = crypto.Key.Open of the trailer region the file's own length
// field designates, `seal` = crypto.Key.Seal of a header (for cases where nothing was written).

import (
	"bytes"
	"encoding/binary"
	"errors"
	"strings"

	"github.com/restic/restic/internal/repository/crypto"
	"github.com/restic/restic/internal/repository/pack"
	"github.com/restic/restic/internal/restic"
)

var _ = verifRegister("C06", streamC06)
var _ = verifRegisterFacts(pack.VerifFactsC06)

func c06ErrClass(err error) string {
	if err == nil {
		return "ok"
	}
	msg := err.Error()
	switch {
	case strings.Contains(msg, "header decoding failed"):
		return "verifyDecode"
	case strings.Contains(msg, "unexpected header size"):
		return "verifySize"
	case strings.Contains(msg, "pack header size mismatch"):
		return "verifyCount"
	case strings.Contains(msg, "pack header entry mismatch"):
		return "verifyEntry"
	case strings.Contains(msg, "invalid blob type"):
		return "invalidBlobType"
	case strings.Contains(msg, "file is too short"):
		return "fileTooShort"
	case strings.Contains(msg, "header length is zero"):
		return "hlenZero"
	case strings.Contains(msg, "header length is too short"):
		return "hlenTooShort"
	case strings.Contains(msg, "header is larger than file"):
		return "hlenLargerThanFile"
	case strings.Contains(msg, "header is larger than maxHeaderSize"):
		return "hlenLargerThanMax"
	case strings.Contains(msg, "invalid header, too short"):
		return "headerTooShort"
	case errors.Is(err, crypto.ErrUnauthenticated), strings.Contains(msg, "nonce is invalid"),
		strings.Contains(msg, "trying to decrypt invalid data"):
		return "openFailed"
	case strings.Contains(msg, "parseHeaderEntry: buffer of size"):
		return "entryShort"
	case strings.Contains(msg, "invalid type"):
		return "invalidType"
	case strings.Contains(msg, "EOF"), strings.Contains(msg, "negative"):
		return "readAt"
	}
	return "other:" + HexS(msg)
}

type c06Blob struct {
	t    restic.BlobType
	id   restic.ID
	data []byte
	ulen int
}

func (h *H) c06ID() restic.ID {
	var id restic.ID
	copy(id[:], h.Bytes(32))
	return id
}

func c06RecBlob(h *H, key string, b pack.Blob) {
	h.Rec(key, Itoa(int(b.Type)), Hex(b.ID[:]), U64(uint64(b.Length)), U64(uint64(b.Offset)), U64(uint64(b.UncompressedLength)))
}

// c06Opn emits the Open oracle for the trailer region designated by the file's last four bytes
// (relative to the claimed size), if that region lies inside the file.
func c06Opn(h *H, k *crypto.Key, file []byte, size int) {
	if size > len(file) || size < 4 {
		return
	}
	hlen := int(binary.LittleEndian.Uint32(file[size-4 : size]))
	if hlen < 16 || hlen > size-4 {
		return
	}
	region := file[size-4-hlen : size-4]
	nonce, ct := region[:16], region[16:]
	var plain []byte
	var err error
	if pn, _ := Protect(func() { plain, err = k.Open(nil, nonce, ct, nil) }); pn {
		return
	}
	if err != nil {
		h.Rec("opn", Hex(nonce), Hex(ct), "err")
	} else {
		h.Rec("opn", Hex(nonce), Hex(ct), "ok", Hex(plain))
	}
}

func c06List(h *H, k *crypto.Key, file []byte, size int64) (pack.Blobs, uint32, error, bool) {
	var blobs pack.Blobs
	var hs uint32
	var err error
	pn, _ := Protect(func() { blobs, hs, err = pack.List(k, bytes.NewReader(file), size) })
	switch {
	case pn:
		h.Rec("list", "panic")
	case err != nil:
		h.Rec("list", "err", c06ErrClass(err))
	default:
		h.Rec("list", "ok", U64(uint64(hs)))
		for _, b := range blobs {
			c06RecBlob(h, "ent", b)
		}
	}
	return blobs, hs, err, pn
}

func (h *H) c06GenBlobs(n int) []c06Blob {
	var l []c06Blob
	mode := h.Intn(4) // 0 mixed, 1 all plain, 2 all compressed, 3 mixed
	for i := 0; i < n; i++ {
		b := c06Blob{t: restic.DataBlob, id: h.c06ID()}
		if h.Bool() {
			b.t = restic.TreeBlob
		}
		switch h.Intn(8) {
		case 0:
			b.data = nil
		case 1:
			b.data = h.Bytes(1)
		case 2:
			b.data = h.Bytes(200 + h.Intn(400))
		default:
			b.data = h.Bytes(1 + h.Intn(48))
		}
		comp := mode == 2 || (mode != 1 && h.Bool())
		if comp {
			switch h.Intn(6) {
			case 0:
				b.ulen = 1
			case 1:
				b.ulen = 1<<32 - 1
			case 2:
				b.ulen = 1 << 24
			default:
				b.ulen = 1 + h.Intn(1<<20)
			}
		}
		l = append(l, b)
	}
	return l
}

// c06Pack runs the real packer; returns the bytes written, the packer and Finalize's error.
func c06Pack(h *H, k *crypto.Key, blobs []c06Blob, rec bool) ([]byte, *pack.Packer, error, bool) {
	var buf bytes.Buffer
	p := pack.NewPacker(k, &buf)
	for _, b := range blobs {
		n, err := p.Add(b.t, b.id, b.data, b.ulen)
		if err != nil {
			panic(err)
		}
		if rec {
			h.Rec("add", Itoa(int(b.t)), Hex(b.id[:]), Hex(b.data), I64(int64(b.ulen)), Itoa(n))
		}
	}
	var ferr error
	pn, _ := Protect(func() { ferr = p.Finalize() })
	return buf.Bytes(), p, ferr, pn
}

func c06RecFin(h *H, err error, pn bool) {
	switch {
	case pn:
		h.Rec("fin", "panic")
	case err != nil:
		h.Rec("fin", "err", c06ErrClass(err))
	default:
		h.Rec("fin", "ok")
	}
}

// c06SealOracle: header the real makeHeader builds for these blobs, sealed by the harness.
func c06SealOracle(h *H, k *crypto.Key, blobs []pack.Blob) {
	hdr, err := pack.VerifC06MakeHeader(blobs)
	if err != nil {
		h.Rec("mk", "err")
		return
	}
	h.Rec("mk", "ok", Hex(hdr))
	nonce := h.Bytes(16)
	ct := k.Seal(nil, nonce, hdr, nil)
	h.Rec("seal", Hex(nonce), Hex(hdr), Hex(ct))
}

// own encoder of one header entry (independent of package pack): raw type byte, lengths, id
func c06Enc(tb byte, length, ulen uint32, id []byte) []byte {
	b := []byte{tb}
	b = binary.LittleEndian.AppendUint32(b, length)
	if tb == 2 || tb == 3 {
		b = binary.LittleEndian.AppendUint32(b, ulen)
	}
	return append(b, id...)
}

func streamC06(h *H) {
	k := crypto.NewRandomKey()

	// ---------------------------------------------------------------- rt
	nrt := h.N(300, 6000)
	for i := 0; i < nrt; i++ {
		var n int
		switch h.Intn(10) {
		case 0:
			n = 1
		case 1:
			n = 14 + h.Intn(4) // around eagerEntries
		case 2:
			n = 20 + h.Intn(181)
		default:
			n = 1 + h.Intn(9)
		}
		blobs := h.c06GenBlobs(n)
		// now and then something Finalize must refuse
		bad := ""
		if h.Intn(12) == 0 {
			j := h.Intn(len(blobs))
			switch h.Intn(4) {
			case 0:
				blobs[j].t, bad = restic.InvalidBlob, "invalid-type"
			case 1:
				blobs[j].t, bad = restic.BlobType(3+h.Intn(5)), "invalid-type"
			case 2:
				blobs[j].ulen, bad = 1<<32, "ulen-2^32"
			default:
				blobs[j].ulen, bad = 1<<32+1+h.Intn(1000), "ulen-wide"
			}
		}
		h.Case("rt")
		file, p, ferr, pn := c06Pack(h, k, blobs, true)
		c06RecFin(h, ferr, pn)
		if bad != "" {
			h.Rec("kind", bad)
		}
		if ferr != nil || pn {
			c06SealOracle(h, k, p.Blobs())
			h.End()
			continue
		}
		h.Rec("file", Hex(file))
		h.Rec("psize", U64(uint64(p.Size())))
		h.Rec("calc", Itoa(pack.CalculateHeaderSize(p.Blobs())))
		c06Opn(h, k, file, len(file))
		c06List(h, k, file, int64(len(file)))
		h.End()
	}

	// ---------------------------------------------------------------- mut
	nmut := h.N(3000, 60000)
	var base []byte
	var baseBlobs pack.Blobs
	var baseHdr uint32
	baseBroken := false
	for i := 0; i < nmut && !baseBroken; i++ {
		if i%40 == 0 {
			nb := 1 + h.Intn(5)
			if h.Intn(6) == 0 {
				nb = 14 + h.Intn(5)
			}
			bl := h.c06GenBlobs(nb)
			for j := range bl {
				if len(bl[j].data) > 40 {
					bl[j].data = bl[j].data[:40]
				}
			}
			f, _, ferr, pn := c06Pack(h, k, bl, false)
			if ferr != nil || pn {
				// the packer itself is broken (already reported by the rt sub-stream): no genuine
				// pack to mutate, go on with the other sub-streams
				baseBroken = true
				break
			}
			base = f
			var err error
			baseBlobs, baseHdr, err = pack.List(k, bytes.NewReader(base), int64(len(base)))
			if err != nil {
				baseBroken = true
				break
			}
		}
		file := append([]byte(nil), base...)
		size := -1
		kind := ""
		hs := int(baseHdr)
		setLen := func(v uint32) { binary.LittleEndian.PutUint32(file[len(file)-4:], v) }
		switch h.Intn(14) {
		case 0: // truncate inside the trailer
			file, kind = file[:len(file)-1-h.Intn(hs)], "trunc-trailer"
		case 1: // truncate anywhere
			file, kind = file[:h.Intn(len(file))], "trunc-any"
		case 2:
			file, kind = append(file, h.Bytes(1+h.Intn(8))...), "extend"
		case 3:
			vals := []uint32{0, 1, 15, 16, 31, 32, 33, uint32(len(file) - 4), uint32(len(file) - 3), uint32(len(file) - 5),
				pack.MaxHeaderSize - 4, pack.MaxHeaderSize - 3, pack.MaxHeaderSize - 5, 1<<32 - 1, 1<<32 - 4, 1 << 31,
				uint32(hs - 4 - 1), uint32(hs - 4 + 1), uint32(hs - 4 - 37), uint32(hs - 4 - 41), uint32(hs - 4 + 37)}
			setLen(vals[h.Intn(len(vals))])
			kind = "lenfield-special"
		case 4:
			setLen(uint32(h.Intn(len(file) + 40)))
			kind = "lenfield-random"
		case 5, 6: // edit inside the trailer
			p := len(file) - 1 - h.Intn(hs)
			file[p] ^= byte(1 << uint(h.Intn(8)))
			kind = "flip-trailer"
		case 7: // edit inside the blob data (the header does not cover it)
			if len(file) > hs {
				p := h.Intn(len(file) - hs)
				file[p] ^= 0x40
				kind = "flip-data"
			} else {
				kind = "intact"
			}
		case 8: // remove leading data bytes: trailer intact
			if len(file) > hs {
				file = file[h.Intn(len(file)-hs+1):]
			}
			kind = "drop-front"
		case 9:
			file, kind = append(h.Bytes(1+h.Intn(30)), file...), "prepend"
		case 10: // claimed size differs from the reader's size
			d := 1 + h.Intn(6)
			if h.Bool() {
				size, kind = len(file)+d, "size-too-large"
			} else {
				size, kind = len(file)-d, "size-too-small"
			}
		case 11: // zero the trailer
			for p := len(file) - hs; p < len(file); p++ {
				file[p] = 0
			}
			kind = "zero-trailer"
		case 12: // swap in the trailer of a different (valid) pack sealed with another key
			k2 := crypto.NewRandomKey()
			f2, _, _, _ := c06Pack(h, k2, h.c06GenBlobs(1), false)
			file, kind = f2, "foreign-key"
		default:
			kind = "intact"
		}
		h.Case("mut")
		h.Rec("kind", kind)
		h.Rec("file", Hex(file))
		if size < 0 {
			size = len(file)
			intact := len(file) >= hs && bytes.Equal(file[len(file)-hs:], base[len(base)-hs:]) && kind != "foreign-key"
			if intact {
				h.Rec("expect", "same")
				h.Rec("ohdr", U64(uint64(baseHdr)))
				for _, b := range baseBlobs {
					c06RecBlob(h, "oent", b)
				}
			} else {
				h.Rec("expect", "reject")
			}
		} else {
			h.Rec("expect", "none")
		}
		h.Rec("size", Itoa(size))
		c06Opn(h, k, file, size)
		c06List(h, k, file, int64(size))
		h.End()
	}

	// ---------------------------------------------------------------- craft
	ncr := h.N(1500, 20000)
	for i := 0; i < ncr; i++ {
		n := 1 + h.Intn(6)
		if h.Intn(8) == 0 {
			n = 14 + h.Intn(5)
		}
		var plain []byte
		var want []pack.Blob
		off := uint(0)
		okHdr := true
		kind := "wellformed"
		badAt := -1
		if h.Intn(3) == 0 {
			badAt = h.Intn(n)
		}
		for j := 0; j < n && okHdr; j++ {
			tb := byte(h.Intn(4))
			id := h.c06ID()
			length := uint32(h.Intn(1000))
			if h.Intn(10) == 0 {
				length = []uint32{0, 1<<32 - 1, 1 << 31}[h.Intn(3)]
			}
			ulen := uint32(0)
			if tb >= 2 {
				ulen = uint32(h.Intn(5000)) // 0 allowed: non-canonical but decodable
			}
			if j == badAt {
				switch h.Intn(3) {
				case 0: // invalid type byte
					tb = byte(4 + h.Intn(252))
					plain = append(plain, c06Enc(tb, length, ulen, id[:])...)
					kind, okHdr = "invalid-type-byte", false
				case 1: // entry cut short (last one)
					e := c06Enc(tb, length, ulen, id[:])
					plain = append(plain, e[:1+h.Intn(len(e)-1)]...)
					kind, okHdr = "cut-entry", false
				default: // a compressed entry cut to the size of a plain one
					e := c06Enc(2+byte(h.Intn(2)), length, 7, id[:])
					plain = append(plain, e[:37+h.Intn(4)]...)
					kind, okHdr = "cut-compressed-entry", false
				}
				continue
			}
			plain = append(plain, c06Enc(tb, length, ulen, id[:])...)
			bt := restic.DataBlob
			if tb == 1 || tb == 3 {
				bt = restic.TreeBlob
			}
			want = append(want, pack.Blob{BlobHandle: restic.BlobHandle{Type: bt, ID: id}, Length: uint(length), Offset: off, UncompressedLength: uint(ulen)})
			off += uint(length)
		}
		if okHdr && h.Intn(6) == 0 {
			plain = append(plain, h.Bytes(1+h.Intn(36))...)
			// garbage shorter than any entry: certainly malformed (unless it starts a valid cut, still short)
			kind, okHdr = "trailing-garbage", false
		}
		if okHdr && h.Intn(25) == 0 {
			plain, want, kind = nil, nil, "empty-header"
		}
		nonce := h.Bytes(16)
		sealed := append(append([]byte{}, nonce...), k.Seal(nil, nonce, plain, nil)...)
		file := h.Bytes(h.Intn(60))
		file = append(file, sealed...)
		lenField := uint32(len(sealed))
		file = binary.LittleEndian.AppendUint32(file, lenField)
		h.Case("craft")
		h.Rec("kind", kind)
		h.Rec("file", Hex(file))
		h.Rec("size", Itoa(len(file)))
		if okHdr && len(file) >= 73 {
			h.Rec("expect", "same")
			h.Rec("ohdr", U64(uint64(len(sealed)+4)))
			for _, b := range want {
				c06RecBlob(h, "oent", b)
			}
		} else {
			h.Rec("expect", "reject")
		}
		c06Opn(h, k, file, len(file))
		c06List(h, k, file, int64(len(file)))
		h.End()
	}

	// ---------------------------------------------------------------- fin (shim: arbitrary packer contents)
	nfin := h.N(300, 5000)
	for i := 0; i < nfin; i++ {
		n := 1 + h.Intn(5)
		var bl []pack.Blob
		off := uint(0)
		for j := 0; j < n; j++ {
			b := pack.Blob{BlobHandle: restic.BlobHandle{Type: restic.DataBlob, ID: h.c06ID()}, Length: uint(h.Intn(5000)), Offset: off}
			if h.Bool() {
				b.Type = restic.TreeBlob
			}
			if h.Bool() {
				b.UncompressedLength = uint(1 + h.Intn(100000))
			}
			off += b.Length
			bl = append(bl, b)
		}
		kind := "consistent"
		j := h.Intn(n)
		switch h.Intn(9) {
		case 0:
			bl[j].Length, kind = 1<<32, "length-2^32"
		case 1:
			bl[j].Length, kind = 1<<32+uint(1+h.Intn(5000)), "length-wide"
		case 2:
			bl[j].Offset, kind = bl[j].Offset+1+uint(h.Intn(10)), "offset-wrong"
		case 3:
			bl[j].UncompressedLength, kind = 1<<32+uint(h.Intn(3)), "ulen-wide"
		case 4:
			bl[j].Type, kind = restic.BlobType(h.Intn(2)*3), "invalid-type"
		case 5:
			bl, kind = nil, "empty-packer"
		case 6:
			// length exactly at the 32-bit limit, later offsets consistent with it
			bl[j].Length = 1<<32 - 1
			o := uint(0)
			for x := range bl {
				bl[x].Offset = o
				o += bl[x].Length
			}
			kind = "length-max32"
		}
		var buf bytes.Buffer
		p := pack.NewPacker(k, &buf)
		pack.VerifC06SetBlobs(p, bl)
		var ferr error
		pn, _ := Protect(func() { ferr = p.Finalize() })
		h.Case("fin")
		h.Rec("kind", kind)
		for _, b := range bl {
			c06RecBlob(h, "blob", b)
		}
		c06RecFin(h, ferr, pn)
		if ferr == nil && !pn {
			file := buf.Bytes()
			c06Opn(h, k, file, len(file))
			// the nonce the implementation drew
			if len(file) >= 20 {
				hdr, err := pack.VerifC06MakeHeader(bl)
				if err == nil {
					h.Rec("mk", "ok", Hex(hdr))
					h.Rec("seal", Hex(file[:16]), Hex(hdr), Hex(file[16:len(file)-4]))
				}
			}
		} else {
			c06SealOracle(h, k, bl)
		}
		h.End()
	}

	// ---------------------------------------------------------------- bound
	if h.Shard == 0 {
		h.Case("bound")
		maxE := int(pack.MaxHeaderEntries)
		for _, n := range []int{0, 1, maxE - 2, maxE - 1, maxE, maxE + 1, maxE + 2, 2 * maxE} {
			h.Rec("full", Itoa(n), B(pack.VerifC06HeaderFullAt(n)))
		}
		h.End()
		plainMax := (pack.MaxHeaderSize - 36) / 37
		type run struct {
			count int
			ulen  int
		}
		runs := []run{{maxE, 5}, {maxE + 1, 5}, {plainMax, 0}, {plainMax + 1, 0}}
		if h.Thorough() {
			runs = append(runs, run{maxE - 1, 5}, run{plainMax - 1, 0}, run{maxE + 2, 1<<32 - 1})
		}
		for _, r := range runs {
			var buf bytes.Buffer
			buf.Grow(pack.MaxHeaderSize + 64)
			p := pack.NewPacker(k, &buf)
			idb := byte(h.Intn(256))
			var id restic.ID
			for x := range id {
				id[x] = idb
			}
			t := restic.DataBlob
			if h.Bool() {
				t = restic.TreeBlob
			}
			for j := 0; j < r.count; j++ {
				if _, err := p.Add(t, id, nil, r.ulen); err != nil {
					panic(err)
				}
			}
			var ferr error
			pn, _ := Protect(func() { ferr = p.Finalize() })
			h.Case("bound")
			h.Rec("run", Itoa(r.count), Itoa(int(t)), Itoa(r.ulen), Itoa(int(idb)))
			c06RecFin(h, ferr, pn)
			if ferr == nil && !pn {
				file := buf.Bytes()
				blobs, hs, err := pack.List(k, bytes.NewReader(file), int64(len(file)))
				if err != nil {
					h.Rec("lerr", c06ErrClass(err))
				} else {
					const m = 2147483647
					acc := uint64(0)
					for _, b := range blobs {
						ids := uint64(0)
						for _, x := range b.ID {
							ids += uint64(x)
						}
						v := (acc*1000003 + uint64(b.Type)*7 + uint64(b.Length)*3 + uint64(b.Offset)*11 + uint64(b.UncompressedLength)*5 + ids) % m
						acc = v
					}
					h.Rec("lsum", Itoa(len(blobs)), U64(uint64(hs)), U64(acc))
				}
			}
			h.End()
		}
	}
}
