//go:build verif

package main

// C11 — an interrupted or failed backup leaves the repository consistent.
//
// Real `restic backup` (CLI, in-process) of generated trees onto an in-memory repository behind
// the recording backend, with small packs (--pack-size 4) and a randomly "full" in-memory index
// so that several pack and index files are written. The backup under test is run once
// completely, then once per crash point (backend dead after k mutating operations), with a
// persistent Save error on the j-th mutated file, and with context cancellation at the j-th
// mutation. After every run: decode the backend, run real `check`, restore the older snapshot
// and compare it with its source, and run a follow-up backup (+ check, restore, prune, check).

import (
	"context"
	"crypto/sha256"
	"errors"
	"fmt"
	"io/fs"
	"os"
	"path/filepath"
	"runtime"
	"sort"
	"strings"
	"sync"
	"sync/atomic"
	"time"

	"github.com/restic/restic/internal/backend"
	"github.com/restic/restic/internal/backend/mem"
	"github.com/restic/restic/internal/repository/index"
)

var _ = verifRegister("C11", streamC11)

var errInjected = errors.New("verif: injected backend error")

// c11FullEvery: the in-memory index counts as full on every n-th query (0 = never forced).
var c11FullEvery atomic.Int64
var c11FullCalls atomic.Int64

func c11InstallIndexFull() {
	orig := index.Full
	index.Full = func(idx *index.Index) bool {
		if orig(idx) {
			return true
		}
		n := c11FullEvery.Load()
		if n <= 0 {
			return false
		}
		return c11FullCalls.Add(1)%n == 0
	}
}

type c11Tree struct {
	dir    string
	hashes map[string][32]byte // relative path -> content hash
}

func (t *c11Tree) put(h *H, rel string, data []byte) {
	writeFile(filepath.Join(t.dir, rel), data)
	t.hashes[rel] = sha256.Sum256(data)
}

func (t *c11Tree) snapshotHashes() map[string][32]byte {
	m := map[string][32]byte{}
	for k, v := range t.hashes {
		m[k] = v
	}
	return m
}

// c11Grow adds about `mib` MiB of new content: many small files, some medium, a few large ones,
// duplicates of existing content, empty files, nested directories.
func c11Grow(h *H, t *c11Tree, gen int, mib int) {
	target := mib << 20
	total := 0
	i := 0
	var last []byte
	for total < target {
		var sz int
		switch h.Intn(10) {
		case 0:
			sz = 0
		case 1, 2, 3, 4, 5:
			sz = 1 + h.Intn(64<<10)
		case 6, 7, 8:
			sz = 64<<10 + h.Intn(400<<10)
		default:
			sz = 1<<20 + h.Intn(2<<20)
		}
		var data []byte
		if last != nil && h.Intn(8) == 0 {
			data = last // duplicate content (stored once)
		} else {
			data = h.Bytes(sz)
		}
		last = data
		dir := ""
		for d := h.Intn(3); d > 0; d-- {
			dir = filepath.Join(dir, fmt.Sprintf("d%d", h.Intn(3)))
		}
		t.put(h, filepath.Join(dir, fmt.Sprintf("g%d-f%d", gen, i)), data)
		total += len(data)
		i++
	}
}

func c11Verify(dir string, want map[string][32]byte) error {
	seen := 0
	err := filepath.WalkDir(dir, func(p string, d fs.DirEntry, err error) error {
		if err != nil {
			return err
		}
		if d.IsDir() {
			return nil
		}
		rel, _ := filepath.Rel(dir, p)
		b, err := os.ReadFile(p)
		if err != nil {
			return err
		}
		w, ok := want[rel]
		if !ok {
			return fmt.Errorf("unexpected file %s", rel)
		}
		if sha256.Sum256(b) != w {
			return fmt.Errorf("content of %s differs", rel)
		}
		seen++
		return nil
	})
	if err != nil {
		return err
	}
	if seen != len(want) {
		return fmt.Errorf("restored %d files, want %d", seen, len(want))
	}
	return nil
}

// c11Restore restores a snapshot and compares it with the recorded source content.
func c11Restore(be backend.Backend, snap string, srcDir string, want map[string][32]byte, tmpRoot string) error {
	tgt, err := os.MkdirTemp(tmpRoot, "rst-")
	if err != nil {
		return err
	}
	defer os.RemoveAll(tgt)
	r := NewCLI(be).Run("restore", snap, "--target", tgt)
	if r.Err != nil {
		return fmt.Errorf("restore: %v: %s", r.Err, firstLine(r.Stderr))
	}
	return c11Verify(filepath.Join(tgt, srcDir), want)
}

// c11LostBackend: the at-th Save takes effect and then reports an error ("lost response"), once.
// It sits directly on the real backend, below the recorder and below restic's retry layer.
type c11LostBackend struct {
	backend.Backend
	mu    sync.Mutex
	at    int
	saves int
}

func (b *c11LostBackend) Save(ctx context.Context, h backend.Handle, rd backend.RewindReader) error {
	err := b.Backend.Save(ctx, h, rd)
	if err != nil {
		return err
	}
	b.mu.Lock()
	defer b.mu.Unlock()
	b.saves++
	if b.saves == b.at+1 {
		return errInjected
	}
	return nil
}

func (b *c11LostBackend) Unwrap() backend.Backend { return b.Backend }

type c11Run struct {
	mode string // crash | fail | cancel | complete
	at   int
}

func streamC11(h *H) {
	runtime.GOMAXPROCS(4) // the machine is shared; the streams are not CPU hungry
	c11InstallIndexFull()
	root := MkTemp("c11-")
	defer os.RemoveAll(root)
	nTrees := h.N(3, 12)
	for ti := 0; ti < nTrees; ti++ {
		c11Scenario(h, root, ti)
	}
}

func c11Scenario(h *H, root string, ti int) {
	src := filepath.Join(root, fmt.Sprintf("t%d", ti), "src")
	tree := &c11Tree{dir: src, hashes: map[string][32]byte{}}
	cliExtra := []string{"--pack-size", "4"}
	// base: one or two older snapshots of a small tree
	c11FullEvery.Store(0)
	be0 := mem.New()
	cli0 := NewCLI(be0)
	cli0.Extra = cliExtra
	cli0.MustRun("init")
	c11Grow(h, tree, 0, 1+h.Intn(2))
	if r := cli0.Run("backup", src); r.Err != nil {
		c11EmitSetupFailure(h, r)
		return
	}
	type old struct {
		id   string
		want map[string][32]byte
	}
	olds := []old{{c26SnapshotIDs(be0)[0], tree.snapshotHashes()}}
	if h.Bool() {
		c11Grow(h, tree, 1, 1)
		if r := cli0.Run("backup", src); r.Err != nil {
			c11EmitSetupFailure(h, r)
			return
		}
		for _, id := range c26SnapshotIDs(be0) {
			if id != olds[0].id {
				olds = append(olds, old{id, tree.snapshotHashes()})
			}
		}
	}
	a12RemoveLocks(be0)
	base := DumpBackend(be0)
	dec := newA12Dec(a12Key(LoadBackend(base)))
	// the backup under test: 6..13 MiB of new data (several 4 MiB packs), some files changed
	c11Grow(h, tree, 2, 5+h.Intn(6))
	for rel := range tree.hashes {
		if h.Intn(40) == 0 {
			tree.put(h, rel, h.Bytes(1+h.Intn(2000)))
		}
	}
	wantNew := tree.snapshotHashes()
	fullEvery := int64([]int{0, 1, 2, 3}[h.Intn(4)])
	c11FullEvery.Store(fullEvery)

	exec := func(r c11Run) (*RecBackend, CmdResult, *mem.MemoryBackend) {
		be := LoadBackend(base)
		var inner backend.Backend = be
		if r.mode == "lostreply" {
			inner = &c11LostBackend{Backend: be, at: r.at}
		}
		rec := NewRecBackend(inner)
		rec.KeepData = true
		cli := NewCLI(rec)
		cli.Extra = cliExtra
		ctx, cancel := context.WithCancel(context.Background())
		defer cancel()
		switch r.mode {
		case "crash":
			rec.CrashAfter = r.at
		case "fail":
			var victim *backend.Handle
			rec.FailOp = func(op string, hd backend.Handle, nth int) error {
				if op != "save" && op != "remove" {
					return nil
				}
				if victim == nil && nth == r.at+1 {
					v := hd
					victim = &v
				}
				if victim != nil && hd == *victim {
					return errInjected
				}
				return nil
			}
		case "loadfail":
			// persistent Load error on the j-th loaded file
			var victim *backend.Handle
			loads := 0
			rec.FailOp = func(op string, hd backend.Handle, nth int) error {
				if op != "load" {
					return nil
				}
				if victim == nil {
					if loads == r.at {
						v := hd
						victim = &v
					}
					loads++
				}
				if victim != nil && hd == *victim {
					return errInjected
				}
				return nil
			}
		case "cancel":
			rec.FailOp = func(op string, hd backend.Handle, nth int) error {
				if (op == "save" || op == "remove") && nth == r.at+1 {
					cancel()
				}
				return nil
			}
		}
		done := make(chan CmdResult, 1)
		go func() { done <- cli.RunCtx(ctx, "backup", src) }()
		select {
		case res := <-done:
			return rec, res, be
		case <-time.After(300 * time.Second):
			cancel()
			return rec, CmdResult{Err: errors.New("verif: backup timed out"), Exit: 99}, be
		}
	}

	rec0, res0, _ := exec(c11Run{"complete", 0})
	n := rec0.Mutations()
	runs := []c11Run{{"complete", n}}
	if res0.Err != nil {
		// a backup without any injected fault failed: reported through the complete-run case below
		n = 0
	}
	for k := 0; k < n; k++ {
		runs = append(runs, c11Run{"crash", k})
	}
	step := 1
	if !h.Thorough() {
		step = 3
	}
	for j := h.Intn(step); j < n; j += step {
		runs = append(runs, c11Run{"fail", j})
	}
	for j := h.Intn(step); j < n; j += step {
		runs = append(runs, c11Run{"cancel", j})
	}
	// a Save that takes effect and then reports an error, once, for every saved file of the run
	nSaves := 0
	for _, e := range rec0.Events {
		if e.Op == "save" && !e.Err {
			nSaves++
		}
	}
	for j := 0; n > 0 && j < nSaves; j++ {
		runs = append(runs, c11Run{"lostreply", j})
	}
	nLoads := 0
	for _, e := range rec0.Events {
		if e.Op == "load" {
			nLoads++
		}
	}
	for j := h.Intn(step * 2); n > 0 && j < nLoads && j < 40; j += step * 2 {
		runs = append(runs, c11Run{"loadfail", j})
	}
	for _, r := range runs {
		rec, res, be := exec(r)
		after := DumpBackend(be)
		in := newA12Intern()
		h.Case("backup")
		h.Rec("mode", r.mode, Itoa(r.at), Itoa(n))
		lastKind, cnt := "none", 0
		npacks, nidx := 0, 0
		for _, e := range rec.Events {
			if (e.Op == "save" || e.Op == "remove") && a12Happened(e, after) {
				cnt++
				lastKind = e.Op + "-" + e.Type
				if e.Op == "save" && e.Type == "data" {
					npacks++
				}
				if e.Op == "save" && e.Type == "index" {
					nidx++
				}
			}
		}
		h.Rec("last", lastKind, Itoa(cnt))
		a12EmitState(h, dec, in, base, "r0")
		a12EmitEvents(h, dec, in, "w", rec.Events, after)
		a12EmitState(h, dec, in, after, "s1")
		rmsg := firstLine(res.Stderr)
		if res.Err != nil {
			rmsg = res.Err.Error() + " | " + rmsg
		}
		h.Rec("res", Itoa(res.Exit), B(r.mode == "complete"), HexS(rmsg))
		// real check on the state the run left behind
		cbe := LoadBackend(after)
		a12RemoveLocks(cbe)
		args := []string{"check"}
		if r.mode == "complete" || h.Intn(4) == 0 {
			args = append(args, "--read-data")
		}
		chk := NewCLI(cbe).Run(args...)
		h.Rec("state", "check", B(chk.Err == nil), HexS(firstLine(chk.Stderr)))
		// older snapshots restore to exactly their source
		okOld, msgOld := true, ""
		for _, o := range olds {
			if err := c11Restore(cbe, o.id, src, o.want, root); err != nil {
				okOld, msgOld = false, err.Error()
			}
		}
		h.Rec("state", "restoreold", B(okOld), HexS(msgOld))
		// a new snapshot, if one was written, restores to exactly the new source
		for _, id := range c26SnapshotIDs(cbe) {
			isOld := false
			for _, o := range olds {
				isOld = isOld || o.id == id
			}
			if !isOld {
				err := c11Restore(cbe, id, src, wantNew, root)
				msg := ""
				if err != nil {
					msg = err.Error()
				}
				h.Rec("state", "restorenew", B(err == nil), HexS(msg))
			}
		}
		// follow-up: backup again, check, restore the new snapshot, prune, check
		fok, fmsg := true, ""
		fcli := NewCLI(cbe)
		fcli.Extra = cliExtra
		before := map[string]bool{}
		for _, id := range c26SnapshotIDs(cbe) {
			before[id] = true
		}
		steps := [][]string{{"backup", src}, {"check"}, {"prune"}, {"check"}}
		for _, st := range steps {
			if rr := fcli.Run(st...); rr.Err != nil {
				fok, fmsg = false, st[0]+": "+rr.Err.Error()+": "+firstLine(rr.Stderr)
				break
			}
		}
		if fok {
			for _, id := range c26SnapshotIDs(cbe) {
				if !before[id] {
					if err := c11Restore(cbe, id, src, wantNew, root); err != nil {
						fok, fmsg = false, "restore after follow-up: "+err.Error()
					}
				}
			}
		}
		h.Rec("state", "followup", B(fok), HexS(fmsg))
		lbl := []string{r.mode, fmt.Sprintf("packs:%d", c11MinInt(npacks, 5)), fmt.Sprintf("indexes:%d", c11MinInt(nidx, 4)),
			fmt.Sprintf("full-every:%d", fullEvery), fmt.Sprintf("olds:%d", len(olds))}
		h.Rec("labels", lbl...)
		h.End()
	}
}

// c11EmitSetupFailure: a plain backup (no fault injected) failed while building the scenario;
// that is itself an observation about the implementation, reported as a complete-run case.
func c11EmitSetupFailure(h *H, r CmdResult) {
	h.Case("backup")
	h.Rec("mode", "complete", "0", "0")
	h.Rec("last", "none", "0")
	msg := firstLine(r.Stderr)
	if r.Err != nil {
		msg = r.Err.Error() + " | " + msg
	}
	h.Rec("res", Itoa(r.Exit), "1", HexS(msg))
	h.Rec("labels", "setup-backup-failed")
	h.End()
}

func c11MinInt(a, b int) int {
	if a < b {
		return a
	}
	return b
}

var _ = sort.Strings
var _ = strings.Join
