//go:build verif

package main

import "sort"

var _ = verifRegister("facts", streamFacts)

// streamFacts prints the values of constants of the *current* source (evaluated by the Go
// compiler, exported by shims and registered with verifRegisterFacts) as `fact <name> <int>`
// lines; vcheck turns them into lean/Restic/Gen/Consts.lean.
func streamFacts(h *H) {
	all := map[string]int64{}
	for _, f := range verifFactFns {
		for k, v := range f() {
			all[k] = v
		}
	}
	var keys []string
	for k := range all {
		keys = append(keys, k)
	}
	sort.Strings(keys)
	for _, k := range keys {
		h.W.WriteString("fact " + k + " " + I64(all[k]) + "\n")
	}
}
