//go:build verif

package main

import (
	"sort"

	"github.com/restic/restic/internal/bloblru"
	"github.com/restic/restic/internal/repository"
	"github.com/restic/restic/internal/repository/index"
	"github.com/restic/restic/internal/repository/pack"
	"github.com/restic/restic/internal/restorer"
)

var _ = verifRegister("facts", streamFacts)

// streamFacts prints the values of constants of the *current* source (evaluated by the Go
// compiler) as `fact <name> <int>` lines; vcheck turns them into lean/Restic/Gen/Consts.lean.
func streamFacts(h *H) {
	all := map[string]int64{
		"check_totalBucketsMax": int64(totalBucketsMax),
	}
	for _, m := range []map[string]int64{pack.VerifFacts(), index.VerifFacts(), repository.VerifFacts(), bloblru.VerifFacts(), restorer.VerifFacts()} {
		for k, v := range m {
			all[k] = v
		}
	}
	for _, f := range verifFactFns {
		for k, v := range f() {
			all[k] = v
		}
	}
	var keys []string
	for k := range all {
		keys = append(keys, k)
	}
	sort.Strings(keys)
	for _, k := range keys {
		h.W.WriteString("fact " + k + " " + I64(all[k]) + "\n")
	}
}
