//go:build verif

package main

import (
	"fmt"
	"os"
	"path/filepath"

	"github.com/restic/restic/internal/backend/mem"
)

var _ = verifRegister("selftest", streamSelftest)

// streamSelftest exercises the toolkit: init, backup, check, crash point, state copy.
func streamSelftest(h *H) {
	rec := NewRecBackend(mem.New())
	cli := NewCLI(rec)
	cli.MustRun("init")
	dir := MkTemp("src-")
	defer os.RemoveAll(dir)
	os.WriteFile(filepath.Join(dir, "a.txt"), []byte("hello"), 0o644)
	os.MkdirAll(filepath.Join(dir, "d"), 0o755)
	os.WriteFile(filepath.Join(dir, "d", "b.bin"), h.Bytes(100000), 0o600)
	r := cli.MustRun("backup", dir)
	fmt.Fprintf(os.Stderr, "backup: exit %d events %d\n", r.Exit, len(rec.Events))
	for _, e := range rec.Events {
		if e.Op == "save" || e.Op == "remove" {
			fmt.Fprintf(os.Stderr, "  %d %s %s %.8s %d\n", e.N, e.Op, e.Type, e.Name, e.Size)
		}
	}
	r = cli.Run("check", "--read-data")
	fmt.Fprintf(os.Stderr, "check: exit %d err %v\n", r.Exit, r.Err)
	st := DumpBackend(rec.Backend)
	be2 := LoadBackend(st)
	r = NewCLI(be2).Run("snapshots", "--json")
	fmt.Fprintf(os.Stderr, "snapshots on copy: exit %d out %.80s\n", r.Exit, r.Stdout)
	// crash point: second backup cut after 1 mutation
	os.WriteFile(filepath.Join(dir, "c.txt"), []byte("new"), 0o644)
	rec.Reset()
	rec.CrashAfter = 2
	r = cli.Run("backup", dir)
	fmt.Fprintf(os.Stderr, "crashed backup: exit %d err %v mutations %d\n", r.Exit, r.Err, rec.Mutations())
	rec.Reset()
	r = cli.Run("check")
	fmt.Fprintf(os.Stderr, "check after crash: exit %d err %v\n", r.Exit, r.Err)
}
