//go:build verif

package main

// C05 — authenticated encryption wrapper (internal/repository/crypto). The real crypto.Key is
// driven with generated keys / nonces / plaintexts and every kind of tampering; the ORACLE values
// the Lean model needs for its primitive parameters are computed here with crypto/aes,
// crypto/cipher, golang.org/x/crypto/poly1305 and x/crypto/scrypt DIRECTLY (not through restic's
// wrapper functions).

import (
	"bytes"
	"crypto/aes"
	"crypto/cipher"
	"errors"
	"strings"

	"github.com/restic/restic/internal/repository/crypto"
	"golang.org/x/crypto/poly1305"
	"golang.org/x/crypto/scrypt"
)

var _ = verifRegister("C05", streamC05)

type c05Key struct{ K, R, Enc []byte }

func (k c05Key) real() *crypto.Key {
	rk := &crypto.Key{}
	copy(rk.MACKey.K[:], k.K)
	copy(rk.MACKey.R[:], k.R)
	copy(rk.EncryptionKey[:], k.Enc)
	return rk
}
func (k c05Key) toks() []string { return []string{Hex(k.K), Hex(k.R), Hex(k.Enc)} }

// c05OracleAES = AES-128_K(nonce) (the "s" half of the one-time Poly1305-AES key)
func c05OracleAES(K, nonce []byte) []byte {
	if len(K) != 16 || len(nonce) != 16 {
		return nil
	}
	c, err := aes.NewCipher(K)
	if err != nil {
		return nil
	}
	out := make([]byte, 16)
	c.Encrypt(out, nonce)
	return out
}

// c05OracleTag = Poly1305_{R‖s}(msg)
func c05OracleTag(R, s, msg []byte) []byte {
	if len(R) != 16 || len(s) != 16 {
		return nil
	}
	var k [32]byte
	copy(k[:16], R)
	copy(k[16:], s)
	var out [16]byte
	poly1305.Sum(&out, msg, &k)
	return out[:]
}

// c05OracleCTR = AES-256-CTR keystream XOR
func c05OracleCTR(enc, iv, data []byte) []byte {
	if len(enc) != 32 || len(iv) != 16 {
		return nil
	}
	c, err := aes.NewCipher(enc)
	if err != nil {
		return nil
	}
	out := make([]byte, len(data))
	cipher.NewCTR(c, iv).XORKeyStream(out, data)
	return out
}

func c05OpenResult(k *crypto.Key, nonce, ct []byte) []string {
	var pt []byte
	var err error
	panicked, _ := Protect(func() {
		pt, err = k.Open(nil, append([]byte(nil), nonce...), append([]byte(nil), ct...), nil)
	})
	switch {
	case panicked:
		return []string{"panic"}
	case err == nil:
		return []string{"ok", Hex(pt)}
	case errors.Is(err, crypto.ErrUnauthenticated):
		return []string{"err", "unauthenticated"}
	case strings.Contains(err.Error(), "invalid key"):
		return []string{"err", "invalidKey"}
	case strings.Contains(err.Error(), "nonce is invalid"):
		return []string{"err", "invalidNonce"}
	case strings.Contains(err.Error(), "ciphertext too short"):
		return []string{"err", "tooShort"}
	}
	return []string{"err", "other:" + strings.ReplaceAll(err.Error(), " ", "_")}
}

func (h *H) c05GenKey() c05Key {
	k := c05Key{K: h.Bytes(16), R: h.Bytes(16), Enc: h.Bytes(32)}
	return k
}

// boundary shapes of a byte string for the Valid / validNonce loops
func (h *H) c05Shape(n int) []byte {
	b := make([]byte, n)
	switch h.Intn(5) {
	case 0: // all zero
	case 1:
		b[n-1] = 1
	case 2:
		b[0] = 0x80
	case 3:
		b[h.Intn(n)] = byte(1 << h.Intn(8))
	default:
		h.Rng.Read(b)
	}
	return b
}

func (h *H) c05Base(k c05Key, nonce, pt []byte) (s, ct, tag []byte) {
	s = c05OracleAES(k.K, nonce)
	ct = c05OracleCTR(k.Enc, nonce, pt)
	tag = c05OracleTag(k.R, s, ct)
	h.Rec("key", k.toks()...)
	h.Rec("nonce", Hex(nonce))
	h.Rec("pt", Hex(pt))
	h.Rec("or", Hex(s), Hex(ct), Hex(tag))
	return
}

func (h *H) c05SealCase(k c05Key, nonce, pt, ad []byte) {
	h.Case("seal")
	h.c05Base(k, nonce, pt)
	if len(ad) > 0 {
		h.Rec("ad", Hex(ad))
	}
	rk := k.real()
	var out []byte
	panicked, _ := Protect(func() {
		dst := append(make([]byte, 0, len(nonce)+len(pt)+32), nonce...)
		out = rk.Seal(dst, nonce, pt, ad)
	})
	if panicked {
		h.Rec("res", "panic")
		h.Rec("reopen", "none")
	} else {
		h.Rec("res", "ok", Hex(out))
		if len(out) >= 16 {
			h.Rec("reopen", c05OpenResult(rk, out[:16], out[16:])...)
		} else {
			h.Rec("reopen", "panic")
		}
	}
	h.End()
}

// one sealed message and a list of tamperings
func (h *H) c05OpenCase(k c05Key, nonce, pt []byte, flips []int, truncs []int, extra int) {
	h.Case("open")
	_, ct, tag := h.c05Base(k, nonce, pt)
	rk := k.real()
	sealed := rk.Seal(append([]byte(nil), nonce...), nonce, pt, nil)
	h.Rec("sealed", Hex(sealed))
	n0, c0 := sealed[:16], sealed[16:]
	_ = ct
	_ = tag
	emit := func(kind string, a1, a2, a3 string, kk c05Key, n1, c1 []byte, wantCtr bool) {
		s := c05OracleAES(kk.K, n1)
		var body []byte
		if len(c1) >= 16 {
			body = c1[:len(c1)-16]
		}
		t := c05OracleTag(kk.R, s, body)
		var pt1 []byte
		if wantCtr {
			pt1 = c05OracleCTR(kk.Enc, n1, body)
		}
		toks := []string{kind, a1, a2, a3, Hex(s), Hex(t), Hex(pt1)}
		toks = append(toks, c05OpenResult(kk.real(), n1, c1)...)
		h.Rec("t", toks...)
	}
	emit("none", "-", "-", "-", k, n0, c0, true)
	for _, pos := range flips {
		m := append([]byte(nil), sealed...)
		m[pos/8] ^= 1 << (pos % 8)
		emit("flip", Itoa(pos), Hex(m[pos/8:pos/8+1]), "-", k, m[:16], m[16:], false)
	}
	for _, l := range truncs {
		emit("trunc", Itoa(l), "-", "-", k, n0, c0[:l], false)
	}
	for i := 0; i < extra; i++ {
		switch h.Intn(9) {
		case 0: // completely different key
			k2 := h.c05GenKey()
			emit("key", Hex(k2.K), Hex(k2.R), Hex(k2.Enc), k2, n0, c0, true)
		case 1: // only K differs (one bit)
			k2 := c05Key{K: append([]byte(nil), k.K...), R: k.R, Enc: k.Enc}
			k2.K[h.Intn(16)] ^= 1 << h.Intn(8)
			emit("key", Hex(k2.K), Hex(k2.R), Hex(k2.Enc), k2, n0, c0, true)
		case 2: // only R differs (one bit)
			k2 := c05Key{K: k.K, R: append([]byte(nil), k.R...), Enc: k.Enc}
			k2.R[h.Intn(16)] ^= 1 << h.Intn(8)
			emit("key", Hex(k2.K), Hex(k2.R), Hex(k2.Enc), k2, n0, c0, true)
		case 3: // only the encryption key differs
			k2 := c05Key{K: k.K, R: k.R, Enc: append([]byte(nil), k.Enc...)}
			k2.Enc[h.Intn(32)] ^= 1 << h.Intn(8)
			emit("key", Hex(k2.K), Hex(k2.R), Hex(k2.Enc), k2, n0, c0, true)
		case 4: // a zeroed key part
			k2 := c05Key{K: k.K, R: k.R, Enc: k.Enc}
			switch h.Intn(3) {
			case 0:
				k2.K = make([]byte, 16)
			case 1:
				k2.R = make([]byte, 16)
			default:
				k2.Enc = make([]byte, 32)
			}
			emit("key", Hex(k2.K), Hex(k2.R), Hex(k2.Enc), k2, n0, c0, true)
		case 5: // zero nonce
			emit("raw", Hex(make([]byte, 16)), Hex(c0), "-", k, make([]byte, 16), c0, true)
		case 6: // bytes appended
			c1 := append(append([]byte(nil), c0...), h.Bytes(1+h.Intn(20))...)
			emit("raw", Hex(n0), Hex(c1), "-", k, n0, c1, true)
		case 7: // random garbage of the same length / a different message's tag
			c1 := h.Bytes(len(c0))
			emit("raw", Hex(n0), Hex(c1), "-", k, n0, c1, true)
		default: // byte replaced
			c1 := append([]byte(nil), c0...)
			p := h.Intn(len(c1))
			c1[p] = ^c1[p]
			emit("raw", Hex(n0), Hex(c1), "-", k, n0, c1, true)
		}
	}
	h.End()
}

func (h *H) c05KdfCase(n, r, p int, salt, pw []byte, compute bool) {
	h.Case("kdf")
	h.Rec("params", Itoa(n), Itoa(r), Itoa(p))
	h.Rec("salt", Hex(salt))
	h.Rec("pw", Hex(pw))
	if compute {
		if out, err := scrypt.Key(pw, salt, n, r, p, 64); err == nil {
			h.Rec("or_scrypt", Hex(out))
		}
	}
	var k *crypto.Key
	var err error
	panicked, _ := Protect(func() { k, err = crypto.KDF(crypto.Params{N: n, R: r, P: p}, salt, string(pw)) })
	switch {
	case panicked:
		h.Rec("res", "err", "panic")
	case err == nil:
		h.Rec("res", "ok", Hex(k.MACKey.K[:]), Hex(k.MACKey.R[:]), Hex(k.EncryptionKey[:]))
	case strings.Contains(err.Error(), "invalid salt bytes"):
		h.Rec("res", "err", "badSalt")
	case strings.HasPrefix(err.Error(), "Check"):
		h.Rec("res", "err", "badParams")
	case strings.HasPrefix(err.Error(), "scrypt.Key"):
		h.Rec("res", "err", "scryptErr")
	default:
		h.Rec("res", "err", "other:"+strings.ReplaceAll(err.Error(), " ", "_"))
	}
	h.End()
}

func streamC05(h *H) {
	shortLens := []int{0, 1, 2, 15, 16, 17, 31, 32, 33, 47, 63, 64}
	midLens := []int{65, 100, 255, 256, 257, 1000, 1023, 4095, 4096, 4097}
	bigLens := []int{16384, 65535, 65536}

	allBits := func(n int) []int {
		l := make([]int, 0, n*8)
		for i := 0; i < n*8; i++ {
			l = append(l, i)
		}
		return l
	}
	allTruncs := func(n int) []int { // n = len(body‖tag)
		l := make([]int, 0, n)
		for i := 0; i < n; i++ {
			l = append(l, i)
		}
		return l
	}
	sampleBits := func(total, cnt int) []int {
		// always include the boundaries nonce|body|tag and first/last bit
		l := []int{0, 127, 128, total*8 - 129, total*8 - 128, total*8 - 1}
		for len(l) < cnt {
			l = append(l, h.Intn(total*8))
		}
		return l
	}
	sampleTruncs := func(n, cnt int) []int {
		l := []int{0, 1, 15, 16, 17, n - 17, n - 16, n - 1}
		for len(l) < cnt {
			l = append(l, h.Intn(n))
		}
		var r []int
		for _, x := range l {
			if x >= 0 && x < n {
				r = append(r, x)
			}
		}
		return r
	}

	// ---- seal: validity of keys and nonces, lengths, round trip
	for i := 0; i < h.N(150, 6000); i++ {
		k := h.c05GenKey()
		nonce := h.Bytes(16)
		switch h.Intn(8) {
		case 0:
			k.K = h.c05Shape(16)
		case 1:
			k.R = h.c05Shape(16)
		case 2:
			k.Enc = h.c05Shape(32)
		case 3:
			nonce = h.c05Shape(16)
		case 4:
			nonce = h.Bytes([]int{0, 1, 15, 17, 32}[h.Intn(5)]) // wrong length: API misuse, panics
		}
		var pt []byte
		switch h.Intn(3) {
		case 0:
			pt = h.Bytes(shortLens[h.Intn(len(shortLens))])
		case 1:
			pt = h.Bytes(midLens[h.Intn(len(midLens))])
		default:
			pt = h.Bytes(h.Intn(300))
		}
		var ad []byte
		if h.Intn(25) == 0 {
			ad = h.Bytes(1 + h.Intn(4))
		}
		h.c05SealCase(k, nonce, pt, ad)
	}
	for _, l := range bigLens {
		if h.Shard == 0 {
			h.c05SealCase(h.c05GenKey(), h.Bytes(16), h.Bytes(l), nil)
		}
	}

	// ---- open: exhaustive single-bit flips and truncations of short messages
	rounds := h.N(1, 24)
	for r := 0; r < rounds; r++ {
		for _, l := range shortLens {
			total := 16 + l + 16
			h.c05OpenCase(h.c05GenKey(), h.Bytes(16), h.Bytes(l), allBits(total), allTruncs(l+16), 12)
		}
	}
	// ---- longer messages: sampled positions (thorough: all positions up to 512 bytes, one 4 KiB)
	for r := 0; r < h.N(1, 16); r++ {
		for _, l := range midLens {
			total := 16 + l + 16
			if h.Thorough() && (l <= 512 || (l == 4096 && r == 0)) {
				h.c05OpenCase(h.c05GenKey(), h.Bytes(16), h.Bytes(l), allBits(total), allTruncs(l+16), 12)
			} else {
				h.c05OpenCase(h.c05GenKey(), h.Bytes(16), h.Bytes(l), sampleBits(total, 60), sampleTruncs(l+16, 40), 12)
			}
		}
	}
	if h.Shard == 0 {
		for _, l := range bigLens {
			total := 16 + l + 16
			n := 10
			if h.Thorough() {
				n = 200
			}
			h.c05OpenCase(h.c05GenKey(), h.Bytes(16), h.Bytes(l), sampleBits(total, n), sampleTruncs(l+16, n), 6)
		}
	}
	// random lengths
	for i := 0; i < h.N(40, 3000); i++ {
		l := h.Intn(700)
		total := 16 + l + 16
		h.c05OpenCase(h.c05GenKey(), h.Bytes(16), h.Bytes(l), sampleBits(total, 24), sampleTruncs(l+16, 16), 10)
	}

	// ---- KDF: salt lengths and parameter region (small valid parameters only are computed)
	ns := []int{-2, 0, 1, 2, 3, 4, 6, 8, 16, 24, 64, 1024, 1 << 31, 1<<31 - 1, 1 << 40}
	rs := []int{-1, 0, 1, 2, 8, 1 << 15, 1 << 23, 1 << 30, 1 << 31}
	ps := []int{-1, 0, 1, 2, 3, 1 << 15, 1 << 29, 1 << 30, 1 << 31}
	saltLens := []int{0, 8, 16, 63, 64, 64, 64, 64, 64, 65, 128}
	for i := 0; i < h.N(250, 6000); i++ {
		n, r, p := ns[h.Intn(len(ns))], rs[h.Intn(len(rs))], ps[h.Intn(len(ps))]
		switch h.Intn(6) {
		case 0, 1: // mostly-valid stream
			n, r, p = 1<<(1+h.Intn(10)), 1+h.Intn(3), 1+h.Intn(2)
		case 2: // even N that is not a power of two: passes simple-scrypt's Check, refused by scrypt.Key
			n, r, p = []int{6, 10, 12, 24, 48, 1000, 4094}[h.Intn(7)], 1+h.Intn(3), 1+h.Intn(2)
		}
		salt := h.Bytes(saltLens[h.Intn(len(saltLens))])
		if h.Intn(2) == 0 {
			salt = h.Bytes(64)
		}
		pw := h.Bytes(h.Intn(12))
		small := n > 1 && n <= 4096 && r >= 1 && r <= 8 && p >= 1 && p <= 3
		// guard the harness itself against huge allocations should a changed implementation
		// accept what it must reject: parameters outside the small region are only generated
		// where BOTH libraries' documented limits reject them or memory stays below 64 MiB
		if !small && n > 1 && r >= 1 && p >= 1 && int64(n)*int64(r) <= (1<<19) && int64(r)*int64(p) <= 1<<19 {
			small = true
		}
		if !small && c05WouldAllocate(n, r, p) {
			continue
		}
		h.c05KdfCase(n, r, p, salt, pw, small)
	}
}

// c05WouldAllocate: parameters that pass every documented check and would make scrypt allocate
// more than the harness wants to spend.
func c05WouldAllocate(n, r, p int) bool {
	const maxInt = 1<<31 - 1
	if n <= 1 || n&(n-1) != 0 || r <= 0 || p <= 0 {
		return false
	}
	if uint64(r)*uint64(p) >= 1<<30 || r > maxInt/128/p || r > maxInt/256 || n > maxInt/128/r {
		return false
	}
	return true
}

var _ = bytes.Equal
