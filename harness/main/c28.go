//go:build verif

package main

import (
	"errors"
	"path/filepath"
	"sort"
	"strings"

	"github.com/restic/restic/internal/filter"
)

var _ = verifRegister("C28", streamC28)

// c28Res renders (bool, error) of Match / ChildMatch.
func c28Res(b bool, err error) string {
	switch {
	case err == nil && b:
		return "t"
	case err == nil:
		return "f"
	case err == filter.ErrBadString:
		return "e:str"
	case errors.Is(err, filepath.ErrBadPattern):
		return "e:pat"
	default:
		return "e:other"
	}
}

func c28Glob(part, comp string) string {
	ok, err := filepath.Match(part, comp)
	if err != nil {
		return "e"
	}
	if ok {
		return "t"
	}
	return "f"
}

// c28Case runs the real filter functions for the patterns on all paths and writes one case.
// sub = "single": Match/ChildMatch per pattern; the list functions are exercised in every case.
func c28Case(h *H, sub string, pats []string, paths []string) {
	h.Case(sub)
	partSet := map[string]bool{"*": true}
	compSet := map[string]bool{}
	for i, p := range pats {
		h.Rec("pat", HexS(p))
		if p == "" {
			continue
		}
		body := p
		if body[0] == '!' {
			body = body[1:]
		}
		h.Rec("clean", HexS(body), HexS(filepath.Clean(body)))
		var parts []string
		var simple []bool
		var neg bool
		panicked, _ := Protect(func() { parts, simple, neg = filter.VerifC28Prepare(p) })
		if panicked {
			h.Rec("prep", Itoa(i), "panic")
			continue
		}
		toks := []string{Itoa(i), B(neg)}
		for k := range parts {
			toks = append(toks, HexS(parts[k]), B(simple[k]))
			partSet[parts[k]] = true
		}
		h.Rec("prep", toks...)
	}
	for i, s := range paths {
		h.Rec("path", HexS(s))
		comps := filter.VerifC28Split(s)
		h.Rec("split", append([]string{Itoa(i)}, HexList(comps)...)...)
		for _, c := range comps {
			compSet[c] = true
		}
	}
	var partL, compL []string
	for p := range partSet {
		partL = append(partL, p)
	}
	for c := range compSet {
		compL = append(compL, c)
	}
	sort.Strings(partL)
	sort.Strings(compL)
	for _, p := range partL {
		toks := []string{HexS(p)}
		for _, c := range compL {
			toks = append(toks, HexS(c), c28Glob(p, c))
		}
		// validity probe used by ValidatePatterns: the part against itself
		toks = append(toks, HexS(p), c28Glob(p, p))
		h.Rec("glob", toks...)
	}
	for i, p := range pats {
		for j, s := range paths {
			var m, c string
			if pk, _ := Protect(func() { m = c28Res(filter.Match(p, s)) }); pk {
				m = "panic"
			}
			if pk, _ := Protect(func() { c = c28Res(filter.ChildMatch(p, s)) }); pk {
				c = "panic"
			}
			h.Rec("mc", Itoa(i), Itoa(j), m, c)
		}
	}
	// list functions on the whole pattern list
	var parsed []filter.Pattern
	if pk, _ := Protect(func() { parsed = filter.ParsePatterns(pats) }); pk {
		h.Rec("parse", "panic")
		h.End()
		return
	}
	h.Rec("valid", B(filter.ValidatePatterns(pats) == nil))
	for j, s := range paths {
		var l, lc string
		if pk, _ := Protect(func() {
			m, err := filter.List(parsed, s)
			if err != nil {
				l = c28Res(false, err)
			} else {
				l = c28Res(m, nil)
			}
		}); pk {
			l = "panic"
		}
		if pk, _ := Protect(func() {
			m, c, err := filter.ListWithChild(parsed, s)
			if err != nil {
				lc = c28Res(false, err)
			} else {
				lc = c28Res(m, nil) + c28Res(c, nil)
			}
		}); pk {
			lc = "panic"
		}
		h.Rec("ls", Itoa(j), l, lc)
	}
	h.End()
}

// all sequences over alphabet of length 1..max
func c28Seqs(alphabet []string, max int) [][]string {
	var res [][]string
	var cur [][]string = [][]string{{}}
	for l := 1; l <= max; l++ {
		var next [][]string
		for _, s := range cur {
			for _, a := range alphabet {
				n := append(append([]string(nil), s...), a)
				next = append(next, n)
			}
		}
		res = append(res, next...)
		cur = next
	}
	return res
}

func streamC28(h *H) {
	// ---- 0. regression cases of finding C28:match:multi-doublewildcard-short-path (fixed in 8b0fa9a13)
	if h.Shard == 0 {
		c28Case(h, "regress", []string{"foo/**/bar/**/x"}, []string{"foo/bar/x", "foo/a/bar/x", "foo/bar/a", "foo", "foo/bar", "/home/user/foo/bar/x"})
		c28Case(h, "regress", []string{"/foo/**/bar/**/x"}, []string{"/foo/bar/x", "/foo/a/bar/x", "/foo/bar/a", "/foo", "/foo/bar", "/foo/bar/b/x"})
		c28Case(h, "regress", []string{"a/**/**"}, []string{"a", "a/b", "b/a", "/a"})
		c28Case(h, "regress", []string{"a/**/b/**/c"}, []string{"a/x/b/c", "a/b/x/c", "a/b/c", "a/b", "a"})
	}

	// ---- A. small-scope exhaustive: every pattern over 7 part shapes × every path over 3 components
	shapes := []string{"a", "b", "*", "**", "?", "[ab]", "a*"}
	comps := []string{"a", "b", "ab"}
	maxParts, maxComps := 3, 3
	if h.Thorough() {
		maxParts, maxComps = 4, 4
	}
	var paths []string
	for _, s := range c28Seqs(comps, maxComps) {
		paths = append(paths, strings.Join(s, "/"), "/"+strings.Join(s, "/"))
	}
	n := 0
	if (!h.Thorough() && h.Seed <= 3) || (h.Thorough() && h.Seed%3 == 1) { // the exhaustive part does not depend on the seed: once per run
		for _, s := range c28Seqs(shapes, maxParts) {
			for _, abs := range []string{"", "/"} {
				n++
				if h.NSh > 1 && n%h.NSh != h.Shard {
					continue
				}
				c28Case(h, "exh", []string{abs + strings.Join(s, "/")}, paths)
			}
		}
	}

	// ---- B. random single patterns: classes, escapes, malformed parts, several '**', odd strings
	partPool := []string{"a", "b", "c", "ab", "*", "**", "**", "?", "a*", "*b", "[ab]", "[a-c]", "[^a]", `\*`, `\a`, "[", "[]a]", `a\`, "a[", ".", "..", "", "A", "[A-Z]", "***", "a?c"}
	compPool := []string{"a", "b", "c", "ab", "abc", "*", "A", "", ".", "..", "[", "a*", "x y"}
	genPat := func(maxp int) string {
		k := 1 + h.Intn(maxp)
		var ps []string
		for i := 0; i < k; i++ {
			ps = append(ps, h.Pick(partPool))
		}
		s := strings.Join(ps, "/")
		if h.Intn(3) == 0 {
			s = "/" + s
		}
		if h.Intn(12) == 0 {
			s += "/"
		}
		return s
	}
	genPaths := func(maxc, npaths int) []string {
		// a set of paths closed under prefixes (so that extension checks apply)
		set := map[string]bool{}
		for len(set) < npaths {
			k := 1 + h.Intn(maxc)
			var cs []string
			for i := 0; i < k; i++ {
				if h.Intn(10) == 0 {
					cs = append(cs, h.Pick(compPool))
				} else {
					cs = append(cs, h.Pick(compPool[:5]))
				}
			}
			abs := ""
			if h.Intn(2) == 0 {
				abs = "/"
			}
			for i := 1; i <= k; i++ {
				set[abs+strings.Join(cs[:i], "/")] = true
			}
		}
		var l []string
		for s := range set {
			l = append(l, s)
		}
		sort.Strings(l)
		if h.Intn(15) == 0 {
			l = append(l, "")
		}
		if h.Intn(15) == 0 {
			l = append(l, "/")
		}
		return l
	}
	for i, nb := 0, h.N(700, 30000); i < nb; i++ {
		p := genPat(5)
		if h.Intn(10) == 0 {
			p = "!" + p
		}
		if h.Intn(60) == 0 {
			p = h.Pick([]string{"", "!", "/", "//", "!/", "**", "/**", "**/**", "./a", "a/../b"})
		}
		c28Case(h, "rand", []string{p}, genPaths(5, 8))
	}

	// ---- C. pattern lists with negated patterns (List / ListWithChild, early break)
	for i, nl := 0, h.N(500, 20000); i < nl; i++ {
		k := 1 + h.Intn(4)
		var pats []string
		for j := 0; j < k; j++ {
			p := genPat(3)
			if h.Intn(25) != 0 {
				// mostly well-formed lists: drop malformed parts
				for _, bad := range []string{"[/", "[", "a[", `a\`} {
					p = strings.ReplaceAll(p, bad, "b")
				}
			}
			if j > 0 && h.Intn(3) == 0 {
				p = "!" + p
			}
			if h.Intn(30) == 0 {
				p = ""
			}
			pats = append(pats, p)
		}
		c28Case(h, "list", pats, genPaths(4, 10))
	}
}
