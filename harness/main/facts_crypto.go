//go:build verif

package main

import (
	sscrypt "github.com/elithrar/simple-scrypt"
	"github.com/restic/chunker"
	"github.com/restic/restic/internal/repository/crypto"
)

// constants of internal/repository/crypto (+ the two library constants the crypto / store models use)
var _ = verifRegisterFacts(func() map[string]int64 {
	m := crypto.VerifFactsC05()
	m["crypto_sscryptDKLen"] = int64(sscrypt.DefaultParams.DKLen)
	m["chunker_MinSize"] = int64(chunker.MinSize)
	return m
})
