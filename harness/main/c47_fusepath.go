//go:build verif && (darwin || freebsd || linux)

package main

// C47 substream fusepath: the cache as its only production user drives it (fuse's getBlobAt →
// GetOrCompute → LoadBlob): 8 concurrent readers fetch whole blobs of some hundred KiB through
// one open file while the cache holds about three of them. Every blob handed out for an id must
// be the content stored for that id — also while other callers evict and load
// (`rdh` records with digests, see c46_reopen.go).
func init() {
	c47FusePath = func(h *H) { c46Pressure(h, "fusepath", true) }
}
