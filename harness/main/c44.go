//go:build verif

package main

// C44 — every saved blob ends up in exactly one uploaded, indexed pack.
//
// Substreams:
//   pm      real packerManager (through the shim, capturing queueFn), sequential SaveBlob calls with
//           generated size sequences; the slot chosen by the random pickPacker is observed and
//           handed to the model as oracle; Flush; real Packer.Finalize on every queued packer.
//   pmbig   the same with very many tiny blobs (pack header boundary, F9 witness).
//   pmconc  concurrent savers on the real packerManager (predicate only, no oracle).
//   repo    real Repository.WithBlobUploader + SaveBlobAsync from many goroutines on a recording
//           in-memory backend with tiny pack size; packs and index files are decoded from the
//           backend bytes (see c44_session.go).

import (
	"encoding/binary"
	"fmt"
	"strings"
	"sync"

	"github.com/restic/restic/internal/repository"
	"github.com/restic/restic/internal/repository/pack"
	"github.com/restic/restic/internal/restic"
)

var _ = verifRegister("C44", streamC44)

func c44ID(n int) restic.ID {
	var id restic.ID
	binary.BigEndian.PutUint64(id[:8], uint64(n))
	id[31] = 0x5a
	return id
}

func c44Num(id restic.ID) int { return int(binary.BigEndian.Uint64(id[:8])) }

func c44T(t restic.BlobType) string {
	switch t {
	case restic.DataBlob:
		return "d"
	case restic.TreeBlob:
		return "t"
	}
	return "x"
}

func c44BlobTok(b repository.VerifC44Blob) string {
	return fmt.Sprintf("%s:%d:%d:%d", c44T(b.Type), c44Num(b.ID), b.Length, b.ULen)
}

func c44ErrTok(err error) string {
	if err == nil {
		return "0"
	}
	return "1"
}

// c44EmitQueued writes one `q` record per queued packer (queue order).
func c44EmitQueued(h *H, v *repository.VerifC44PM) {
	v.FinalizeAll()
	for _, q := range v.Queued {
		toks := []string{Itoa(q.Serial), c44T(q.QType), Itoa(q.Count), U64(uint64(q.Size)), B(q.FinErr == nil), Itoa(q.HdrSize)}
		for _, b := range q.Blobs {
			toks = append(toks, c44BlobTok(b))
		}
		h.Rec("q", toks...)
		if q.FinErr != nil {
			msg := q.FinErr.Error()
			if i := strings.IndexByte(msg, '\n'); i >= 0 {
				msg = msg[:i]
			}
			h.Rec("finerr", Itoa(q.Serial), HexS(msg))
		}
	}
}

// c44Size picks a ciphertext length relative to the pack size: tiny … larger than the pack.
func c44Size(h *H, packSize int) int {
	switch h.Intn(12) {
	case 0:
		return 0
	case 1, 2, 3:
		return h.Intn(9)
	case 4, 5:
		return 1 + h.Intn(packSize/4+1)
	case 6:
		return packSize/2 + h.Intn(packSize/2+1)
	case 7:
		return packSize - 1
	case 8:
		return packSize
	case 9:
		return packSize + 1 + h.Intn(packSize)
	default:
		return 1 + h.Intn(packSize/8+1)
	}
}

func streamC44(h *H) {
	buf := make([]byte, 1<<20)
	// ---- pm: sequential, oracle observed --------------------------------------------------
	n := h.N(150, 8000)
	for i := 0; i < n; i++ {
		packSize := []int{16, 64, 100, 256, 1000, 4096}[h.Intn(6)]
		packerCount := 1 + h.Intn(4)
		if h.Intn(3) == 0 {
			packerCount = 2 // the default
		}
		tpe := restic.DataBlob
		if h.Intn(3) == 0 {
			tpe = restic.TreeBlob
		}
		nops := 1 + h.Intn(60)
		if h.Intn(10) == 0 {
			nops = h.Intn(3)
		}
		v := repository.VerifC44NewPM(tpe, uint(packSize), packerCount)
		h.Case("pm")
		h.Rec("cfg", Itoa(packSize), Itoa(packerCount), c44T(tpe))
		tinyOnly := h.Intn(4) == 0
		for k := 0; k < nops; k++ {
			l := c44Size(h, packSize)
			if tinyOnly {
				l = h.Intn(4)
			}
			ulen := 0
			if h.Intn(3) == 0 {
				ulen = 1 + h.Intn(3*packSize)
			}
			var size, slot, nq int
			var err error
			if p, msg := Protect(func() { size, err, slot, nq = v.SaveSeq(tpe, c44ID(k), buf[:l], ulen) }); p {
				h.Rec("panic", HexS(msg))
				break
			}
			h.Rec("save", c44T(tpe), Itoa(k), Itoa(l), Itoa(ulen), Itoa(slot), Itoa(size), Itoa(nq), c44ErrTok(err))
			if h.Intn(25) == 0 { // an intermediate Flush (the code allows it, e.g. repeated sessions)
				nq, err := v.Flush()
				h.Rec("flush", Itoa(nq), c44ErrTok(err))
			}
		}
		var sl []string
		for _, s := range v.Slots() {
			sl = append(sl, fmt.Sprintf("%d:%d:%d", s.Serial, s.Count, s.Size))
		}
		h.Rec("slots", sl...)
		nq, err := v.Flush()
		h.Rec("flush", Itoa(nq), c44ErrTok(err))
		c44EmitQueued(h, v)
		v.Close()
		h.End()
	}

	// ---- pmbig: pack header boundary ------------------------------------------------------
	// (total number of one-byte blobs, packer count); the first one is the F9 witness of DESIGN §6.
	maxEntries := int(pack.MaxHeaderEntries)
	// ulen 0: plain header entries (37 bytes), ulen 1: "compressed" entries (41 bytes, the size
	// HeaderFull assumes), so maxEntries is the exact boundary for ulen 1.
	type big struct{ total, packers, ulen int }
	bigs := []big{{480000, 2, 0}}
	if h.Shard == 0 || h.Thorough() {
		bigs = append(bigs, big{maxEntries + 1 + h.Intn(3), 2, 1})
		// ONE packer collecting tiny blobs until HeaderFull() queues it: the packer must be handed
		// over with exactly MaxHeaderEntries entries (entries of 41 resp. 37 bytes)
		bigs = append(bigs, big{maxEntries + 2 + h.Intn(3), 1, h.Intn(2)})
	}
	if h.Thorough() {
		bigs = append(bigs, big{maxEntries - h.Intn(2), 2, 1}, big{maxEntries + 5, 1, 1}, big{2*maxEntries - 2 - h.Intn(4), 3, h.Intn(2)}, big{600000 + h.Intn(1000), 3, h.Intn(2)})
	}
	if h.Shard != 0 && h.Shard%4 != 1 { // the boundary cases are expensive: not on every shard
		bigs = nil
	}
	for _, bc := range bigs {
		v := repository.VerifC44NewPM(restic.DataBlob, 16*1024*1024, bc.packers)
		h.Case("pmbig")
		h.Rec("cfg", Itoa(16*1024*1024), Itoa(bc.packers), "d")
		slots := make([]byte, 0, bc.total)
		sumSize, sumQ, nerr := 0, 0, 0
		for k := 0; k < bc.total; k++ {
			size, err, slot, nq := v.SaveSeq(restic.DataBlob, c44ID(k), buf[:1], bc.ulen)
			c := byte('x')
			if slot >= 0 {
				c = byte('0' + slot)
			}
			slots = append(slots, c)
			sumSize += size
			sumQ += nq
			if err != nil {
				nerr++
			}
		}
		h.Rec("rep", Itoa(bc.total), "d", "1", Itoa(bc.ulen), string(slots), Itoa(sumSize), Itoa(sumQ), Itoa(nerr))
		nq, err := v.Flush()
		h.Rec("flush", Itoa(nq), c44ErrTok(err))
		c44EmitQueued(h, v)
		v.Close()
		h.End()
	}

	// ---- pmconc: concurrent savers ---------------------------------------------------------
	n = h.N(40, 2000)
	for i := 0; i < n; i++ {
		packSize := []int{64, 256, 1000}[h.Intn(3)]
		packerCount := 1 + h.Intn(3)
		tpe := restic.DataBlob
		if h.Intn(3) == 0 {
			tpe = restic.TreeBlob
		}
		nthreads := 2 + h.Intn(7)
		per := 1 + h.Intn(40)
		type op struct{ id, l, ulen int }
		plans := make([][]op, nthreads)
		id := 0
		for t := range plans {
			for k := 0; k < per; k++ {
				ulen := 0
				if h.Intn(3) == 0 {
					ulen = 1 + h.Intn(100)
				}
				plans[t] = append(plans[t], op{id, c44Size(h, packSize), ulen})
				id++
			}
		}
		v := repository.VerifC44NewPM(tpe, uint(packSize), packerCount)
		h.Case("pmconc")
		h.Rec("cfg", Itoa(packSize), Itoa(packerCount), c44T(tpe))
		errs := make([][]error, nthreads)
		var wg sync.WaitGroup
		for t := range plans {
			wg.Add(1)
			go func(t int) {
				defer wg.Done()
				for _, o := range plans[t] {
					_, err := v.Save(tpe, c44ID(o.id), buf[:o.l], o.ulen)
					errs[t] = append(errs[t], err)
				}
			}(t)
		}
		wg.Wait()
		for t := range plans {
			for k, o := range plans[t] {
				h.Rec("acc", c44T(tpe), Itoa(o.id), Itoa(o.l), Itoa(o.ulen), c44ErrTok(errs[t][k]))
			}
		}
		nq, err := v.Flush()
		h.Rec("flush", Itoa(nq), c44ErrTok(err))
		c44EmitQueued(h, v)
		v.Close()
		h.End()
	}

	// ---- repo: whole upload sessions on a real repository ----------------------------------
	n = h.N(40, 1500)
	for i := 0; i < n; i++ {
		c44RepoCase(h, "repo", false)
	}
}
