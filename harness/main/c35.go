//go:build verif

package main

// C35 — the real retry.Backend (fast retries) over a scripted faulty backend. One case is a
// history: configuration, initial content, a few operations each with a per-attempt fault script.
// After every operation the result, the per-attempt errors seen by the wrapped backend, the
// outputs and the whole backend content are recorded.

import (
	"bytes"
	"context"
	"errors"
	"fmt"
	"hash"
	"io"
	"strings"

	"github.com/restic/restic/internal/backend"
	"github.com/restic/restic/internal/backend/retry"
	"github.com/restic/restic/internal/feature"
)

var _ = verifRegister("C35", streamC35)

var (
	c35ErrTransient = errors.New("c35: transient failure")
	c35ErrPermanent = errors.New("c35: permanent failure")
	c35ErrNotExist  = errors.New("c35: does not exist")
	c35ErrFn        = errors.New("c35: callback failed")
	c35ErrRewind    = errors.New("c35: rewind failed")
)

func c35ErrKind(err error) string {
	switch {
	case err == nil:
		return "ok"
	case errors.Is(err, c35ErrTransient):
		return "transient"
	case errors.Is(err, c35ErrPermanent):
		return "permanent"
	case errors.Is(err, c35ErrNotExist):
		return "notExist"
	case errors.Is(err, context.Canceled):
		return "canceled"
	case errors.Is(err, c35ErrFn):
		return "fn"
	case errors.Is(err, c35ErrRewind):
		return "rewind"
	case strings.Contains(err.Error(), "circuit breaker open"):
		return "breaker"
	}
	return "other:" + strings.ReplaceAll(err.Error(), " ", "_")
}

// one attempt of the script; which fields matter depends on the operation
type c35Att struct {
	Kind        string // ok|none failBefore partial writeThenFail|afterFail|removedThenFail permanent cancel consumerErr
	K           int    // partial length
	RewindFails bool
	RemoveFails bool
	// list
	Rot, Count int
	Dup        bool
	Outcome    string // ok transient permanent cancel
}

type c35Mock struct {
	cells  map[int][]byte
	uni    int
	atomic bool
	flaky  bool

	script  []c35Att
	next    int
	cur     c35Att
	trace   []string
	cancel  context.CancelFunc
	nocount bool // the cleanup Remove inside Save is not an attempt
	rewound bool // Rewind already started the current Save attempt
}

func c35Name(n int) string { return fmt.Sprintf("%02d", n) }
func c35Num(name string) int {
	var n int
	fmt.Sscanf(name, "%d", &n)
	return n
}

// begin starts the next attempt (padding an exhausted script with "no fault")
func (m *c35Mock) begin(def string) c35Att {
	if m.next < len(m.script) {
		m.cur = m.script[m.next]
	} else {
		m.cur = c35Att{Kind: def, Outcome: "ok", Count: 1 << 20}
	}
	m.next++
	return m.cur
}

func (m *c35Mock) ret(err error) error {
	m.trace = append(m.trace, c35ErrKind(err))
	return err
}

func (m *c35Mock) Properties() backend.Properties {
	return backend.Properties{Connections: 2, HasAtomicReplace: m.atomic, HasFlakyErrors: m.flaky}
}
func (m *c35Mock) Hasher() hash.Hash { return nil }
func (m *c35Mock) Close() error      { return nil }
func (m *c35Mock) IsNotExist(err error) bool {
	return errors.Is(err, c35ErrNotExist)
}
func (m *c35Mock) IsPermanentError(err error) bool {
	return errors.Is(err, c35ErrNotExist) || errors.Is(err, c35ErrPermanent)
}
func (m *c35Mock) Delete(ctx context.Context) error { return nil }
func (m *c35Mock) Warmup(ctx context.Context, h []backend.Handle) ([]backend.Handle, error) {
	return nil, nil
}
func (m *c35Mock) WarmupWait(ctx context.Context, h []backend.Handle) error { return nil }

// c35Reader is the RewindReader handed to retry.Save: Rewind starts an attempt and may fail.
type c35Reader struct {
	m    *c35Mock
	data []byte
	rd   *bytes.Reader
}

func (r *c35Reader) Read(p []byte) (int, error) { return r.rd.Read(p) }
func (r *c35Reader) Length() int64               { return int64(len(r.data)) }
func (r *c35Reader) Hash() []byte                { return nil }
func (r *c35Reader) Rewind() error {
	a := r.m.begin("ok")
	if a.RewindFails {
		return r.m.ret(c35ErrRewind)
	}
	r.m.rewound = true
	r.rd = bytes.NewReader(r.data)
	return nil
}

func (m *c35Mock) Save(ctx context.Context, h backend.Handle, rd backend.RewindReader) error {
	if !m.rewound {
		// Save without a preceding Rewind: the attempt starts here, the reader is wherever it is
		m.begin("ok")
	}
	m.rewound = false
	a := m.cur // started by Rewind
	n := c35Num(h.Name)
	got, _ := io.ReadAll(rd) // what actually arrives (a missing rewind shows up as missing bytes)
	switch a.Kind {
	case "ok":
		m.cells[n] = got
		return m.ret(nil)
	case "failBefore":
		return m.ret(c35ErrTransient)
	case "partial", "cancel":
		if !m.atomic {
			k := a.K
			if k > len(got) {
				k = len(got)
			}
			m.cells[n] = append([]byte{}, got[:k]...)
		}
		if a.Kind == "cancel" {
			m.cancel()
			return m.ret(context.Canceled)
		}
		return m.ret(c35ErrTransient)
	case "writeThenFail":
		m.cells[n] = got
		return m.ret(c35ErrTransient)
	case "permanent":
		return m.ret(c35ErrPermanent)
	}
	panic("c35: bad save kind " + a.Kind)
}

func (m *c35Mock) Remove(ctx context.Context, h backend.Handle) error {
	n := c35Num(h.Name)
	if m.nocount {
		// cleanup Remove issued by retry.Save
		if ctx.Err() != nil {
			return ctx.Err()
		}
		if m.cur.RemoveFails {
			return c35ErrTransient
		}
		if _, ok := m.cells[n]; !ok {
			return c35ErrNotExist
		}
		delete(m.cells, n)
		return nil
	}
	a := m.begin("none")
	switch a.Kind {
	case "none":
		if _, ok := m.cells[n]; !ok {
			return m.ret(c35ErrNotExist)
		}
		delete(m.cells, n)
		return m.ret(nil)
	case "failBefore":
		return m.ret(c35ErrTransient)
	case "removedThenFail":
		delete(m.cells, n)
		return m.ret(c35ErrTransient)
	case "permanent":
		return m.ret(c35ErrPermanent)
	case "cancel":
		m.cancel()
		return m.ret(context.Canceled)
	}
	panic("c35: bad remove kind " + a.Kind)
}

type c35ErrReader struct{ err error }

func (r c35ErrReader) Read([]byte) (int, error) { return 0, r.err }

func (m *c35Mock) Load(ctx context.Context, h backend.Handle, length int, offset int64, fn func(rd io.Reader) error) error {
	a := m.begin("none")
	n := c35Num(h.Name)
	switch a.Kind {
	case "failBefore":
		return m.ret(c35ErrTransient)
	case "permanent":
		return m.ret(c35ErrPermanent)
	case "cancel":
		m.cancel()
		return m.ret(context.Canceled)
	}
	d, ok := m.cells[n]
	if !ok {
		return m.ret(c35ErrNotExist)
	}
	switch a.Kind {
	case "partial":
		k := a.K
		if k > len(d) {
			k = len(d)
		}
		return m.ret(fn(io.MultiReader(bytes.NewReader(d[:k]), c35ErrReader{c35ErrTransient})))
	case "afterFail":
		if err := fn(bytes.NewReader(d)); err != nil {
			return m.ret(err)
		}
		return m.ret(c35ErrTransient)
	case "consumerErr", "none":
		return m.ret(fn(bytes.NewReader(d)))
	}
	panic("c35: bad load kind " + a.Kind)
}

func (m *c35Mock) Stat(ctx context.Context, h backend.Handle) (backend.FileInfo, error) {
	a := m.begin("none")
	n := c35Num(h.Name)
	switch a.Kind {
	case "failBefore":
		return backend.FileInfo{}, m.ret(c35ErrTransient)
	case "permanent":
		return backend.FileInfo{}, m.ret(c35ErrPermanent)
	case "cancel":
		m.cancel()
		return backend.FileInfo{}, m.ret(context.Canceled)
	case "none":
		d, ok := m.cells[n]
		if !ok {
			return backend.FileInfo{}, m.ret(c35ErrNotExist)
		}
		return backend.FileInfo{Name: h.Name, Size: int64(len(d))}, m.ret(nil)
	}
	panic("c35: bad stat kind " + a.Kind)
}

func (m *c35Mock) present() []int {
	var l []int
	for n := 0; n < m.uni; n++ {
		if _, ok := m.cells[n]; ok {
			l = append(l, n)
		}
	}
	return l
}

func (m *c35Mock) List(ctx context.Context, t backend.FileType, fn func(backend.FileInfo) error) error {
	a := m.begin("none")
	names := m.present()
	if len(names) > 0 {
		r := a.Rot % len(names)
		names = append(append([]int{}, names[r:]...), names[:r]...)
	}
	if a.Count < len(names) {
		names = names[:a.Count]
	}
	if a.Dup {
		names = append(append([]int{}, names...), names...)
	}
	for _, n := range names {
		if err := fn(backend.FileInfo{Name: c35Name(n), Size: int64(len(m.cells[n]))}); err != nil {
			return m.ret(err)
		}
	}
	switch a.Outcome {
	case "ok":
		return m.ret(nil)
	case "transient":
		return m.ret(c35ErrTransient)
	case "permanent":
		return m.ret(c35ErrPermanent)
	case "cancel":
		m.cancel()
		return m.ret(context.Canceled)
	}
	panic("c35: bad list outcome " + a.Outcome)
}

// ---------------------------------------------------------------------------------------------

func c35Cell(m *c35Mock, n int) string {
	d, ok := m.cells[n]
	if !ok {
		return "A"
	}
	return Hex(d)
}

func (h *H) c35Data() []byte {
	switch h.Intn(6) {
	case 0:
		return []byte{}
	case 1:
		return h.Bytes(1)
	default:
		return h.Bytes(2 + h.Intn(7))
	}
}

func streamC35(h *H) {
	defer feature.Flag.Apply("backend-error-redesign=true", func(string) {})
	n := h.N(1500, 30000)
	maxLen := 4
	if h.Thorough() {
		maxLen = 7
	}
	uni := 3
	for i := 0; i < n; i++ {
		redesign := h.Intn(8) != 0
		if redesign {
			_ = feature.Flag.Apply("backend-error-redesign=true", func(string) {})
		} else {
			_ = feature.Flag.Apply("backend-error-redesign=false", func(string) {})
		}
		m := &c35Mock{cells: map[int][]byte{}, uni: uni, atomic: h.Bool(), flaky: h.Intn(5) == 0}
		for c := 0; c < uni; c++ {
			if h.Intn(3) != 0 {
				m.cells[c] = h.c35Data()
			}
		}
		be := retry.New(m, 0, nil, nil)
		h.Case("hist")
		h.Rec("cfg", B(redesign), B(m.flaky), B(m.atomic), Itoa(uni))
		init := []string{}
		for c := 0; c < uni; c++ {
			init = append(init, c35Cell(m, c))
		}
		h.Rec("init", init...)
		nops := 2 + h.Intn(4)
		again := -1
		for o := 0; o < nops; o++ {
			again = c35Op(h, m, be, redesign, maxLen, again)
		}
		h.End()
	}
}

// c35Op runs one operation; loadAgain >= 0 asks for another Load of that handle (so that the
// circuit breaker armed by a failed Load is exercised). Returns the handle of a failed Load or -1.
func c35Op(h *H, m *c35Mock, be *retry.Backend, redesign bool, maxLen int, loadAgain int) (failedLoad int) {
	failedLoad = -1
	hn := h.Intn(m.uni)
	hd := backend.Handle{Type: backend.PackFile, Name: c35Name(hn)}
	stop := "never"
	be.MaxElapsedTime = 0
	if h.Intn(3) == 0 {
		stop = "always"
		be.MaxElapsedTime = 1 // nanosecond: the exponential backoff always says Stop
	}
	ctx, cancel := context.WithCancel(context.Background())
	defer cancel()
	ctxAlready := h.Intn(25) == 0
	if ctxAlready {
		cancel()
	}
	slen := h.Intn(maxLen + 1)
	if !redesign && stop == "never" && h.Intn(3) == 0 {
		slen = 9 + h.Intn(4) // reach the WithMaxRetries bound of the deprecated mode
	}
	m.script, m.next, m.trace, m.cancel, m.nocount, m.rewound = nil, 0, nil, cancel, false, false
	var err error
	var toks []string
	extra := func() {}
	opk := h.Intn(10)
	if loadAgain >= 0 && h.Intn(3) != 0 {
		opk, hn = 4, loadAgain
		hd = backend.Handle{Type: backend.PackFile, Name: c35Name(hn)}
	}
	switch {
	case opk < 4: // save
		data := h.c35Data()
		for j := 0; j < slen; j++ {
			kinds := []string{"failBefore", "partial", "partial", "writeThenFail", "permanent", "cancel", "ok"}
			a := c35Att{Kind: h.Pick(kinds), RewindFails: h.Intn(12) == 0, RemoveFails: h.Intn(6) == 0}
			if h.Intn(3) == 0 {
				a.Kind = "failBefore"
			}
			a.K = h.Intn(len(data) + 1)
			m.script = append(m.script, a)
			toks = append(toks, fmt.Sprintf("%s.%s.%d.%s", B(a.RewindFails), a.Kind, a.K, B(a.RemoveFails)))
		}
		h.Rec("op", append([]string{"save", Itoa(hn), Hex(data), stop, B(ctxAlready)}, toks...)...)
		m.nocount = true
		err = be.Save(ctx, hd, &c35Reader{m: m, data: data, rd: bytes.NewReader(data)})
		m.nocount = false
	case opk < 6: // load
		expired := h.Intn(4) == 0
		for j := 0; j < slen; j++ {
			a := c35Att{Kind: h.Pick([]string{"failBefore", "failBefore", "partial", "afterFail", "permanent", "consumerErr", "cancel", "none"})}
			a.K = h.Intn(9)
			m.script = append(m.script, a)
			toks = append(toks, fmt.Sprintf("%s.%d", a.Kind, a.K))
		}
		h.Rec("op", append([]string{"load", Itoa(hn), B(expired), stop, B(ctxAlready)}, toks...)...)
		if expired {
			old := retry.VerifC35SetFailedLoadExpiry(-1)
			defer retry.VerifC35SetFailedLoadExpiry(old)
		}
		type deliv struct {
			data     []byte
			complete bool
		}
		var delivs []deliv
		err = be.Load(ctx, hd, 0, 0, func(rd io.Reader) error {
			buf := new(bytes.Buffer)
			_, cerr := io.Copy(buf, rd)
			delivs = append(delivs, deliv{buf.Bytes(), cerr == nil})
			if cerr != nil {
				return cerr
			}
			if m.cur.Kind == "consumerErr" {
				return c35ErrFn
			}
			return nil
		})
		if err != nil {
			failedLoad = hn
		}
		extra = func() {
			for _, d := range delivs {
				h.Rec("deliv", Hex(d.data), B(d.complete))
			}
		}
	case opk < 7: // stat
		for j := 0; j < slen; j++ {
			a := c35Att{Kind: h.Pick([]string{"failBefore", "failBefore", "permanent", "cancel", "none"})}
			m.script = append(m.script, a)
			toks = append(toks, a.Kind)
		}
		h.Rec("op", append([]string{"stat", Itoa(hn), stop, B(ctxAlready)}, toks...)...)
		var fi backend.FileInfo
		fi, err = be.Stat(ctx, hd)
		extra = func() { h.Rec("size", I64(fi.Size)) }
	case opk < 8: // remove
		for j := 0; j < slen; j++ {
			a := c35Att{Kind: h.Pick([]string{"failBefore", "failBefore", "removedThenFail", "permanent", "cancel", "none"})}
			m.script = append(m.script, a)
			toks = append(toks, a.Kind)
		}
		h.Rec("op", append([]string{"remove", Itoa(hn), stop, B(ctxAlready)}, toks...)...)
		err = be.Remove(ctx, hd)
	default: // list
		fnFailAt := -1
		if h.Intn(4) == 0 {
			fnFailAt = h.Intn(3)
		}
		for j := 0; j < slen; j++ {
			a := c35Att{Rot: h.Intn(3), Count: h.Intn(4), Dup: h.Intn(5) == 0,
				Outcome: h.Pick([]string{"transient", "transient", "transient", "permanent", "cancel", "ok"})}
			if a.Outcome == "ok" && h.Intn(4) != 0 {
				a.Count = 1 << 20
			}
			m.script = append(m.script, a)
			toks = append(toks, fmt.Sprintf("%d.%d.%s.%s", a.Rot, a.Count, B(a.Dup), a.Outcome))
		}
		h.Rec("op", append([]string{"list", Itoa(fnFailAt), stop, B(ctxAlready)}, toks...)...)
		var reported []string
		calls := 0
		err = be.List(ctx, backend.PackFile, func(fi backend.FileInfo) error {
			calls++
			reported = append(reported, Itoa(c35Num(fi.Name)))
			if calls-1 == fnFailAt {
				return c35ErrFn
			}
			return nil
		})
		extra = func() { h.Rec("rep", reported...) }
	}
	tr := "-"
	if len(m.trace) > 0 {
		tr = strings.Join(m.trace, ",")
	}
	h.Rec("res", c35ErrKind(err), tr)
	extra()
	var cells []string
	for c := 0; c < m.uni; c++ {
		cells = append(cells, c35Cell(m, c))
	}
	h.Rec("cells", cells...)
	h.Rec("endop")
	return failedLoad
}
