//go:build verif

package main

import "github.com/restic/restic/internal/repository/index"

var _ = verifRegisterFacts(index.VerifFacts)
