//go:build verif

package main

// Shared toolkit for trace / end-to-end streams: running real CLI commands in-process on an
// in-memory repository, recording every backend operation, cutting a run at a crash point,
// snapshotting and re-instantiating backend states.

import (
	"bytes"
	"context"
	"errors"
	"fmt"
	"io"
	"os"
	"sort"
	"sync"

	"github.com/restic/restic/internal/backend"
	"github.com/restic/restic/internal/backend/limiter"
	"github.com/restic/restic/internal/backend/location"
	"github.com/restic/restic/internal/backend/mem"
	rerrors "github.com/restic/restic/internal/errors"
	"github.com/restic/restic/internal/global"
	"github.com/restic/restic/internal/repository"
	"github.com/restic/restic/internal/ui/termstatus"
)

// Event is one backend operation as seen below all of restic's wrappers (retry, cache, sema).
type Event struct {
	N    int    // 0-based index among all events of this RecBackend
	Op   string // save | remove | load | stat | list | delete
	Type string // backend file type: data key lock snapshot index config
	Name string
	Size int    // save: bytes written
	Err  bool   // the operation returned an error
	Data []byte // save: the bytes (kept only when KeepData is set)
}

var errCrashed = errors.New("verif: backend unavailable (simulated crash point reached)")

// RecBackend wraps a backend, records every operation and can simulate a crash: after
// CrashAfter mutating operations (save/remove) have *completed*, every further operation
// fails, so the backend state stays frozen at that prefix of the run.
type RecBackend struct {
	backend.Backend
	mu         sync.Mutex
	Events     []Event
	KeepData   bool
	CrashAfter int // -1: never
	mutations  int
	Crashed    bool
	// FailOp, if set, may return an error to inject for this operation (called before the op).
	FailOp func(op string, h backend.Handle, nth int) error
}

func NewRecBackend(be backend.Backend) *RecBackend {
	return &RecBackend{Backend: be, CrashAfter: -1}
}

func (r *RecBackend) rec(op string, h backend.Handle, size int, err error, data []byte) {
	r.mu.Lock()
	defer r.mu.Unlock()
	r.Events = append(r.Events, Event{N: len(r.Events), Op: op, Type: h.Type.String(), Name: h.Name, Size: size, Err: err != nil, Data: data})
}

// gate returns an error if the crash point has been reached; for mutating ops it also counts.
func (r *RecBackend) gate(op string, h backend.Handle, mutating bool) error {
	r.mu.Lock()
	defer r.mu.Unlock()
	if r.Crashed {
		return errCrashed
	}
	if mutating {
		if r.CrashAfter >= 0 && r.mutations >= r.CrashAfter {
			r.Crashed = true
			return errCrashed
		}
		r.mutations++
	}
	if r.FailOp != nil {
		if err := r.FailOp(op, h, r.mutations); err != nil {
			if mutating {
				r.mutations--
			}
			return err
		}
	}
	return nil
}

// Mutations returns the number of save/remove operations let through so far.
func (r *RecBackend) Mutations() int {
	r.mu.Lock()
	defer r.mu.Unlock()
	return r.mutations
}

func (r *RecBackend) Save(ctx context.Context, h backend.Handle, rd backend.RewindReader) error {
	if err := r.gate("save", h, true); err != nil {
		r.rec("save", h, 0, err, nil)
		return err
	}
	var data []byte
	if r.KeepData {
		data, _ = io.ReadAll(rd)
		_ = rd.Rewind()
	}
	err := r.Backend.Save(ctx, h, rd)
	r.rec("save", h, int(rd.Length()), err, data)
	return err
}

func (r *RecBackend) Remove(ctx context.Context, h backend.Handle) error {
	if err := r.gate("remove", h, true); err != nil {
		r.rec("remove", h, 0, err, nil)
		return err
	}
	err := r.Backend.Remove(ctx, h)
	r.rec("remove", h, 0, err, nil)
	return err
}

func (r *RecBackend) Load(ctx context.Context, h backend.Handle, length int, offset int64, fn func(rd io.Reader) error) error {
	if err := r.gate("load", h, false); err != nil {
		r.rec("load", h, 0, err, nil)
		return err
	}
	err := r.Backend.Load(ctx, h, length, offset, fn)
	r.rec("load", h, length, err, nil)
	return err
}

func (r *RecBackend) Stat(ctx context.Context, h backend.Handle) (backend.FileInfo, error) {
	if err := r.gate("stat", h, false); err != nil {
		r.rec("stat", h, 0, err, nil)
		return backend.FileInfo{}, err
	}
	fi, err := r.Backend.Stat(ctx, h)
	r.rec("stat", h, 0, err, nil)
	return fi, err
}

func (r *RecBackend) List(ctx context.Context, t backend.FileType, fn func(backend.FileInfo) error) error {
	h := backend.Handle{Type: t}
	if err := r.gate("list", h, false); err != nil {
		r.rec("list", h, 0, err, nil)
		return err
	}
	err := r.Backend.List(ctx, t, fn)
	r.rec("list", h, 0, err, nil)
	return err
}

func (r *RecBackend) Delete(ctx context.Context) error {
	if err := r.gate("delete", backend.Handle{}, true); err != nil {
		return err
	}
	err := r.Backend.Delete(ctx)
	r.rec("delete", backend.Handle{}, 0, err, nil)
	return err
}

func (r *RecBackend) Unwrap() backend.Backend { return r.Backend }

// Reset clears the recording and the crash state (the wrapped backend keeps its content).
func (r *RecBackend) Reset() {
	r.mu.Lock()
	defer r.mu.Unlock()
	r.Events = nil
	r.mutations = 0
	r.Crashed = false
	r.CrashAfter = -1
	r.FailOp = nil
}

// --- backend states -----------------------------------------------------------------------

// BeState is the full content of a backend: "type/name" -> bytes.
type BeState map[string][]byte

var allFileTypes = []backend.FileType{backend.PackFile, backend.KeyFile, backend.LockFile, backend.SnapshotFile, backend.IndexFile, backend.ConfigFile}

func DumpBackend(be backend.Backend) BeState {
	st := BeState{}
	ctx := context.Background()
	for _, t := range allFileTypes {
		var names []string
		if t == backend.ConfigFile {
			if _, err := be.Stat(ctx, backend.Handle{Type: t}); err == nil {
				names = []string{""}
			}
		} else {
			_ = be.List(ctx, t, func(fi backend.FileInfo) error { names = append(names, fi.Name); return nil })
		}
		for _, n := range names {
			h := backend.Handle{Type: t, Name: n}
			var buf []byte
			err := be.Load(ctx, h, 0, 0, func(rd io.Reader) error {
				var e error
				buf, e = io.ReadAll(rd)
				return e
			})
			if err != nil {
				panic(fmt.Sprintf("DumpBackend: load %v: %v", h, err))
			}
			st[t.String()+"/"+n] = buf
		}
	}
	return st
}

func ftByName(s string) backend.FileType {
	for _, t := range allFileTypes {
		if t.String() == s {
			return t
		}
	}
	panic("unknown file type " + s)
}

// LoadBackend creates a fresh in-memory backend with the given content.
func LoadBackend(st BeState) *mem.MemoryBackend {
	be := mem.New()
	var keys []string
	for k := range st {
		keys = append(keys, k)
	}
	sort.Strings(keys)
	for _, k := range keys {
		i := bytes.IndexByte([]byte(k), '/')
		h := backend.Handle{Type: ftByName(k[:i]), Name: k[i+1:]}
		if err := be.Save(context.Background(), h, backend.NewByteReader(st[k], be.Hasher())); err != nil {
			panic(err)
		}
	}
	return be
}

func (s BeState) Equal(o BeState) bool {
	if len(s) != len(o) {
		return false
	}
	for k, v := range s {
		w, ok := o[k]
		if !ok || !bytes.Equal(v, w) {
			return false
		}
	}
	return true
}

// Names returns the sorted "type/name" keys, optionally restricted to one type.
func (s BeState) Names(typ string) []string {
	var l []string
	for k := range s {
		if typ == "" || (len(k) > len(typ) && k[:len(typ)+1] == typ+"/") {
			l = append(l, k)
		}
	}
	sort.Strings(l)
	return l
}

// --- CLI in-process ------------------------------------------------------------------------

// memFactory serves one fixed backend object under the scheme "mem".
func memFactory(be backend.Backend) location.Factory {
	return location.NewLimitedBackendFactory[struct{}, backend.Backend](
		"mem",
		func(_ string) (*struct{}, error) { return &struct{}{}, nil },
		location.NoPassword,
		func(_ context.Context, _ struct{}, _ limiter.Limiter, _ func(string, ...any)) (backend.Backend, error) { return be, nil },
		func(_ context.Context, _ struct{}, _ limiter.Limiter, _ func(string, ...any)) (backend.Backend, error) { return be, nil },
	)
}

// CLI is an in-process restic command line bound to one backend object.
type CLI struct {
	Be       backend.Backend // what "mem:r" resolves to (may be a RecBackend)
	Password string
	Hook     global.BackendWrapper // BackendTestHook (outermost wrapper), optional
	Inner    global.BackendWrapper // BackendInnerTestHook, optional
	Extra    []string              // extra global flags for every invocation
}

func NewCLI(be backend.Backend) *CLI {
	return &CLI{Be: be, Password: "geheim"}
}

// Result of one in-process command.
type CmdResult struct {
	Stdout, Stderr string
	Err            error
	Exit           int
	Panic          string
}

// exitCodeOf mirrors the table in main() (cmd/restic/main.go).
func exitCodeOf(err error) int {
	switch {
	case err == nil:
		return 0
	case err == ErrInvalidSourceData:
		return 3
	case errors.Is(err, ErrFailedToRemoveOneOrMoreSnapshots):
		return 3
	case errors.Is(err, global.ErrNoRepository):
		return 10
	case repository.IsAlreadyLocked(err):
		return 11
	case errors.Is(err, repository.ErrNoKeyFound):
		return 12
	case errors.Is(err, context.Canceled):
		return 130
	default:
		return 1
	}
}

var cliMu sync.Mutex // RESTIC_PASSWORD is process-global

// Run executes `restic -r mem:r --no-cache <args…>` through the real root command (flag
// parsing, PreRun, command code), in-process. Panics are caught and reported.
func (c *CLI) Run(args ...string) CmdResult {
	return c.RunCtx(context.Background(), args...)
}

func (c *CLI) RunCtx(parent context.Context, args ...string) (res CmdResult) {
	cliMu.Lock()
	os.Setenv("RESTIC_PASSWORD", c.Password)
	reg := location.NewRegistry()
	reg.Register(memFactory(c.Be))
	gopts := global.Options{Backends: reg, BackendTestHook: c.Hook, BackendInnerTestHook: c.Inner}
	var stdout, stderr bytes.Buffer
	term, cancelTerm := termstatus.Setup(io.NopCloser(bytes.NewReader(nil)), &stdout, &stderr, false)
	gopts.Term = term
	ctx, cancel := context.WithCancel(parent)
	root := newRootCommand(&gopts)
	full := append([]string{"-r", "mem:r", "--no-cache"}, c.Extra...)
	full = append(full, args...)
	root.SetArgs(full)
	root.SetOut(&stdout)
	root.SetErr(&stderr)
	cliMu.Unlock()
	panicked, msg := Protect(func() {
		err := root.ExecuteContext(ctx)
		switch err {
		case nil:
			err = ctx.Err()
		case ErrOK:
			err = nil
		}
		res.Err = err
	})
	cancel()
	cancelTerm()
	res.Stdout, res.Stderr = stdout.String(), stderr.String()
	if panicked {
		res.Panic = msg
		res.Exit = 2
		res.Err = fmt.Errorf("panic: %s", msg)
		return
	}
	res.Exit = exitCodeOf(res.Err)
	return
}

func (r CmdResult) Fatal() bool { return r.Err != nil && rerrors.IsFatal(r.Err) }

// MustRun panics (harness error) when the command fails.
func (c *CLI) MustRun(args ...string) CmdResult {
	r := c.Run(args...)
	if r.Err != nil {
		panic(fmt.Sprintf("harness: restic %v failed: %v\n%s", args, r.Err, r.Stderr))
	}
	return r
}

// OpenRepo opens the repository behind the CLI directly (no lock), for setup and inspection.
func (c *CLI) OpenRepo() *repository.Repository {
	return OpenRepoOn(c.Be, c.Password)
}

func OpenRepoOn(be backend.Backend, password string) *repository.Repository {
	repo, err := repository.New(be, repository.Options{})
	if err != nil {
		panic(err)
	}
	if err := repo.SearchKey(context.Background(), password, 20, ""); err != nil {
		panic(err)
	}
	return repo
}
