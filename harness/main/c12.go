//go:build verif

package main

// C12: the real lock code (newLock / refresh / unlock / RemoveStaleLocks) run by 2-4 "processes"
// (goroutines, each with its own *Repository) on ONE in-memory backend. Every backend operation on
// a lock file goes through a scheduler-controlled wrapper: it waits until the scheduler grants it, so
// the interleaving of the processes' List/Load/Save/Remove calls is chosen by the generated schedule
// (one operation at a time, all waits bounded by timeouts). The trace of operations and of the
// processes' own markers (acquired / failed / releasing / crashed) is written for the driver.

import (
	"context"
	"fmt"
	"io"
	"os"
	"regexp"
	"runtime"
	"sort"
	"strings"
	"sync"
	"sync/atomic"
	"time"

	"github.com/restic/restic/internal/backend"
	"github.com/restic/restic/internal/backend/mem"
	"github.com/restic/restic/internal/repository"
)

var _ = verifRegister("C12", streamC12)
var _ = verifRegisterFacts(repository.VerifFactsC12)

type c12Req struct {
	op    string
	proc  int
	grant chan struct{}
	done  chan struct{}
}

type c12Ctl struct {
	mu      sync.Mutex
	pending [][]*c12Req // per process, FIFO
	lines   [][]string  // recorded records (key + tokens)
	t0      time.Time
	free    bool // scheduling switched off (setup / teardown): operations pass straight through
	hung    bool
}

func (c *c12Ctl) ms() string { return I64(time.Since(c.t0).Milliseconds()) }

func (c *c12Ctl) rec(toks ...string) {
	c.mu.Lock()
	c.lines = append(c.lines, toks)
	c.mu.Unlock()
}

// c12Backend is the per-process view of the shared backend.
type c12Backend struct {
	backend.Backend
	proc int
	ctl  *c12Ctl
	// loadFails: this process can list and delete lock files but not read them (another user's files in
	// a shared repository, a read error that lasts as long as the command); switched by the process
	loadFails atomic.Bool
	// idemRemove: removing a file that does not exist is not an error (object stores behave like this)
	idemRemove bool
	// slowSave: this process's lock uploads are slow - the scheduler lets everybody else go first
	slowSave bool
}

var errC12Unreadable = fmt.Errorf("verif: permission denied (lock file of another user)")

func (b *c12Backend) Properties() backend.Properties {
	p := b.Backend.Properties()
	p.Connections = 1 // one worker in ParallelList: a process's loads are issued one after the other
	return p
}

var errC12Timeout = fmt.Errorf("verif: scheduler did not grant the operation in time")

// sched blocks until the scheduler grants the operation, runs it, records it.
func (b *c12Backend) sched(op, name string, f func() (string, error)) error {
	c := b.ctl
	c.mu.Lock()
	if c.free {
		c.mu.Unlock()
		_, err := f()
		return err
	}
	req := &c12Req{op: op, proc: b.proc, grant: make(chan struct{}), done: make(chan struct{})}
	c.pending[b.proc] = append(c.pending[b.proc], req)
	c.mu.Unlock()
	select {
	case <-req.grant:
	case <-time.After(90 * time.Second):
		return errC12Timeout
	}
	detail, err := f()
	short := name
	if len(short) > 8 {
		short = short[:8]
	}
	c.rec("ev", c.ms(), Itoa(b.proc), op, short, B(err == nil), detail)
	close(req.done)
	return err
}

func (b *c12Backend) List(ctx context.Context, t backend.FileType, fn func(backend.FileInfo) error) error {
	if t != backend.LockFile {
		return b.Backend.List(ctx, t, fn)
	}
	var entries []backend.FileInfo
	err := b.sched("list", "-", func() (string, error) {
		err := b.Backend.List(ctx, t, func(fi backend.FileInfo) error {
			entries = append(entries, fi)
			return nil
		})
		sort.Slice(entries, func(i, j int) bool { return entries[i].Name < entries[j].Name })
		var names []string
		for _, e := range entries {
			names = append(names, e.Name[:8])
		}
		if len(names) == 0 {
			return "-", err
		}
		return strings.Join(names, ","), err
	})
	if err != nil {
		return err
	}
	for _, fi := range entries {
		if ctx.Err() != nil {
			return ctx.Err()
		}
		if err := fn(fi); err != nil {
			return err
		}
	}
	return ctx.Err()
}

func (b *c12Backend) Load(ctx context.Context, h backend.Handle, length int, offset int64, fn func(rd io.Reader) error) error {
	if h.Type != backend.LockFile {
		return b.Backend.Load(ctx, h, length, offset, fn)
	}
	return b.sched("load", h.Name, func() (string, error) {
		if b.loadFails.Load() {
			return "unreadable", errC12Unreadable
		}
		return "-", b.Backend.Load(ctx, h, length, offset, fn)
	})
}

func (b *c12Backend) Save(ctx context.Context, h backend.Handle, rd backend.RewindReader) error {
	if h.Type != backend.LockFile {
		return b.Backend.Save(ctx, h, rd)
	}
	return b.sched("save", h.Name, func() (string, error) { return "-", b.Backend.Save(ctx, h, rd) })
}

func (b *c12Backend) Remove(ctx context.Context, h backend.Handle) error {
	if h.Type != backend.LockFile {
		return b.Backend.Remove(ctx, h)
	}
	return b.sched("remove", h.Name, func() (string, error) {
		err := b.Backend.Remove(ctx, h)
		if err != nil && b.idemRemove && b.Backend.IsNotExist(err) {
			return "idempotent", nil
		}
		return "-", err
	})
}

func (b *c12Backend) Stat(ctx context.Context, h backend.Handle) (backend.FileInfo, error) {
	if h.Type != backend.LockFile {
		return b.Backend.Stat(ctx, h)
	}
	var fi backend.FileInfo
	err := b.sched("stat", h.Name, func() (string, error) {
		var e error
		fi, e = b.Backend.Stat(ctx, h)
		return "-", e
	})
	return fi, err
}

var c12Header = regexp.MustCompile(`^goroutine \d+ \[([^\],]+)`)

// c12AllBlocked: no goroutine other than the caller is running or runnable.
func c12AllBlocked(buf []byte) bool {
	n := runtime.Stack(buf, true)
	for _, g := range strings.Split(string(buf[:n]), "\n\n") {
		if strings.Contains(g, "main.c12AllBlocked") {
			continue
		}
		m := c12Header.FindStringSubmatch(g)
		if m == nil {
			continue
		}
		if m[1] == "running" || m[1] == "runnable" {
			return false
		}
	}
	return true
}

func c12Settle(buf []byte, d time.Duration) bool {
	deadline := time.Now().Add(d)
	for {
		if c12AllBlocked(buf) {
			runtime.Gosched()
			if c12AllBlocked(buf) {
				return true
			}
		}
		if time.Now().After(deadline) {
			return false
		}
		time.Sleep(50 * time.Microsecond)
	}
}

// one scripted process
type c12Proc struct {
	id        int
	kind      string // locker | remover | remlocker | expired
	unreadable bool       // remover/remlocker: cannot read lock files while it runs RemoveStaleLocks
	view      *c12Backend // this process's view of the backend
	excl      bool
	age       time.Duration          // expired: age of the lock file
	aged      *repository.VerifC12Lock // expired: the handle of the aged lock
	refreshes int
	end       string // unlock | crash
	done      chan struct{}
}

// c12RunProc is the body of one process goroutine.
func c12RunProc(ctl *c12Ctl, p *c12Proc, repo *repository.Repository) {
	defer close(p.done)
	ctx, cancel := context.WithTimeout(context.Background(), 60*time.Second)
	defer cancel()
	mk := func(what string, more ...string) {
		ctl.rec(append([]string{"mk", ctl.ms(), Itoa(p.id), what}, more...)...)
	}
	if p.kind == "remover" || p.kind == "remlocker" {
		mk("remover-start", B(p.unreadable))
		if p.unreadable {
			p.view.loadFails.Store(true)
		}
		n, err := repository.RemoveStaleLocks(ctx, repo)
		p.view.loadFails.Store(false)
		mk("remover-done", Itoa(int(n)), B(err == nil))
		if p.kind == "remover" {
			return
		}
	}
	var lock *repository.VerifC12Lock
	if p.kind == "expired" {
		// the forced refresh of tryRefreshStaleLock (the backend would be frozen meanwhile)
		lock = p.aged
		mk("sr-start")
		if err := lock.RefreshStale(ctx); err != nil {
			mk("sr-fail", B(repository.VerifC12IsRemovedLock(err)), HexS(err.Error()))
			// the context is cancelled, refreshLocks exits and unlocks
			mk("lost")
			uerr := lock.Unlock(ctx)
			mk("unlocked-after-loss", B(uerr == nil))
			return
		}
		mk("sr-ok", lock.ID()[:8])
	} else {
		mk("start")
		var err error
		lock, err = repository.VerifC12NewLock(ctx, repo, p.excl)
		if err != nil {
			if repository.IsAlreadyLocked(err) {
				mk("fail-locked")
			} else {
				mk("fail-err", HexS(err.Error()))
			}
			return
		}
		mk("acq", lock.ID()[:8])
	}
	for i := 0; i < p.refreshes; i++ {
		if err := lock.Refresh(ctx); err != nil {
			mk("refresh-err", HexS(err.Error()))
		} else {
			mk("refreshed", lock.ID()[:8])
		}
	}
	if p.end == "crash" {
		mk("crash")
		return
	}
	mk("rel")
	err := lock.Unlock(ctx)
	mk("unlocked", B(err == nil))
}

func streamC12(h *H) {
	buf := make([]byte, 4<<20)
	host, _ := os.Hostname()
	ncases := h.N(600, 24000)
	for ci := 0; ci < ncases; ci++ {
		base := mem.New()
		repository.TestRepositoryWithBackend(TB, base, 0, repository.Options{})
		nproc := 2 + h.Intn(3)
		ctl := &c12Ctl{pending: make([][]*c12Req, nproc), free: true, t0: time.Now()}
		// the mix decides how contended the case is
		exclBias := []int{15, 40, 70}[h.Intn(3)]
		procs := make([]*c12Proc, nproc)
		repos := make([]*repository.Repository, nproc)
		haveRemover := false
		// one case in four is about the forced refresh of an expired lock racing with `unlock` + a new lock
		expiredCase := h.Intn(4) == 0
		for i := range procs {
			p := &c12Proc{id: i, kind: "locker", done: make(chan struct{})}
			if expiredCase && i == 0 {
				p.kind = "expired"
				// 31..40 min: stale for everybody; 23..29 min: expired for its holder only
				if h.Intn(4) == 0 {
					p.age = time.Duration(23+h.Intn(7)) * time.Minute
				} else {
					p.age = time.Duration(31+h.Intn(10)) * time.Minute
				}
			} else if expiredCase && i == 1 {
				p.kind = "remlocker"
				haveRemover = true
			} else if i >= 1 && !haveRemover && h.Intn(5) == 0 {
				p.kind = "remover"
				haveRemover = true
			}
			p.excl = h.Intn(100) < exclBias
			p.refreshes = []int{0, 0, 1, 1, 2}[h.Intn(5)]
			p.end = "unlock"
			if h.Intn(6) == 0 {
				p.end = "crash"
			}
			if p.kind == "expired" {
				p.excl = p.excl && h.Intn(2) == 0
			}
			if p.kind == "remover" || p.kind == "remlocker" {
				p.unreadable = h.Intn(2) == 0
			}
			procs[i] = p
			p.view = &c12Backend{Backend: base, proc: i, ctl: ctl}
			if p.kind == "expired" {
				p.view.idemRemove = h.Intn(2) == 0
				p.view.slowSave = h.Intn(2) == 0
			} else {
				p.view.idemRemove = h.Intn(4) == 0
			}
			repos[i] = repository.TestOpenBackend(TB, p.view)
			if p.kind == "expired" {
				l, err := repository.VerifC12AgedLock(repos[i], p.age, p.excl)
				if err != nil {
					panic(err)
				}
				p.aged = l
			}
		}
		// with a remover that cannot read lock files the other lockers keep their locks a little longer
		for _, p := range procs {
			if p.unreadable {
				for _, q := range procs {
					if q.kind == "locker" && h.Intn(2) == 0 {
						q.refreshes = 2
					}
				}
			}
		}
		h.Case("sched")
		h.Rec("nproc", Itoa(nproc))
		for _, p := range procs {
			if p.kind == "expired" {
				h.Rec("proc", Itoa(p.id), p.kind, B(p.excl), Itoa(p.refreshes), p.end, I64(p.age.Milliseconds()), p.aged.ID()[:8], B(p.view.idemRemove), B(p.view.slowSave))
			} else {
				h.Rec("proc", Itoa(p.id), p.kind, B(p.excl), Itoa(p.refreshes), p.end)
			}
		}
		// lock files left behind by processes that are gone (written directly, before scheduling starts)
		nghost := []int{0, 0, 0, 1, 1, 2}[h.Intn(6)]
		for g := 0; g < nghost; g++ {
			kind := h.Pick([]string{"old", "deadpid", "otherhost"})
			excl := h.Intn(100) < exclBias
			tm, pid, hn := time.Now().Add(-time.Minute), os.Getpid(), host
			switch kind {
			case "old":
				tm = time.Now().Add(-time.Hour)
			case "deadpid":
				pid = 4000000 + g // above kernel.pid_max: cannot exist
			case "otherhost":
				hn = "verif-other-host"
			}
			id, err := repository.VerifC12FakeLock(repos[0], tm, pid, hn, excl)
			if err != nil {
				panic(err)
			}
			// age in ms (positive = in the past)
			h.Rec("ghost", id.String()[:8], kind, B(excl), I64(time.Since(tm).Milliseconds()))
		}
		ctl.mu.Lock()
		ctl.free = false
		ctl.t0 = time.Now()
		ctl.mu.Unlock()
		for i, p := range procs {
			go c12RunProc(ctl, p, repos[i])
		}
		// the scheduler
		status := "ok"
		for step := 0; step < 2000; step++ {
			c12Settle(buf, 2*time.Second)
			ctl.mu.Lock()
			var ready, fast []int
			for i, q := range ctl.pending {
				if len(q) > 0 {
					ready = append(ready, i)
					if !(procs[i].view.slowSave && q[0].op == "save") {
						fast = append(fast, i)
					}
				}
			}
			ctl.mu.Unlock()
			// a slow upload completes only when nobody else wants to do anything
			if len(fast) > 0 {
				ready = fast
			}
			if len(ready) == 0 {
				alldone := true
				for _, p := range procs {
					select {
					case <-p.done:
					default:
						alldone = false
					}
				}
				if alldone {
					break
				}
				// a process is between operations (timer, goroutine start): wait a little
				deadline := time.Now().Add(30 * time.Second)
				for time.Now().Before(deadline) {
					time.Sleep(200 * time.Microsecond)
					ctl.mu.Lock()
					n := 0
					for _, q := range ctl.pending {
						n += len(q)
					}
					ctl.mu.Unlock()
					if n > 0 {
						break
					}
					stillRunning := false
					for _, p := range procs {
						select {
						case <-p.done:
						default:
							stillRunning = true
						}
					}
					if !stillRunning {
						break
					}
				}
				if !time.Now().Before(deadline) {
					// nobody asks for an operation and not everybody is done: if some goroutine is still
					// runnable the machine is starved (the case is discarded), otherwise something blocks
					if c12AllBlocked(buf) {
						status = "hang"
					} else {
						status = "starved"
					}
					break
				}
				continue
			}
			i := ready[h.Intn(len(ready))]
			ctl.mu.Lock()
			req := ctl.pending[i][0]
			ctl.pending[i] = ctl.pending[i][1:]
			ctl.mu.Unlock()
			close(req.grant)
			select {
			case <-req.done:
			case <-time.After(30 * time.Second):
				status = "op-hang"
				if !c12AllBlocked(buf) {
					status = "starved"
				}
			}
			if status != "ok" {
				break
			}
		}
		// teardown: let everything still pending through
		ctl.mu.Lock()
		ctl.free = true
		for i, q := range ctl.pending {
			for _, r := range q {
				close(r.grant)
			}
			ctl.pending[i] = nil
		}
		ctl.mu.Unlock()
		for _, p := range procs {
			select {
			case <-p.done:
			case <-time.After(60 * time.Second):
				if status == "ok" {
					status = "proc-hang"
					if !c12AllBlocked(buf) {
						status = "starved"
					}
				}
			}
		}
		ctl.mu.Lock()
		for _, l := range ctl.lines {
			h.Rec(l[0], l[1:]...)
		}
		ctl.mu.Unlock()
		h.Rec("status", status)
		h.End()
	}
}
