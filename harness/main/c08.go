//go:build verif

package main

import (
	"bytes"
	"context"
	"encoding/json"
	"errors"
	"sort"

	"github.com/restic/restic/internal/repository"
	"github.com/restic/restic/internal/repository/index"
	"github.com/restic/restic/internal/repository/pack"
	"github.com/restic/restic/internal/restic"
)

var _ = verifRegister("C08", streamC08)

// mirror of the JSON document of an index file
type c08Blob struct {
	ID                 restic.ID       `json:"id"`
	Type               restic.BlobType `json:"type"`
	Offset             uint            `json:"offset"`
	Length             uint            `json:"length"`
	UncompressedLength uint            `json:"uncompressed_length,omitempty"`
}
type c08Pack struct {
	ID    restic.ID `json:"id"`
	Blobs []c08Blob `json:"blobs"`
}
type c08Index struct {
	Packs []c08Pack `json:"packs"`
}

func c08PBTok(packID restic.ID, b pack.Blob) string { return c56IDTok(packID) + ":" + c48BlobTok(b) }

func c08PBToks(l []*pack.PackedBlob) []string {
	r := make([]string, len(l))
	for i, pb := range l {
		r[i] = c08PBTok(pb.Pack, pb.Blob)
	}
	sort.Strings(r)
	return r
}

func (b c08Blob) blob() pack.Blob {
	return pack.Blob{BlobHandle: restic.BlobHandle{ID: b.ID, Type: b.Type}, Offset: b.Offset, Length: b.Length, UncompressedLength: b.UncompressedLength}
}

func c08PackRec(h *H, key string, prefix []string, p c08Pack) {
	toks := append(append([]string{}, prefix...), c56IDTok(p.ID))
	for _, b := range p.Blobs {
		toks = append(toks, c48BlobTok(b.blob()))
	}
	h.Rec(key, toks...)
}

type c08Gen struct {
	h       *H
	handles []restic.BlobHandle
	absent  []restic.BlobHandle
	packs   []restic.ID
	prev    []c08Pack
	wide    bool                // use values up to the 32-bit limits
	pending []restic.BlobHandle // blobs announced by uploads that were aborted
}

func (g *c08Gen) u32() uint {
	h := g.h
	if !g.wide {
		return uint(h.Intn(4)) * 50
	}
	switch h.Intn(6) {
	case 0:
		return 0xffffffff
	case 1:
		return 0xfffffffe
	case 2:
		return uint(h.Rng.Uint32())
	default:
		return uint(h.Intn(4)) * 50
	}
}

func newC08Gen(h *H) *c08Gen {
	g := &c08Gen{h: h, wide: h.Intn(3) == 0}
	nh := 2 + h.Intn(10)
	for i := 0; i < nh; i++ {
		t := restic.DataBlob
		if h.Intn(3) == 0 {
			t = restic.TreeBlob
		}
		g.handles = append(g.handles, restic.BlobHandle{ID: c56ID([]byte{byte(h.Intn(5)), byte(h.Intn(3))}), Type: t})
	}
	for i := 0; i < 3; i++ {
		t := restic.DataBlob
		if h.Bool() {
			t = restic.TreeBlob
		}
		g.absent = append(g.absent, restic.BlobHandle{ID: c56ID([]byte{0x66, byte(h.Intn(4))}), Type: t})
	}
	np := 2 + h.Intn(8)
	for i := 0; i < np; i++ {
		g.packs = append(g.packs, c56ID(append([]byte{0xaa}, h.Bytes(2)...)))
	}
	return g
}

func (g *c08Gen) blob() c08Blob {
	h := g.h
	bh := g.handles[h.Intn(len(g.handles))]
	length := g.u32()
	if !g.wide {
		length = uint(33 + h.Intn(3))
		if h.Intn(12) == 0 {
			length = uint(h.Intn(33)) // shorter than the crypto overhead
		}
	}
	ul := uint(0)
	if h.Bool() {
		ul = g.u32()
	}
	return c08Blob{ID: bh.ID, Type: bh.Type, Offset: g.u32(), Length: length, UncompressedLength: ul}
}

// file generates the content of one index file: 0..4 packs with 0..6 blobs; packs and whole
// entries are sometimes repeated from earlier files (same blob in several packs, exact duplicates).
func (g *c08Gen) file() c08Index {
	h := g.h
	var f c08Index
	np := h.Intn(5)
	for i := 0; i < np; i++ {
		if len(g.prev) > 0 && h.Intn(5) == 0 {
			f.Packs = append(f.Packs, g.prev[h.Intn(len(g.prev))]) // a pack already described elsewhere
			continue
		}
		p := c08Pack{ID: g.packs[h.Intn(len(g.packs))], Blobs: []c08Blob{}}
		nb := h.Intn(7)
		for j := 0; j < nb; j++ {
			if len(p.Blobs) > 0 && h.Intn(8) == 0 {
				p.Blobs = append(p.Blobs, p.Blobs[h.Intn(len(p.Blobs))]) // exact duplicate inside the pack
			} else {
				p.Blobs = append(p.Blobs, g.blob())
			}
		}
		f.Packs = append(f.Packs, p)
		g.prev = append(g.prev, p)
	}
	return f
}

func streamC08(h *H) {
	n := h.N(150, 2400)
	for i := 0; i < n; i++ {
		switch {
		case i%5 == 3:
			c08Codec(h)
		case i%10 == 9:
			c08Malformed(h)
		default:
			c08History(h)
		}
	}
}

func c08Query(h *H, g *c08Gen, repo *repository.Repository, prefix string) {
	var qs []restic.BlobHandle
	for i := 0; i < 4; i++ {
		qs = append(qs, g.handles[h.Intn(len(g.handles))])
	}
	qs = append(qs, g.absent[h.Intn(len(g.absent))])
	for i := 0; i < 2 && len(g.pending) > 0; i++ {
		qs = append(qs, g.pending[h.Intn(len(g.pending))])
	}
	for _, bh := range qs {
		var pbs []*pack.PackedBlob
		for _, pb := range repo.LookupBlob(bh) {
			pbs = append(pbs, pb.(*pack.PackedBlob))
		}
		h.Rec(prefix+"lookup", append([]string{c48HandleTok(bh)}, c08PBToks(pbs)...)...)
		sz, ok := repo.LookupBlobSize(bh)
		st := "-"
		if ok {
			st = U64(uint64(sz))
		}
		h.Rec(prefix+"size", c48HandleTok(bh), st)
	}
	var all []*pack.PackedBlob
	_ = repo.ListBlobs(context.Background(), func(pb restic.PackBlob) { all = append(all, pb.(*pack.PackedBlob)) })
	h.Rec(prefix+"list", c08PBToks(all)...)
}

func c08History(h *H) {
	ctx := context.Background()
	g := newC08Gen(h)
	repo, unpacked, be := repository.TestRepositoryWithVersion(TB, 0)
	h.Case("hist")
	if g.wide {
		h.Rec("profile", "wide-values")
	} else {
		h.Rec("profile", "small-values")
	}
	var files []restic.ID
	bad := map[restic.ID]bool{}
	content := map[restic.ID]c08Index{}
	save := func(f c08Index) restic.ID {
		buf, err := json.Marshal(f)
		if err != nil {
			panic(err)
		}
		id, err := unpacked.SaveUnpacked(ctx, restic.IndexFile, buf)
		if err != nil {
			panic(err)
		}
		for _, x := range files {
			if x == id {
				return id // identical content saved twice: same file
			}
		}
		files = append(files, id)
		h.Rec("file", c56IDTok(id))
		for _, p := range f.Packs {
			c08PackRec(h, "fpack", []string{c56IDTok(id)}, p)
		}
		return id
	}
	remove := func(i int) {
		id := files[i]
		if err := be.Remove(ctx, backendHandle(restic.IndexFile, id)); err != nil {
			panic(err)
		}
		files = append(files[:i], files[i+1:]...)
		delete(bad, id)
		h.Rec("del", c56IDTok(id))
	}
	allowBad := h.Intn(6) == 0
	if h.Intn(8) == 0 {
		// a load that fails half way (one undecodable file among many), then files are removed
		// before the next load: nothing of the aborted load may survive
		h.Rec("profile", "aborted-load")
		allowBad = true
		nf := 6 + h.Intn(30)
		for i := 0; i < nf; i++ {
			f := g.file()
			content[save(f)] = f
		}
		garbage := append([]byte("not json"), h.Bytes(3)...)
		id, err := unpacked.SaveUnpacked(ctx, restic.IndexFile, garbage)
		if err != nil {
			panic(err)
		}
		files = append(files, id)
		bad[id] = true
		h.Rec("bad", c56IDTok(id))
		if err := repo.LoadIndex(ctx, restic.NoopTerminalCounterFactory); err != nil {
			h.Rec("load", "err")
		} else {
			h.Rec("load", "ok")
		}
		// remove the undecodable file and some of the others
		for i := len(files) - 1; i >= 0; i-- {
			if bad[files[i]] || h.Intn(3) == 0 {
				remove(i)
			}
		}
	}
	nops := 2 + h.Intn(24)
	if h.Thorough() {
		nops = 2 + h.Intn(80)
	}
	for op := 0; op < nops; op++ {
		r := h.Intn(20)
		switch {
		case r < 7:
			f := g.file()
			content[save(f)] = f
		case r < 9 && len(files) > 0: // supersede 1..3 files by one holding (most of) their packs
			k := 1 + h.Intn(3)
			var f c08Index
			var olds []int
			for i := 0; i < k && len(files) > 0; i++ {
				j := h.Intn(len(files))
				if bad[files[j]] {
					continue
				}
				olds = append(olds, j)
				for _, p := range content[files[j]].Packs {
					if h.Intn(6) != 0 {
						f.Packs = append(f.Packs, p)
					}
				}
			}
			content[save(f)] = f
			sort.Sort(sort.Reverse(sort.IntSlice(olds)))
			last := -1
			for _, j := range olds {
				if j != last && j < len(files)-1 { // never the file just written
					remove(j)
				}
				last = j
			}
		case r < 11 && len(files) > 0:
			remove(h.Intn(len(files)))
		case (r == 12 || r == 13) && len(g.pending) == 0:
			// an upload session announces 1..3 blobs (AddPending via SaveBlob) and is aborted before
			// a pack is stored: the blobs are in no index file, a reload must forget them like a
			// fresh load does. (A Repository object accepts no second uploader after an aborted one.)
			errAbort := errors.New("upload aborted")
			var bufs [][]byte
			var bhs []restic.BlobHandle
			for i := 1 + h.Intn(3); i > 0; i-- {
				bufs = append(bufs, append([]byte("aborted upload "), h.Bytes(8+h.Intn(24))...))
			}
			err := repo.WithBlobUploader(ctx, func(ctx context.Context, uploader restic.BlobSaverWithAsync) error {
				for _, buf := range bufs {
					t := restic.DataBlob
					if len(buf)%3 == 0 {
						t = restic.TreeBlob
					}
					id, _, _, err := uploader.SaveBlob(ctx, t, buf, restic.ID{}, false)
					if err != nil {
						return err
					}
					bhs = append(bhs, restic.BlobHandle{ID: id, Type: t})
				}
				return errAbort
			})
			if !errors.Is(err, errAbort) {
				panic(err)
			}
			for i, bh := range bhs {
				g.pending = append(g.pending, bh)
				h.Rec("pending", c48HandleTok(bh), Itoa(len(bufs[i])))
			}
		case r == 11 && allowBad:
			garbage := [][]byte{[]byte(`{"packs": 5}`), []byte(`not json`), []byte(`{"packs":[{"id":"zz","blobs":[]}]}`)}[h.Intn(3)]
			garbage = append(garbage, h.Bytes(2)...)
			id, err := unpacked.SaveUnpacked(ctx, restic.IndexFile, garbage)
			if err != nil {
				panic(err)
			}
			files = append(files, id)
			bad[id] = true
			h.Rec("bad", c56IDTok(id))
		default:
			var err error
			if pn, msg := Protect(func() { err = repo.LoadIndex(ctx, restic.NoopTerminalCounterFactory) }); pn {
				h.Rec("panic", HexS(msg))
				h.End()
				return
			}
			if err != nil {
				h.Rec("load", "err")
				continue
			}
			h.Rec("load", "ok")
			c08Query(h, g, repo, "")
			// a fresh repository object loaded from the same backend
			fresh := repository.TestOpenBackend(TB, be)
			if err := fresh.LoadIndex(ctx, restic.NoopTerminalCounterFactory); err != nil {
				h.Rec("fresh", "err")
				continue
			}
			h.Rec("fresh", "ok")
			c08Query(h, g, fresh, "f")
		}
	}
	h.End()
}

// c08Codec: build an index with StorePack, Encode it, decode the bytes again.
func c08Codec(h *H) {
	g := newC08Gen(h)
	h.Case("codec")
	idx := index.NewIndex()
	np := h.Intn(6)
	for i := 0; i < np; i++ {
		p := c08Pack{ID: g.packs[h.Intn(len(g.packs))]}
		nb := h.Intn(7)
		var blobs pack.Blobs
		for j := 0; j < nb; j++ {
			b := g.blob()
			if len(p.Blobs) > 0 && h.Intn(8) == 0 {
				b = p.Blobs[h.Intn(len(p.Blobs))]
			}
			p.Blobs = append(p.Blobs, b)
			blobs = append(blobs, b.blob())
		}
		idx.StorePack(p.ID, blobs)
		c08PackRec(h, "store", nil, p)
	}
	var orig []*pack.PackedBlob
	for pb := range idx.Values() {
		orig = append(orig, pb)
	}
	h.Rec("orig", c08PBToks(orig)...)
	buf := bytes.NewBuffer(nil)
	var err error
	if pn, msg := Protect(func() { err = idx.Encode(buf) }); pn {
		h.Rec("panic", HexS(msg))
		h.End()
		return
	}
	if err != nil {
		h.Rec("encode", "err")
		h.End()
		return
	}
	var doc c08Index
	if err := json.Unmarshal(buf.Bytes(), &doc); err != nil {
		h.Rec("encode", "unparsable")
		h.End()
		return
	}
	h.Rec("encode", "ok")
	for _, p := range doc.Packs {
		c08PackRec(h, "epack", nil, p)
	}
	var dec *index.Index
	if pn, msg := Protect(func() { dec, err = index.DecodeIndex(buf.Bytes(), restic.Hash(buf.Bytes())) }); pn {
		h.Rec("panic", HexS(msg))
		h.End()
		return
	}
	if err != nil {
		h.Rec("decode", "err")
		h.End()
		return
	}
	var got []*pack.PackedBlob
	for pb := range dec.Values() {
		got = append(got, pb)
	}
	h.Rec("decode", "ok")
	h.Rec("decoded", c08PBToks(got)...)
	h.End()
}

// c08Malformed: DecodeIndex on documents with values beyond the 32-bit limits or the wrong shape.
func c08Malformed(h *H) {
	g := newC08Gen(h)
	h.Case("malformed")
	f := g.file()
	var buf []byte
	kind := h.Intn(5)
	switch kind {
	case 0, 1: // a value beyond uint32
		if len(f.Packs) == 0 {
			f.Packs = append(f.Packs, c08Pack{ID: g.packs[0]})
		}
		p := &f.Packs[h.Intn(len(f.Packs))]
		b := g.blob()
		big := uint(1<<32) + uint(h.Intn(3))
		if h.Bool() {
			big = ^uint(0) - uint(h.Intn(2))
		}
		switch h.Intn(3) {
		case 0:
			b.Offset = big
		case 1:
			b.Length = big
		default:
			b.UncompressedLength = big
		}
		p.Blobs = append(p.Blobs, b)
		// the entry must not be overwritten through shared backing arrays of g.prev
		buf, _ = json.Marshal(f)
	case 2:
		buf = []byte(`{"packs":[{"id":"00","blobs":[]}]}`)
	case 3:
		buf = []byte(`{"packs":[{"id":"` + restic.Hash([]byte("x")).String() + `","blobs":[{"id":"` + restic.Hash([]byte("y")).String() + `","type":"bogus","offset":1,"length":2}]}]}`)
	default:
		buf, _ = json.Marshal(f)
		if len(buf) > 2 {
			buf = buf[:len(buf)-1-h.Intn(len(buf)/2)]
		}
	}
	var doc c08Index
	if err := json.Unmarshal(buf, &doc); err != nil {
		h.Rec("doc", "undecodable")
	} else {
		h.Rec("doc", "decodable")
		for _, p := range doc.Packs {
			c08PackRec(h, "fpack", []string{"-"}, p)
		}
	}
	var err error
	var dec *index.Index
	if pn, _ := Protect(func() { dec, err = index.DecodeIndex(buf, restic.Hash(buf)) }); pn {
		h.Rec("decode", "panic")
	} else if err != nil {
		h.Rec("decode", "err")
	} else {
		var got []*pack.PackedBlob
		for pb := range dec.Values() {
			got = append(got, pb)
		}
		h.Rec("decode", "ok")
		h.Rec("decoded", c08PBToks(got)...)
	}
	h.End()
}
