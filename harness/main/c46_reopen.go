//go:build verif && (darwin || freebsd || linux)

package main

import (
	"context"
	"crypto/sha256"
	"encoding/hex"
	"math/rand"
	"sync"

	"github.com/restic/restic/internal/data"
	"github.com/restic/restic/internal/fuse"
	"github.com/restic/restic/internal/repository"
	"github.com/restic/restic/internal/restic"
)

// Two more substreams of C46 (called from streamC46):
//
// reopen — the same `file` node is opened several times; some Opens return early (context
// already cancelled, context cancelled during the n-th LookupBlobSize through a wrapping
// repository, a content id that is not in the index yet) and two first Opens may race. Every
// handle that is returned is read: whole file and ranges around every blob boundary.
//   blob … / nodesize …           as in the other substreams (all blobs load)
//   att <n> pre    <cancelAt=0>  ok <size> | err <msg>
//   att <n> mid    <cancelAt>    …           ctx is cancelled inside lookup number cancelAt-1
//   att <n> missing <k>          …           content entry k is not in the index at this time
//   att <n> plain  -             …
//   att <n> race   -             …           (two of these run concurrently)
//   rd <n> <off> <size> ok <hex> | err | panic      reads through the handle of attempt n
//
// pressure — many concurrent readers on one handle, blobs of some hundred KiB, a cache that
// holds about three of them, so blobs are evicted while other readers still copy them. The
// data is too large for the line protocol: the harness sends lengths and SHA-256 digests of the
// returned bytes and of the expected range (oracle: slicing the content it stored + sha256).
//   bsz <len> …                    blob lengths in order
//   rdh <g> <off> <size> ok <len> <sha256 got> <sha256 want> | err <msg> | panic

// c46CancelRepo cancels a context during the n-th LookupBlobSize.
type c46CancelRepo struct {
	restic.Repository
	mu        sync.Mutex
	remaining int
	cancel    context.CancelFunc
}

func (r *c46CancelRepo) LookupBlobSize(bh restic.BlobHandle) (uint, bool) {
	r.mu.Lock()
	if r.cancel != nil {
		if r.remaining == 0 {
			r.cancel()
			r.cancel = nil
		}
		r.remaining--
	}
	r.mu.Unlock()
	return r.Repository.LookupBlobSize(bh)
}

func c46Reopen(h *H, repo *repository.Repository) {
	ctx := context.Background()
	l := c46GenLayout(h)
	for len(l.blobs) < 2 {
		l = c46GenLayout(h)
	}
	n := len(l.blobs)
	// a late blob: unique content that is stored only after the first attempts
	late := -1
	if h.Intn(3) == 0 {
		late = h.Intn(n)
		l.blobs[late] = append([]byte("c46-late-"), h.Bytes(12)...)
		for i := range l.blobs { // no accidental second copy of it
			if i != late && string(l.blobs[i]) == string(l.blobs[late]) {
				l.blobs[i] = h.Bytes(5)
			}
		}
	}
	var toSave [][]byte
	for i, b := range l.blobs {
		if i != late {
			toSave = append(toSave, b)
		}
	}
	saved := c46Save(repo, toSave)
	ids := make([]restic.ID, n)
	j := 0
	for i := range l.blobs {
		if i == late {
			ids[i] = restic.Hash(l.blobs[i])
		} else {
			ids[i] = saved[j]
			j++
		}
	}
	var total int64
	cum := []int64{0}
	for _, b := range l.blobs {
		total += int64(len(b))
		cum = append(cum, total)
	}
	declared := uint64(total)
	if h.Intn(5) == 0 {
		declared = uint64(h.Intn(int(total) + 2))
	}
	node := &data.Node{Name: "f", Type: data.NodeTypeFile, Mode: 0644, Size: declared, Content: ids}
	wrap := &c46CancelRepo{Repository: repo}
	nd, err := fuse.VerifC46NewNode(wrap, 1<<20, node)
	if err != nil {
		panic(err)
	}

	h.Case("reopen")
	for _, b := range l.blobs {
		h.Rec("blob", Itoa(len(b)), Hex(b), "1")
	}
	h.Rec("nodesize", U64(declared))

	attN := 0
	readAll := func(an int, f *fuse.VerifC46File) {
		reads := []c46Read{{0, int(total)}, {0, int(total) + 7}}
		seen := map[int64]bool{}
		for _, c := range cum {
			if seen[c] {
				continue
			}
			seen[c] = true
			for _, d := range []int64{-3, -1, 0, 1} {
				if c+d < 0 {
					continue
				}
				for _, s := range []int{1, 2, 5, 4096} {
					reads = append(reads, c46Read{c + d, s})
				}
			}
		}
		for _, r := range reads {
			h.Rec("rd", append([]string{Itoa(an)}, c46DoRead(f, r)...)...)
		}
	}
	attempt := func(kind string, param string, octx context.Context) *fuse.VerifC46File {
		an := attN
		attN++
		var f *fuse.VerifC46File
		var oerr error
		panicked, _ := Protect(func() { f, oerr = nd.Open(octx) })
		switch {
		case panicked:
			h.Rec("att", Itoa(an), kind, param, "panic")
			return nil
		case oerr != nil:
			h.Rec("att", Itoa(an), kind, param, "err", HexS(oerr.Error()))
			return nil
		}
		h.Rec("att", Itoa(an), kind, param, "ok", U64(f.Size()))
		readAll(an, f)
		return f
	}
	failing := func() {
		switch k := h.Intn(3); {
		case late >= 0:
			attempt("missing", Itoa(late), ctx)
		case k == 0:
			c, cancel := context.WithCancel(ctx)
			cancel()
			attempt("pre", "0", c)
		default:
			// cancel inside lookup number c-1: ctx.Err() is seen at the check of iteration c
			c := 1 + h.Intn(n+1)
			cctx, cancel := context.WithCancel(ctx)
			wrap.mu.Lock()
			wrap.remaining, wrap.cancel = c-1, cancel
			wrap.mu.Unlock()
			attempt("mid", Itoa(c), cctx)
			wrap.mu.Lock()
			wrap.cancel = nil
			wrap.mu.Unlock()
			cancel()
		}
	}
	// failing attempts first (a first plain Open would hide a table left behind by them)
	for i := 1 + h.Intn(3); i > 0; i-- {
		failing()
	}
	if late >= 0 {
		c46Save(repo, [][]byte{l.blobs[late]})
		late = -1
		if h.Bool() {
			failing()
		}
	}
	if h.Intn(4) == 0 {
		// two racing Opens
		var wg sync.WaitGroup
		fs := make([]*fuse.VerifC46File, 2)
		errs := make([]error, 2)
		for g := 0; g < 2; g++ {
			wg.Add(1)
			go func(g int) {
				defer wg.Done()
				defer func() {
					if r := recover(); r != nil {
						errs[g] = context.DeadlineExceeded
					}
				}()
				fs[g], errs[g] = nd.Open(ctx)
			}(g)
		}
		wg.Wait()
		for g := 0; g < 2; g++ {
			an := attN
			attN++
			if errs[g] != nil {
				h.Rec("att", Itoa(an), "race", "-", "err", HexS(errs[g].Error()))
				continue
			}
			h.Rec("att", Itoa(an), "race", "-", "ok", U64(fs[g].Size()))
			readAll(an, fs[g])
		}
	} else {
		attempt("plain", "-", ctx)
	}
	if h.Bool() {
		failing()
		attempt("plain", "-", ctx)
	}
	h.End()
}

func c46Sha(b []byte) string {
	s := sha256.Sum256(b)
	return hex.EncodeToString(s[:8]) // 64 bits are plenty to tell two byte ranges apart
}

func c46Pressure(h *H, sub string, wholeBlobs bool) {
	ctx := context.Background()
	repo, _ := NewRepo(0, repository.Options{Compression: repository.CompressionOff})
	blobSize := 384 << 10
	nBlobs := 10
	readers := 8
	rounds := h.N(220, 400)
	var bufs [][]byte
	var mem []byte
	cum := []int{0}
	for i := 0; i < nBlobs; i++ {
		b := h.Bytes(blobSize - h.Intn(blobSize/8))
		bufs = append(bufs, b)
		mem = append(mem, b...)
		cum = append(cum, len(mem))
	}
	ids := c46Save(repo, bufs)
	node := &data.Node{Name: "f", Type: data.NodeTypeFile, Mode: 0644, Size: uint64(len(mem)), Content: ids}
	cacheSize := 3*blobSize + blobSize/2
	f, err := fuse.VerifC46Open(ctx, repo, cacheSize, node)
	h.Case(sub)
	var sizes []string
	for _, b := range bufs {
		sizes = append(sizes, Itoa(len(b)))
	}
	h.Rec("bsz", sizes...)
	h.Rec("cache", Itoa(cacheSize))
	if err != nil {
		h.Rec("open", "err", HexS(err.Error()))
		h.End()
		return
	}
	h.Rec("open", "ok", U64(f.Size()))
	results := make([][][]string, readers)
	seeds := make([]int64, readers)
	for g := range seeds {
		seeds[g] = h.Rng.Int63()
	}
	var wg sync.WaitGroup
	for g := 0; g < readers; g++ {
		wg.Add(1)
		go func(g int) {
			defer wg.Done()
			rng := rand.New(rand.NewSource(seeds[g]))
			for r := 0; r < rounds; r++ {
				var off, n int
				if wholeBlobs {
					i := rng.Intn(nBlobs)
					off, n = cum[i], len(bufs[i])
				} else {
					off = rng.Intn(len(mem))
					n = 1 + rng.Intn(blobSize+blobSize/2)
				}
				var out []byte
				var rerr error
				panicked, _ := Protect(func() { out, rerr = f.Read(ctx, int64(off), n) })
				rec := []string{Itoa(g), Itoa(off), Itoa(n)}
				switch {
				case panicked:
					rec = append(rec, "panic")
				case rerr != nil:
					rec = append(rec, "err", HexS(rerr.Error()))
				default:
					want := mem[off:min(off+n, len(mem))]
					rec = append(rec, "ok", Itoa(len(out)), c46Sha(out), c46Sha(want))
				}
				results[g] = append(results[g], rec)
			}
		}(g)
	}
	wg.Wait()
	for g := range results {
		for _, r := range results[g] {
			h.Rec("rdh", r...)
		}
	}
	h.End()
}
